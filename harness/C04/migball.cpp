// C04.m: nearest-point migration through the ball tree, the glue after the tree query
// (CalcMigrate::_expandPointToPointBall + st_larger_than_dmax, src/Calculators/CalcMigrate.cpp).
// The exhaustive path (_expandPointToPoint) gives target i the value of its nearest source when that
// source passes the maximum-distance test made on the vector target i -> source.  Here the ball tree is a
// black box (Ball::queryClosest answers an arbitrary source rank N[i] for the coordinates of target i:
// C06.c / C10.g decide the tree itself) and distance_inter is modelled by its definition (difference of
// the coordinates of sample iech1 of db1 and sample iech2 of db2).  Asserted: an active target receives
// V[N[i]] iff the vector between ITS OWN coordinates and those of source N[i] passes the dmax test;
// otherwise, and when masked, it keeps its previous content.
#include "vf.h"
#include "Calculators/CalcMigrate.hpp"
#include "Db/Db.hpp"
#include "Tree/Ball.hpp"
#include "Basic/Utilities.hpp"
#include <new>
#ifndef VF_ND
#define VF_ND 2
#endif
#ifndef VF_NS
#define VF_NS 3 // sources (db1)
#endif
#ifndef VF_NT
#define VF_NT 2 // targets (db2)
#endif
#ifndef VF_DT
#define VF_DT 1 // distance type: 1 (L1) or 2 (L2)
#endif
#define GRID 1024

static double g_X1[VF_NS][VF_ND], g_X2[VF_NT][VF_ND], g_V[VF_NS], g_dmax[VF_ND];
static bool g_sel[VF_NT];
static int g_N[VF_NT];
static int g_iatt, g_unknown, g_nball;
static const Db *g_db1, *g_db2;

// ---- overrides
int Db::getNDim() const { return VF_ND; }
int Db::getSampleNumber(bool useSel) const { (void)useSel; return this == g_db1 ? VF_NS : VF_NT; }
bool Db::isActive(int iech) const { return this == g_db2 ? g_sel[iech] : true; }
void Db::getCoordinatesPerSampleInPlace(int iech, VectorDouble& coor, bool flag_rotate) const
{
  (void)flag_rotate;
  for (int d = 0; d < VF_ND; d++) coor[d] = (this == g_db2) ? g_X2[iech][d] : g_X1[iech][d];
}
double Db::getArray(int iech, int iuid) const
{
  vf_assert_id(this == g_db1 && iuid == g_iatt, "value is read from the source data base, in the migrated attribute");
  return g_V[iech];
}
// definition of distance_inter (src/Core/db.cpp): vector between sample iech1 of db1 and sample iech2 of db2
double distance_inter(const Db* db1, const Db* db2, int iech1, int iech2, double* dist_vect)
{
  for (int d = 0; d < VF_ND; d++)
  {
    double a = (db1 == g_db1) ? g_X1[iech1][d] : g_X2[iech1][d]; // (out-of-range rank: in-bounds obligation of the engine)
    double b = (db2 == g_db1) ? g_X1[iech2][d] : g_X2[iech2][d];
    if (dist_vect != nullptr) dist_vect[d] = a - b;
  }
  return 0.; // the caller discards the value
}
// the ball tree: a black box answering an arbitrary source for the coordinates of a target
Ball::Ball(const Db* db, double (*dist_function)(const double*, const double*, int), int leaf_size, int default_distance_function, bool useSel)
{
  (void)dist_function; (void)leaf_size; (void)default_distance_function; (void)useSel;
  vf_assert_id(db == g_db1, "the tree is built on the source data base");
  g_nball++;
}
Ball::~Ball() {}
int Ball::queryClosest(const VectorDouble& test)
{
  for (int k = 0; k < VF_NT; k++)
  {
    bool eq = true;
    for (int d = 0; d < VF_ND; d++)
      if (test[d] != g_X2[k][d]) eq = false;
    if (eq) return g_N[k];
  }
  g_unknown++;
  return 0;
}

extern "C" char vt_Db[] asm("_ZTV2Db");
alignas(16) static char g_b1[sizeof(Db)], g_b2[sizeof(Db)];

static bool same(int a, int b)
{
  for (int d = 0; d < VF_ND; d++)
    if (g_X2[a][d] != g_X2[b][d]) return false;
  return true;
}
static int near_of(int i) // the tree is a function of the coordinates
{
  for (int k = 0; k < i; k++)
    if (same(k, i)) return g_N[k];
  return g_N[i];
}

extern "C" void k_migrate_ball()
{
  for (int s = 0; s < VF_NS; s++)
  {
    for (int d = 0; d < VF_ND; d++) g_X1[s][d] = vf_grid_double(GRID);
    g_V[s] = vf_grid_double(GRID);
  }
  for (int i = 0; i < VF_NT; i++)
  {
    for (int d = 0; d < VF_ND; d++) g_X2[i][d] = vf_grid_double(GRID);
    g_sel[i] = vf_nondet_bool();
    g_N[i]   = vf_range(0, VF_NS - 1);
  }
  for (int d = 0; d < VF_ND; d++)
  {
    g_dmax[d] = vf_grid_double(GRID);
    vf_assume(g_dmax[d] > 0);
  }
  g_iatt = vf_range(0, 5);
  g_unknown = g_nball = 0;

  Db* db1 = (Db*)g_b1;
  *(void**)g_b1 = (void*)(vt_Db + 16);
  Db* db2 = (Db*)g_b2;
  *(void**)g_b2 = (void*)(vt_Db + 16);
  g_db1 = db1;
  g_db2 = db2;

  VectorDouble tab(VF_NT);
  for (int i = 0; i < VF_NT; i++) tab[i] = -7.;
  VectorDouble dmax(VF_ND);
  for (int d = 0; d < VF_ND; d++) dmax[d] = g_dmax[d];

  int err = CalcMigrate::_expandPointToPointBall(db1, db2, g_iatt, VF_DT, dmax, tab); // REAL

  vf_assert_id(err == 0, "migration reports success");
  vf_assert_id(g_unknown == 0, "the tree is only asked about the coordinates of a target");
  for (int i = 0; i < VF_NT; i++)
  {
    int n = near_of(i);
    bool far = false;
    double rtot = 0.;
    double vn = 0.;
    for (int s = 0; s < VF_NS; s++)
      if (s == n)
      {
        vn = g_V[s];
        for (int d = 0; d < VF_ND; d++)
        {
          double dv = g_X2[i][d] - g_X1[s][d];
          if (dv < 0) dv = -dv;
          if (VF_DT == 1) { if (dv > g_dmax[d]) far = true; }
          else rtot += (dv / g_dmax[d]) * (dv / g_dmax[d]);
        }
      }
    if (VF_DT != 1 && rtot > 1) far = true;
    if (!g_sel[i] || far)
      vf_assert_id(tab[i] == -7., "masked target, or nearest source beyond dmax: the target is left alone");
    else
      vf_assert_id(tab[i] == vn, "target receives the value of the source the tree returned for its own coordinates");
  }
  vf_witness();
}
