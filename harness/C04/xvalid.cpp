// C04.e: cross-validation in a unique neighbourhood read off the inverse of the whole kriging matrix
// (KrigingSystem::_estimateCalculXvalidUnique, src/Estimation/KrigingSystem.cpp) against
//   k_xv_formula : the closed form of doc/references/Kriging_XValid_Unique.md / Dubrule in the simple kriging case:
//                  with B = inverse of the data-to-data covariance matrix (of the active, defined samples, in sample
//                  order) and zc = z - mean:   Z*_i - Z_i = -(B zc)_i / B_ii ,   variance_i = 1 / B_ii ;
//                  B is an arbitrary symmetric matrix with positive diagonal, any mask / undefined pattern;
//   k_xv_loo     : the DEFINITION: explicit leave-one-out simple kriging of sample i from the other samples
//                  (weights solve C_{-i} lambda = c_{-i,i};  Z*_i = mean + lambda.zc_{-i};  var = C_ii - lambda.c_{-i,i})
//                  for an arbitrary symmetric covariance matrix C (n <= 3) whose exact inverse (adjugate / determinant)
//                  is handed to the code as _lhsinv.  Exact (real) arithmetic.
#define VF_KS_OWN_SETARRAY
#include "../C01/ks_common.h"
#include <cmath>

#define N VF_NS // number of samples of the data base (all in the unique neighbourhood)
#ifndef VF_MUT
#  define VF_MUT 0
#endif

static bool undef(double v) { return v > 1.e30; }

static bool   T_active[N];
static double W_val[3];
static int    W_n[3];

int Db::getSampleNumber(bool useSel) const
{
  if (this != DBIN || useSel) T_bad++;
  return N;
}
bool Db::isActive(int iech) const
{
  if (this != DBIN || iech < 0 || iech >= N) { T_bad++; return false; }
  return T_active[iech];
}
bool Db::isIsotopic(int iech, int nvar_max) const
{
  (void)nvar_max;
  if (this != DBIN || iech < 0 || iech >= N) { T_bad++; return false; }
  return !undef(T_z[iech][0]);
}
void Db::setArray(int iech, int iuid, double value)
{
  if (this != DBIN || iech != KS->_iechOut || iuid < 0 || iuid >= 3) { T_bad++; return; }
  W_val[iuid] = value;
  W_n[iuid]++;
}

// equality of two separately computed quotients: exact for the solver, up to rounding for the native build
static bool same(double a, double b)
{
#ifdef VF_NATIVE
  return std::fabs(a - b) <= 1.e-9 * (1. + std::fabs(a) + std::fabs(b));
#else
  return a == b;
#endif
}

// comparison downstream of a square root whose argument is a DIFFERENT expression on the two sides (k_xv_loo): squares are
// compared, within a polynomial bracket of 1e-9 relative in BOTH builds (the concrete validation runs of the engine take
// sqrt from libm as the native build does; symbolically sqrt is exact and the bracket is implied by equality)
static bool same_sq(double a, double b)
{
  double d = a - b;
  return d * d <= 1.e-18 * (1. + a * a + b * b);
}

static void base(bool fe, bool fs, bool fv, bool xe, bool xs)
{
  vf_ks_base();
  KrigingSystem* ks = KS;
  ks->_dbout       = DBIN; // cross-validation: results go to the input data base
  ks->_iptrEst     = 0;
  ks->_iptrStd     = 1;
  ks->_iptrVarZ    = 2;
  ks->_flagEst     = fe;
  ks->_flagStd     = fs;
  ks->_flagVarZ    = fv;
  ks->_xvalidEstim = xe;
  ks->_xvalidStdev = xs;
  for (int i = 0; i < 3; i++) { W_val[i] = 0.; W_n[i] = 0; }
}

// ------------------------------------------------------------------ closed form with an arbitrary inverse
// The mask / undefined pattern and the target are enumerated by concrete loops (3^N patterns x N targets): positions in
// the system are then concrete and each run is a small polynomial identity for the solver.
extern "C" void k_xv_formula()
{
  bool fe = vf_nondet_bool(), fs = vf_nondet_bool(), fv = vf_nondet_bool(), xe = vf_nondet_bool(), xs = vf_nondet_bool();
  double B[N][N], zv[N];
  for (int a = 0; a < N; a++)
    for (int b = 0; b <= a; b++) B[a][b] = B[b][a] = vf_nondet_double();
  for (int a = 0; a < N; a++) vf_assume(B[a][a] > 0.); // diagonal of the inverse of a positive definite matrix
  for (int r = 0; r < N; r++) zv[r] = vf_defined_double();
  double m = vf_nondet_double();
  int npat = 1;
  for (int r = 0; r < N; r++) npat *= 3;

  for (int pat = 0; pat < npat; pat++)
    for (int t = 0; t < N; t++)
    {
      base(fe, fs, fv, xe, xs);
      KrigingSystem* ks = KS;
      int code = pat;
      for (int r = 0; r < N; r++)
      {
        T_active[r] = (code % 3) != 1;                 // 0: in the system, 1: masked, 2: active with an undefined value
        T_z[r][0]   = (code % 3) != 2 ? zv[r] : TEST;
        code /= 3;
      }
      T_mean[0]    = m;
      ks->_iechOut = t;
      new (&ks->_lhsinv) MatrixSquareSymmetric(N);
      for (int a = 0; a < N; a++)
        for (int b = 0; b <= a; b++) ks->_lhsinv.setValue(a, b, B[a][b], false);

      ks->_estimateCalculXvalidUnique(0);

      // position of a sample in the system = number of active, defined samples before it
      bool in[N];
      int  pos[N], cnt = 0;
      for (int r = 0; r < N; r++)
      {
        in[r]  = T_active[r] && !undef(T_z[r][0]);
        pos[r] = cnt;
        if (in[r]) cnt++;
      }
      if (!in[t])
      {
        vf_assert_id(W_n[0] == 0 && W_n[1] == 0 && W_n[2] == 0, "masked or undefined target: nothing is written");
        continue;
      }
      int    k = pos[t];
      double S = 0.; // (B zc)_k
      for (int r = 0; r < N; r++)
#if VF_MUT == 1 // self-test of the check only: positions taken as sample ranks must be refuted
        if (in[r]) S += B[k][r] * (zv[r] - m);
#else
        if (in[r]) S += B[k][pos[r]] * (zv[r] - m);
#endif
      double bkk = B[k][k];
      double err = -S / bkk;    // Z* - Z
      double est = zv[t] + err; // Z*
      vf_assert_id(W_n[0] == (fe ? 1 : 0) && W_n[1] == (fs ? 1 : 0) && W_n[2] == (fv ? 1 : 0), "each requested output is written exactly once");
      if (fe) vf_assert_id(same(W_val[0], xe ? err : est), "estimate: Z*_i - Z_i == -(B zc)_i / B_ii  (Z*_i itself when the error is not requested)");
      if (fs)
      {
        // sqrt of the structurally identical argument 1/B_ii: the engine (sqrt_memo_sym) and libm give the code's own root
        double sig = std::sqrt(1. / bkk);
        if (xs)
          vf_assert_id(same(W_val[1], err / sig), "standardised error == (Z*_i - Z_i) / sqrt(1 / B_ii)");
        else
          vf_assert_id(same(W_val[1], sig), "standard deviation == sqrt(1 / B_ii)");
      }
      if (fv) vf_assert_id(undef(W_val[2]), "variance of the estimator is not available: TEST");
    }
  vf_assert_id(T_bad == 0, "callbacks reached with the expected arguments only");
  vf_witness();
}

#if VF_NS == 2 || VF_NS == 3
// ------------------------------------------------------------------ explicit leave-one-out re-kriging (definition)
extern "C" void k_xv_loo()
{
  double C[N][N], z[N];
  for (int a = 0; a < N; a++)
    for (int b = 0; b <= a; b++) C[a][b] = C[b][a] = vf_nondet_double();
  for (int r = 0; r < N; r++) z[r] = vf_defined_double();
  double m = vf_nondet_double();

  // exact inverse: adjugate / determinant
  double adj[N][N], det;
#if VF_NS == 2
  det       = C[0][0] * C[1][1] - C[0][1] * C[0][1];
  adj[0][0] = C[1][1];
  adj[1][1] = C[0][0];
  adj[0][1] = adj[1][0] = -C[0][1];
#elif VF_NS == 3
  adj[0][0] = C[1][1] * C[2][2] - C[1][2] * C[1][2];
  adj[1][1] = C[0][0] * C[2][2] - C[0][2] * C[0][2];
  adj[2][2] = C[0][0] * C[1][1] - C[0][1] * C[0][1];
  adj[0][1] = adj[1][0] = C[0][2] * C[1][2] - C[0][1] * C[2][2];
  adj[0][2] = adj[2][0] = C[0][1] * C[1][2] - C[0][2] * C[1][1];
  adj[1][2] = adj[2][1] = C[0][1] * C[0][2] - C[0][0] * C[1][2];
  det       = C[0][0] * adj[0][0] + C[0][1] * adj[0][1] + C[0][2] * adj[0][2];
#endif
  // positive definite covariance: determinant and every diagonal cofactor positive (so 1 / B_ii > 0 and every
  // leave-one-out sub-system is regular)
  vf_assume(det > 0.);
  for (int a = 0; a < N; a++) vf_assume(adj[a][a] > 0.);

  for (int t = 0; t < N; t++)
  {
    base(true, true, false, false, false);
    KrigingSystem* ks = KS;
    for (int r = 0; r < N; r++)
    {
      T_active[r] = true;
      T_z[r][0]   = z[r];
    }
    T_mean[0]    = m;
    ks->_iechOut = t;
    new (&ks->_lhsinv) MatrixSquareSymmetric(N);
    for (int a = 0; a < N; a++)
      for (int b = 0; b <= a; b++) ks->_lhsinv.setValue(a, b, adj[a][b] / det, false);

    ks->_estimateCalculXvalidUnique(0);

    // leave-one-out simple kriging of sample t from the others
    double est, var;
#if VF_NS == 2
    int    o   = 1 - t;
    double lam = C[o][t] / C[o][o];
#  if VF_MUT == 2 // self-test of the check only: a wrong weight must be refuted
    lam = C[o][t] / C[t][t];
#  endif
    est        = m + lam * (z[o] - m);
    var        = C[t][t] - lam * C[o][t];
#else
    int    o1 = (t == 0) ? 1 : 0, o2 = (t == 2) ? 1 : 2;
    double D  = C[o1][o1] * C[o2][o2] - C[o1][o2] * C[o1][o2];
    double l1 = (C[o1][t] * C[o2][o2] - C[o2][t] * C[o1][o2]) / D;
    double l2 = (C[o2][t] * C[o1][o1] - C[o1][t] * C[o1][o2]) / D;
#  if VF_MUT == 2 // self-test of the check only: a wrong weight must be refuted
    l2 = (C[o2][t] * C[o1][o1] + C[o1][t] * C[o1][o2]) / D;
#  endif
    est = m + l1 * (z[o1] - m) + l2 * (z[o2] - m);
    var = C[t][t] - l1 * C[o1][t] - l2 * C[o2][t];
#endif
    vf_assert_id(W_n[0] == 1 && W_n[1] == 1, "estimate and standard deviation written once");
    vf_assert_id(same(W_val[0], est), "estimate == leave-one-out simple kriging of sample i from the other samples");
    vf_assert_id(W_val[1] >= 0. && same_sq(W_val[1] * W_val[1], var), "standard deviation squared == leave-one-out kriging variance");
  }
  vf_assert_id(T_bad == 0, "callbacks reached with the expected arguments only");
  vf_witness();
}
#endif // VF_NS in {2,3}
