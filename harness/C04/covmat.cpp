// C04.a2: the optimised covariance-matrix evaluation equals the plain pairwise one, at the level of the
// sample / variable / cell bookkeeping the two implementations duplicate.
//   optimised : ACovAnisoList::evalCovMatrixOptim, evalCovMatrixSymmetricOptim (src/Covariances/ACovAnisoList.cpp)
//               with the real CovAniso::evalOptimInPlace (row bookkeeping), the real per-structure target loops
//               ACov::optimizationSetTarget -> ACovAnisoList::_optimizationSetTarget and
//               ACovAnisoList::optimizationSetTargetByIndex
//   plain     : ACov::evalCovMatrix, evalCovMatrixSymmetric (src/Covariances/ACov.cpp) with the real
//               ACovAnisoList::eval (loop on the structures selected by the mode), CovAniso::eval, getSill
//   shared    : ACov::_updateCovMatrixSymmetricVerr (variance of measurement error on the diagonal), real matrices
// Both run on the same inputs.  Db::getMultipleRanksActive is overridden: it RECORDS its arguments and returns
// index lists that are a function of its arguments (per side, per variable position; the flags useSel / useVerr
// each remove one sample when set).  Asserted:
//   * the two implementations ask the active ranks of the same Db, with the same variables, the same
//     neighbourhood ranks and the same flags (useSel, useVerr);
//   * the returned matrices have the same shape;
//   * they are equal cell by cell, where the covariance of a pair is an injective code of (structure, variable
//     pair, sample pair) and the measurement-error variance comes from a symbolic table: in particular the
//     variance of measurement error is added on the same diagonal cells.
#include "vf.h"
#include <new>
#include "Covariances/ACovAnisoList.hpp"
#include "Covariances/CovAniso.hpp"
#include "Covariances/CovCalcMode.hpp"
#include "Db/Db.hpp"
#include "Space/SpacePoint.hpp"
#include "Matrix/MatrixRectangular.hpp"
#include "Matrix/MatrixSquareSymmetric.hpp"
#include "Enum/ELoc.hpp"
#include "Enum/EOperator.hpp"
#ifndef VF_NV
#  define VF_NV 2 // largest number of active variables (per side)
#endif
#ifndef VF_NE
#  define VF_NE 2 // largest number of valid samples per variable (with both flags set)
#endif
#ifndef VF_MUT
#  define VF_MUT 0
#endif
#define NCOV 2            // basic structures
#define NVR 3             // variables of the model
#define NR 4              // sample ranks are in [0, NR)
#define MAXLEN (VF_NE + 2) // longest index list (no flag set)
#define TOK_I 7           // ivar0 / jvar0 are opaque tokens for the overridden _getActiveVariables
#define TOK_J 8

#ifdef VF_SOLVER
extern "C" void* __dynamic_cast(const void* src, const void*, const void*, long) { return (void*)src; }
#endif

// ---------------------------------------------------------------- scenario, tables, records
static const int LIST_I[2] = {2, 0}; // active variables of the first side (first niv entries)
static const int LIST_J[2] = {1, 2}; // active variables of the second side
static int  g_niv, g_njv;            // lengths returned by _getActiveVariables(TOK_I / TOK_J)
static int  g_base[2][2];           // [side][variable position]: number of samples valid with both flags set
static int  T_rank[2][2][MAXLEN]; // sample ranks (symbolic, in [0, NR))
static bool   T_hasV;                // Db::hasLocVariable(ELoc::V)
static int    T_colV[NVR];           // Db::getColIdxByLocator(ELoc::V, ivar): -1 or a column
static double T_verr[NVR][NR];       // Db::getValueByColIdx(iech, icol)
static bool g_symenc;                // pair code symmetric in the two samples (symmetric matrix kernels)
static int  T_bad;

struct Rec
{
  int       ncalls;
  const Db* db;
  int       nivars, ivars[VF_NV + 1];
  int       nnbgh, nbgh[3];
  bool      useSel, useVerr;
};
static Rec g_rec[2][2]; // [run: 0 plain, 1 optimised][side]
static int g_run;

alignas(16) static char covbuf[sizeof(ACovAnisoList)];
alignas(16) static char dbbuf1[sizeof(Db)];
alignas(16) static char dbbuf2[sizeof(Db)];
alignas(16) static char cabuf[NCOV][sizeof(CovAniso)];
alignas(16) static char p1buf[NCOV][NR * sizeof(SpacePoint)];
alignas(16) static char modebuf[sizeof(CovCalcMode)];
#define DB1 ((const Db*)dbbuf1)
#define DB2 ((const Db*)dbbuf2)

static double enc(int row, int col) // injective code of a pair of sample ranks in [0, NR)
{
  double r = (double)row, c = (double)col;
  if (g_symenc) return r < c ? c * 100. + r + 1. : r * 100. + c + 1.;
  return r * 100. + c + 1.;
}
static double weight(const CovAniso* c) { return c == (const CovAniso*)cabuf[0] ? 1. : 1000.; }

// ---------------------------------------------------------------- overrides
void ACov::optimizationPreProcess(const Db*) const {}
void ACov::optimizationPostProcess() const {}
void ACovAnisoList::_manage(const Db*, const Db*) const {}
void ACovAnisoList::updateCovByPoints(int, int, int, int) {}
void Db::getSampleAsSPInPlace(SpacePoint&) const {}
void messerr(const char*, ...) {}
ASpaceObject::ASpaceObject(const ASpace* space) : AStringable(), _space(space) {}
ASpaceObject::~ASpaceObject() {}
SpacePoint::SpacePoint(const ASpace* space) : ASpaceObject(space), _coord(), _iech(-1), _target(false) {}
SpacePoint::~SpacePoint() {}

VectorInt ACov::_getActiveVariables(int ivar0) const
{
  int        n   = 0;
  const int* src = LIST_I;
  if (ivar0 == TOK_I) n = g_niv;
  else if (ivar0 == TOK_J) { n = g_njv; src = LIST_J; }
  else T_bad++;
  VectorInt v(n);
  for (int i = 0; i < n; i++) v[i] = src[i];
  return v;
}
// the index lists are a function of the arguments: side (recognised by the length of nbgh: 1 / 2), variable
// position, and the two flags, each of which removes the last sample of the list when set
VectorVectorInt Db::getMultipleRanksActive(const VectorInt& ivars, const VectorInt& nbgh, bool useSel, bool useVerr) const
{
  int side = ((int)nbgh.size() == 1) ? 0 : 1;
  Rec& r   = g_rec[g_run][side];
  r.ncalls++;
  r.db     = this;
  r.nivars = (int)ivars.size();
  for (int i = 0; i < (int)ivars.size() && i < VF_NV + 1; i++) r.ivars[i] = ivars[i];
  r.nnbgh = (int)nbgh.size();
  for (int i = 0; i < (int)nbgh.size() && i < 3; i++) r.nbgh[i] = nbgh[i];
  r.useSel  = useSel;
  r.useVerr = useVerr;
  VectorVectorInt res((int)ivars.size());
  for (int iv = 0; iv < (int)ivars.size(); iv++)
  {
    int n = 0;
    if (iv < VF_NV) n = g_base[side][iv] + (useSel ? 0 : 1) + (useVerr ? 0 : 1);
    VectorInt v(n);
    for (int i = 0; i < n; i++) v[i] = T_rank[side][iv][i];
    res[iv] = v;
  }
  return res;
}
bool Db::hasLocVariable(const ELoc& loctype) const
{
  if (this != DB1 || &loctype != &ELoc::V) T_bad++;
  return T_hasV;
}
int Db::getColIdxByLocator(const ELoc& locatorType, int locatorIndex) const
{
  if (this != DB1 || &locatorType != &ELoc::V || locatorIndex < 0 || locatorIndex >= NVR) { T_bad++; return -1; }
  return T_colV[locatorIndex];
}
double Db::getValueByColIdx(int iech, int icol) const
{
  if (this != DB1 || iech < 0 || iech >= NR || icol < 0 || icol >= NVR) { T_bad++; return 0.; }
  return T_verr[icol][iech];
}
// correlation of a structure = weight(structure) x code(sample pair), on the plain and on the optimised side
double CovAniso::evalCor(const SpacePoint& p1, const SpacePoint& p2, const CovCalcMode*, int, int) const
{
  return weight(this) * enc(p1._iech, p2._iech);
}
double SpacePoint::getDistance(const SpacePoint& pt, int) const { return enc(pt._iech, _iech); } // this: projected target, pt: projected sample
double CovAniso::_evalCorFromH(double h, const CovCalcMode*) const { return weight(this) * h; }
// projected target of one structure (the real ones apply the anisotropy / copy the projected sample)
void CovAniso::_optimizationSetTarget(const SpacePoint& pt) const { _p2A._iech = pt._iech; }
void CovAniso::optimizationSetTargetByIndex(int iech) const { _p2A._iech = iech; }

// ---------------------------------------------------------------- set-up
extern "C" void* _ZTV13ACovAnisoList[];
extern "C" void* _ZTV8CovAniso[];
static const double SILL[NVR][NVR] = {{2., 3., 5.}, {3., 7., 11.}, {5., 11., 13.}};

static ACovAnisoList* setup()
{
  ACovAnisoList* L = (ACovAnisoList*)covbuf;
  *(void***)L      = &_ZTV13ACovAnisoList[2];
  L->_space        = nullptr;
  new (&L->_covs) std::vector<CovAniso*>();
  for (int s = 0; s < NCOV; s++)
  {
    CovAniso* c  = (CovAniso*)cabuf[s];
    *(void***)c  = &_ZTV8CovAniso[2];
    new (&c->_sill) MatrixSquareSymmetric(NVR);
    for (int i = 0; i < NVR; i++)
      for (int j = i; j < NVR; j++) c->_sill.setValue(i, j, SILL[i][j]);
    SpacePoint* p = (SpacePoint*)p1buf[s];
    // every 4-byte cell of the raw points is typed int (only _iech is ever read, at a symbolic index)
    for (unsigned i = 0; i < NR * sizeof(SpacePoint) / sizeof(int); i++) ((int*)p1buf[s])[i] = 0;
    for (int i = 0; i < NR; i++) p[i]._iech = i;
    c->_p1As._M_impl._M_start          = p;
    c->_p1As._M_impl._M_finish         = p + NR;
    c->_p1As._M_impl._M_end_of_storage = p + NR;
    c->_p2A._iech                      = -1;
    c->_p2A._target                    = false;
    c->_isOptimPreProcessed            = true;
    L->_covs.push_back(c);
  }
#ifdef VF_SOLVER // static constructors are not run in the solver build: values of the EOperator items
  ((AEnum&)EOperator::IDLE)._value     = 0;
  ((AEnum&)EOperator::ADD)._value      = 1;
  ((AEnum&)EOperator::PRODUCT)._value  = 2;
  ((AEnum&)EOperator::SUBTRACT)._value = 3;
  ((AEnum&)EOperator::SUBOPP)._value   = 4;
  ((AEnum&)EOperator::DIVIDE)._value   = 5;
  ((AEnum&)EOperator::DIVOPP)._value   = 6;
  ((AEnum&)EOperator::DEFINE)._value   = 7;
  ((AEnum&)EOperator::MIN)._value      = 8;
  ((AEnum&)EOperator::MAX)._value      = 9;
#endif
  T_bad = 0;
  return L;
}

static void draw_tables()
{
  for (int side = 0; side < 2; side++)
    for (int iv = 0; iv < VF_NV; iv++)
      for (int i = 0; i < MAXLEN; i++) T_rank[side][iv][i] = vf_range(0, NR - 1);
  T_hasV = vf_nondet_bool();
  for (int iv = 0; iv < NVR; iv++) T_colV[iv] = vf_range(-1, NVR - 1);
  for (int ic = 0; ic < NVR; ic++)
    for (int r = 0; r < NR; r++) T_verr[ic][r] = vf_grid_double(50);
}

// mode: 0 = null pointer, 1 = all structures active, 4 = all structures active and unitary (no sill), 2 / 3 = only structure 0 / 1 active
static const CovCalcMode* make_mode(int kind)
{
  if (kind == 0) return nullptr;
  CovCalcMode* m   = (CovCalcMode*)modebuf;
  m->_asVario      = false;
  m->_unitary      = (kind == 4);
  m->_orderVario   = 0;
  m->_allActiveCov = (kind == 1 || kind == 4);
  new (&m->_activeCovList) VectorInt();
  if (kind == 2 || kind == 3) m->_activeCovList.push_back(kind - 2);
  return m;
}

static void clear_rec()
{
  for (int run = 0; run < 2; run++)
    for (int side = 0; side < 2; side++)
    {
      Rec& r   = g_rec[run][side];
      r.ncalls = 0;
      r.db     = nullptr;
      r.nivars = -1;
      r.nnbgh  = -1;
      r.useSel = r.useVerr = false;
      for (int i = 0; i < VF_NV + 1; i++) r.ivars[i] = -1;
      for (int i = 0; i < 3; i++) r.nbgh[i] = -1;
    }
}

// same request of the active ranks on one side
static bool same_request(int side)
{
  const Rec& a = g_rec[0][side];
  const Rec& b = g_rec[1][side];
  bool ok      = a.ncalls == b.ncalls && a.db == b.db && a.nivars == b.nivars && a.nnbgh == b.nnbgh;
  for (int i = 0; i < VF_NV + 1; i++) ok = ok && a.ivars[i] == b.ivars[i];
  for (int i = 0; i < 3; i++) ok = ok && a.nbgh[i] == b.nbgh[i];
  return ok;
}
static bool same_cells(const AMatrix& a, const AMatrix& b)
{
  bool ok = true;
  for (int i = 0; i < a.getNRows(); i++)
    for (int j = 0; j < a.getNCols(); j++) ok = ok && a.getValue(i, j) == b.getValue(i, j);
  return ok;
}

// one scenario of the symmetric pair: niv active variables with ne0 / ne1 valid samples (both flags set)
static void sym_case(int modekind, int niv, int ne0, int ne1)
{
  VectorInt      nbgh(1);
  ACovAnisoList* L = setup();
  g_symenc         = true;
  g_niv = g_njv = niv;
  g_base[0][0] = g_base[1][0] = ne0;
  g_base[0][1] = g_base[1][1] = ne1;
  draw_tables();
  nbgh[0]                 = vf_nondet_int();
  const CovCalcMode* mode = make_mode(modekind);
  clear_rec();
  g_run                    = 0;
  MatrixSquareSymmetric m0 = L->evalCovMatrixSymmetric(DB1, TOK_I, nbgh, mode);
  g_run                    = 1;
  MatrixSquareSymmetric m1 = L->evalCovMatrixSymmetricOptim(DB1, TOK_I, nbgh, mode);
  vf_assert_id(T_bad == 0, "symmetric: callbacks reached with expected arguments only");
  vf_assert_id(same_request(0), "symmetric: optimised and plain request the active ranks of the same Db, variables and neighbourhood ranks");
  vf_assert_id(g_rec[0][0].useSel == g_rec[1][0].useSel && g_rec[0][0].useVerr == g_rec[1][0].useVerr,
               "symmetric: optimised and plain request the active ranks with the same flags useSel / useVerr");
  bool shape = m0.getNRows() == m1.getNRows() && m0.getNCols() == m1.getNCols();
  vf_assert_id(shape, "symmetric: optimised and plain matrices have the same shape");
  if (shape)
    vf_assert_id(same_cells(m0, m1), "symmetric: optimised and plain matrices equal cell by cell (covariance code + variance of measurement error on the diagonal)");
  vf_witness();
}

// one scenario of the rectangular pair.  Heterotopy: on side 1 the second variable has one valid sample less than
// the first, on side 2 the first has one less than the second
static void rect_case(int modekind, int niv, int njv, int ne1, int ne2)
{
  VectorInt      nbgh1(1), nbgh2(2);
  ACovAnisoList* L = setup();
  g_symenc         = false;
  g_niv            = niv;
  g_njv            = njv;
  g_base[0][0]     = ne1;
  g_base[0][1]     = ne1 > 0 ? ne1 - 1 : 0;
  g_base[1][0]     = ne2 > 0 ? ne2 - 1 : 0;
  g_base[1][1]     = ne2;
  draw_tables();
  nbgh1[0]                = vf_nondet_int();
  nbgh2[0]                = vf_nondet_int();
  nbgh2[1]                = vf_nondet_int();
  bool               two  = vf_nondet_bool();
  const Db*          db2  = two ? DB2 : nullptr;
  const CovCalcMode* mode = make_mode(modekind);
  clear_rec();
  g_run                = 0;
  MatrixRectangular m0 = L->evalCovMatrix(DB1, db2, TOK_I, TOK_J, nbgh1, nbgh2, mode);
  g_run                = 1;
  MatrixRectangular m1 = L->evalCovMatrixOptim(DB1, db2, TOK_I, TOK_J, nbgh1, nbgh2, mode);
  vf_assert_id(T_bad == 0, "rectangular: callbacks reached with expected arguments only");
  vf_assert_id(same_request(0) && same_request(1), "rectangular: optimised and plain request the active ranks of the same Dbs, variables and neighbourhood ranks");
  vf_assert_id(g_rec[0][0].useSel == g_rec[1][0].useSel && g_rec[0][0].useVerr == g_rec[1][0].useVerr &&
               g_rec[0][1].useSel == g_rec[1][1].useSel && g_rec[0][1].useVerr == g_rec[1][1].useVerr,
               "rectangular: optimised and plain request the active ranks with the same flags useSel / useVerr");
  bool shape = m0.getNRows() == m1.getNRows() && m0.getNCols() == m1.getNCols();
  vf_assert_id(shape, "rectangular: optimised and plain matrices have the same shape");
  if (shape)
    vf_assert_id(same_cells(m0, m1), "rectangular: optimised and plain matrices equal cell by cell (covariance code)");
  vf_witness();
}

// entries: one scenario each (the registry lists them).  M: mode kind
#define SYM(M, NIV, NE0, NE1) extern "C" void k_sym_m##M##_##NIV##NE0##NE1() { sym_case(M, NIV, NE0, NE1); }
#define SYMS(M) SYM(M, 0, 0, 0) SYM(M, 1, 0, 0) SYM(M, 1, 1, 0) SYM(M, 1, 2, 0) \
  SYM(M, 2, 0, 0) SYM(M, 2, 0, 1) SYM(M, 2, 0, 2) SYM(M, 2, 1, 0) SYM(M, 2, 1, 1) SYM(M, 2, 1, 2) SYM(M, 2, 2, 0) SYM(M, 2, 2, 1) SYM(M, 2, 2, 2)
SYMS(0) SYMS(1) SYMS(2) SYMS(3) SYMS(4)
#define RECT(M, NIV, NJV, NE1, NE2) extern "C" void k_rect_m##M##_##NIV##NJV##NE1##NE2() { rect_case(M, NIV, NJV, NE1, NE2); }
#define RECTV(M, NIV, NJV) RECT(M, NIV, NJV, 0, 0) RECT(M, NIV, NJV, 0, 2) RECT(M, NIV, NJV, 1, 1) RECT(M, NIV, NJV, 1, 2) RECT(M, NIV, NJV, 2, 0) RECT(M, NIV, NJV, 2, 1) RECT(M, NIV, NJV, 2, 2)
#define RECTS(M) RECT(M, 0, 2, 0, 0) RECT(M, 2, 0, 0, 0) RECTV(M, 1, 1) RECTV(M, 1, 2) RECTV(M, 2, 1) RECTV(M, 2, 2)
RECTS(0) RECTS(1) RECTS(2) RECTS(3) RECTS(4)
