// C04.c / C10.e: neighbourhood memo of ANeigh (src/Neigh/ANeigh.cpp): select, _isSameTarget,
// _checkUnchanged, reset, setIsChanged.  getNeigh / hasChanged are overridden in a test subclass
// and return an arbitrary rank list (length n) / an arbitrary answer.
// Inductive step over an arbitrary pre-state: memo of length m with arbitrary sorted content
// (representation invariant: _checkUnchanged only ever stores a sorted vector, reset/setIsChanged
// store the empty one), arbitrary _iechMemo >= -1, arbitrary _flagIsUnchanged, arbitrary target.
// All (m, n) with m <= VF_M, n <= VF_N are run (sizes are concrete, contents symbolic), each for the
// path classes of select (same target / hasChanged true / false / invalid target rank).
// Properties (target rank valid):
//   P1  isUnchanged() after select  ==>  the returned ranks are, as a multiset, the memo held
//       before the call (the set the cached kriging LHS was built for)
//   P2  the memo after select is the returned set (sorted)
//   P3  reset() / setIsChanged() leave an empty memo and isUnchanged() false; reset() also
//       forgets the target (_iechMemo == -1)
#include "vf.h"
#include "Neigh/ANeigh.hpp"
#include "Db/Db.hpp"
#include "Tree/Ball.hpp"
#include <new>
#ifndef VF_M
#define VF_M 3
#endif
#ifndef VF_N
#define VF_N 3
#endif

// ---- scenario
static int  g_n;            // length of the list getNeigh returns
static int  g_R[VF_N + 1];  // its content
static bool g_changed;      // answer of hasChanged
static bool g_valid;        // answer of Db::isSampleIndexValid
static int  c_getneigh;

class TNeigh: public ANeigh
{
public:
  TNeigh() : ANeigh(nullptr) {}
  void getNeigh(int, VectorInt& ranks) override
  {
    c_getneigh++;
    VectorInt r(g_n);
    for (int i = 0; i < g_n; i++) r[i] = g_R[i];
    ranks = r;
  }
  int  getMaxSampleNumber(const Db*) const override { return 0; }
  bool hasChanged(int) const override { return g_changed; }
};

// ---- overrides
bool Db::isSampleIndexValid(int) const { return g_valid; }
ASpaceObject::ASpaceObject(const ASpace* space) : AStringable(), _space(space) {} // no default-space cloning
ASpaceObject::~ASpaceObject() {}
Ball::Ball(const double**, int, int, double (*)(const double*, const double*, int), int, int) : _tree(nullptr) {} // no tree
void messageAbort(const char*, ...) {}
#ifdef VF_SOLVER
// libc memcmp as used by std::equal on int arrays (operator== of std::vector<int>): only "== 0" is consumed;
// compared int-wise (the executor's memory is typed), so only the zero / non-zero outcome is meaningful
extern "C" int memcmp(const void* a, const void* b, size_t n)
{
  const int* x = (const int*)a;
  const int* y = (const int*)b;
  for (size_t i = 0; i < n / sizeof(int); i++)
    if (x[i] != y[i]) return x[i] < y[i] ? -1 : 1;
  return 0;
}
#endif

alignas(16) static char nbuf[sizeof(TNeigh)];
alignas(16) static char dbin[sizeof(Db)], dbout[sizeof(Db)];

// reference sorting network (compare-exchange, no data-dependent branch): two lists are equal as multisets
// iff their sorted forms are equal element by element
static void net_sort(int* a, int n)
{
  for (int i = 0; i < n; i++)
    for (int j = 0; j + 1 < n - i; j++)
    {
      int x = a[j], y = a[j + 1];
      a[j]     = x < y ? x : y;
      a[j + 1] = x < y ? y : x;
    }
}

static TNeigh* make(int m, int* M)
{
  TNeigh* nb = new (nbuf) TNeigh();
  nb->_dbin  = (const Db*)dbin;
  nb->_dbout = (const Db*)dbout;
  // arbitrary sorted memo of length m: arbitrary ints put in order by the reference network (every sorted vector is reached)
  VectorInt memo(m);
  for (int i = 0; i < m; i++) M[i] = vf_nondet_int();
  net_sort(M, m);
  for (int i = 0; i < m; i++) memo[i] = M[i];
  nb->_nbghMemo = memo;
  nb->_iechMemo = vf_range(-1, 2147483647);
  nb->_flagIsUnchanged = vf_nondet_bool();
  return nb;
}
// element-wise equality of two sequences
static bool same_seq(const int* a, int na, const int* b, int nb)
{
  if (na != nb) return false;
  bool ok = true;
  for (int i = 0; i < na; i++) ok = ok & (a[i] == b[i]);
  return ok;
}

// One call of select from an arbitrary pre-state.  The three answers that choose the path through select
// (target rank valid, same target as before, hasChanged) are enumerated by the caller, everything else is symbolic.
//   cls 0: same target as the memorised one      (_iechMemo >= 0, iech == _iechMemo, memo not empty)
//   cls 1: other target, hasChanged() == true    (getNeigh is called)
//   cls 2: other target, hasChanged() == false   (memo reused)
//   cls 3: target rank refused by Db::isSampleIndexValid (nothing is claimed about the memo: only run)
static void one_select(int m, int n, int cls)
{
  int     M[VF_M + 1];
  TNeigh* nb = make(m, M);
  g_n        = n;
  for (int i = 0; i < n; i++) g_R[i] = vf_nondet_int();
  g_changed  = (cls == 1);
  g_valid    = (cls != 3);
  c_getneigh = 0;
  int  other = vf_nondet_int();
  int  iech  = (cls == 0) ? nb->_iechMemo : other;
  bool same  = nb->_iechMemo >= 0 && iech == nb->_iechMemo && m > 0;
  vf_assume(cls == 0 ? same : (cls == 3 || !same)); // cls 0: a target was memorised (_iechMemo >= 0); cls 1,2: another target
  VectorInt ranks(1);
  ranks[0] = vf_nondet_int(); // select "ALWAYS modifies (and resizes)" it
  nb->select(iech, ranks);
  if (cls == 3) return;
  // returned set
  int nr = (int)ranks._v->size();
  int R[VF_M + VF_N + 1];
  for (int i = 0; i < nr && i < VF_M + VF_N + 1; i++) R[i] = (*ranks._v)[i];
#ifndef VF_MUTANT // self-test of the check (kernel_run.py C04.c quick 0 VF_MUTANT=1 must report a replayed violation)
  net_sort(R, nr); // R as a multiset
#endif
  // P1
  bool unchanged = nb->_flagIsUnchanged;
  vf_assert_id(!unchanged || same_seq(R, nr, M, m), "select: isUnchanged() only if the returned ranks equal the previous memo as a set");
  // P2
  int nm = (int)nb->_nbghMemo._v->size();
  vf_assert_id(nm == nr, "select: memo is the last returned set (size)");
  if (nm == nr)
  {
    int P[VF_M + VF_N + 1];
    for (int i = 0; i < nm && i < VF_M + VF_N + 1; i++) P[i] = (*nb->_nbghMemo._v)[i];
    vf_assert_id(same_seq(P, nm, R, nr), "select: memo is the last returned set, sorted");
  }
}

extern "C" void k_select()
{
  for (int m = 0; m <= VF_M; m++)
    for (int n = 0; n <= VF_N; n++)
      for (int cls = 0; cls < 4; cls++)
      {
        if (cls == 0 && m == 0) continue; // an empty memo never matches
        one_select(m, n, cls);
      }
  vf_witness();
}

extern "C" void k_reset()
{
  for (int m = 0; m <= VF_M; m++)
  {
    int M[VF_M + 1];
    {
      TNeigh* nb = make(m, M);
      nb->reset();
      vf_assert_id(nb->_nbghMemo._v->size() == 0, "reset: memo empty");
      vf_assert_id(!nb->_flagIsUnchanged, "reset: isUnchanged() false");
      vf_assert_id(nb->_iechMemo == -1, "reset: previous target forgotten");
    }
    {
      TNeigh* nb = make(m, M);
      nb->setIsChanged();
      vf_assert_id(nb->_nbghMemo._v->size() == 0, "setIsChanged: memo empty");
      vf_assert_id(!nb->_flagIsUnchanged, "setIsChanged: isUnchanged() false");
    }
  }
  vf_witness();
}
