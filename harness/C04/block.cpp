// C04.d: block kriging with a single discretisation point (zero shift) equals point kriging, at the place where
// the two paths differ: the covariance part of the right-hand side (src/Estimation/KrigingSystem.cpp).
//   reference path : _rhsCalcul with EKrigOpt::POINT -> _rhsCalculPoint -> _rhsStore
//   fast/other path: _rhsCalcul with EKrigOpt::BLOCK -> _rhsCalculBlock (ndisc == 1, _disc1[0] == 0) -> _rhsStore
// Both run on the same system (same neighbourhood, same target, same model tables).  Asserted:
//   * every covariance callback ACov::evalCovKriging of the block path receives exactly the arguments of the
//     point path: same sample rank, sample point not flagged target, target point flagged target with the target's
//     rank and the target's coordinates (the real SpacePoint::move / SpaceRN::_move adds the zero shift), same
//     CovCalcMode; the target handed last to ACov::optimizationSetTarget is that same point;
//   * the two right-hand sides are equal cell by cell, and equal to cov(sample nbgh[i], target) of the model table.
// The covariance VALUE is abstract: a symbolic table for "target at the target's coordinates" and another,
// unrelated symbolic table for any other coordinates (so a shifted evaluation cannot pass by accident).
#define VF_KS_OWN_COVCB
#include "../C01/ks_common.h"
#include "Space/SpaceRN.hpp"

#ifndef VF_MUT
#  define VF_MUT 0
#endif

static double T_alt[VF_NS][VF_NVAR][VF_NVAR]; // covariance with a target that is NOT at the target's coordinates

// ---- log of the callbacks
#define VF_MAXCALL (2 * VF_NECH + 2)
struct CovCall
{
  int    r1;
  bool   p1target;
  int    r0;
  bool   p0target;
  double x0[VF_NDIM];
  bool   modeok;
  bool   optim_same; // the last optimizationSetTarget argument has the coordinates of pout
};
static CovCall L_calls[2][VF_MAXCALL]; // [path: 0 point, 1 block][call]
static int     L_path;
static int     L_n;
static double  L_opt[VF_NDIM]; // coordinates given last to optimizationSetTarget
static int     L_nopt;

void ACov::optimizationSetTarget(const SpacePoint& pt) const
{
  for (int d = 0; d < VF_NDIM; d++) L_opt[d] = pt.getCoord(d);
  L_nopt++;
}
void ACov::evalCovKriging(MatrixSquareGeneral& mat, SpacePoint& pwork1, SpacePoint& pout, const CovCalcMode* mode) const
{
  int r1 = pwork1.getIech();
  if (r1 < 0 || r1 >= VF_NS || L_n >= VF_MAXCALL) { T_bad++; return; }
  CovCall& c = L_calls[L_path][L_n++];
  c.r1         = r1;
  c.p1target   = pwork1.isTarget();
  c.r0         = pout.getIech();
  c.p0target   = pout.isTarget();
  c.modeok     = (mode == &KS->_calcModeRHS);
  c.optim_same = L_nopt > 0;
  bool at_target = true;
  for (int d = 0; d < VF_NDIM; d++)
  {
    c.x0[d] = pout.getCoord(d);
    if (c.x0[d] != T_coord0[d]) at_target = false;
    if (c.x0[d] != L_opt[d]) c.optim_same = false;
  }
  for (int iv = 0; iv < VF_NVAR; iv++)
    for (int jv = 0; jv < VF_NVAR; jv++) mat.setValue(iv, jv, at_target ? T_covt[r1][iv][jv] : T_alt[r1][iv][jv], false);
}
// SpacePoint assignment: the real ASpaceObject::operator= deletes its space and clones the other one (an equal space);
// here the points share the one SpaceRN of the harness
ASpaceObject& ASpaceObject::operator=(const ASpaceObject& r)
{
  _space = r._space;
  return *this;
}

static void init_point(SpacePoint* p, const ASpace* space)
{
  p->_space = space;
  new (&p->_coord) VectorDouble(VF_NDIM, 0.);
  p->_iech   = 0;
  p->_target = false;
}

extern "C" void k_block_point()
{
  vf_ks_base();
  KrigingSystem* ks = KS;
  vf_draw_nbgh();
  // model tables
  for (int r = 0; r < VF_NS; r++)
    for (int iv = 0; iv < VF_NVAR; iv++)
      for (int jv = 0; jv < VF_NVAR; jv++)
      {
        T_covt[r][iv][jv] = vf_nondet_double();
        T_alt[r][iv][jv]  = vf_nondet_double();
      }
  for (int iv = 0; iv < VF_NVAR; iv++)
    for (int ib = 0; ib < VF_NFEQ; ib++) T_drift0[iv][ib] = vf_maybe_test();
  for (int d = 0; d < VF_NDIM; d++) T_coord0[d] = vf_nondet_double();
  double stale1[VF_NEQ][VF_NVAR], stale2[VF_NEQ][VF_NVAR];
  for (int a = 0; a < VF_NEQ; a++)
    for (int jv = 0; jv < VF_NVAR; jv++)
    {
      stale1[a][jv] = vf_nondet_double();
      stale2[a][jv] = vf_nondet_double();
    }
  int old_iech = vf_range(-1, 5); // stale rank / flags left in the work points by a previous target
  bool old_t   = vf_nondet_bool();

  SpaceRN* space = new SpaceRN(VF_NDIM);
  init_point(&ks->_p0, space);
  init_point(&ks->_p1, space);
  init_point(&ks->_p0_memo, space);
  ks->_p1._iech   = old_iech;
  ks->_p1._target = old_t;
  ks->_p0._iech   = old_iech;
  ks->_p0._target = !old_t;
  // the target point as Db::getSampleAsSPInPlace (overridden: no-op) loads it
  for (int d = 0; d < VF_NDIM; d++) ks->_p0._coord[d] = T_coord0[d];
  // block discretisation: one point, zero shift (what DbGrid::getDiscretizedBlock gives for ndiscs = {1,..,1})
  ks->_flagPerCell  = false;
  ks->_ndiscNumber  = 1;
  new (&ks->_disc1) VectorVectorDouble(1, VectorDouble(VF_NDIM, 0.));
#if VF_MUT == 1 // self-test of the check only: a non-zero shift must be refuted
  ks->_disc1[0][0] = 1.;
#endif
  new (&ks->_rhsf) MatrixRectangular(VF_NEQ, VF_NVAR);

  // ---------------- reference: point
  for (int a = 0; a < VF_NEQ; a++)
    for (int jv = 0; jv < VF_NVAR; jv++) ks->_rhsf.setValue(a, jv, stale1[a][jv], false);
  ks->_calcul._value = EKrigOpt::E_POINT;
  L_path = 0;
  L_n = 0;
  L_nopt = 0;
  int err1 = ks->_rhsCalcul();
  int     n1 = L_n;
  double rhs1[VF_NEQ][VF_NVAR];
  for (int a = 0; a < VF_NEQ; a++)
    for (int jv = 0; jv < VF_NVAR; jv++) rhs1[a][jv] = ks->_rhsf.getValue(a, jv, false);

  // ---------------- block, one discretisation point, zero shift
  for (int a = 0; a < VF_NEQ; a++)
    for (int jv = 0; jv < VF_NVAR; jv++) ks->_rhsf.setValue(a, jv, stale2[a][jv], false);
  ks->_calcul._value = EKrigOpt::E_BLOCK;
  L_path = 1;
  L_n = 0;
  L_nopt = 0;
  int err2 = ks->_rhsCalcul();

  vf_assert_id(n1 == VF_NECH && L_n == VF_NECH, "both paths evaluate the covariance once per neighbourhood sample");
  for (int i = 0; i < VF_NECH; i++)
  {
    const CovCall& p = L_calls[0][i];
    const CovCall& b = L_calls[1][i];
    vf_assert_id(b.r1 == p.r1 && p.r1 == ks->_nbgh[i], "callback i: sample rank is nbgh[i] on both paths");
    vf_assert_id(!b.p1target && !p.p1target, "callback i: the sample point is not flagged target on either path");
    vf_assert_id(b.p0target && p.p0target, "callback i: the target point is flagged target on both paths");
    vf_assert_id(b.r0 == p.r0 && p.r0 == ks->_iechOut, "callback i: the target point carries the target rank on both paths");
    for (int d = 0; d < VF_NDIM; d++)
      vf_assert_id(b.x0[d] == p.x0[d] && p.x0[d] == T_coord0[d], "callback i: the target coordinates are those of the target on both paths");
    vf_assert_id(b.modeok && p.modeok, "callback i: the RHS calculation mode is passed on both paths");
    vf_assert_id(b.optim_same && p.optim_same, "callback i: the point given last to optimizationSetTarget is the target point on both paths");
  }
  vf_assert_id(err1 == err2, "same error code on both paths");
  for (int i = 0; i < VF_NECH; i++)
    for (int iv = 0; iv < VF_NVAR; iv++)
      for (int jv = 0; jv < VF_NVAR; jv++)
      {
        int a = i + iv * VF_NECH;
#if VF_MUT == 2 // self-test of the check only: a wrong table as oracle must be refuted
        double ref = T_alt[ks->_nbgh[i]][iv][jv];
#else
        double ref = T_covt[ks->_nbgh[i]][iv][jv];
#endif
        vf_assert_id(ks->_rhsf.getValue(a, jv, false) == rhs1[a][jv], "RHS covariance cell: block (1 point, zero shift) == point");
        vf_assert_id(ks->_rhsf.getValue(a, jv, false) == ref, "RHS covariance cell of the block path == cov(sample nbgh[i] variable iv, target variable jv)");
      }
  if (err1 == 0) // err2 == err1 is asserted above
    for (int iv = 0; iv < VF_NVAR; iv++)
      for (int ib = 0; ib < VF_NFEQ; ib++)
        vf_assert_id(ks->_rhsf.getValue(VF_NVAR * VF_NECH + ib, iv, false) == rhs1[VF_NVAR * VF_NECH + ib][iv], "RHS drift cell: block == point");
  vf_assert_id(T_bad == 0, "callbacks reached with the expected arguments only");
  vf_witness();
}
