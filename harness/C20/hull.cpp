// C20.f: Polygons::_getHullIndices (src/Polygon/Polygons.cpp): convex hull of a point set by gift wrapping,
// used by Polygons::createFromDb / Db::addSelectionFromDbByConvexHull / db_selhull.
// Input: VF_N points on the integer grid in general position (no three collinear; in particular pairwise distinct).
// Checked with exact integer cross products:
//   - the result is a closed ring (last index == first), of 3..VF_N distinct valid point ranks;
//   - every input point lies inside or on the ring: it is on the same side (or on the line) of every edge;
//   - the wrapping loop terminates and never writes beyond its index array (engine obligations).
#include "vf.h"
#include "Polygon/Polygons.hpp"
#ifndef VF_N
#define VF_N 4
#endif
#ifndef VF_G
#define VF_G 16
#endif
#define N VF_N

static double cross(double ax, double ay, double bx, double by, double cx, double cy)
{
  return (bx - ax) * (cy - ay) - (by - ay) * (cx - ax);
}
static double pickd(const double* a, int idx) // a[idx] for a symbolic in-range idx
{
  double r = 0.;
  for (int i = 0; i < N; i++)
    if (i == idx) r = a[i];
  return r;
}

extern "C" void k_hull()
{
  double xs[N], ys[N];
  VectorDouble x(N), y(N);
#ifdef VF_XS
  const double xfix[N] = {VF_XS};
#endif
  for (int i = 0; i < N; i++)
  {
    xs[i] = vf_grid_double(VF_G);
#ifdef VF_XS
    xs[i] = xfix[i]; // abscissae fixed per kernel: every cross product is then linear in the symbolic ordinates
#endif
    ys[i] = vf_grid_double(VF_G);
    x[i] = xs[i];
    y[i] = ys[i];
  }
  // general position: no three points on a line.  On the integer grid a non-zero cross product is at least 1 in
  // absolute value; it is stated in that form because the solver does not derive it from integrality by itself
  // (the function compares the same quantity with EPSILON6)
  for (int i = 0; i < N; i++)
    for (int j = i + 1; j < N; j++)
      for (int k = j + 1; k < N; k++)
      {
        double c = cross(xs[i], ys[i], xs[j], ys[j], xs[k], ys[k]);
        vf_assume(c >= 1. || c <= -1.);
      }

  VectorInt idx = Polygons::_getHullIndices(x, y); // REAL code

  int size = (int)idx.size();
  bool shape = size >= 4 && size <= N + 1;
  vf_assert_id(shape, "the hull ring has 3..n vertices plus the closing one");
  if (shape)
  {
    int h[N + 1];
    bool valid = true;
    for (int p = 0; p <= N; p++)
    {
      h[p] = (p < size) ? idx[p] : 0;
      if (p < size && (h[p] < 0 || h[p] >= N)) valid = false;
    }
    vf_assert_id(valid, "hull indices are ranks of input points");
    if (valid)
    {
      bool closed = true, distinct = true;
      for (int p = 0; p <= N; p++)
      {
        if (p == size - 1 && h[p] != h[0]) closed = false;
        for (int q = p + 1; q <= N; q++)
          if (q < size - 1 && h[p] == h[q]) distinct = false;
      }
      vf_assert_id(closed, "the ring is closed: last index == first index");
      vf_assert_id(distinct, "hull vertices are distinct points");
      // every point on the same side (or on the line) of every edge of the ring; the side is the one of the third
      // ring vertex with respect to the first edge (the kernel is explored path by path: no control flow on
      // symbolic data in the oracle, one assertion per (edge, point))
      bool ccw = cross(pickd(xs, h[0]), pickd(ys, h[0]), pickd(xs, h[1]), pickd(ys, h[1]), pickd(xs, h[2]), pickd(ys, h[2])) > 0.;
      for (int p = 0; p < N; p++)
        if (p + 1 < size)
        {
          double ax = pickd(xs, h[p]), ay = pickd(ys, h[p]);
          double bx = pickd(xs, h[p + 1]), by = pickd(ys, h[p + 1]);
          for (int i = 0; i < N; i++)
          {
            double c = cross(ax, ay, bx, by, xs[i], ys[i]);
            vf_assert_id(ccw ? (c >= 0.) : (c <= 0.), "every input point is inside or on the hull polygon (same side of every hull edge)");
          }
        }
    }
  }
  vf_witness();
}
