// C20.f: Polygons::_getHullIndices (src/Polygon/Polygons.cpp): convex hull of a point set by gift wrapping,
// used by Polygons::createFromDb / Db::addSelectionFromDbByConvexHull / db_selhull.
// Input: VF_N points on the integer grid in general position (no three collinear; in particular pairwise distinct).
// One coordinate of every point (the abscissa, or the ordinate when VF_SWAP) takes concrete small integer values -
// every arrangement of the family chosen by VF_XMODE is explored - the other coordinate is an arbitrary grid value:
// every cross product of the function is then linear in the unknowns, which is what lets the solver decide which
// paths of the wrapping loop exist (with both coordinates unknown it cannot, and the exploration does not end).
// The kernel is explored path by path (registry symex no_merge, pass pipeline without if-conversion).
// Checked with exact cross products:
//   - the result is a closed ring (last index == first), of 3..VF_N distinct valid point ranks;
//   - every input point lies inside or on the ring: it is on the same side (or on the line) of every edge;
//   - the wrapping loop terminates and never writes beyond its index array (engine obligations).
#include "vf.h"
#include "Polygon/Polygons.hpp"
#ifndef VF_N
#define VF_N 4
#endif
#ifndef VF_G
#define VF_G 16
#endif
#ifndef VF_XMODE
#define VF_XMODE 1
#endif
#ifndef VF_XB
#define VF_XB 4
#endif
#ifndef VF_SWAP
#define VF_SWAP 0
#endif
#define N VF_N

static double cross(double ax, double ay, double bx, double by, double cx, double cy)
{
  return (bx - ax) * (cy - ay) - (by - ay) * (cx - ax);
}
static double pickd(const double* a, int idx) // a[idx] for a symbolic in-range idx
{
  double r = 0.;
  for (int i = 0; i < N; i++)
    if (i == idx) r = a[i];
  return r;
}

// an arbitrary integer of [lo, hi] that is CONCRETE on every explored path (one path per value)
static int pick_concrete(int d, int lo, int hi)
{
  int r = lo;
  for (int v = lo; v <= hi; v++)
    if (d == v) r = v;
  return r;
}

extern "C" void k_hull()
{
  double xs[N], ys[N];
  VectorDouble x(N), y(N);
  // ---- all inputs drawn up front
  double free_[N];
  int fixed_[N];
  int draw_[N];
  for (int i = 0; i < N; i++) free_[i] = vf_grid_double(VF_G);
  // (drawn before the first path split: every path shares the same input variables)
#if VF_XMODE == 1
  for (int k = 0; k < N; k++) draw_[k] = vf_range(0, N - 1 - k);
#ifdef VF_L0
  draw_[0] = VF_L0; // first value of the permutation fixed per kernel (splits the n = 5 family into 5 kernels)
#endif
#else
  for (int k = 0; k < N; k++) draw_[k] = vf_range(0, VF_XB - 1);
#endif
#if VF_XMODE == 1
  // any permutation of 0..N-1 (Lehmer code)
  int pool[N];
  for (int i = 0; i < N; i++) pool[i] = i;
  for (int k = 0; k < N; k++)
  {
    int c = pick_concrete(draw_[k], 0, N - 1 - k);
    fixed_[k] = pool[c];
    for (int m = c; m + 1 < N - k; m++) pool[m] = pool[m + 1];
  }
#else
  // any tuple over 0..VF_XB-1 (ties included; three equal values are excluded by the general position)
  for (int k = 0; k < N; k++) fixed_[k] = pick_concrete(draw_[k], 0, VF_XB - 1);
#endif
  for (int i = 0; i < N; i++)
  {
#if VF_SWAP
    xs[i] = free_[i];
    ys[i] = fixed_[i];
#else
    xs[i] = fixed_[i];
    ys[i] = free_[i];
#endif
    x[i] = xs[i];
    y[i] = ys[i];
  }
  // general position: no three points on a line.  On the integer grid a non-zero cross product is at least 1 in
  // absolute value; it is stated in that form because the solver does not derive it from integrality by itself
  // (the function compares the same quantity with EPSILON6)
  for (int i = 0; i < N; i++)
    for (int j = i + 1; j < N; j++)
      for (int k = j + 1; k < N; k++)
      {
        double c = cross(xs[i], ys[i], xs[j], ys[j], xs[k], ys[k]);
        vf_assume(c >= 1. || c <= -1.);
      }

  VectorInt idx = Polygons::_getHullIndices(x, y); // REAL code

  int size = (int)idx.size();
  bool shape = size >= 4 && size <= N + 1;
  vf_assert_id(shape, "the hull ring has 3..n vertices plus the closing one");
  if (shape)
  {
    int h[N + 1];
    bool valid = true;
    for (int p = 0; p <= N; p++)
    {
      h[p] = (p < size) ? idx[p] : 0;
      if (p < size && (h[p] < 0 || h[p] >= N)) valid = false;
    }
    vf_assert_id(valid, "hull indices are ranks of input points");
    if (valid)
    {
      bool closed = true, distinct = true;
      for (int p = 0; p <= N; p++)
      {
        if (p == size - 1 && h[p] != h[0]) closed = false;
        for (int q = p + 1; q <= N; q++)
          if (q < size - 1 && h[p] == h[q]) distinct = false;
      }
      vf_assert_id(closed, "the ring is closed: last index == first index");
      vf_assert_id(distinct, "hull vertices are distinct points");
      // every point on the same side (or on the line) of every edge of the ring; the side is the one of the third
      // ring vertex with respect to the first edge (the kernel is explored path by path: no control flow on
      // symbolic data in the oracle, one assertion per (edge, point))
      bool ccw = cross(pickd(xs, h[0]), pickd(ys, h[0]), pickd(xs, h[1]), pickd(ys, h[1]), pickd(xs, h[2]), pickd(ys, h[2])) > 0.;
      for (int p = 0; p < N; p++)
        if (p + 1 < size)
        {
          double ax = pickd(xs, h[p]), ay = pickd(ys, h[p]);
          double bx = pickd(xs, h[p + 1]), by = pickd(ys, h[p + 1]);
          for (int i = 0; i < N; i++)
          {
            double c = cross(ax, ay, bx, by, xs[i], ys[i]);
            vf_assert_id(ccw ? (c >= 0.) : (c <= 0.), "every input point is inside or on the hull polygon (same side of every hull edge)");
          }
        }
    }
  }
  vf_witness();
}
