// C20.c: Polygons::inside (src/Polygon/Polygons.cpp): union / nested (odd count) rule with the
// optional vertical limits, for every combination of per-element 2-D answers and limits.
// The 2-D test of each element is an arbitrary boolean (PolyElem::inside is overridden: C20.a
// decides it separately); inside3D, getClosedPolyElem, closePolyElem, copies are real code.
// C20.d: PolyElem::inside3D definition.
#include "vf.h"
#include "Polygon/Polygons.hpp"
#include "Polygon/PolyElem.hpp"
#include "Basic/Utilities.hpp"
#ifndef VF_NPOL
#define VF_NPOL 2
#endif
static bool in2D[VF_NPOL + 1];
// override: element k is recognised by its first vertex abscissa (10*k)
bool PolyElem::inside(const VectorDouble& coor)
{
  int k = (int)(getX(0) / 10.);
  if (k < 0 || k >= VF_NPOL) return false;
  return in2D[k];
}
static double limit_value() // TEST (absent) or an arbitrary finite level
{
  double g = vf_grid_double(1000); // drawn unconditionally (replay alignment)
  bool absent = vf_nondet_bool();
  return absent ? TEST : g;
}
static bool ref_inZ(double zz, double zmin, double zmax)
{
  if (zz > 1.0e30) return true; // undefined z: no vertical test (documented in inside3D)
  if (zmin <= 1.0e30 && zz < zmin) return false;
  if (zmax <= 1.0e30 && zz > zmax) return false;
  return true;
}
static void run_set(const bool flag3d)
{
  Polygons pols;
  double zmin[VF_NPOL], zmax[VF_NPOL];
  for (int k = 0; k < VF_NPOL; k++)
  {
    VectorDouble x(4), y(4);
    x[0] = 10. * k; y[0] = 0.;
    x[1] = 10. * k + 1.; y[1] = 0.;
    x[2] = 10. * k; y[2] = 1.;
    x[3] = x[0]; y[3] = y[0];
    zmin[k] = limit_value();
    zmax[k] = limit_value();
    in2D[k] = vf_nondet_bool();
    PolyElem e(x, y, zmin[k], zmax[k]);
    pols.addPolyElem(e);
  }
  vf_assert_id(pols.getPolyElemNumber() == VF_NPOL, "all elements stored");
  bool nested = vf_nondet_bool();
  VectorDouble coor(flag3d ? 3 : 2);
  coor[0] = 0.5; coor[1] = 0.5;
  double zz = 0.;
  if (flag3d) { zz = limit_value(); coor[2] = zz; }

  int count = 0;
  for (int k = 0; k < VF_NPOL; k++)
    if (in2D[k] && (!flag3d || ref_inZ(zz, zmin[k], zmax[k]))) count++;
  bool expected = nested ? (count % 2 == 1) : (count > 0);
  bool got = pols.inside(coor, nested);
  vf_assert_id(got == expected, "set answer follows the union / odd-count rule over elements passing their vertical limits");
  vf_witness();
}
extern "C" void k_polygons_inside_2d() { run_set(false); }
extern "C" void k_polygons_inside_3d() { run_set(true); }
extern "C" void k_inside3d()
{
  double zmin = limit_value(), zmax = limit_value();
  VectorDouble x(4), y(4);
  x[1] = 1.; y[2] = 1.;
  PolyElem e(x, y, zmin, zmax);
  double zz = limit_value();
  vf_assert_id(e.inside3D(zz) == ref_inZ(zz, zmin, zmax), "inside3D: undefined z or absent limits pass, else zmin <= z <= zmax");
  vf_witness();
}
