// C20.a: PolyElem::inside (src/Polygon/PolyElem.cpp) against the exact even-odd crossing
// rule, for every closed polyline with VF_NV vertices on the integer grid |v| <= VF_G and
// every grid query point that is not on the boundary.
#include "vf.h"
#include "Polygon/PolyElem.hpp"
#ifndef VF_NV
#define VF_NV 4
#endif
#ifndef VF_G
#define VF_G 1048576
#endif
extern "C" void k_polyelem_inside()
{
  const int nv = VF_NV;
  double xi[VF_NV + 1], yi[VF_NV + 1];
  VectorDouble x(nv + 1), y(nv + 1);
  for (int i = 0; i < nv; i++)
  {
    xi[i] = vf_grid_double(VF_G);
    yi[i] = vf_grid_double(VF_G);
  }
  xi[nv] = xi[0];
  yi[nv] = yi[0];
  for (int i = 0; i <= nv; i++)
  {
    x[i] = xi[i];
    y[i] = yi[i];
  }
  double xq = vf_grid_double(VF_G);
  double yq = vf_grid_double(VF_G);

  // reference: exact arithmetic (grid values: every product/sum below 2^53 is exact in IEEE too), half-open crossing rule, ray towards +x
  bool onb = false;
  int cross = 0;
  for (int j = 0; j < nv; j++)
  {
    double x0 = xi[j], y0 = yi[j], x1 = xi[j + 1], y1 = yi[j + 1];
    double cr = (x1 - x0) * (yq - y0) - (y1 - y0) * (xq - x0);
    double xlo = x0 < x1 ? x0 : x1, xhi = x0 < x1 ? x1 : x0;
    double ylo = y0 < y1 ? y0 : y1, yhi = y0 < y1 ? y1 : y0;
    if (cr == 0 && xq >= xlo && xq <= xhi && yq >= ylo && yq <= yhi) onb = true;
    if ((y0 > yq) != (y1 > yq))
    {
      double dy = y1 - y0;
      double lhs = (x0 - xq) * dy + (yq - y0) * (x1 - x0); // (xinter - xq) * dy
      if (dy > 0 ? lhs > 0 : lhs < 0) cross++;
    }
  }
  vf_assume(!onb); // the property excludes boundary points

  PolyElem p(x, y);
  VectorDouble q(2);
  q[0] = xq;
  q[1] = yq;
  bool got = p.inside(q);
  vf_assert_id(got == ((cross % 2) == 1), "inside == even-odd crossing parity");
  vf_witness();
}
