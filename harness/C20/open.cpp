// C20.b: a polygon "left open" (last vertex not repeated) given to Polygons is closed by
// Polygons::getClosedPolyElem / PolyElem::closePolyElem before the real PolyElem::inside runs:
// Polygons::inside must equal the even-odd rule of the closed polygon (grid inputs, point off
// the boundary).  Also: an already closed element is not modified by closePolyElem.
#include "vf.h"
#include "Polygon/Polygons.hpp"
#include "Polygon/PolyElem.hpp"
#ifndef VF_NV
#define VF_NV 3
#endif
#ifndef VF_G
#define VF_G 1048576
#endif
extern "C" void k_open_polygon()
{
  const int nv = VF_NV;
  double xi[VF_NV + 1], yi[VF_NV + 1];
  VectorDouble x(nv), y(nv);
  for (int i = 0; i < nv; i++)
  {
    xi[i] = vf_grid_double(VF_G);
    yi[i] = vf_grid_double(VF_G);
    x[i] = xi[i];
    y[i] = yi[i];
  }
  xi[nv] = xi[0];
  yi[nv] = yi[0];
  double xq = vf_grid_double(VF_G);
  double yq = vf_grid_double(VF_G);
  // "left open": first and last given vertices differ by more than the closing tolerance
  vf_assume(xi[0] != xi[nv - 1] || yi[0] != yi[nv - 1]);

  bool onb = false;
  int cross = 0;
  for (int j = 0; j < nv; j++)
  {
    double x0 = xi[j], y0 = yi[j], x1 = xi[j + 1], y1 = yi[j + 1];
    double cr = (x1 - x0) * (yq - y0) - (y1 - y0) * (xq - x0);
    double xlo = x0 < x1 ? x0 : x1, xhi = x0 < x1 ? x1 : x0;
    double ylo = y0 < y1 ? y0 : y1, yhi = y0 < y1 ? y1 : y0;
    if (cr == 0 && xq >= xlo && xq <= xhi && yq >= ylo && yq <= yhi) onb = true;
    if ((y0 > yq) != (y1 > yq))
    {
      double dy = y1 - y0;
      double lhs = (x0 - xq) * dy + (yq - y0) * (x1 - x0);
      if (dy > 0 ? lhs > 0 : lhs < 0) cross++;
    }
  }
  vf_assume(!onb);

  Polygons pols;
  PolyElem e(x, y);
  pols.addPolyElem(e);
  VectorDouble q(2);
  q[0] = xq;
  q[1] = yq;
  bool got = pols.inside(q, false);
  vf_assert_id(got == ((cross % 2) == 1), "open polygon: set answer == even-odd parity of the closed polygon");
  vf_witness();
}

// closing rules alone (no query point, no geometric assumption: keeps these obligations linear)
extern "C" void k_close_rules()
{
  const int nv = VF_NV;
  double xi[VF_NV], yi[VF_NV];
  VectorDouble x(nv), y(nv);
  for (int i = 0; i < nv; i++)
  {
    xi[i] = (double)vf_range(-VF_G, VF_G); // linear obligations only: plain integers are the faster encoding here
    yi[i] = (double)vf_range(-VF_G, VF_G);
    x[i] = xi[i];
    y[i] = yi[i];
  }
  vf_assume(xi[0] != xi[nv - 1] || yi[0] != yi[nv - 1]);
  Polygons pols;
  PolyElem e(x, y);
  pols.addPolyElem(e);
  vf_assert_id(pols.getPolyElem(0).getNPoints() == nv, "the stored element itself is left as given");
  PolyElem c = pols.getClosedPolyElem(0);
  vf_assert_id(c.getNPoints() == nv + 1 && c.getX(nv) == xi[0] && c.getY(nv) == yi[0], "closing repeats vertex 0");
  for (int i = 0; i < nv; i++) vf_assert_id(c.getX(i) == xi[i] && c.getY(i) == yi[i], "closing keeps the given vertices");
  c.closePolyElem();
  vf_assert_id(c.getNPoints() == nv + 1, "a closed element is left unchanged by closePolyElem");
  vf_witness();
}
