// C20.e: db_polygon (src/Polygon/Polygons.cpp): the selection of data-base samples by a polygon set marks
// exactly the samples whose location passes Polygons::inside; masked samples get 0 when the previous
// selection is taken into account (flag_sel); with flag_period the first coordinate (a longitude) is also
// tried shifted by -360 and +360 degrees and the answers are OR-ed; every sample is written exactly once.
// Real code: db_polygon (sample loop, coordinate vector handling), Db::getCoordinatesPerSampleInPlace.
// Polygons::inside is an arbitrary boolean per (sample, longitude shift) - the geometry is C20.a/b/c.
#include "vf.h"
#include "Polygon/Polygons.hpp"
#include "Db/Db.hpp"
#include "Basic/NamingConvention.hpp"
#include "Basic/AStringable.hpp"
#include "Basic/Utilities.hpp"
#include "Enum/ELoc.hpp"
#include <new>
#include <string_view>

#ifndef VF_NECH
#define VF_NECH 3
#endif
#ifndef VF_NDIM
#define VF_NDIM 2
#endif
#define N VF_NECH
#define GRID (1 << 20)

// ---------------------------------------------------------------- symbolic tables
static double g_x[N][3];   // coordinates of the samples (integer grid); only the first VF_NDIM are the Db's
static bool g_act[N];      // Db::isActive
static bool g_in[N][3];    // answer of Polygons::inside for sample i with longitude shift -360 / 0 / +360
static int g_iatt;         // column identifier returned by addColumnsByConstant
static bool g_nested;
// ---------------------------------------------------------------- recording
static Db* g_db;
static const Polygons* g_pol;
static const NamingConvention* g_nc;
static int g_cur;          // sample whose coordinates were loaded last
static int g_nadd, g_nwrite[N], g_nname;
static double g_val[N];

// ---------------------------------------------------------------- overrides: Db
class PolyDb: public Db
{
public:
  virtual int getNDim() const override;
  virtual double getCoordinate(int iech, int idim, bool flag_rotate = true) const override;
};
int PolyDb::getNDim() const { return VF_NDIM; }
// called by the real Db::getCoordinatesPerSampleInPlace
double PolyDb::getCoordinate(int iech, int idim, bool flag_rotate) const
{
  (void)flag_rotate;
  g_cur = iech;
  return g_x[iech][idim];
}
extern "C" char vt_PolyDb[] asm("_ZTV6PolyDb");

int Db::addColumnsByConstant(int nadd, double valinit, const String& radix, const ELoc& locatorType, int locatorIndex, int nechInit)
{
  (void)valinit; (void)radix; (void)locatorType; (void)locatorIndex; (void)nechInit;
  vf_assert_id(this == g_db && nadd == 1, "one new column is created in the data base");
  g_nadd++;
  return g_iatt;
}
int Db::getSampleNumber(bool useSel) const { (void)useSel; return N; }
bool Db::isActive(int iech) const { return g_act[iech]; }
void Db::setArray(int iech, int iuid, double value)
{
  bool ok = this == g_db && iuid == g_iatt && iech >= 0 && iech < N;
  vf_assert_id(ok, "the selection is written in the new column at a valid sample rank");
  if (!ok) return;
  g_nwrite[iech]++;
  g_val[iech] = value;
}
// default argument ELoc::fromKey("UNKNOWN") of addColumnsByConstant, evaluated by db_polygon
const ELoc& ELoc::fromKey(const std::string_view key) { (void)key; return ELoc::UNKNOWN; }

// ---------------------------------------------------------------- overrides: environment
#ifdef VF_SOLVER
// length of the string literals "New" / "UNKNOWN" (default arguments built by db_polygon): libc function, plain loop here
extern "C" size_t strlen(const char* s)
{
  size_t n = 0;
  while (s[n] != 0) n++;
  return n;
}
#endif
void mes_process(const char* string, int ntot, int iech) { (void)string; (void)ntot; (void)iech; }
void NamingConvention::setNamesAndLocators(Db* dbout, int iattout_start, const String& qualifier, int nitems, bool flagSetLocator, int locatorShift) const
{
  (void)qualifier; (void)nitems; (void)flagSetLocator; (void)locatorShift;
  vf_assert_id(this == g_nc && dbout == g_db && iattout_start == g_iatt, "the new column is the one named and given the selection locator");
  g_nname++;
}
// the geometric test: an arbitrary boolean per (sample, shift); checks that it is asked about the coordinates of the
// sample being processed (possibly shifted by a whole turn along the first axis), with the caller's nesting option
bool Polygons::inside(const VectorDouble& coor, bool flag_nested) const
{
  int i = g_cur;
  bool same = this == g_pol && flag_nested == g_nested && (int)coor.size() == 3;
  vf_assert_id(same, "Polygons::inside is called on the given polygon set with the given nesting option and a 3-slot coordinate vector");
  if (!same) return false;
  double c0 = coor[0];
  int shift = (c0 == g_x[i][0] - 360.) ? 0 : (c0 == g_x[i][0]) ? 1 : (c0 == g_x[i][0] + 360.) ? 2 : -1;
  bool rest = coor[1] == g_x[i][1] && (VF_NDIM >= 3 ? coor[2] == g_x[i][2] : coor[2] > 1.e30);
  vf_assert_id(shift >= 0 && rest, "Polygons::inside receives the coordinates of the sample (first one possibly shifted by -360 / +360), third slot undefined in 2-D");
  if (shift < 0) return false;
  return g_in[i][shift];
}

alignas(16) static char db_buf[sizeof(PolyDb)];
alignas(16) static char pol_buf[sizeof(Polygons)];
alignas(16) static char nc_buf[sizeof(NamingConvention)];

extern "C" void k_db_polygon()
{
  // ---- all symbolic inputs, drawn unconditionally
  for (int i = 0; i < N; i++)
  {
    for (int d = 0; d < 3; d++) g_x[i][d] = vf_grid_double(GRID);
    g_act[i] = vf_nondet_bool();
    for (int s = 0; s < 3; s++) g_in[i][s] = vf_nondet_bool();
    g_nwrite[i] = 0;
    g_val[i] = -1.;
  }
  g_iatt = vf_range(0, 1000);
  bool flag_sel = vf_nondet_bool();
  bool flag_period = vf_nondet_bool();
  g_nested = vf_nondet_bool();
  g_cur = 0;
  g_nadd = g_nname = 0;

  *(void**)db_buf = (void*)(vt_PolyDb + 16);
  g_db = (Db*)db_buf;
  g_pol = (const Polygons*)pol_buf;
  g_nc = (const NamingConvention*)nc_buf;

  db_polygon(g_db, g_pol, flag_sel, flag_period, g_nested, *g_nc); // REAL code

  for (int i = 0; i < N; i++)
  {
    vf_assert_id(g_nwrite[i] == 1, "every sample is written exactly once");
    bool expected;
    if (flag_sel && !g_act[i]) expected = false;
    else if (flag_period) expected = g_in[i][0] || g_in[i][1] || g_in[i][2];
    else expected = g_in[i][1];
    vf_assert_id(g_val[i] == (expected ? 1. : 0.), "selection value == inside(location of the sample) (OR over the -360/0/+360 shifts when periodic); 0 for a masked sample when flag_sel");
  }
  vf_assert_id(g_nadd == 1 && g_nname == 1, "exactly one column is created and named");
  vf_witness();
}
