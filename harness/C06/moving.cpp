// C06.h / C05.d: the candidate loop and the glue of the moving-neighbourhood search
// (NeighMoving::getNeigh -> NeighMoving::_moving, src/Neigh/NeighMoving.cpp), single sector.
// Real code: NeighMoving::getNeigh, _moving (filter loop, nmini tests, tie-breaking perturbation),
// ANeigh::_discardUndefined with Db::isAllUndefined / isAllUndefinedByType / isSampleIndexValid,
// VH::arrangeInPlace (orderRanks with libstdc++ std::stable_sort, reorder, copy),
// NeighMoving::_movingSelect, ANeigh::_neighCompress.
// Symbolic tables answer for everything a sample "is":
//   act[i]            Db::isActive
//   uZ[i][v], uS[i][v] variable v of sample i undefined (TEST) for the Z / the SIMU locator
//   xv[i]             ANeigh::_xvalid (cross-validation exclusion of sample i for this target)
//   ok1[i], ok2[i]    two additional pair checkers (harness subclasses of ABiTargetCheck in _bipts)
//   in[i], d[i]       BiTargetCheckDistance::isOK answer and the distance it leaves in getDistance()
// The number of admissible samples decides allocation sizes inside arrangeInPlace, which the executor
// needs concrete: there is one entry per admissibility pattern VF mask (bit i = sample i admissible);
// WHY an inadmissible sample is rejected (which filter(s)) stays symbolic.
#include "vf.h"
#include "Neigh/NeighMoving.hpp"
#include "Neigh/ANeigh.hpp"
#include "Geometry/ABiTargetCheck.hpp"
#include "Geometry/BiTargetCheckDistance.hpp"
#include "Db/Db.hpp"
#include "Basic/OptDbg.hpp"
#include "Basic/Utilities.hpp"
#include "Enum/ELoc.hpp"
#include <new>

#ifndef VF_NECH
#define VF_NECH 3
#endif
#define N VF_NECH
#define NVAR 2
#define GRID (1 << 20)

// override (stub): nothrow operator new is only used by std::get_temporary_buffer inside std::stable_sort; it reports
// "no memory" (allowed at any time): libstdc++ then runs its buffer-less __inplace_stable_sort (insertion sort below
// 15 elements).  Same stub as harness/C11/vh.cpp.
void* operator new(std::size_t, const std::nothrow_t&) noexcept { return nullptr; }

// ---------------------------------------------------------------- symbolic tables
static bool g_act[N], g_uZ[N][NVAR], g_uS[N][NVAR], g_xv[N], g_ok1[N], g_ok2[N], g_in[N];
static double g_vZ[N][NVAR], g_vS[N][NVAR], g_d[N];
static bool g_flagXvalid, g_flagSimu;
static int g_nz; // number of Z variables of the data base: 0 or NVAR
static int g_target;

// ---------------------------------------------------------------- recording
static NeighMoving* nm;
static Db *g_dbin, *g_dbout;
static int g_loaded2; // sample currently loaded in _T2

// ---------------------------------------------------------------- overrides: Db
class MovDb: public Db
{
public:
  virtual void getSampleAsSTInPlace(int iech, SpaceTarget& P) const override;
};
void MovDb::getSampleAsSTInPlace(int iech, SpaceTarget& P) const { Db::getSampleAsSTInPlace(iech, P); }
extern "C" char vt_MovDb[] asm("_ZTV5MovDb");

int Db::getSampleNumber(bool useSel) const { (void)useSel; return N; }
bool Db::isActive(int iech) const { return g_act[iech]; }
// loads nothing: remembers which sample sits in the second target
void Db::getSampleAsSTInPlace(int iech, SpaceTarget& P) const
{
  if (&P == &nm->_T1)
    vf_assert_id(this == g_dbout && iech == g_target, "the target loaded in T1 is sample iech_out of the output Db");
  else
  {
    vf_assert_id(this == g_dbin && &P == &nm->_T2, "candidates are loaded from the input Db into T2");
    g_loaded2 = iech;
  }
}
int Db::getLocNumber(const ELoc& loctype) const
{
  if (&loctype == &ELoc::Z) return g_nz;
  if (&loctype == &ELoc::SIMU) return NVAR;
  return 0;
}
double Db::getZVariable(int iech, int item) const { return g_uZ[iech][item] ? TEST : g_vZ[iech][item]; }
double Db::getLocVariable(const ELoc& loctype, int iech, int item) const
{
  if (&loctype == &ELoc::SIMU) return g_uS[iech][item] ? TEST : g_vS[iech][item];
  return TEST;
}

// ---------------------------------------------------------------- reference
static bool all_undefined(int i)
{
  if (g_nz <= 0) return false;
  bool all = true;
  for (int v = 0; v < NVAR; v++)
    if (!(g_flagSimu ? g_uS[i][v] : g_uZ[i][v])) all = false;
  return all;
}
static bool admissible(int i)
{
  return g_act[i] && !all_undefined(i) && !(g_flagXvalid && g_xv[i]) && g_ok1[i] && g_ok2[i] && g_in[i];
}
// A pair checker (stage 1, 2: the two extra checkers, 3: the distance checker, which comes last) must not let
// through a sample that an earlier filter rejects: with every later answer positive, nmini <= 0 and nmaxi large
// (all arbitrary here) that sample would be returned.  The stub states this where it is called and then answers
// "no" for such a sample, so that the candidate count stays the one of the entry's pattern (the executor needs
// concrete allocation sizes in arrangeInPlace); on code that filters correctly the stub is just the table.
static bool checker_answer(int i, int stage, bool ans)
{
  bool usable = g_act[i] && !all_undefined(i);
  vf_assert_id(usable || !ans, "a masked or all-undefined sample is never accepted by the pair checkers as a candidate");
  bool prior = usable && !(g_flagXvalid && g_xv[i]);
  if (stage >= 2) prior = prior && g_ok1[i];
  if (stage >= 3) prior = prior && g_ok2[i];
#ifndef VF_C05
  vf_assert_id(prior || !ans, "a sample rejected by an earlier filter is never accepted by a later pair checker as a candidate");
#endif
  return ans && prior;
}

// ---------------------------------------------------------------- overrides: neighbourhood environment
unsigned int ASpaceObject::getNDim(int ispace) const { (void)ispace; return 2; }
bool OptDbg::query(const EDbg& option, bool discardForce) { (void)option; (void)discardForce; return false; }
int ANeigh::_xvalid(int iech_in, int iech_out, double eps)
{
  (void)eps;
  vf_assert_id(iech_out == g_target, "_xvalid is asked about the current target");
  return g_xv[iech_in];
}
// the distance checker answers from the tables for the sample loaded in T2
bool BiTargetCheckDistance::isOK(const SpaceTarget& T1, const SpaceTarget& T2) const
{
  (void)T1; (void)T2;
  _dist = g_d[g_loaded2];
  return checker_answer(g_loaded2, 3, g_in[g_loaded2]);
}
// two additional pair checkers
class HCheck: public ABiTargetCheck
{
public:
  HCheck(int id) : ABiTargetCheck(), _id(id) {}
  virtual bool isOK(const SpaceTarget& T1, const SpaceTarget& T2) const override
  {
    (void)T1; (void)T2;
    return _id == 1 ? checker_answer(g_loaded2, 1, g_ok1[g_loaded2]) : checker_answer(g_loaded2, 2, g_ok2[g_loaded2]);
  }
  virtual String toString(const AStringFormat* strfmt = nullptr) const override { (void)strfmt; return String(); }
  int _id;
};

alignas(16) static char nm_buf[sizeof(NeighMoving)];
alignas(16) static char dbin_buf[sizeof(MovDb)];
alignas(16) static char dbout_buf[sizeof(MovDb)];

static void run(const int mask)
{
  // ---- all symbolic inputs, drawn unconditionally and built constructively (no vf_assume: every input stream is usable)
  g_flagXvalid = vf_nondet_bool();
  g_flagSimu = vf_nondet_bool();
  bool hasz = vf_nondet_bool();
  g_nz = hasz ? NVAR : 0;
  g_target = vf_range(0, 5);
  int nmini = vf_nondet_int();
  int nmaxi = vf_range(1, 2147483647); // NeighMoving documents nmaxi as the (positive) maximum number of samples
  // distances: pairwise distinct integer-valued reals (ties are excluded by the property; the function perturbs the
  // distance of the k-th candidate by distmax*k*1e-9 < 1 here, which cannot reorder distinct integers), assigned to the
  // samples through an arbitrary permutation (Lehmer code)
  int pool[N];
  for (int i = 0; i < N; i++) pool[i] = i;
  double dk = 0.;
  for (int k = 0; k < N; k++)
  {
    int c = vf_range(0, N - 1 - k);
    int who = pool[c];
    for (int m = 0; m + 1 < N - k; m++) pool[m] = (m >= c) ? pool[m + 1] : pool[m];
    double g = vf_grid_double(GRID);
    if (g < 0.) g = -g;
    dk = (k == 0) ? g : dk + 1. + g;
    g_d[who] = dk;
  }
  for (int i = 0; i < N; i++)
  {
    g_act[i] = vf_nondet_bool();
    for (int v = 0; v < NVAR; v++)
    {
      g_uZ[i][v] = vf_nondet_bool();
      g_uS[i][v] = vf_nondet_bool();
      g_vZ[i][v] = vf_grid_double(100);
      g_vS[i][v] = vf_grid_double(100);
    }
    g_xv[i] = vf_nondet_bool();
    g_ok1[i] = vf_nondet_bool();
    g_ok2[i] = vf_nondet_bool();
    g_in[i] = vf_nondet_bool();
    int why = vf_range(0, 5);
    if ((mask >> i) & 1)
    {
      // admissible sample: passes every filter (at least one variable defined for the locator consulted;
      // the other locator's pattern and everything else stays arbitrary)
      g_act[i] = g_ok1[i] = g_ok2[i] = g_in[i] = true;
      if (g_flagXvalid) g_xv[i] = false;
      if (all_undefined(i))
      {
        if (g_flagSimu) g_uS[i][0] = false;
        else g_uZ[i][0] = false;
      }
    }
    else
    {
      // inadmissible sample: filter `why` rejects it, the answers of all other filters stay arbitrary (every
      // combination of reasons is reachable); a reason that cannot apply falls back to "masked"
      if (why == 1 && g_nz > 0)
        for (int v = 0; v < NVAR; v++)
        {
          if (g_flagSimu) g_uS[i][v] = true;
          else g_uZ[i][v] = true;
        }
      else if (why == 2 && g_flagXvalid) g_xv[i] = true;
      else if (why == 3) g_ok1[i] = false;
      else if (why == 4) g_ok2[i] = false;
      else if (why == 5) g_in[i] = false;
      else g_act[i] = false;
    }
  }

  // ---- objects
  *(void**)dbin_buf = (void*)(vt_MovDb + 16);
  *(void**)dbout_buf = (void*)(vt_MovDb + 16);
  g_dbin = (Db*)dbin_buf;
  g_dbout = (Db*)dbout_buf;
  g_dbin->_nech = N;
  g_dbout->_nech = 6;
  nm = (NeighMoving*)nm_buf;
  nm->ANeigh::_dbin = g_dbin;
  nm->ANeigh::_dbout = g_dbout;
  nm->ANeigh::_dbgrid = nullptr;
  nm->NeighMoving::_dbgrid = nullptr;
  nm->_flagSimu = g_flagSimu;
  nm->_flagXvalid = g_flagXvalid;
  nm->_flagKFold = false;
  nm->_useBallSearch = false;
  nm->_nMini = nmini;
  nm->_nMaxi = nmaxi;
  nm->_nSect = 1;
  nm->_nSMax = vf_nondet_int();
  new (&nm->_movingInd) VectorInt(N);
  new (&nm->_movingDst) VectorDouble(N);
  new (&nm->_movingIsect) VectorInt(1);
  new (&nm->_movingNsect) VectorInt(1);
  BiTargetCheckDistance bd; // real constructor (isotropic default); its isOK is overridden above
  nm->_biPtDist = &bd;
  HCheck c1(1), c2(2);
  new (&nm->_bipts) std::vector<ABiTargetCheck*>(2);
  nm->_bipts[0] = &c1;
  nm->_bipts[1] = &c2;
  g_loaded2 = 0;

  VectorInt ranks;
  nm->NeighMoving::getNeigh(g_target, ranks); // REAL code

  // ---- oracle
  int nadm = 0;
  for (int i = 0; i < N; i++)
    if (admissible(i)) nadm++;
  bool failed = N < nmini || nadm < nmini;
  int size = (int)ranks.size();
  // (a) C05: no masked / undefined sample among the returned ranks
  for (int p = 0; p < N; p++)
    if (p < size)
    {
      int r = ranks[p];
      bool valid = r >= 0 && r < N;
      vf_assert_id(valid, "returned ranks are sample ranks of the input Db");
      if (valid)
      {
        vf_assert_id(g_act[r], "a masked sample never appears in the returned ranks");
        vf_assert_id(!all_undefined(r), "a sample with all variables undefined never appears in the returned ranks");
      }
    }
#ifndef VF_C05
  // (c) fewer admissible samples than nmini: empty result
  if (failed) vf_assert_id(size == 0, "fewer than nmini admissible samples: the returned ranks are empty");
  else
  {
    // (b) the kept samples are the min(nmaxi, nadm) closest admissible ones, returned by increasing sample rank
    int nkept = 0;
    for (int i = 0; i < N; i++)
    {
      int closer = 0; // admissible samples closer to the target than sample i
      for (int j = 0; j < N; j++)
        if (admissible(j) && g_d[j] < g_d[i]) closer++;
      bool kept = admissible(i) && closer < nmaxi;
      bool present = false;
      for (int p = 0; p < N; p++)
        if (p < size && ranks[p] == i) present = true;
      vf_assert_id(present == kept, "a sample is returned iff it is admissible and fewer than nmaxi admissible samples are closer");
      if (kept) nkept++;
      // candidate list after the sort: the admissible samples by increasing distance
      if (admissible(i))
      {
        vf_assert_id(nm->_movingInd[closer] == i, "the candidate list holds exactly the admissible samples sorted by distance");
      }
    }
    vf_assert_id(size == nkept, "no rank is returned twice");
    for (int p = 0; p + 1 < N; p++)
      if (p + 1 < size) vf_assert_id(ranks[p] < ranks[p + 1], "returned ranks are increasing");
  }
#else
  (void)failed;
#endif
  vf_witness();
}

#define ENTRY(m) extern "C" void k_moving_m##m() { run(m); }
ENTRY(0) ENTRY(1) ENTRY(2) ENTRY(3) ENTRY(4) ENTRY(5) ENTRY(6) ENTRY(7)
#if VF_NECH >= 4
ENTRY(8) ENTRY(9) ENTRY(10) ENTRY(11) ENTRY(12) ENTRY(13) ENTRY(14) ENTRY(15)
#endif
