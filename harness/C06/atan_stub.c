/* C06.g.ieee: model of libm's atan for the bit-precise (cbmc) build of harness/C06/sector.cpp.
   Any value a faithful libm can return:
     x >= 0:  0 <= atan(x) <= fl(pi/2);  atan(x) == x for 0 <= x < 2^-27 (x - x^3/3 rounds to x);
              atan(x) >= 2^-28 for x >= 2^-27
     x <  0:  -atan(-x)
   The native builds (validation, replay) call the real libm. */
#ifdef __CPROVER__
double nondet_double(void);
static double vf_atan_pos(double x)
{
  double r = nondet_double();
  __CPROVER_assume(r >= 0.0 && r <= 0x1.921fb54442d18p+0);
  if (x < 0x1p-27)
    __CPROVER_assume(r == x);
  else
    __CPROVER_assume(r >= 0x1p-28);
  return r;
}
double atan(double x)
{
  if (x >= 0.0) return vf_atan_pos(x);
  return -vf_atan_pos(-x);
}
#endif
