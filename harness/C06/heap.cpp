// C06.d: nheap_push (src/Tree/neighbors_heap.cpp) as an inductive step: from an ARBITRARY max-heap
// row of VF_K (distance, index) pairs and an arbitrary pushed pair:
//   * the max-heap invariant d[(i-1)/2] >= d[i] holds afterwards,
//   * the multiset of pairs is old minus root plus new when new < max, unchanged when new > max
//     (new == max is a tie, which the property excludes: only the distance multiset is checked).
#include "vf.h"
#include "Tree/ball_algorithm.h"
#ifndef VF_K
#define VF_K 3
#endif
static int count_pair(const double* d, const int* ix, double v, int j)
{
  int c = 0;
  for (int i = 0; i < VF_K; i++)
    if (d[i] == v && ix[i] == j) c++;
  return c;
}
static int count_dist(const double* d, double v)
{
  int c = 0;
  for (int i = 0; i < VF_K; i++)
    if (d[i] == v) c++;
  return c;
}
extern "C" void k_heap_push()
{
  double d[VF_K], d0[VF_K], ed[VF_K];
  int ix[VF_K], ix0[VF_K], ei[VF_K];
  for (int i = 0; i < VF_K; i++)
  {
    d[i]  = vf_finite_double();
    ix[i] = vf_nondet_int();
  }
  // representation invariant of a heap row
  for (int i = 1; i < VF_K; i++) vf_assume(d[(i - 1) / 2] >= d[i]);
  for (int i = 0; i < VF_K; i++)
  {
    d0[i]  = d[i];
    ix0[i] = ix[i];
  }
  double* drows[1] = {d};
  int* irows[1]    = {ix};
  t_nheap h;
  h.distances = drows;
  h.indices   = irows;
  h.n_pts     = 1;
  h.n_nbrs    = VF_K;
  double val  = vf_finite_double();
  int ival    = vf_nondet_int();

  int ret = nheap_push(&h, 0, val, ival); // REAL code
  vf_assert_id(ret == 0, "returns 0");

  for (int i = 1; i < VF_K; i++) vf_assert_id(d[(i - 1) / 2] >= d[i], "max-heap invariant preserved");

  // expected content: the root is the maximum of a max-heap
  bool replace = val <= d0[0];
  for (int i = 0; i < VF_K; i++)
  {
    ed[i] = d0[i];
    ei[i] = ix0[i];
  }
  if (replace)
  {
    ed[0] = val;
    ei[0] = ival;
  }
  // both sides have VF_K elements: equal multiplicity of every expected element == multiset equality
  for (int i = 0; i < VF_K; i++)
    vf_assert_id(count_dist(d, ed[i]) == count_dist(ed, ed[i]), "distances: old minus max plus new if new <= max, else unchanged");
  if (val != d0[0])
  {
    for (int i = 0; i < VF_K; i++)
      vf_assert_id(count_pair(d, ix, ed[i], ei[i]) == count_pair(ed, ei, ed[i], ei[i]),
                   "pairs: old minus root plus new if new < max, unchanged if new > max");
  }
  vf_witness();
}
