// C06.j: BiTargetCheckDistance in 3-D (src/Geometry/BiTargetCheckDistance.cpp).
// The checker is built by its REAL constructor BiTargetCheckDistance(radius, coeffs, angles) with three
// coefficients, so the rotation matrix is the one GH::rotationMatrixInPlace / rotation3DMatrixInPlace store
// and the product is the real matrix_product_safe.
//
//  k_flag3d   (VF_SYMANG = 1): VF_NANG (1..3) arbitrary real angles are given (the constructor pads with zeros).
//             The anisotropy is "rotated" (getFlagRotation()) iff ANY of the given angles is non-zero.
//             GH::rotationGetSinCos is overridden (two arbitrary reals per call): the flag must not depend on them.
//  k_bidist3d (VF_SYMANG = 0): concrete angles (VF_A1, VF_A2, VF_A3), each a multiple of 90 degrees: the real
//             GH::rotationGetSinCos delivers exact 0 / +-1.  Reference: the frame is turned by VF_A1 around oz, then
//             by VF_A2 around the new oy', then by VF_A3 around the new ox''.  A quarter turn (90 or 270) around one
//             axis of the current frame exchanges the components of the increment along the two other axes (up to a
//             sign), a half turn / no turn keeps them (up to a sign); signs do not matter in
//                 accepted  <=>  radius >= 0  and  sum_d ((increment component along rotated axis d) / coeff_d)^2 <= radius^2.
// The two SpaceTarget objects are raw storage: only _coord (read by SpacePoint::getCoord) is built.
#include "vf.h"
#include "Geometry/BiTargetCheckDistance.hpp"
#include "Geometry/GeometryHelper.hpp"
#include "Space/SpaceTarget.hpp"
#include "Basic/Utilities.hpp"
#include <cmath>
#include <new>

#ifndef VF_SYMANG
#define VF_SYMANG 0
#endif
#ifndef VF_NANG
#define VF_NANG 3 // number of angles handed to the constructor (k_flag3d)
#endif
#ifndef VF_A1
#define VF_A1 0
#endif
#ifndef VF_A2
#define VF_A2 90
#endif
#ifndef VF_A3
#define VF_A3 0
#endif
#ifndef VF_G
#define VF_G 32 // coordinates on the integer grid |v| <= VF_G
#endif
#ifndef VF_CMAX
#define VF_CMAX 4 // anisotropy coefficients are k/4, k = 1..4*VF_CMAX
#endif

#if VF_SYMANG
static double g_cs[6];
static int g_ncall = 0;
void GeometryHelper::rotationGetSinCos(double angle, double* cosa, double* sina)
{
  (void)angle;
  *cosa = g_cs[(2 * g_ncall) % 6];
  *sina = g_cs[(2 * g_ncall + 1) % 6];
  g_ncall++;
}
#endif

alignas(16) static char t1buf[sizeof(SpaceTarget)];
alignas(16) static char t2buf[sizeof(SpaceTarget)];

static SpaceTarget* target(char* buf, double x, double y, double z)
{
  SpaceTarget* t = (SpaceTarget*)buf;
  new (&t->_coord) VectorDouble(3);
  t->_coord[0] = x;
  t->_coord[1] = y;
  t->_coord[2] = z;
  return t;
}

static double coeff_value()
{
  double k = vf_grid_double(4 * VF_CMAX);
  vf_assume(k >= 1.);
  return k / 4.;
}

#if VF_SYMANG
extern "C" void k_flag3d()
{
  double ang[3];
  for (int i = 0; i < 3; i++) ang[i] = vf_finite_double();
  for (int i = 0; i < 6; i++) g_cs[i] = vf_finite_double();
  double a0 = coeff_value(), a1 = coeff_value(), a2 = coeff_value();
  double radius = vf_grid_double(4 * VF_G);
  g_ncall = 0;

  VectorDouble coeffs(3);
  coeffs[0] = a0;
  coeffs[1] = a1;
  coeffs[2] = a2;
  VectorDouble angles(VF_NANG);
  bool any = false;
  for (int i = 0; i < VF_NANG; i++)
  {
    angles[i] = ang[i];
    if (ang[i] != 0.) any = true;
  }
  BiTargetCheckDistance bd(radius, coeffs, angles); // REAL constructor

  vf_assert_id(bd.getNDim() == 3, "3-D: the space dimension is the number of coefficients");
  vf_assert_id((bd.getFlagRotation() != 0) == any, "3-D: the rotation is in effect iff any of the given angles is non-zero");
  vf_assert_id(bd.getFlagAniso() != 0, "3-D: coefficients given: anisotropic");
  vf_witness();
}
#else
static void exchange(double& a, double& b)
{
  double t = a;
  a = b;
  b = t;
}

extern "C" void k_bidist3d()
{
  // sample anywhere on the grid, target = sample + increment (see bidist.cpp)
  double x2 = vf_grid_double(VF_G), y2 = vf_grid_double(VF_G), z2 = vf_grid_double(VF_G);
  double ddx = vf_grid_double(2 * VF_G), ddy = vf_grid_double(2 * VF_G), ddz = vf_grid_double(2 * VF_G);
  double x1 = x2 + ddx, y1 = y2 + ddy, z1 = z2 + ddz;
  double radius = vf_grid_double(4 * VF_G);
  double a0 = coeff_value(), a1 = coeff_value(), a2 = coeff_value();
  SpaceTarget* T1 = target(t1buf, x1, y1, z1);
  SpaceTarget* T2 = target(t2buf, x2, y2, z2);

  VectorDouble coeffs(3);
  coeffs[0] = a0;
  coeffs[1] = a1;
  coeffs[2] = a2;
  VectorDouble angles(3);
  angles[0] = (double)(VF_A1);
  angles[1] = (double)(VF_A2);
  angles[2] = (double)(VF_A3);
  BiTargetCheckDistance bd(radius, coeffs, angles); // REAL constructor
  bool got = bd.BiTargetCheckDistance::isOK(*T1, *T2); // REAL code

  // reference: components of the increment in the rotated frame, up to signs
  double w[3] = {x1 - x2, y1 - y2, z1 - z2};
  if (((VF_A1) / 90) % 2 != 0) exchange(w[0], w[1]); // quarter turn around oz
  if (((VF_A2) / 90) % 2 != 0) exchange(w[0], w[2]); // quarter turn around oy'
  if (((VF_A3) / 90) % 2 != 0) exchange(w[1], w[2]); // quarter turn around ox''
  double p = w[0] / a0, q = w[1] / a1, r = w[2] / a2;
  bool expected = radius >= 0. && p * p + q * q + r * r <= radius * radius;
  vf_assert_id(got == expected, "3-D anisotropic: accepted iff the point lies in the rotated ellipsoid of semi-axes radius*coeff");
  bool any = (VF_A1) != 0 || (VF_A2) != 0 || (VF_A3) != 0;
  vf_assert_id((bd.getFlagRotation() != 0) == any, "3-D: the rotation is in effect iff any angle is non-zero");
  vf_witness();
}
#endif
