// C06.i: BiTargetCheckDistance::isOK / _calculateDistance (src/Geometry/BiTargetCheckDistance.cpp), 2-D.
// The checker object is built by its REAL constructor from (radius, coeffs, angles), so the rotation
// matrix is the one GH::rotationMatrixInPlace stores (rotation2DMatrixInPlace, rotationGetSinCos)
// and the product is the real matrix_product_safe.  For an arbitrary angle GH::rotationGetSinCos is
// overridden and delivers two arbitrary reals (c, s) (VF_ROT == 1; the acceptance rule below is an
// identity in (c, s), so nothing else needs to be known about them) or the rational point (3/5, 4/5)
// of the unit circle (VF_ROT == 2); for the angles 0 / 90 / 180 / 270 the real function runs.
//
// Reference (the ellipse GH::getEllipse draws for the same parameters): with u = (c, s) the
// direction of the first anisotropy axis and v = (-s, c) the second one, and d = T1 - T2,
//     accepted  <=>  radius >= 0  and  ((d.u)/coeff0)^2 + ((d.v)/coeff1)^2 <= radius^2
// isotropic (no coeffs given): accepted <=> radius >= 0 and d.d <= radius^2.
// The two SpaceTarget objects are raw storage: only _coord (read by SpacePoint::getCoord) is built.
#include "vf.h"
#include "Geometry/BiTargetCheckDistance.hpp"
#include "Geometry/GeometryHelper.hpp"
#include "Space/SpaceTarget.hpp"
#include "Basic/Utilities.hpp"
#include <cmath>
#include <new>

#ifndef VF_ROT
#define VF_ROT 1 // 0: no angle given, 1: non-zero angle with arbitrary real (cos, sin), 2: fixed rational rotation (3/5, 4/5), 3: angle 0 given, 4: angle 90, 180 or 270
#endif
#ifndef VF_ANGLE
#define VF_ANGLE 90.
#endif
#ifndef VF_G
#define VF_G 64 // coordinates on the integer grid |v| <= VF_G
#endif
#ifndef VF_CMAX
#define VF_CMAX 4 // anisotropy coefficients are k/4, k = 1..4*VF_CMAX
#endif

#if VF_ROT == 2 || VF_ROT == 1
static double g_c, g_s;
void GeometryHelper::rotationGetSinCos(double angle, double* cosa, double* sina)
{
  (void)angle;
  *cosa = g_c;
  *sina = g_s;
}
#endif

alignas(16) static char t1buf[sizeof(SpaceTarget)];
alignas(16) static char t2buf[sizeof(SpaceTarget)];

static SpaceTarget* target(char* buf, double x, double y)
{
  SpaceTarget* t = (SpaceTarget*)buf;
  new (&t->_coord) VectorDouble(2);
  t->_coord[0] = x;
  t->_coord[1] = y;
  return t;
}

static double coeff_value()
{
  // k/4 with k = 1..4*VF_CMAX (drawn on the grid and assumed positive: an `if` would put an ite under the products)
  double k = vf_grid_double(4 * VF_CMAX);
  vf_assume(k >= 1.);
  return k / 4.;
}

extern "C" void k_bidist_iso()
{
  double x1 = vf_grid_double(VF_G), y1 = vf_grid_double(VF_G);
  double x2 = vf_grid_double(VF_G), y2 = vf_grid_double(VF_G);
  double radius = vf_grid_double(4 * VF_G);
  bool hr = vf_nondet_bool();
  if (hr) radius = radius / 2.;
  SpaceTarget* T1 = target(t1buf, x1, y1);
  SpaceTarget* T2 = target(t2buf, x2, y2);

  BiTargetCheckDistance bd(radius); // REAL constructor: isotropic, 2-D
  bool got = bd.BiTargetCheckDistance::isOK(*T1, *T2); // REAL code

  double dx = x1 - x2, dy = y1 - y2;
  bool expected = radius >= 0. && dx * dx + dy * dy <= radius * radius;
  vf_assert_id(got == expected, "isotropic: accepted iff the squared Euclidean distance is at most radius^2");
  VectorDouble incr = bd.getIncr();
  vf_assert_id(incr[0] == dx && incr[1] == dy, "isotropic: getIncr is the increment target - sample");
  vf_witness();
}

extern "C" void k_bidist_aniso()
{
  // sample anywhere on the grid, target = sample + (ddx, ddy): the code's subtraction T1 - T2 is then a single
  // symbolic term after linear normalisation (with four independent coordinates z3 gives up)
  double x2 = vf_grid_double(VF_G), y2 = vf_grid_double(VF_G);
  double ddx = vf_grid_double(2 * VF_G), ddy = vf_grid_double(2 * VF_G);
  double x1 = x2 + ddx, y1 = y2 + ddy;
  double radius = vf_grid_double(4 * VF_G);
  double a0 = coeff_value(), a1 = coeff_value();
  double theta = vf_grid_double(360);
#if VF_ROT == 3
  theta = 0.;
#elif VF_ROT == 1
  // (angle == 0 leaves the rotation flag unset: variant 3; kept apart because the two paths copy different vectors)
  vf_assume(theta != 0.);
#endif
  double cs0 = vf_finite_double(), cs1 = vf_finite_double();
#if VF_ROT == 4
  theta = VF_ANGLE; // 90, 180 or 270: one kernel per angle
#endif
  SpaceTarget* T1 = target(t1buf, x1, y1);
  SpaceTarget* T2 = target(t2buf, x2, y2);

  VectorDouble coeffs(2);
  coeffs[0] = a0;
  coeffs[1] = a1;
  double c = 1., s = 0.;
#if VF_ROT == 0
  (void)theta;
  BiTargetCheckDistance bd(radius, coeffs); // REAL constructor
#else
  VectorDouble angles(1);
  angles[0] = theta;
#if VF_ROT == 2
  g_c = c = 3. / 5.;
  g_s = s = 4. / 5.;
  vf_assume(theta != 0.);
#elif VF_ROT == 1
  g_c = c = cs0;
  g_s = s = cs1;
#else
  // the numbers the real GH::rotationGetSinCos delivers for the angles it special-cases
  if (theta == 90.) { c = 0.; s = 1.; }
  else if (theta == 180.) { c = -1.; s = 0.; }
  else if (theta == 270.) { c = 0.; s = -1.; }
#endif
  BiTargetCheckDistance bd(radius, coeffs, angles); // REAL constructor
#endif
  bool got = bd.BiTargetCheckDistance::isOK(*T1, *T2); // REAL code

  double dx = x1 - x2, dy = y1 - y2;
  double p = (dx * c + dy * s) / a0;  // component along the first axis u = (c, s), in units of coeff0
  double q = (dy * c - dx * s) / a1;  // component along the second axis v = (-s, c)
  bool expected = radius >= 0. && p * p + q * q <= radius * radius;
  vf_assert_id(got == expected, "anisotropic: accepted iff the point lies in the rotated ellipse of semi-axes radius*coeff");
  vf_witness();
}
