// C06.a / C06.b: sector quota and nmaxi selection of the moving neighbourhood
// (NeighMoving::_movingSectorNsmax, NeighMoving::_movingSelect, src/Neigh/NeighMoving.cpp).
// State as NeighMoving::_moving leaves it before the two calls: VF_NSEL candidates, listed in
// _movingInd by strictly increasing distance (ties excluded by the property), each candidate sample
// j carrying its sector ranks[j]; the samples that are not candidates have ranks == -1.
// NeighMoving is raw storage: only the fields these functions read are initialised.
#include "vf.h"
#include "Neigh/NeighMoving.hpp"
#include <new>
#ifndef VF_NSEL
#define VF_NSEL 4
#endif
#ifndef VF_NSECT
#define VF_NSECT 2
#endif
#define VF_NECH (VF_NSEL + 1) // one more sample than candidates: at least one sample is never a candidate

alignas(16) static char nm_buf[sizeof(NeighMoving)];
static NeighMoving* nm;
static int ind[VF_NSEL];    // candidate -> sample rank (sorted by distance)
static double dst[VF_NSEL]; // candidate distances, strictly increasing
static int sec0[VF_NECH];   // ranks[] before the call

static void build(VectorInt& ranks, bool trimmed)
{
  nm = (NeighMoving*)nm_buf;
  nm->_nSect = VF_NSECT;
  new (&nm->_movingInd) VectorInt(VF_NECH);
  new (&nm->_movingDst) VectorDouble(VF_NECH);
  new (&nm->_movingIsect) VectorInt(VF_NSECT);
  new (&nm->_movingNsect) VectorInt(VF_NSECT);
  // arbitrary injective candidate -> sample map (partial Fisher-Yates shuffle: every injection is reachable)
  int perm[VF_NECH];
  for (int j = 0; j < VF_NECH; j++)
  {
    sec0[j] = -1;
    perm[j] = j;
  }
  double dprev = 0;
  for (int i = 0; i < VF_NSEL; i++)
  {
    int r   = vf_range(i, VF_NECH - 1);
    int t   = perm[r];
    perm[r] = perm[i];
    perm[i] = t;
    ind[i]  = t;
    // strictly increasing non-negative distances (sorted, no ties): previous one plus a non-zero |step|
    double e = vf_finite_double();
    if (e < 0) e = -e;
    if (i > 0) vf_assume(e != 0);
    dst[i] = dprev + e;
    dprev  = dst[i];
    // sector of the candidate; after the quota step a candidate may already have been discarded (-1)
    int s = vf_range(trimmed ? -1 : 0, VF_NSECT - 1);
    sec0[ind[i]] = s;
    nm->_movingInd[i] = ind[i];
    nm->_movingDst[i] = dst[i];
  }
  // stale content of the work arrays is arbitrary
  for (int s = 0; s < VF_NSECT; s++)
  {
    nm->_movingIsect[s] = vf_nondet_int();
    nm->_movingNsect[s] = vf_nondet_int();
  }
  for (int j = 0; j < VF_NECH; j++) ranks[j] = sec0[j];
}

static bool is_candidate(int j)
{
  for (int i = 0; i < VF_NSEL; i++)
    if (ind[i] == j) return true;
  return false;
}

extern "C" void k_sector_nsmax()
{
  VectorInt ranks(VF_NECH);
  build(ranks, false);
  int nsmax = vf_nondet_int();
  vf_assume(nsmax > 0); // _moving calls the function only when getNSMax() > 0
  nm->_nSMax = nsmax;

  nm->_movingSectorNsmax(VF_NSEL, ranks); // REAL code

  for (int i = 0; i < VF_NSEL; i++)
  {
    int s = sec0[ind[i]];
    int closer = 0; // candidates of the same sector that are closer to the target
    for (int k = 0; k < VF_NSEL; k++)
      if (sec0[ind[k]] == s && dst[k] < dst[i]) closer++;
    if (closer < nsmax)
      vf_assert_id(ranks[ind[i]] == s, "the min(count,nsmax) closest of a sector keep their sector");
    else
      vf_assert_id(ranks[ind[i]] == -1, "candidates beyond the sector quota are discarded");
  }
  for (int j = 0; j < VF_NECH; j++)
    if (!is_candidate(j)) vf_assert_id(ranks[j] == -1, "non-candidates stay unselected");
  vf_witness();
}

extern "C" void k_select()
{
  VectorInt ranks(VF_NECH);
  build(ranks, true);
  int nmaxi = vf_nondet_int();
  vf_assume(nmaxi > 0); // nmaxi <= 0 means "no limit" (the function returns at once)
  nm->_nMaxi = nmaxi;

  nm->_movingSelect(VF_NSEL, ranks); // REAL code

  // reference: order the available candidates by (rank inside their sector, sector number); cycling over
  // the sectors and taking the next-closest of each non-exhausted sector enumerates them in that order
  int avail = 0;
  int rin[VF_NSEL];
  for (int i = 0; i < VF_NSEL; i++)
  {
    int s = sec0[ind[i]];
    rin[i] = 0;
    if (s < 0) continue;
    avail++;
    for (int k = 0; k < VF_NSEL; k++)
      if (sec0[ind[k]] == s && dst[k] < dst[i]) rin[i]++;
  }
  int kept = 0, total = 0;
  for (int i = 0; i < VF_NSEL; i++)
  {
    int j = ind[i];
    int s = sec0[j];
    if (s < 0)
    {
      vf_assert_id(ranks[j] == -1, "discarded candidates stay discarded");
      continue;
    }
    int before = 0;
    for (int k = 0; k < VF_NSEL; k++)
    {
      int sk = sec0[ind[k]];
      if (sk < 0) continue;
      if (rin[k] < rin[i] || (rin[k] == rin[i] && sk < s)) before++;
    }
    bool keep = before < nmaxi;
    if (keep)
      vf_assert_id(ranks[j] == s, "kept set == cycling over the sectors, next-closest first");
    else
      vf_assert_id(ranks[j] == -1, "candidates beyond nmaxi are discarded");
    vf_assume(ranks[j] == (keep ? s : -1)); // lemma: just asserted under the same path condition
    if (keep) kept++;
    if (ranks[j] >= 0) total++;
#if VF_NSECT == 1
    // single sector: the nmaxi closest
    {
      int closer = 0;
      for (int k = 0; k < VF_NSEL; k++)
        if (sec0[ind[k]] >= 0 && dst[k] < dst[i]) closer++;
      vf_assert_id((ranks[j] == 0) == (closer < nmaxi), "single sector: exactly the nmaxi closest are kept");
    }
#endif
  }
  for (int j = 0; j < VF_NECH; j++)
    if (!is_candidate(j)) vf_assert_id(ranks[j] == -1, "non-candidates stay unselected");
  // total = number of candidates whose rank is still >= 0 (all other samples are -1, asserted above)
  vf_assert_id(total == kept, "total kept == size of the cycling selection");
  vf_assert_id(kept == (nmaxi < avail ? nmaxi : avail), "total kept == min(nmaxi, available)");
  vf_witness();
}
