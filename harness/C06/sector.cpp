// C06.g: NeighMoving::_movingSectorDefine (src/Neigh/NeighMoving.cpp): for every finite
// (dx,dy) != (0,0) and every number of sectors nsect in 2..16 the sector index lies in [0, nsect)
// (it is used as an index into _movingNsect / compared with sector numbers).
// NeighMoving is raw storage: the function reads _nSect only.
//  * symex build (C06.g):       real-arithmetic reading, atan is an uninterpreted function with the
//                               range axioms given in the registry.
//  * cbmc build  (C06.g.ieee):  bit-precise IEEE doubles, atan is the C stub harness/C06/atan_stub.c.
#include "vf.h"
#include "Neigh/NeighMoving.hpp"
#ifndef VF_NSECT_LO
#define VF_NSECT_LO 2
#endif
#ifndef VF_NSECT_HI
#define VF_NSECT_HI 16
#endif
alignas(16) static char nm_buf[sizeof(NeighMoving)];

extern "C" void k_sector_define()
{
  NeighMoving* nm = (NeighMoving*)nm_buf;
  double dx = vf_finite_double();
  double dy = vf_finite_double();
  vf_assume(!(dx == 0. && dy == 0.));
  for (int nsect = VF_NSECT_LO; nsect <= VF_NSECT_HI; nsect++)
  {
    nm->_nSect = nsect;
    int isect  = nm->_movingSectorDefine(dx, dy); // REAL code
    vf_assert_id(isect >= 0, "sector index >= 0");
    vf_assert_id(isect < nsect, "sector index < nsect");
  }
  vf_witness();
}
