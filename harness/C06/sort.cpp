// C06.e: simultaneous_sort (src/Tree/neighbors_heap.cpp) sorts (dist, idx) pairs ascending
// and keeps them a permutation, for every size up to VF_N and every content (no NaN).
// Modular step: the function's recursive self-call is replaced (by the translator) with
// k_sort_contract below, i.e. "a call on a strictly shorter array sorts it"; the tail
// recursion that clang turned into a loop is executed as real code.  By induction on the
// size the verdict covers the whole recursion for sizes <= VF_N.
#include "vf.h"
#include "Tree/ball_algorithm.h"
void simultaneous_sort(double* dist, int* idx, int size);
#ifndef VF_N
#define VF_N 6
#endif
static int vf_top_size;
extern "C" void k_sort_contract(double* dist, int* idx, int m)
{
  // induction hypothesis is only available for strictly smaller sizes
  vf_assert_id(m >= 0 && m < vf_top_size, "recursive call is on a strictly shorter array");
  if (m < 0 || m > VF_N) return;
  double od[VF_N + 1];
  int oi[VF_N + 1];
  int p[VF_N + 1];
  for (int i = 0; i < m; i++) { od[i] = dist[i]; oi[i] = idx[i]; }
  for (int i = 0; i < m; i++)
  {
    p[i] = vf_range(0, m - 1);
    for (int j = 0; j < i; j++) vf_assume(p[j] != p[i]);
  }
  for (int i = 0; i < m; i++) { dist[i] = od[p[i]]; idx[i] = oi[p[i]]; }
  for (int i = 0; i + 1 < m; i++) vf_assume(dist[i] <= dist[i + 1]);
}
extern "C" void k_sort()
{
  int n = vf_range(0, VF_N);
  vf_top_size = n;
  double d[VF_N + 1];
  int id[VF_N + 1];
  double d0[VF_N + 1];
  for (int i = 0; i < n; i++)
  {
    d[i] = vf_finite_double();
    d0[i] = d[i];
    id[i] = i; // idx identifies the original slot: permutation check by lookup
  }
  simultaneous_sort(d, id, n);
  for (int i = 0; i + 1 < n; i++) vf_assert_id(d[i] <= d[i + 1], "sorted ascending");
  bool seen[VF_N + 1];
  for (int i = 0; i < n; i++) seen[i] = false;
  for (int i = 0; i < n; i++)
  {
    int j = id[i];
    vf_assert_id(j >= 0 && j < n, "index in range");
    if (j >= 0 && j < n)
    {
      vf_assert_id(!seen[j], "indices stay a permutation");
      seen[j] = true;
      vf_assert_id(d[i] == d0[j], "distance travels with its index");
    }
  }
  vf_witness();
}
