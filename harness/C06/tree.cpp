// C06.c: k-nearest-neighbour query of the ball tree (src/Tree/ball_algorithm.cpp,
// src/Tree/neighbors_heap.cpp): the REAL btree_init builds the tree over VF_N points with integer
// coordinates (VF_D features, |v| <= VF_G), then the REAL nheap_load (min_dist + query_depth_first with
// nheap_push, nheap_largest) answers the queries of VF_NQ arbitrary grid targets (one heap row each).
// Oracle, for every row: exhaustive search with the same metric function: the row holds VF_K distinct
// samples with their true distance and no sample left out is closer than the largest kept one
// (== exactly the VF_K smallest distances).
//   VF_METRIC 2: manhattan_distance (real code, selected through default_distance_function = 2)
//   VF_METRIC 1: Euclidean distance through the dist_function argument of btree_init
//                (the library's euclidean_distance goes through SpacePoint/ASpace: not executable)
#include "vf.h"
#include "Tree/ball_algorithm.h"
#include <math.h>
#ifndef VF_N
#define VF_N 4
#endif
#ifndef VF_D
#define VF_D 1
#endif
#ifndef VF_LEAF
#define VF_LEAF 1
#endif
#ifndef VF_K
#define VF_K 2
#endif
#ifndef VF_G
#define VF_G 8
#endif
#ifndef VF_METRIC
#define VF_METRIC 2
#endif
#ifndef VF_NQ
#define VF_NQ 1 // number of targets (rows of the heap)
#endif

#if VF_METRIC == 1
static double vf_euclid(const double* x1, const double* x2, int size)
{
  double s = 0.;
  for (int i = 0; i < size; i++) s += (x1[i] - x2[i]) * (x1[i] - x2[i]);
  return sqrt(s);
}
#define VF_DIST vf_euclid
#define VF_DISTARG vf_euclid
#else
#define VF_DIST manhattan_distance
#define VF_DISTARG nullptr
#endif

extern "C" void k_tree_query()
{
  static double pts[VF_N][VF_D];
  const double* rows[VF_N];
  for (int i = 0; i < VF_N; i++)
  {
    rows[i] = pts[i];
    for (int j = 0; j < VF_D; j++) pts[i][j] = vf_grid_double(VF_G);
  }
  static double q[VF_NQ][VF_D]; // VF_NQ targets
  const double* xs[VF_NQ];
  for (int t = 0; t < VF_NQ; t++)
  {
    xs[t] = q[t];
    for (int j = 0; j < VF_D; j++) q[t][j] = vf_grid_double(VF_G);
  }

  t_btree* b = btree_init(rows, VF_N, VF_D, VF_DISTARG, VF_LEAF, VF_METRIC); // REAL code
  vf_assert_id(b != nullptr, "tree is built");
  if (b == nullptr) return;

  // heap (one row per target) as nheap_init leaves it, with a finite "infinity" above every possible
  // distance (the exact-arithmetic engine has no infinities)
  const double big = 4. * VF_G * VF_D + 1.;
  double hd[VF_NQ][VF_K];
  int hi[VF_NQ][VF_K];
  double* drows[VF_NQ];
  int* irows[VF_NQ];
  for (int t = 0; t < VF_NQ; t++)
  {
    drows[t] = hd[t];
    irows[t] = hi[t];
    for (int j = 0; j < VF_K; j++)
    {
      hd[t][j] = big;
      hi[t][j] = 0;
    }
  }
  t_nheap h;
  h.distances = drows;
  h.indices   = irows;
  h.n_pts     = VF_NQ;
  h.n_nbrs    = VF_K;

  nheap_load(&h, b, xs); // REAL code: min_dist + query_depth_first for every target

  for (int t = 0; t < VF_NQ; t++)
  {
    // exhaustive search with the same metric
    double dd[VF_N];
    for (int i = 0; i < VF_N; i++) dd[i] = VF_DIST(q[t], pts[i], VF_D);
    double largest = hd[t][0];
    for (int j = 1; j < VF_K; j++)
      if (hd[t][j] > largest) largest = hd[t][j];
    bool in_heap[VF_N];
    for (int i = 0; i < VF_N; i++) in_heap[i] = false;
    for (int j = 0; j < VF_K; j++)
    {
      int s = hi[t][j];
      vf_assert_id(s >= 0 && s < VF_N, "heap index is a sample rank");
      if (s < 0 || s >= VF_N) continue;
      vf_assert_id(!in_heap[s], "heap samples are distinct");
      in_heap[s] = true;
      vf_assert_id(hd[t][j] == dd[s], "heap distance is the distance of its sample");
    }
    for (int i = 0; i < VF_N; i++)
      if (!in_heap[i]) vf_assert_id(dd[i] >= largest, "no sample left out is closer than the kept ones");
  }
  vf_witness();
}
