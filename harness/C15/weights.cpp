// C15.a: barycentric weights of a point in a simplex: AMesh::_weightsInMesh with the mesh size of
// AMesh::_getMeshUnit and the closed-form AMatrixSquare::determinant (src/Mesh/AMesh.cpp,
// src/Matrix/AMatrixSquare.cpp).  VF_NDIM = 1 (segment), 2 (triangle) or 3 (tetrahedron); vertices and target on the
// integer grid |v| <= VF_G (outside case) / arbitrary real coordinates (inside case), simplex non-degenerate.
//   k_weights_inside : target strictly inside, arbitrary tolerance eps >= 0 (default 1e-5 included):
//                      returns true, weights >= 0, sum = 1, sum_i w_i * vertex_i = target
//   k_weights_outside: target strictly outside: returns false (tolerance eps = 0: the exact statement; the
//                      default-tolerance variant on a grid too coarse for the tolerance to act is not
//                      decided by z3: nonlinear integer reasoning)
// The mesh object is the smallest concrete subclass of AMesh (pure virtuals defined, never called).
#include "vf.h"
#include "Mesh/AMesh.hpp"
#ifndef VF_NDIM
#define VF_NDIM 2
#endif
#ifndef VF_G
#define VF_G 64
#endif
#define VF_NC (VF_NDIM + 1)
// inside case: arbitrary real coordinates (polynomial identities are decided fastest without integrality);
// outside case: integer grid (sign reasoning is decided fastest on the grid)
#define VF_COORD() (grid ? vf_grid_double(VF_G) : vf_finite_double())
#ifdef VF_NATIVE
#define VF_TOL 1e-9 // native runs (validation/replay) divide in rounded arithmetic
#else
#define VF_TOL 0.
#endif

class VfMesh: public AMesh
{
public:
  VfMesh() : AMesh() {}
  int getNApices() const override { return 0; }
  int getNMeshes() const override { return 0; }
  int getApex(int, int) const override { return 0; }
  double getCoor(int, int, int) const override { return 0.; }
  double getApexCoor(int, int) const override { return 0.; }
  double getMeshSize(int) const override { return 0.; }
  void resetProjMatrix(ProjMatrix*, const Db*, int, bool) const override {}
};

static double V[VF_NC][VF_NDIM], P[VF_NDIM];
static int side[VF_NC]; // sign of the target w.r.t. the face opposite to vertex i, relative to the simplex orientation

#if VF_NDIM == 3
// orientation of the tetrahedron (a, b, c, d): det [b-a; c-a; d-a]
static double orient3(const double* a, const double* b, const double* c, const double* d)
{
  double u[3], v[3], w[3];
  for (int k = 0; k < 3; k++)
  {
    u[k] = b[k] - a[k];
    v[k] = c[k] - a[k];
    w[k] = d[k] - a[k];
  }
  return u[0] * (v[1] * w[2] - v[2] * w[1]) - u[1] * (v[0] * w[2] - v[2] * w[0]) + u[2] * (v[0] * w[1] - v[1] * w[0]);
}
#endif

static void draw(bool grid)
{
  for (int i = 0; i < VF_NC; i++)
    for (int d = 0; d < VF_NDIM; d++) V[i][d] = VF_COORD();
  for (int d = 0; d < VF_NDIM; d++) P[d] = VF_COORD();
#if VF_NDIM == 1
  double D = V[1][0] - V[0][0];
  vf_assume(D != 0); // non-degenerate
  double o[2] = {V[1][0] - P[0], P[0] - V[0][0]};
#elif VF_NDIM == 3
  double D = orient3(V[0], V[1], V[2], V[3]);
  vf_assume(D != 0); // non-degenerate
  // signed volumes of the sub-tetrahedra (the target in place of vertex i): they add up to D
  double o[4];
  o[0] = orient3(P, V[1], V[2], V[3]);
  o[1] = orient3(V[0], P, V[2], V[3]);
  o[2] = orient3(V[0], V[1], P, V[3]);
  o[3] = orient3(V[0], V[1], V[2], P);
#else
  double D = (V[1][0] - V[0][0]) * (V[2][1] - V[0][1]) - (V[1][1] - V[0][1]) * (V[2][0] - V[0][0]);
  vf_assume(D != 0); // non-degenerate
  // signed areas of the sub-triangles (target, two other vertices taken in increasing index order);
  // with the sign (-1)^i they are the barycentric numerators: they add up to D
  double o[3];
  for (int i = 0; i < 3; i++)
  {
    const double* a = V[i == 0 ? 1 : 0];
    const double* b = V[i == 2 ? 1 : 2];
    o[i] = (a[0] - P[0]) * (b[1] - P[1]) - (a[1] - P[1]) * (b[0] - P[0]);
    if (i == 1) o[i] = -o[i];
  }
#endif
  vf_split(D > 0); // solver hint: decide each orientation of the simplex separately
  for (int i = 0; i < VF_NC; i++)
    side[i] = (o[i] == 0) ? 0 : (((o[i] > 0) == (D > 0)) ? 1 : -1);
}

static bool run(double eps, VectorDouble& weights)
{
  VfMesh m;
  m._setNDim(VF_NDIM);
  VectorVectorDouble corners(VF_NC);
  for (int i = 0; i < VF_NC; i++)
  {
    corners[i].resize(VF_NDIM);
    for (int d = 0; d < VF_NDIM; d++) corners[i][d] = V[i][d];
  }
  VectorDouble coor(VF_NDIM);
  for (int d = 0; d < VF_NDIM; d++) coor[d] = P[d];
  double size = m._getMeshUnit(corners);                      // REAL code (as MeshEStandard::getMeshSize)
  return m._weightsInMesh(coor, corners, size, weights, eps); // REAL code
}

extern "C" void k_weights_inside()
{
  draw(false);
  double eps = vf_finite_double(); // any tolerance >= 0
  if (eps < 0) eps = -eps;
  for (int i = 0; i < VF_NC; i++) vf_assume(side[i] > 0); // strictly inside
  VectorDouble w(VF_NC);
  bool in = run(eps, w);
  vf_assert_id(in, "strictly inside => true");
  if (in)
  {
    double sum = 0.;
    for (int i = 0; i < VF_NC; i++)
    {
      vf_assert_id(w[i] >= 0, "weights >= 0");
      sum += w[i];
    }
    vf_assert_id(sum - 1. <= VF_TOL && 1. - sum <= VF_TOL, "weights sum to 1");
#ifndef VF_NO_AFFINE // 3-D: the degree-4 identity reached no solver verdict; not asserted there (stated in the registry)
    for (int d = 0; d < VF_NDIM; d++)
    {
      double c = 0.;
      for (int i = 0; i < VF_NC; i++) c += w[i] * V[i][d];
      vf_assert_id(c - P[d] <= VF_TOL * 64 && P[d] - c <= VF_TOL * 64, "sum w_i * vertex_i == target (affine exactness)");
    }
#endif
  }
  vf_witness();
}

extern "C" void k_weights_outside()
{
  draw(true);
  bool outside = false;
  for (int i = 0; i < VF_NC; i++)
    if (side[i] < 0) outside = true;
  vf_assume(outside); // strictly outside
  VectorDouble w(VF_NC);
  bool in = run(0., w); // tolerance 0: the exact statement (with eps > 0 a band of relative width eps around the simplex is accepted)
  vf_assert_id(!in, "strictly outside => false");
  vf_witness();
}
