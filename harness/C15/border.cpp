// C15.d2: MeshETurbo::resetProjMatrix (src/Mesh/MeshETurbo.cpp:513-605) on its REAL path for ONE sample lying anywhere
// in the CLOSED domain of a 2-D grid of 3x3 nodes, upper borders and top corner included.  Real code executed:
// Grid::coordinateToIndicesInPlace (default eps = EPSILON6), the "shift an upper-border point down by one node"
// correction, _addElementToTriplet, _addWeights (MSS table, Grid::indiceToRank / indiceToCoordinate, Indirection
// identity, MatrixSquareGeneral storage, AMatrix::invert / prodMatVecInPlace), NF_Triplet::force.  The 3x3 inverse
// (Eigen PartialPivLU behind AMatrixDense::_invert) is replaced by an exact inverse computed on the same Eigen storage.
// Defines: VF_POLAR 0/1 polarisation (concrete: the MSS table entries are then constants), VF_DX0 / VF_DX1 concrete meshes
// (default: arbitrary reals), VF_X0 origin expression, VF_LATTICE point on the dyadic lattice 2^-22 dx (bit-exact replay),
// VF_SPLIT_PARITY solver hint.
// Asserted (the projection clause of C15 for a point INSIDE the mesh):
//   the row of the sample is non-empty: exactly ncorner = 3 entries in row 0, columns = three distinct grid nodes;
//   every weight is in [0,1]; the weights sum to one and reproduce the coordinates of the point (affine exactness):
//   exactly when no weight sits on a bound of [0,1], and within ncorner * EPSILON6 (sum) / 2 * ncorner * EPSILON6 meshes
//   (coordinates) otherwise, because _addWeights accepts solved weights in [-EPSILON6, 1 + EPSILON6] and clips them.
//   k_border_exact: the point is not within eps*dx BELOW a grid line (where the round-off guard of
//                   coordinateToIndicesInPlace gives the point to the next cell);  k_border_band: no such restriction.
#include "vf.h"
#include "Mesh/MeshETurbo.hpp"
#include "Mesh/Delaunay.hpp"
#include "Matrix/MatrixSquareGeneral.hpp"
#include "Matrix/NF_Triplet.hpp"
#include "LinearOp/ProjMatrix.hpp"
#include "Db/Db.hpp"
#include "Enum/ELoc.hpp"
#include <new>
#ifndef VF_MUT
#  define VF_MUT 0
#endif
#define ND 2
#define NC 3
#define NX 3
#define NNODE (NX * NX)
#define MAXADD 16
#ifndef VF_X0
#  define VF_X0 vf_nondet_double()
#endif
#ifndef VF_DX0
#  define VF_DX0 vf_nondet_double()
#endif
#ifndef VF_DX1
#  define VF_DX1 vf_nondet_double()
#endif

static int T_bad;
void messerr(const char*, ...) {}
void message(const char*, ...) {}
void mesArg(const char*, int, int) {}
void mestitle(int, const char*, ...) {}

#ifdef VF_NATIVE
static bool req(double a, double b, double scale)
{
  double e = a - b;
  return (e < 0 ? -e : e) <= 1e-9 * scale;
}
#else
static bool req(double a, double b, double) { return a == b; }
#endif

// ---------------------------------------------------------------- data base: one active sample at P
alignas(16) static char dbbuf[sizeof(Db)];
#define DB ((Db*)dbbuf)
static double P[ND];
int  Db::getSampleNumber(bool useSel) const { (void)useSel; return 1; }
bool Db::isActive(int iech) const
{
  if (this != DB || iech != 0) T_bad++;
  return true;
}
static double v_getCoordinate(const Db* db, int iech, int idim, bool flag_rotate)
{
  (void)flag_rotate;
  if (db != DB || iech != 0 || idim < 0 || idim >= ND) { T_bad++; return 0.; }
  return P[idim];
}
#define VTN 128
static void* vt_db[VTN];
template <class PMF> static inline long vslot(PMF p)
{
  union { PMF p; long w[2]; } u;
  u.w[0] = 0;
  u.w[1] = 0;
  u.p    = p;
  return (u.w[0] - 1) / 8;
}
int AMesh::isCompatibleDb(const Db* db) const { (void)db; return 0; }

// ---------------------------------------------------------------- recorded triplet
static int    A_row[MAXADD], A_col[MAXADD], A_n;
static double A_val[MAXADD];
void NF_Triplet::add(int irow, int icol, double value)
{
  if (irow > _nrowmax) _nrowmax = irow; // as the real one, without the Eigen storage
  if (icol > _ncolmax) _ncolmax = icol;
  if (A_n >= MAXADD) { T_bad++; return; }
  A_row[A_n] = irow;
  A_col[A_n] = icol;
  A_val[A_n] = value;
  A_n++;
}
static int R_calls;
void MatrixSparse::resetFromTriplet(const NF_Triplet& NF_T) { (void)NF_T; R_calls++; }
alignas(16) static char pmbuf[sizeof(ProjMatrix)];

// ---------------------------------------------------------------- exact 3x3 inverse on the real (Eigen) storage
// A^-1 = E adj(B) / det(B) with B = A E, E = "subtract column 0 from columns 1 and 2" (valid for every invertible A;
// written this way because the differences of corner coordinates are formed before any product)
int AMatrixDense::_invert()
{
  if (getNRows() != NC || getNCols() != NC) { T_bad++; return 1; }
  double b[NC][NC], c[NC][NC];
  for (int i = 0; i < NC; i++)
  {
    b[i][0] = _eigenMatrix(i, 0);
    b[i][1] = _eigenMatrix(i, 1) - _eigenMatrix(i, 0);
    b[i][2] = _eigenMatrix(i, 2) - _eigenMatrix(i, 0);
  }
  c[0][0] = b[1][1] * b[2][2] - b[1][2] * b[2][1]; // cofactors of B
  c[0][1] = b[1][2] * b[2][0] - b[1][0] * b[2][2];
  c[0][2] = b[1][0] * b[2][1] - b[1][1] * b[2][0];
  c[1][0] = b[0][2] * b[2][1] - b[0][1] * b[2][2];
  c[1][1] = b[0][0] * b[2][2] - b[0][2] * b[2][0];
  c[1][2] = b[0][1] * b[2][0] - b[0][0] * b[2][1];
  c[2][0] = b[0][1] * b[1][2] - b[0][2] * b[1][1];
  c[2][1] = b[0][2] * b[1][0] - b[0][0] * b[1][2];
  c[2][2] = b[0][0] * b[1][1] - b[0][1] * b[1][0];
  double det = b[0][0] * c[0][0] + b[0][1] * c[0][1] + b[0][2] * c[0][2];
  if (det == 0.) return 1;
  double rdet = 1. / det;
  for (int j = 0; j < NC; j++) // B^-1(i,j) = c[j][i] / det ; A^-1 = E B^-1 : row 0 minus rows 1 and 2
  {
    _eigenMatrix(0, j) = (c[j][0] - c[j][1] - c[j][2]) * rdet;
    _eigenMatrix(1, j) = c[j][1] * rdet;
    _eigenMatrix(2, j) = c[j][2] * rdet;
  }
  return 0;
}

extern "C" char vt_MeshETurbo[] asm("_ZTV10MeshETurbo");
alignas(16) static char mbuf[sizeof(MeshETurbo)];
static double X0[ND], DX[ND];

static void run(bool exact)
{
  // every input first
  for (int d = 0; d < ND; d++) X0[d] = VF_X0;
  DX[0] = VF_DX0;
  DX[1] = VF_DX1;
  double Q[ND];
#ifdef VF_LATTICE // offsets on the dyadic lattice 2^-22 dx (exact in IEEE double: a counterexample replays bit for bit)
  for (int d = 0; d < ND; d++) Q[d] = vf_grid_double(8388608) * (1. / 4194304.);
#else
  for (int d = 0; d < ND; d++) Q[d] = vf_nondet_double(); // offset of the point from the origin
#endif
#ifdef VF_POLAR
  bool polar = (VF_POLAR != 0); // concrete: the MSS table entries are then constants of the linear system
#else
  bool polar = vf_nondet_bool();
#endif
  for (int d = 0; d < ND; d++)
  {
    vf_assume(DX[d] > 0.);
    vf_assume(X0[d] > -1.e6 && X0[d] < 1.e6 && DX[d] < 1.e6); // far below TEST = 1.234e30 (undefined value)
#ifdef VF_LATTICE
    Q[d] *= DX[d];
#endif
    vf_assume(Q[d] >= 0. && Q[d] <= (NX - 1) * DX[d]); // CLOSED grid domain
    P[d] = X0[d] + Q[d];
  }

  MeshETurbo* m = (MeshETurbo*)mbuf;
  *(void**)m    = (void*)(vt_MeshETurbo + 16); // real virtual table
  m->_nDim      = ND;
  {
    VectorInt    vnx(ND, NX);
    VectorDouble vx0(ND), vdx(ND);
    for (int d = 0; d < ND; d++) { vx0[d] = X0[d]; vdx[d] = DX[d]; }
    new (&m->_grid) Grid(ND, vnx, vx0, vdx); // REAL constructor (unrotated)
  }
  m->_isPolarized = polar;
  Indirection* ind[2] = {&m->_gridIndirect, &m->_meshIndirect};
  for (int i = 0; i < 2; i++)
  {
    ind[i]->_defined = false;
    ind[i]->_mode    = 0;
    ind[i]->_nabs = ind[i]->_nrel = 0;
    new (&ind[i]->_vecRToA) VectorInt();
    new (&ind[i]->_vecAToR) VectorInt();
  }
  m->_setNumberElementPerCell(); // REAL code
  long slot = vslot(static_cast<double (Db::*)(int, int, bool) const>(&Db::getCoordinate));
  if (slot >= 0 && slot < VTN) vt_db[slot] = (void*)&v_getCoordinate; else T_bad++;
  *(void***)dbbuf = vt_db;
  A_n = 0;
  R_calls = 0;
  T_bad = 0;

  // the round-off guard of coordinateToIndicesInPlace: a point within eps*dx below a grid line is given to the next cell
  const double eps = 1.e-6; // EPSILON6, the default of the argument
  bool   inband = false;
  double csum   = 0.;
  for (int d = 0; d < ND; d++)
  {
    double t  = (P[d] - X0[d]) / DX[d];
    double c  = floor(t + eps); // the start node coordinateToIndicesInPlace computes: 0, 1 or 2 (upper border)
    if (c != floor(t)) inband = true;
    csum += c;
  }
#ifdef VF_SPLIT_PARITY // solver hint only: case analysis over the parity of the start cell (which decides the polarisation)
  vf_split(csum == 0. || csum == 2. || csum == 4.);
#endif
  if (exact) vf_assume(!inband);

  m->MeshETurbo::resetProjMatrix((ProjMatrix*)pmbuf, DB, -1, false); // REAL code

  vf_assert_id(T_bad == 0 && R_calls == 1, "callbacks reached with the expected arguments only; triplet handed over once");
#if VF_MUT == 2 // self-test of the check only: claiming an empty row must be refuted
  vf_assert_id(A_n < NC, "MUT: row empty");
#endif
  // the three entries of the row; what follows can only be the dimension-forcing zero
  vf_assert_id(A_n >= NC, "point of the closed grid domain: its row is not empty (ncorner entries)");
  vf_assert_id(A_n <= NC + 1, "ncorner entries and at most one dimension-forcing entry");
  if (A_n > NC) vf_assert_id(A_val[NC] == 0. && A_row[NC] == 0 && A_col[NC] == NNODE - 1, "the extra entry is the dimension-forcing zero");
  if (A_n >= NC)
  {
    // su[d] = sum_i w_i * index_d(node_i): the point reproduced in mesh units from the origin, (p_d - x0_d)/dx_d.
    // Together with sum_i w_i == 1 this is sum_i w_i node_i == p for the nodes x0 + index * dx (affine exactness).
    double sum = 0., su[ND] = {0., 0.};
    bool   interior = true; // no weight on a bound of [0,1]: _addWeights has clipped nothing
    for (int i = 0; i < NC; i++)
    {
      vf_assert_id(A_row[i] == 0, "entries are in the row of the sample");
      vf_assert_id(A_col[i] >= 0 && A_col[i] < NNODE, "columns are grid nodes");
      vf_assert_id(A_val[i] >= 0. && A_val[i] <= 1., "weights are in [0,1]");
      if (!(A_val[i] > 0. && A_val[i] < 1.)) interior = false;
      sum += A_val[i];
      // node indices from the column (no mask: apex = grid rank, first dimension fastest), independent of the code
      for (int i1 = 0; i1 < NX; i1++)
        for (int i0 = 0; i0 < NX; i0++)
          if (A_col[i] == i0 + NX * i1)
          {
            su[0] += i0 * A_val[i];
            su[1] += i1 * A_val[i];
          }
    }
    vf_assert_id(A_col[0] != A_col[1] && A_col[0] != A_col[2] && A_col[1] != A_col[2], "the three columns are distinct nodes");
    // _addWeights accepts solved weights in [-eps, 1+eps] and clips them to [0,1]: each weight is within eps of the exact one
#if VF_MUT == 1 // self-test of the check only: a guard of width 0 must be refuted
    vf_assert_id(req(sum, 1., 1.), "MUT: sum exactly one");
#endif
    vf_assert_id(sum - 1. <= NC * eps && 1. - sum <= NC * eps, "weights sum to one (within ncorner * EPSILON6, the acceptance guard of _addWeights)");
    double u[ND];
    for (int d = 0; d < ND; d++)
    {
      u[d] = (P[d] - X0[d]) / DX[d];
      vf_assert_id(su[d] - u[d] <= 2 * NC * eps && u[d] - su[d] <= 2 * NC * eps,
                   "weights reproduce the coordinates of the point (within 2 * ncorner * EPSILON6 meshes)");
    }
    vf_assert_id(!interior || req(sum, 1., 1.), "no weight on a bound of [0,1]: weights sum to one exactly");
    vf_assert_id(!interior || req(su[0], u[0], 1.), "no weight on a bound of [0,1]: first coordinate reproduced exactly");
    vf_assert_id(!interior || req(su[1], u[1], 1.), "no weight on a bound of [0,1]: second coordinate reproduced exactly");
  }
  vf_witness();
}

extern "C" void k_border_exact() { run(true); }
extern "C" void k_border_band() { run(false); }
