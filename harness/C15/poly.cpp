// C15.e: ClassicalPolynomial::eval (src/Polynomials/ClassicalPolynomial.cpp), the Horner scheme,
// equals sum_k c_k x^k for arbitrary real coefficients and argument, degree VF_DEG.
// The object is raw storage: eval reads _coeffs only (constructed for real as a VectorDouble).
#include "vf.h"
#include "Polynomials/ClassicalPolynomial.hpp"
#include <new>
#ifndef VF_DEG
#define VF_DEG 3
#endif
alignas(16) static char pbuf[sizeof(ClassicalPolynomial)];
extern "C" void k_poly_eval()
{
  ClassicalPolynomial* p = (ClassicalPolynomial*)pbuf;
  new (&p->_coeffs) VectorDouble(VF_DEG + 1);
  double c[VF_DEG + 1];
  for (int k = 0; k <= VF_DEG; k++)
  {
    c[k]          = vf_finite_double();
    p->_coeffs[k] = c[k];
  }
  double x = vf_finite_double();

  double got = p->ClassicalPolynomial::eval(x); // REAL code (qualified: no virtual dispatch)

  // reference: explicit powers
  double ref = 0., xk = 1.;
  for (int k = 0; k <= VF_DEG; k++)
  {
    ref += c[k] * xk;
    xk *= x;
  }
#ifdef VF_NATIVE
  // native runs (validation/replay) compute both sides in rounded arithmetic: compare up to rounding
  double mag = 0., ax = x < 0 ? -x : x, xa = 1.;
  for (int k = 0; k <= VF_DEG; k++)
  {
    mag += (c[k] < 0 ? -c[k] : c[k]) * xa;
    xa *= ax;
  }
  double e = got - ref;
  if (e < 0) e = -e;
  vf_assert_id(e <= 1e-12 * mag, "Horner value == sum c_k x^k");
#else
  vf_assert_id(got == ref, "Horner value == sum c_k x^k");
#endif
  vf_witness();
}
