// C15.d: row assembly of the projection matrix, MeshETurbo::resetProjMatrix (+ _addElementToTriplet) and
// MeshEStandard::resetProjMatrix (src/Mesh/MeshETurbo.cpp:478-605, src/Mesh/MeshEStandard.cpp:272-352), with the
// weight routine overridden (accepts or refuses arbitrarily, returns arbitrary apex indices and weights, and scribbles
// on its output arguments when it refuses) and NF_Triplet::add recorded.
// Data base of VF_NS samples: each masked or not, its Z value defined or not (tested when rankZ >= 0).
// Asserted (the k-th VALID sample = active and, when rankZ >= 0, with a defined value, counted from 0):
//   * a valid sample that the weight routine accepts contributes exactly ncorner entries (row k, apex column returned,
//     weight returned), in corner order, taken from the accepting call;
//   * a valid sample that no mesh accepts (a point outside the mesh) contributes NO entry: its row k stays empty, never
//     a partial row;
//   * nothing else is added except the dimension-forcing entry of value 0;
//   * the triplet handed to the sparse matrix spans exactly (number of valid samples) rows and getNApices() columns.
#include "vf.h"
#include "Mesh/MeshETurbo.hpp"
#include "Mesh/MeshEStandard.hpp"
#include "Matrix/NF_Triplet.hpp"
#include "LinearOp/ProjMatrix.hpp"
#include "Db/Db.hpp"
#include "Enum/ELoc.hpp"
#include <new>
#ifndef VF_NS
#  define VF_NS 3
#endif
#ifndef VF_ND
#  define VF_ND 2
#endif
#ifndef VF_MUT
#  define VF_MUT 0
#endif
#define NC (VF_ND + 1)
#define NX 3
#define NNODE (VF_ND == 1 ? NX : VF_ND == 2 ? NX * NX : NX * NX * NX)
#define NPER (VF_ND == 1 ? 1 : VF_ND == 2 ? 2 : 6)
#define NMESH 3 // standard mesh: number of meshes
#define NAPEX 5 // standard mesh: number of apices
#define MAXCALL (VF_NS * 2 * NPER > VF_NS * NMESH ? VF_NS * 2 * NPER : VF_NS * NMESH)
#define MAXADD (VF_NS * NC + 2)

static int T_bad;
void messerr(const char*, ...) {}
void message(const char*, ...) {}
void mesArg(const char*, int, int) {}
void mestitle(int, const char*, ...) {}

// ---------------------------------------------------------------- data base callbacks
alignas(16) static char dbbuf[sizeof(Db)];
#define DB ((Db*)dbbuf)
static bool   S_active[VF_NS], S_zdef[VF_NS], S_outgrid[VF_NS];
static int    S_indg[VF_NS][VF_ND];
static int    cur_sample; // sample whose coordinates were read last (turbo: via getCoordinate)
int  Db::getSampleNumber(bool useSel) const { (void)useSel; return VF_NS; }
bool Db::isActive(int iech) const
{
  if (this != DB || iech < 0 || iech >= VF_NS) { T_bad++; return false; }
  return S_active[iech];
}
double Db::getFromLocator(const ELoc& loc, int iech, int item) const
{
  if (this != DB || &loc != &ELoc::Z || iech < 0 || iech >= VF_NS || item != 0) { T_bad++; return TEST; }
  return S_zdef[iech] ? 1. : TEST;
}
VectorDouble Db::getSampleCoordinates(int iech) const
{
  if (this != DB || iech < 0 || iech >= VF_NS) T_bad++;
  cur_sample = iech;
  return VectorDouble(VF_ND, 0.);
}
static double v_getCoordinate(const Db* db, int iech, int idim, bool flag_rotate)
{
  (void)flag_rotate;
  if (db != DB || iech < 0 || iech >= VF_NS || idim < 0 || idim >= VF_ND) { T_bad++; return 0.; }
  cur_sample = iech;
  return 0.;
}
#define VTN 128
static void* vt_db[VTN];
template <class PMF> static inline long vslot(PMF p)
{
  union { PMF p; long w[2]; } u;
  u.w[0] = 0;
  u.w[1] = 0;
  u.p    = p;
  return (u.w[0] - 1) / 8;
}
int AMesh::isCompatibleDb(const Db* db) const { (void)db; return 0; }

// ---------------------------------------------------------------- recorded triplet
static int    A_row[MAXADD], A_col[MAXADD], A_n;
static double A_val[MAXADD];
void NF_Triplet::add(int irow, int icol, double value)
{
  if (irow > _nrowmax) _nrowmax = irow; // as the real one, without the Eigen storage
  if (icol > _ncolmax) _ncolmax = icol;
  if (A_n >= MAXADD) { T_bad++; return; }
  A_row[A_n] = irow;
  A_col[A_n] = icol;
  A_val[A_n] = value;
  A_n++;
}
static int R_calls, R_nrow, R_ncol;
void MatrixSparse::resetFromTriplet(const NF_Triplet& NF_T)
{
  R_calls++;
  R_nrow = NF_T._nrowmax + 1; // the shape NF_Triplet::buildEigenFromTriplet gives to the matrix
  R_ncol = NF_T._ncolmax + 1;
}
alignas(16) static char pmbuf[sizeof(ProjMatrix)];

// ---------------------------------------------------------------- the overridden weight routines
static bool   W_acc[MAXCALL];
static int    W_rc[MAXCALL]; // return code of call c: 0 accepted, 1 refused
static int    W_idx[MAXCALL][NC];
static double W_lam[MAXCALL][NC];
static int    W_sample[MAXCALL]; // sample being processed when call c was made
static int    W_n;
static void draw_weights(int napices)
{
  for (int c = 0; c < MAXCALL; c++)
  {
    W_acc[c] = vf_nondet_bool();
    W_rc[c]  = W_acc[c] ? 0 : 1;
    for (int i = 0; i < NC; i++)
    {
      W_idx[c][i] = vf_range(0, napices - 1);
      W_lam[c][i] = vf_nondet_double();
    }
  }
  W_n = 0;
}
int MeshETurbo::_addWeights(int icas, const constvectint indg0, const constvect coor, const vectint indices, const vect lambda, bool verbose) const
{
  (void)icas; (void)indg0; (void)coor; (void)verbose;
  if (W_n >= MAXCALL) { T_bad++; return 1; }
  int c = W_n++;
  W_sample[c] = cur_sample;
  for (int i = 0; i < NC; i++) // written on refusal too (the real routine leaves partial results behind)
  {
    indices[i] = W_idx[c][i];
    lambda[i]  = W_lam[c][i];
  }
  return W_rc[c];
}
int Grid::coordinateToIndicesInPlace(const VectorDouble& coor, VectorInt& indice, bool centered, double eps) const
{
  (void)coor; (void)centered; (void)eps;
  int s = cur_sample;
  for (int d = 0; d < VF_ND; d++) indice[d] = S_indg[s][d];
  return S_outgrid[s] ? 1 : 0;
}
// standard mesh
bool MeshEStandard::_coorInMeshContainer(const VectorDouble& coor, int imesh, const VectorDouble& container) const
{
  (void)coor; (void)imesh; (void)container;
  return true;
}
static int W_mesh[MAXCALL];
bool MeshEStandard::_coorInMesh(const VectorDouble& coor, int imesh, double meshsize, VectorDouble& weights) const
{
  (void)coor; (void)meshsize;
  if (W_n >= MAXCALL || imesh < 0 || imesh >= NMESH) { T_bad++; return false; }
  int c = W_n++;
  W_sample[c] = cur_sample;
  W_mesh[c]   = imesh;
  for (int i = 0; i < NC; i++) weights[i] = W_lam[c][i];
  return W_acc[c];
}
VectorDouble MeshEStandard::_defineContainers() const { return VectorDouble(); }
VectorDouble MeshEStandard::_defineUnits() const { return VectorDouble(NMESH, 1.); }
static int M_apex[NMESH][NC];
int MeshEStandard::getApex(int imesh, int rank) const
{
  if (imesh < 0 || imesh >= NMESH || rank < 0 || rank >= NC) { T_bad++; return 0; }
  return M_apex[imesh][rank];
}
int MeshEStandard::getNMeshes() const { return NMESH; }
int MeshEStandard::getNApices() const { return NAPEX; }

static void draw_db()
{
  for (int s = 0; s < VF_NS; s++)
  {
    S_active[s]  = vf_nondet_bool();
    S_zdef[s]    = vf_nondet_bool();
    S_outgrid[s] = vf_nondet_bool();
    for (int d = 0; d < VF_ND; d++) S_indg[s][d] = vf_range(0, NX - 1);
  }
  long slot = vslot(static_cast<double (Db::*)(int, int, bool) const>(&Db::getCoordinate));
  if (slot >= 0 && slot < VTN) vt_db[slot] = (void*)&v_getCoordinate; else T_bad++;
  *(void***)dbbuf = vt_db;
  A_n = 0;
  R_calls = 0;
  R_nrow = R_ncol = -1;
  T_bad = 0;
  cur_sample = -1;
}

// checks common to both meshes, given for each sample the accepting call (or -1) computed by the reference walk
static void check_rows(const int acc_call[VF_NS], const bool valid[VF_NS], int napices, bool standard)
{
  int nvalid = 0, e = 0;
  for (int s = 0; s < VF_NS; s++)
  {
    if (!valid[s]) continue;
    int k = nvalid++;
    if (acc_call[s] < 0) continue; // point outside the mesh: empty row
    int c = acc_call[s];
    for (int i = 0; i < NC; i++)
    {
      bool present = e < A_n;
      int  col     = standard ? M_apex[W_mesh[c]][i] : W_idx[c][i];
      vf_assert_id(present && A_row[e] == k, "accepted sample: its ncorner entries are in the row of its rank among the valid samples");
      vf_assert_id(present && A_col[e] == col, "accepted sample: entry i is in the column of apex i returned by the weight routine");
      vf_assert_id(present && A_val[e] == W_lam[c][i], "accepted sample: entry i carries weight i returned by the weight routine");
      e++;
    }
  }
  // what remains can only be the dimension-forcing entry (value 0)
  for (int r = e; r < MAXADD; r++)
    if (r < A_n) vf_assert_id(A_val[r] == 0., "no entry besides the accepted samples' (refused or outside samples add nothing), except a zero that forces the dimensions");
  vf_assert_id(A_n <= e + 1, "at most one dimension-forcing entry");
  for (int r = 0; r < MAXADD; r++)
    if (r < A_n)
    {
      if (nvalid > 0)
        vf_assert_id(A_row[r] >= 0 && A_row[r] < nvalid && A_col[r] >= 0 && A_col[r] < napices, "every entry lies inside the (valid samples) x (apices) matrix");
      else
        vf_assert_id(A_row[r] >= 0 && A_col[r] >= 0, "no valid sample: no entry at a negative row or column");
    }
  vf_assert_id(R_calls == 1, "the triplet is handed to the sparse matrix once");
  if (nvalid > 0)
  {
    vf_assert_id(R_nrow == nvalid, "the matrix has one row per valid sample");
    vf_assert_id(R_ncol == napices, "the matrix has one column per apex");
  }
  vf_assert_id(T_bad == 0, "callbacks reached with the expected arguments only");
}

// ------------------------------------------------------------------ turbo mesh
extern "C" char vt_MeshETurbo[] asm("_ZTV10MeshETurbo");
alignas(16) static char mbuf[sizeof(MeshETurbo)];
extern "C" void k_proj_turbo()
{
  draw_db();
  draw_weights(NNODE);
  bool useZ = vf_nondet_bool();
  MeshETurbo* m  = (MeshETurbo*)mbuf;
  *(void**)m     = (void*)(vt_MeshETurbo + 16);
  m->_nDim       = VF_ND;
  m->_grid._nDim = VF_ND;
  new (&m->_grid._nx) VectorInt(VF_ND);
  for (int d = 0; d < VF_ND; d++) m->_grid._nx[d] = NX;
  m->_isPolarized = false;
  m->_nPerCell    = NPER;
  Indirection* ind[2] = {&m->_gridIndirect, &m->_meshIndirect};
  for (int i = 0; i < 2; i++)
  {
    ind[i]->_defined = false;
    ind[i]->_mode    = 0;
    ind[i]->_nabs = ind[i]->_nrel = 0;
    new (&ind[i]->_vecRToA) VectorInt();
    new (&ind[i]->_vecAToR) VectorInt();
  }

  m->MeshETurbo::resetProjMatrix((ProjMatrix*)pmbuf, DB, useZ ? 0 : -1, false); // REAL code

  // reference walk over the calls of the weight routine
  bool valid[VF_NS];
  int  acc_call[VF_NS], c = 0;
  for (int s = 0; s < VF_NS; s++)
  {
    valid[s]    = S_active[s] && (!useZ || S_zdef[s]);
    acc_call[s] = -1;
    if (!valid[s] || S_outgrid[s]) continue; // outside the grid: outside the mesh, no call at all
    bool edge = false;
    for (int d = 0; d < VF_ND; d++)
      if (S_indg[s][d] == NX - 1) edge = true;
    int nattempt = edge ? 2 : 1; // a second attempt, one node down, for a point in the last cell row / column
    for (int a = 0; a < nattempt && acc_call[s] < 0; a++)
      for (int icas = 0; icas < NPER && acc_call[s] < 0; icas++)
      {
        if (c < MAXCALL)
        {
          vf_assert_id(c < W_n && W_sample[c] == s, "weight routine called for the samples in order, case by case, until one accepts");
          if (W_acc[c]) acc_call[s] = c;
        }
        c++;
      }
  }
  vf_assert_id(W_n == c, "no further call of the weight routine");
#if VF_MUT == 1 // self-test of the check only: claiming a row for refused samples must be refuted
  for (int s = 0; s < VF_NS; s++)
    if (valid[s] && acc_call[s] < 0) acc_call[s] = 0;
#endif
  check_rows(acc_call, valid, NNODE, false);
  vf_witness();
}

// ------------------------------------------------------------------ standard mesh
extern "C" char vt_MeshEStandard[] asm("_ZTV13MeshEStandard");
alignas(16) static char sbuf[sizeof(MeshEStandard)];
extern "C" void k_proj_standard()
{
  draw_db();
  draw_weights(NAPEX);
  for (int im = 0; im < NMESH; im++)
    for (int i = 0; i < NC; i++) M_apex[im][i] = vf_range(0, NAPEX - 1);
  bool useZ = vf_nondet_bool();
  MeshEStandard* m = (MeshEStandard*)sbuf;
  *(void**)m       = (void*)(vt_MeshEStandard + 16);
  m->_nDim         = VF_ND;

  m->MeshEStandard::resetProjMatrix((ProjMatrix*)pmbuf, DB, useZ ? 0 : -1, false); // REAL code

  // reference walk: every mesh is tried (in an order the code is free to choose) until one accepts
  bool valid[VF_NS];
  int  acc_call[VF_NS], c = 0;
  for (int s = 0; s < VF_NS; s++)
  {
    valid[s]    = S_active[s] && (!useZ || S_zdef[s]);
    acc_call[s] = -1;
    if (!valid[s]) continue;
    bool seen[NMESH];
    for (int im = 0; im < NMESH; im++) seen[im] = false;
    for (int t = 0; t < NMESH && acc_call[s] < 0; t++)
    {
      if (c < MAXCALL)
      {
        vf_assert_id(c < W_n && W_sample[c] == s, "weight routine called for the samples in order, mesh by mesh, until one accepts");
        if (c < W_n)
        {
          vf_assert_id(!seen[W_mesh[c]], "each mesh is tried at most once per sample");
          seen[W_mesh[c]] = true;
        }
        if (W_acc[c]) acc_call[s] = c;
      }
      c++;
    }
  }
  vf_assert_id(W_n == c, "no further call of the weight routine");
  check_rows(acc_call, valid, NAPEX, true);
  vf_witness();
}
