// C15.b: turbo-mesh indexing (src/Mesh/MeshETurbo.cpp, MSS corner table of src/Mesh/Delaunay.cpp,
// Grid::rankToIndice / indiceToRank of src/Basic/Grid.cpp).  Regular grid with VF_ND dimensions and
// nx[d] in [2, VF_NX] nodes per direction (symbolic; exactly VF_NX with VF_NXFIXED), no mask (identity indirections), with and
// without polarisation (diamond construction, 2-D).
//   k_turbo_apex : for every mesh rank: _getGridFromMesh gives (lower-corner node of the cell, case)
//                  from which the rank is recovered (rank <-> (cell, case) is a bijection);
//                  every apex returned by getApex is a corner of that cell.
//   k_turbo_cell : for every point of the open unit cell that is not on a face of a simplex: it lies
//                  strictly inside exactly one of the simplices the MSS table cuts the cell into
//                  (the simplices tile the cell) - 1-D, 2-D and 3-D (the six tetrahedra of S3D).
// MeshETurbo is raw storage: only the fields these functions read are initialised.
#include "vf.h"
#include "Mesh/MeshETurbo.hpp"
#include "Mesh/Delaunay.hpp"
#include <new>
#include <math.h>
#ifndef VF_ND
#define VF_ND 2
#endif
#ifndef VF_NX
#define VF_NX 3
#endif
// largest number of meshes of a grid within the bound: (VF_NX-1)^VF_ND cells, 1 / 2 / 6 simplices per cell
#define VF_MAXMESH ((VF_ND == 1 ? (VF_NX - 1) : VF_ND == 2 ? (VF_NX - 1) * (VF_NX - 1) * 2 : (VF_NX - 1) * (VF_NX - 1) * (VF_NX - 1) * 6))
// overrides (stubs): the real ones format a message through vsnprintf (variadic) and print it
void messerr(const char*, ...) {}
void mesArg(const char*, int, int) {}
alignas(16) static char mbuf[sizeof(MeshETurbo)];
static int nx[VF_ND];

static void raw_indirection(Indirection* ind)
{
  ind->_defined = false;
  ind->_mode    = 0;
  ind->_nabs    = 0;
  ind->_nrel    = 0;
  new (&ind->_vecRToA) VectorInt();
  new (&ind->_vecAToR) VectorInt();
}

static MeshETurbo* make_mesh()
{
  MeshETurbo* m = (MeshETurbo*)mbuf;
  m->_nDim      = VF_ND; // AMesh
  m->_grid._nDim = VF_ND;
  new (&m->_grid._nx) VectorInt(VF_ND);
  for (int d = 0; d < VF_ND; d++)
  {
#ifdef VF_NXFIXED
    nx[d] = VF_NX; // exactly VF_NX nodes per direction (3-D: symbolic node counts are too hard for the solver)
#else
    nx[d] = vf_range(2, VF_NX);
#endif
    m->_grid._nx[d] = nx[d];
  }
  m->_isPolarized = vf_nondet_bool();
  raw_indirection(&m->_meshIndirect);
  raw_indirection(&m->_gridIndirect);
  m->_setNumberElementPerCell(); // REAL code: 1, 2, 6 simplices per cell
  return m;
}

extern "C" void k_turbo_apex()
{
  MeshETurbo* m = make_mesh();
  int ncas  = m->_nPerCell;
  int ncell = 1, nnode = 1;
  for (int d = 0; d < VF_ND; d++)
  {
    ncell *= nx[d] - 1;
    nnode *= nx[d];
  }
  vf_assert_id(m->MeshETurbo::getNMeshes() == ncell * ncas, "number of meshes == cells * simplices per cell");
  vf_assert_id(m->MeshETurbo::getNApices() == nnode, "number of apices == grid nodes");
  int imesh = vf_range(0, VF_MAXMESH - 1);
  vf_assume(imesh < ncell * ncas); // every mesh rank of the grid at hand

  int node, icas;
  m->_getGridFromMesh(imesh, &node, &icas); // REAL code

  // (cell, case) -> rank: decode the node into grid indices, it must be the lower corner of a cell
  vf_assert_id(icas >= 0 && icas < ncas, "case in range");
  vf_assert_id(node >= 0 && node < nnode, "node in range");
  int c[VF_ND];
  {
    int rest = node, cellrank = 0, stride = 1;
    for (int d = 0; d < VF_ND; d++)
    {
      c[d] = rest % nx[d];
      rest = rest / nx[d];
      vf_assert_id(c[d] <= nx[d] - 2, "node is the lower corner of a cell");
      cellrank += c[d] * stride;
      stride *= nx[d] - 1;
    }
    vf_assert_id(cellrank * ncas + icas == imesh, "mesh rank is recovered from (cell, case): the map is one-to-one");
  }

  // every apex of the mesh is a corner of that cell
  for (int rank = 0; rank <= VF_ND; rank++)
  {
    int apex = m->MeshETurbo::getApex(imesh, rank); // REAL code
    vf_assert_id(apex >= 0 && apex < nnode, "apex is a grid node");
    int rest = apex;
    for (int d = 0; d < VF_ND; d++)
    {
      int a = rest % nx[d];
      rest  = rest / nx[d];
      vf_assert_id(a == c[d] || a == c[d] + 1, "apex is a corner of the mesh's own cell");
    }
  }
  vf_witness();
}

#if VF_ND == 3
// orientation of the tetrahedron (a, b, c, d): det [b-a; c-a; d-a]
static double orient3(const double* a, const double* b, const double* c, const double* d)
{
  double u[3], v[3], w[3];
  for (int k = 0; k < 3; k++)
  {
    u[k] = b[k] - a[k];
    v[k] = c[k] - a[k];
    w[k] = d[k] - a[k];
  }
  return u[0] * (v[1] * w[2] - v[2] * w[1]) - u[1] * (v[0] * w[2] - v[2] * w[0]) + u[2] * (v[0] * w[1] - v[1] * w[0]);
}
#endif

extern "C" void k_turbo_cell()
{
  double p[VF_ND];
  for (int d = 0; d < VF_ND; d++)
  {
    double e = vf_finite_double();
    p[d]     = e - floor(e); // any point of [0,1)
    vf_assume(p[d] > 0);
  }
  const int ncas = (VF_ND == 1) ? 1 : (VF_ND == 2) ? 2 : 6;
  const int npol = (VF_ND == 2) ? 2 : 1; // polarisation exists in 2-D only (_getPolarized returns 0 otherwise)
  for (int ipol = 0; ipol < npol; ipol++)
  {
    int ninside = 0;
    bool onface = false;
    for (int icas = 0; icas < ncas; icas++)
    {
      double v[VF_ND + 1][VF_ND];
      for (int k = 0; k <= VF_ND; k++)
        for (int d = 0; d < VF_ND; d++)
        {
          int s = MSS(VF_ND, ipol, icas, k, d); // REAL code
          vf_assert_id(s == 0 || s == 1, "corner shifts are 0 or 1");
          v[k][d] = s;
        }
#if VF_ND == 1
      double D    = v[1][0] - v[0][0];
      double o[2] = {v[1][0] - p[0], p[0] - v[0][0]};
#elif VF_ND == 3
      double D = orient3(v[0], v[1], v[2], v[3]);
      double o[4];
      o[0] = orient3(p, v[1], v[2], v[3]); // p in place of corner i: same orientation as the simplex <=> inside
      o[1] = orient3(v[0], p, v[2], v[3]);
      o[2] = orient3(v[0], v[1], p, v[3]);
      o[3] = orient3(v[0], v[1], v[2], p);
#else
      double D = (v[1][0] - v[0][0]) * (v[2][1] - v[0][1]) - (v[1][1] - v[0][1]) * (v[2][0] - v[0][0]);
      double o[3];
      for (int i = 0; i < 3; i++)
      {
        const double* a = v[(i + 1) % 3];
        const double* b = v[(i + 2) % 3];
        o[i] = (a[0] - p[0]) * (b[1] - p[1]) - (a[1] - p[1]) * (b[0] - p[0]);
      }
#endif
      vf_assert_id(D != 0, "simplex is non-degenerate");
      bool in = true;
      for (int i = 0; i <= VF_ND; i++)
      {
        if (o[i] == 0) onface = true;
        if ((o[i] > 0) != (D > 0)) in = false;
      }
      if (in) ninside++;
    }
    vf_assert_id(onface || ninside == 1, "off the faces, a point of the cell is in exactly one simplex");
  }
  vf_witness();
}
