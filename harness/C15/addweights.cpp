// C15.c: acceptance / clipping logic of MeshETurbo::_addWeights (src/Mesh/MeshETurbo.cpp:701) with the linear
// solve overridden: lhs.invert() succeeds or fails arbitrarily and the barycentric solution handed back by
// lhs.prodMatVecInPlace is an ARBITRARY real vector.  Grid of VF_ND dimensions, VF_NX nodes per direction, with an
// arbitrary mask on the grid nodes (Indirection by array, built as Indirection::buildFromSel does: relative rank =
// number of active nodes before), with and without polarisation.
// Asserted:
//   accepted (returns 0) => every lambda is in [0,1] and differs from the solved value by at most EPSILON6 (the
//                           documented tolerance: a weight is clipped only within that band); every apex index is
//                           the relative rank of the corresponding corner of the cell (MSS table), that corner is
//                           inside the grid and active, and the index is in [0, getNApices());
//   rejected (returns 1) => one of the documented reasons holds: a corner outside the grid, a masked corner, a
//                           singular system, a weight outside [-EPSILON6, 1+EPSILON6].
#include "vf.h"
#include "Mesh/MeshETurbo.hpp"
#include "Mesh/Delaunay.hpp"
#include "Matrix/MatrixSquareGeneral.hpp"
#include <new>
#ifndef VF_ND
#  define VF_ND 2
#endif
#ifndef VF_NX
#  define VF_NX 3
#endif
#ifndef VF_MUT
#  define VF_MUT 0
#endif
#define NC (VF_ND + 1)
#define NNODE (VF_ND == 1 ? VF_NX : VF_ND == 2 ? VF_NX * VF_NX : VF_NX * VF_NX * VF_NX)

// overrides (stubs)
void messerr(const char*, ...) {}
void message(const char*, ...) {}
void mesArg(const char*, int, int) {}
static bool   g_invert_fails;
static double g_lambda[NC];
static int    g_nsolve;
int AMatrix::invert() { return g_invert_fails ? 1 : 0; }
int AMatrix::prodMatVecInPlace(const constvect x, vect y, bool transpose) const
{
  (void)x;
  (void)transpose;
  for (int i = 0; i < NC; i++) y[i] = g_lambda[i];
  g_nsolve++;
  return 0;
}
// coordinates of the corners only feed the (overridden) linear system
double Grid::indiceToCoordinate(int, const constvectint, const constvect, bool) const { return 0.; }

extern "C" char vt_MeshETurbo[] asm("_ZTV10MeshETurbo");
alignas(16) static char mbuf[sizeof(MeshETurbo)];
static bool active[NNODE];
static int  atoR[NNODE], nrel;

static MeshETurbo* make_mesh(bool masked)
{
  MeshETurbo* m  = (MeshETurbo*)mbuf;
  *(void**)m     = (void*)(vt_MeshETurbo + 16); // real virtual table (getNApexPerMesh / getNApices are virtual)
  m->_nDim       = VF_ND;                       // AMesh
  m->_grid._nDim = VF_ND;
  new (&m->_grid._nx) VectorInt(VF_ND);
  for (int d = 0; d < VF_ND; d++) m->_grid._nx[d] = VF_NX;
  m->_isPolarized = vf_nondet_bool();
  Indirection* gi = &m->_gridIndirect;
  Indirection* mi = &m->_meshIndirect;
  mi->_defined = false;
  mi->_mode    = 0;
  mi->_nabs = mi->_nrel = 0;
  new (&mi->_vecRToA) VectorInt();
  new (&mi->_vecAToR) VectorInt();
  // grid mask
  nrel = 0;
  for (int r = 0; r < NNODE; r++)
  {
    bool a    = vf_nondet_bool();
    active[r] = masked ? a : true;
    atoR[r]   = active[r] ? nrel : -1;
    if (active[r]) nrel++;
  }
  gi->_mode = 0;
  new (&gi->_vecRToA) VectorInt();
  if (masked)
  {
    gi->_defined = true;
    gi->_nabs    = NNODE;
    gi->_nrel    = nrel;
    new (&gi->_vecAToR) VectorInt(NNODE);
    for (int r = 0; r < NNODE; r++) gi->_vecAToR[r] = atoR[r];
  }
  else
  {
    gi->_defined = false;
    gi->_nabs = gi->_nrel = 0;
    new (&gi->_vecAToR) VectorInt();
  }
  m->_setNumberElementPerCell(); // REAL code
  return m;
}

static void run(bool masked)
{
  // every input first
  int icas0 = vf_range(0, 5);
  std::vector<int>    indg0(VF_ND);
  std::vector<double> coor(VF_ND);
  for (int d = 0; d < VF_ND; d++)
  {
    indg0[d] = vf_range(-1, VF_NX); // one step beyond the grid on both sides
    coor[d]  = vf_nondet_double();
  }
  for (int i = 0; i < NC; i++) g_lambda[i] = vf_nondet_double();
  g_invert_fails = vf_nondet_bool();
  MeshETurbo* m  = make_mesh(masked);
  vf_assume(icas0 < m->_nPerCell);
  g_nsolve = 0;
  std::vector<int>    indices(NC, -7);
  std::vector<double> lambda(NC, -7.);

  int ret = m->_addWeights(icas0, indg0, coor, indices, lambda, false); // REAL code

  // reference: corners of the simplex through the MSS table
  bool even = false; // parity of the cell, by enumeration (no bit operation on symbolic integers)
#if VF_ND == 2
  for (int k = -2; k <= 2 * VF_NX; k += 2)
    if (indg0[0] + indg0[1] == k) even = true;
#endif
  int  ipol    = (VF_ND == 2 && m->_isPolarized && even) ? 1 : 0;
  bool outside = false, inactive = false;
  int  ref[NC];
  for (int ic = 0; ic < NC; ic++)
  {
    int  rank = 0, stride = 1;
    bool out  = false;
    for (int d = 0; d < VF_ND; d++)
    {
      int g = indg0[d] + MSS(VF_ND, ipol, icas0, ic, d);
      if (g < 0 || g >= VF_NX) out = true;
      rank += g * stride;
      stride *= VF_NX;
    }
    ref[ic] = -1;
    if (out)
      outside = true;
    else
    {
      ref[ic] = atoR[rank];
      if (!active[rank]) inactive = true;
    }
  }
  const double eps = 1.e-6; // EPSILON6
  bool lam_bad = false;
  for (int ic = 0; ic < NC; ic++)
    if (g_lambda[ic] < -eps || g_lambda[ic] > 1. + eps) lam_bad = true;
  int napices = m->getNApices(); // REAL code (virtual)
  vf_assert_id(napices == nrel, "getNApices() == number of active grid nodes");

  if (ret == 0)
  {
    for (int ic = 0; ic < NC; ic++)
    {
#if VF_MUT == 1 // self-test of the check only: a band of width 0 must be refuted
      vf_assert_id(lambda[ic] >= 0. && lambda[ic] <= 1. && lambda[ic] == g_lambda[ic], "accepted: lambda in [0,1], within EPSILON6 of the solved weight");
#else
      vf_assert_id(lambda[ic] >= 0. && lambda[ic] <= 1., "accepted: every lambda is in [0,1]");
      vf_assert_id(lambda[ic] - g_lambda[ic] <= eps && g_lambda[ic] - lambda[ic] <= eps, "accepted: lambda is within EPSILON6 of the solved weight");
#endif
      vf_assert_id(indices[ic] >= 0 && indices[ic] < napices, "accepted: apex index in [0, getNApices())");
      vf_assert_id(!outside && !inactive && indices[ic] == ref[ic], "accepted: apex index is the relative rank of the active, in-grid corner given by the MSS table");
    }
    vf_assert_id(!g_invert_fails && g_nsolve == 1, "accepted: the system was solved");
  }
  else
  {
    vf_assert_id(outside || inactive || g_invert_fails || lam_bad,
                 "rejected only for a documented reason: corner outside the grid, masked corner, singular system, weight outside [-EPSILON6, 1+EPSILON6]");
  }
}

extern "C" void k_addweights() { run(false); vf_witness(); }
extern "C" void k_addweights_masked() { run(true); vf_witness(); }
