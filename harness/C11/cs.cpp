// C11.d: sparse back-end "cs" (3rd-party/csparse/csparse.cpp): triplet -> compressed column
// (cs_entry + cs_triplet), cs_transpose, cs_gaxpy on every VF_M x VF_N pattern with exactly NZ
// (0..4, one entry per NZ) triplet entries at arbitrary positions (duplicates allowed, summed),
// against the dense definition D(i,j) = sum of the triplet values at (i,j).
#include "vf.h"
#include "csparse_d.h"
#include "csparse_f.h"
#ifndef VF_M
#define VF_M 2
#endif
#ifndef VF_N
#define VF_N 2
#endif
#ifndef VF_G
#define VF_G 100
#endif
#ifndef VF_NZSYM
#define VF_NZSYM 1
#endif
// structure of a compressed-column matrix + its dense reading
template <int M, int N, int NZ> static bool dense_of(const cs* C, double out[M][N], const char* what)
{
  bool ok = C != nullptr && C->m == M && C->n == N && C->nz == -1;
  vf_assert_id(ok, what);
  if (!ok) return false;
  bool st = C->p[0] == 0 && C->p[N] == NZ;
  for (int j = 0; j < N; j++) st = st && C->p[j] <= C->p[j + 1];
  for (int p = 0; p < NZ; p++) st = st && C->i[p] >= 0 && C->i[p] < M;
  vf_assert_id(st, "column pointers start at 0, are monotone, end at nz; row indices in range");
  if (!st) return false;
  for (int i = 0; i < M; i++)
    for (int j = 0; j < N; j++)
    {
      double s = 0.;
      for (int p = 0; p < NZ; p++)
        if (C->p[j] <= p && p < C->p[j + 1] && C->i[p] == i) s += C->x[p];
      out[i][j] = s;
    }
  return true;
}
template <int NZ> static void t_cs()
{
  const int M = VF_M, N = VF_N;
  int ti[NZ + 1], tj[NZ + 1];
  double tx[NZ + 1], D[M][N];
  for (int i = 0; i < M; i++)
    for (int j = 0; j < N; j++) D[i][j] = 0.;
  cs* T = cs_spalloc(M, N, NZ, 1, 1);
  for (int k = 0; k < NZ; k++)
  {
    ti[k] = vf_range(0, M - 1);
    tj[k] = vf_range(0, N - 1);
    tx[k] = vf_grid_double(VF_G);
    for (int i = 0; i < M; i++)
      for (int j = 0; j < N; j++)
        if (ti[k] == i && tj[k] == j) D[i][j] += tx[k];
    int rc = cs_entry(T, ti[k], tj[k], tx[k]);
    vf_assert_id(rc == 1, "cs_entry accepts an entry within the allocated capacity");
  }
  vf_assert_id(T->m == M, "cs_entry keeps the number of rows when indices are in range");
  vf_assert_id(T->n == N, "cs_entry keeps the number of columns when indices are in range");
  vf_assert_id(T->nz == NZ, "cs_entry counts the entries");
  T->m = M; // equal to the asserted values: written back as constants so that allocation sizes are concrete
  T->n = N;
  cs* C = cs_triplet(T);
  double dc[M][N];
  if (dense_of<M, N, NZ>(C, dc, "cs_triplet: result is a compressed M x N matrix"))
    for (int i = 0; i < M; i++)
      for (int j = 0; j < N; j++) vf_assert_id(dc[i][j] == D[i][j], "cs_triplet: dense reading == sum of the triplet values per cell");
  if (C != nullptr)
  {
    cs* CT = cs_transpose(C, 1);
    double dt[N][M];
    if (dense_of<N, M, NZ>(CT, dt, "cs_transpose: result is a compressed N x M matrix"))
      for (int i = 0; i < M; i++)
        for (int j = 0; j < N; j++) vf_assert_id(dt[j][i] == D[i][j], "cs_transpose: T(j,i) == A(i,j)");
    // y = y0 + A x: arbitrary integer-valued x for NZ <= VF_NZSYM (bilinear terms value*x), and for every NZ the unit vectors,
    // the all-ones vector and (2,-4,8) as x (linear arithmetic only)
    const int NX = N + 3;
    for (int c = 0; c < NX; c++)
    {
      double x[N], y[M], y0[M];
      for (int j = 0; j < N; j++)
      {
        double g = vf_grid_double(VF_G); // drawn unconditionally
        x[j] = c < N ? (j == c ? 1. : 0.) : c == N ? 1. : c == N + 1 ? (j % 2 ? -3. - j : 2. + 3 * j) : g;
      }
      for (int i = 0; i < M; i++) { y0[i] = vf_grid_double(VF_G); y[i] = y0[i]; }
      if (c == N + 2 && NZ > VF_NZSYM) continue;
      int rc = cs_gaxpy(C, x, y);
      vf_assert_id(rc == 1, "cs_gaxpy succeeds");
      for (int i = 0; i < M; i++)
      {
        double s = y0[i];
        for (int j = 0; j < N; j++) s += D[i][j] * x[j];
        vf_assert_id(y[i] == s, "cs_gaxpy: y == y0 + A x");
      }
    }
    cs_spfree(CT);
  }
  cs_spfree(C);
  cs_spfree(T);
  vf_witness();
}
extern "C" void k_cs_0() { t_cs<0>(); }
extern "C" void k_cs_1() { t_cs<1>(); }
extern "C" void k_cs_2() { t_cs<2>(); }
extern "C" void k_cs_3() { t_cs<3>(); }
extern "C" void k_cs_4() { t_cs<4>(); }
