// C11.c: element-level operations of the dense matrix classes on really constructed objects
// (Eigen storage): MatrixRectangular(NR,NC) for the shapes in VF_SHAPES(X) and
// MatrixSquareSymmetric(N) for the sizes in VF_SYMS(Y).
//   setValue/getValue, setRow/setColumn/getRow/getColumn (AMatrixDense override and, with the
//   'g' prefix, the generic AMatrix:: implementation through a qualified call), setDiagonal,
//   transposeInPlace, setValues, MatrixRectangular::addRow/addColumn.
// Oracle: cell-level definition on a copy m0 of the initial content kept by the harness; the
// final content is read back from the raw Eigen buffer (column-major) and through getValue;
// cells the operation does not address are unchanged; symmetric storage stays symmetric.
#include "vf.h"
#include "Matrix/MatrixRectangular.hpp"
#include "Matrix/MatrixSquareSymmetric.hpp"
#include "Basic/AException.hpp"
#include "geoslib_define.h"
#ifndef VF_SHAPES
#define VF_SHAPES(X) X(2, 3)
#endif
#ifndef VF_SQUARES
#define VF_SQUARES(XD) XD(2)
#endif
#ifndef VF_SYMS
#define VF_SYMS(Y) Y(2)
#endif
#ifndef VF_G
#define VF_G 1000
#endif

// override (stub): the real throw_exp formats its message through std::stringstream/std::cout
void throw_exp(const std::string&, const std::string&, int) { throw 1; }
// override (stub): the real messerr formats through vsnprintf (variadic) and prints
void messerr(const char*, ...) {}

template <class MAT> static double raw(const MAT& M, int a, int b)
{
  return M._eigenMatrix.data()[b * (int)M._eigenMatrix.rows() + a];
}
template <class MAT> static bool dims(const MAT& M, int nr, int nc)
{
  return M.getNRows() == nr && M.getNCols() == nc && (int)M._eigenMatrix.rows() == nr && (int)M._eigenMatrix.cols() == nc;
}
// initial content: arbitrary (symmetric for SYM) integer-valued entries, written to the raw buffer
template <class MAT, int NR, int NC, bool SYM> static void fill(MAT& M, double m0[NR][NC])
{
  for (int i = 0; i < NR; i++)
    for (int j = 0; j < NC; j++) m0[i][j] = vf_grid_double(VF_G); // drawn unconditionally
  if (SYM)
    for (int i = 0; i < NR; i++)
      for (int j = i + 1; j < NC; j++) m0[i][j] = m0[j][i];
  double* d = M._eigenMatrix.data();
  for (int i = 0; i < NR; i++)
    for (int j = 0; j < NC; j++) d[j * NR + i] = m0[i][j];
}
template <class MAT, int NR, int NC, bool SYM> static void same_as(const MAT& M, double e[NR][NC], const char* id)
{
  bool ok = dims(M, NR, NC);
  vf_assert_id(ok, "shape unchanged");
  if (!ok) return;
  for (int a = 0; a < NR; a++)
    for (int b = 0; b < NC; b++)
    {
      vf_assert_id(raw(M, a, b) == e[a][b], id);
      vf_assert_id(M.getValue(a, b, false) == raw(M, a, b), "getValue(i,j) reads cell (i,j) of the storage");
    }
}
#define MK(M, m0) MAT M = mk<MAT, NR, NC, SYM>(); double m0[NR][NC]; fill<MAT, NR, NC, SYM>(M, m0)
template <class MAT, int NR, int NC, bool SYM> static MAT mk()
{
  if constexpr (SYM) return MAT(NR); else return MAT(NR, NC);
}

// ---- setValue / getValue
template <class MAT, int NR, int NC, bool SYM> static void t_setget()
{
  MK(M, m0);
  int i = vf_range(-1, NR), j = vf_range(-1, NC);
  bool chk = vf_nondet_bool();
  double v = vf_grid_double(VF_G);
  bool inr = i >= 0 && i < NR && j >= 0 && j < NC;
  vf_assume(chk || inr); // without address checking the indices must be valid
  M.setFlagCheckAddress(chk);
  M.setValue(i, j, v, chk);
  double e[NR][NC];
  for (int a = 0; a < NR; a++)
    for (int b = 0; b < NC; b++)
      e[a][b] = (inr && ((a == i && b == j) || (SYM && a == j && b == i))) ? v : m0[a][b];
  same_as<MAT, NR, NC, SYM>(M, e, "setValue(i,j,v): cell (i,j) (and (j,i) if symmetric) == v, every other cell unchanged");
  double g = M.getValue(i, j, chk);
  vf_assert_id(g == (inr ? v : TEST), "getValue after setValue returns v (TEST for a checked invalid index)");
  vf_witness();
}
// ---- setRow / setColumn
template <class MAT, int NR, int NC, bool SYM, bool ROW, bool GEN> static void t_setline()
{
  MK(M, m0);
  const int nl = ROW ? NR : NC, nt = ROW ? NC : NR;
  int l = vf_range(0, nl - 1);
  bool chk = vf_nondet_bool();
  double t0[nt];
  VectorDouble tab(nt);
  for (int k = 0; k < nt; k++) { t0[k] = vf_grid_double(VF_G); tab[k] = t0[k]; }
  if (ROW && !GEN) M.setRow(l, tab, chk);
  if (!ROW && !GEN) M.setColumn(l, tab, chk);
  if (ROW && GEN) M.AMatrix::setRow(l, tab, chk);
  if (!ROW && GEN) M.AMatrix::setColumn(l, tab, chk);
  bool ok = dims(M, NR, NC);
  vf_assert_id(ok, "shape unchanged");
  if (ok)
    for (int a = 0; a < NR; a++)
      for (int b = 0; b < NC; b++)
      {
        bool online = ROW ? a == l : b == l;
        bool mirror = SYM && (ROW ? b == l : a == l);
        if (online)
          vf_assert_id(M.getValue(a, b, false) == t0[ROW ? b : a], ROW ? "setRow: row irow == tab" : "setColumn: column icol == tab");
        else if (!mirror)
          vf_assert_id(raw(M, a, b) == m0[a][b], ROW ? "setRow: cells outside the row unchanged" : "setColumn: cells outside the column unchanged");
#ifdef VF_EXCL_DENSE_SETLINE_SYM // known-finding exclusion: AMatrixDense::setRow/setColumn do not mirror on symmetric storage
        if (SYM && GEN)
#else
        if (SYM)
#endif
          vf_assert_id(raw(M, a, b) == raw(M, b, a), ROW ? "setRow: symmetric storage stays symmetric" : "setColumn: symmetric storage stays symmetric");
      }
  for (int k = 0; k < nt; k++) vf_assert_id(tab[k] == t0[k], "argument vector unchanged");
  vf_witness();
}
// ---- getRow / getColumn
template <class MAT, int NR, int NC, bool SYM, bool ROW, bool GEN> static void t_getline()
{
  MK(M, m0);
  const int nl = ROW ? NR : NC, nt = ROW ? NC : NR;
  int l = vf_range(0, nl - 1);
  VectorDouble r;
  if (ROW && !GEN) r = M.getRow(l);
  if (!ROW && !GEN) r = M.getColumn(l);
  if (ROW && GEN) r = M.AMatrix::getRow(l);
  if (!ROW && GEN) r = M.AMatrix::getColumn(l);
  vf_assert_id((int)r.size() == nt, ROW ? "getRow: length == ncols" : "getColumn: length == nrows");
  if ((int)r.size() == nt)
    for (int k = 0; k < nt; k++)
    {
      double want = m0[0][0];
      for (int a = 0; a < NR; a++)
        for (int b = 0; b < NC; b++)
          if ((ROW ? a : b) == l && (ROW ? b : a) == k) want = m0[a][b];
      vf_assert_id(r[k] == want, ROW ? "getRow: r[j] == M(irow,j)" : "getColumn: r[i] == M(i,icol)");
    }
  same_as<MAT, NR, NC, SYM>(M, m0, "getRow/getColumn leave the matrix unchanged");
  vf_witness();
}
// ---- setDiagonal (square shapes)
template <class MAT, int NR, int NC, bool SYM> static void t_setdiag()
{
  MK(M, m0);
  bool chk = vf_nondet_bool();
  double e[NR][NC];
  VectorDouble tab(NR);
  for (int k = 0; k < NR; k++) { double t = vf_grid_double(VF_G); tab[k] = t; for (int b = 0; b < NC; b++) e[k][b] = (k == b) ? t : 0.; }
  M.setDiagonal(tab, chk);
  same_as<MAT, NR, NC, SYM>(M, e, "setDiagonal: diagonal == tab, every other term 0");
  vf_witness();
}
// ---- transposeInPlace
template <class MAT, int NR, int NC, bool SYM> static void t_transpose()
{
  MK(M, m0);
  M.transposeInPlace();
  double e[NC][NR];
  for (int a = 0; a < NR; a++)
    for (int b = 0; b < NC; b++) e[b][a] = m0[a][b];
  same_as<MAT, NC, NR, SYM>(M, e, "transposeInPlace: T(j,i) == M(i,j), shape (ncols,nrows)");
  vf_witness();
}
// ---- setValues(values, byCol)
template <class MAT, int NR, int NC, bool SYM> static void t_setvalues()
{
  MK(M, m0);
  bool byCol = vf_nondet_bool();
  double e[NR][NC];
  VectorDouble vals(NR * NC);
  for (int a = 0; a < NR; a++)
    for (int b = 0; b < NC; b++) e[a][b] = vf_grid_double(VF_G);
  if (SYM) // symmetric input for the symmetric class (documented requirement)
    for (int a = 0; a < NR; a++)
      for (int b = a + 1; b < NC; b++) e[a][b] = e[b][a];
  for (int a = 0; a < NR; a++)
    for (int b = 0; b < NC; b++) vals[byCol ? b * NR + a : a * NC + b] = e[a][b];
  M.setValues(vals, byCol);
  same_as<MAT, NR, NC, SYM>(M, e, "setValues: M(i,j) == values[byCol ? j*nrows+i : i*ncols+j]");
  vf_witness();
}
// ---- MatrixRectangular::addRow / addColumn
template <int NR, int NC, bool ROW, int K> static void t_addline()
{
  typedef MatrixRectangular MAT;
  const bool SYM = false;
  MK(M, m0);
  if (ROW) M.addRow(K); else M.addColumn(K);
  const int nr = ROW ? NR + K : NR, nc = ROW ? NC : NC + K;
  bool ok = dims(M, nr, nc);
  vf_assert_id(ok, ROW ? "addRow: shape (nrows+k, ncols)" : "addColumn: shape (nrows, ncols+k)");
  if (ok)
    for (int a = 0; a < NR; a++)
      for (int b = 0; b < NC; b++)
        vf_assert_id(raw(M, a, b) == m0[a][b] && M.getValue(a, b, false) == m0[a][b], ROW ? "addRow: existing cells unchanged" : "addColumn: existing cells unchanged");
  vf_witness();
}

#define COMMON(MAT, TAG, NR, NC, SYM)                                                                   \
  extern "C" void k_setget_##TAG() { t_setget<MAT, NR, NC, SYM>(); }                                    \
  extern "C" void k_setrow_##TAG() { t_setline<MAT, NR, NC, SYM, true, false>(); }                      \
  extern "C" void k_setcol_##TAG() { t_setline<MAT, NR, NC, SYM, false, false>(); }                     \
  extern "C" void k_gsetrow_##TAG() { t_setline<MAT, NR, NC, SYM, true, true>(); }                      \
  extern "C" void k_gsetcol_##TAG() { t_setline<MAT, NR, NC, SYM, false, true>(); }                     \
  extern "C" void k_getrow_##TAG() { t_getline<MAT, NR, NC, SYM, true, false>(); }                      \
  extern "C" void k_getcol_##TAG() { t_getline<MAT, NR, NC, SYM, false, false>(); }                     \
  extern "C" void k_ggetrow_##TAG() { t_getline<MAT, NR, NC, SYM, true, true>(); }                      \
  extern "C" void k_ggetcol_##TAG() { t_getline<MAT, NR, NC, SYM, false, true>(); }                     \
  extern "C" void k_transpose_##TAG() { t_transpose<MAT, NR, NC, SYM>(); }                              \
  extern "C" void k_setvalues_##TAG() { t_setvalues<MAT, NR, NC, SYM>(); }
#define X(NR, NC)                                                                                       \
  COMMON(MatrixRectangular, r##NR##x##NC, NR, NC, false)                                                \
  extern "C" void k_addrow_r##NR##x##NC() { t_addline<NR, NC, true, 1>(); }                             \
  extern "C" void k_addcol_r##NR##x##NC() { t_addline<NR, NC, false, 1>(); }                            \
  extern "C" void k_addrow2_r##NR##x##NC() { t_addline<NR, NC, true, 2>(); }                            \
  extern "C" void k_addcol2_r##NR##x##NC() { t_addline<NR, NC, false, 2>(); }
#define XD(N) extern "C" void k_setdiag_r##N##x##N() { t_setdiag<MatrixRectangular, N, N, false>(); }
#define Y(N)                                                                                            \
  COMMON(MatrixSquareSymmetric, s##N, N, N, true)                                                       \
  extern "C" void k_setdiag_s##N() { t_setdiag<MatrixSquareSymmetric, N, N, true>(); }
VF_SHAPES(X)
VF_SQUARES(XD)
VF_SYMS(Y)
