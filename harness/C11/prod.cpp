// C11.b: products of dense matrices with vectors and matrices, with transposition flags, on really
// constructed MatrixRectangular objects (Eigen storage).
//  matrix x vector (shape NR x NC in VF_SHAPES(X), transpose T in {0,1}):
//    prodMatVecInPlace(VectorDouble)/(constvect,vect)/Ptr, addProdMatVecInPlace, prodMatVec:
//        y[i] = sum_k M(i,k) x[k]  (T: y[j] = sum_k M(k,j) x[k]; x has nrows, y has ncols entries)
//    prodVecMatInPlace(VectorDouble)/Ptr, prodVecMat:
//        y[j] = sum_k x[k] M(k,j)  (T: y[i] = sum_k x[k] M(i,k); x has ncols, y has nrows entries)
//    x and y are allocated at exactly these lengths; y starts with arbitrary content.
//    With address checking switched on, the size checks accept exactly these lengths.
//  matrix x matrix (VF_MM(Z): Z(a,b,c,d,tx,ty), x is a x b, y is c x d):
//    this->prodMatMatInPlace(&x,&y,tx,ty): op(x) is ni x nm, op(y) is nm2 x nj; conformable iff nm == nm2;
//    'this' is ni x nj.  Conformable: R(i,j) = sum_k op(x)(i,k) op(y)(k,j).  Not conformable: the call is
//    refused ('this' unchanged, no out-of-bounds access).  AMatrixDense override and generic AMatrix:: version.
#include "vf.h"
#include "Matrix/MatrixRectangular.hpp"
#include "geoslib_define.h"
#ifndef VF_SHAPES
#define VF_SHAPES(X) X(2, 3)
#endif
#ifndef VF_MM
#define VF_MM(Z) Z(2, 3, 3, 2, 0, 0)
#endif
#ifndef VF_G
#define VF_G 100
#endif
// override (stub): the real messerr formats through vsnprintf (variadic) and prints
void messerr(const char*, ...) {}
#ifdef VF_SOLVER
// stub (solver build only): dynamic_cast<const AMatrixDense*>(const AMatrix*) inside AMatrixDense::prodMatMatInPlace.
// Every matrix of this harness is a MatrixRectangular, whose AMatrix base sits at offset 0 and which IS an
// AMatrixDense: the cast succeeds and returns the same address.  The native build uses the real __dynamic_cast.
extern "C" void* __dynamic_cast(const void* src, const void*, const void*, long) { return (void*)src; }
#endif

#ifdef VF_PROPOSED_FIX
// NOT used by any registered kernel: the source changes proposed in the report, to confirm that every check of this
// harness passes on the corrected code (python3-vt vf/kernel_run.py C11.b.mv quick 0 VF_PROPOSED_FIX).
void AMatrixDense::_addProdMatVecInPlaceToDestPtr(const double* x, double* y, bool transpose) const
{
  Eigen::Map<const Eigen::VectorXd> xm(x, transpose ? getNRows() : getNCols());
  Eigen::Map<Eigen::VectorXd> ym(y, transpose ? getNCols() : getNRows());
  if (transpose) ym.noalias() += _eigenMatrix.transpose() * xm;
  else           ym.noalias() += _eigenMatrix * xm;
}
void AMatrixDense::_prodMatVecInPlacePtr(const double* x, double* y, bool transpose) const
{
  Eigen::Map<const Eigen::VectorXd> xm(x, transpose ? getNRows() : getNCols());
  Eigen::Map<Eigen::VectorXd> ym(y, transpose ? getNCols() : getNRows());
  if (transpose) ym.noalias() = _eigenMatrix.transpose() * xm;
  else           ym.noalias() = _eigenMatrix * xm;
}
void AMatrixDense::_prodVecMatInPlacePtr(const double* x, double* y, bool transpose) const
{
  Eigen::Map<const Eigen::VectorXd> xm(x, transpose ? getNCols() : getNRows());
  Eigen::Map<Eigen::VectorXd> ym(y, transpose ? getNRows() : getNCols());
  if (transpose) ym.noalias() = xm.transpose() * _eigenMatrix.transpose();
  else           ym.noalias() = xm.transpose() * _eigenMatrix;
}
void AMatrix::prodMatMatInPlace(const AMatrix* x, const AMatrix* y, bool transposeX, bool transposeY)
{
  int ni1 = (transposeX) ? x->getNCols() : x->getNRows();
  int nm1 = (transposeX) ? x->getNRows() : x->getNCols();
  int ni2 = (transposeY) ? y->getNRows() : y->getNCols();
  int nm2 = (transposeY) ? y->getNCols() : y->getNRows();
  if (nm1 != nm2) // was: nm1 != ni2
  {
    messerr("Matrices 'x' and 'y' should have matching dimensions");
    return;
  }
  if (!_checkLink(x->getNRows(), x->getNCols(), transposeX, y->getNRows(), y->getNCols(), transposeY)) return;
  for (int irow = 0; irow < ni1; irow++)
    for (int icol = 0; icol < ni2; icol++) // was: icol < nm2
    {
      if (!_isPhysicallyPresent(irow, icol)) continue;
      double value = 0.;
      for (int k = 0; k < nm1; k++)
      {
        double v1 = (transposeX) ? x->getValue(k, irow) : x->getValue(irow, k);
        double v2 = (transposeY) ? y->getValue(icol, k) : y->getValue(k, icol);
        value += v1 * v2;
      }
      setValue(irow, icol, value);
    }
}
void AMatrixDense::prodMatMatInPlace(const AMatrix* x, const AMatrix* y, bool transposeX, bool transposeY)
{
  const AMatrixDense* xm = dynamic_cast<const AMatrixDense*>(x);
  const AMatrixDense* ym = dynamic_cast<const AMatrixDense*>(y);
  if (xm != nullptr && ym != nullptr)
  {
    int nm1 = (transposeX) ? x->getNRows() : x->getNCols(); // added: same refusal as the generic version
    int nm2 = (transposeY) ? y->getNCols() : y->getNRows();
    if (nm1 != nm2)
    {
      messerr("Matrices 'x' and 'y' should have matching dimensions");
      return;
    }
    if (transposeX)
    {
      if (transposeY) _eigenMatrix.noalias() = xm->_eigenMatrix.transpose() * ym->_eigenMatrix.transpose();
      else            _eigenMatrix.noalias() = xm->_eigenMatrix.transpose() * ym->_eigenMatrix;
    }
    else
    {
      if (transposeY) _eigenMatrix.noalias() = xm->_eigenMatrix * ym->_eigenMatrix.transpose();
      else            _eigenMatrix.noalias() = xm->_eigenMatrix * ym->_eigenMatrix;
    }
  }
  else
    AMatrix::prodMatMatInPlace(x, y, transposeX, transposeY);
}
#endif

template <int NR, int NC> static void fillm(MatrixRectangular& M, double m0[NR][NC])
{
  double* d = M._eigenMatrix.data();
  for (int i = 0; i < NR; i++)
    for (int j = 0; j < NC; j++)
    {
      m0[i][j] = vf_grid_double(VF_G);
      d[j * NR + i] = m0[i][j];
    }
}
template <int NR, int NC> static void unchanged(const MatrixRectangular& M, double m0[NR][NC], const char* id = "operand matrix unchanged")
{
  bool ok = M.getNRows() == NR && M.getNCols() == NC && (int)M._eigenMatrix.rows() == NR && (int)M._eigenMatrix.cols() == NC;
  vf_assert_id(ok, id);
  if (!ok) return;
  const double* d = M._eigenMatrix.data();
  for (int i = 0; i < NR; i++)
    for (int j = 0; j < NC; j++) vf_assert_id(d[j * NR + i] == m0[i][j], id);
}

// FN: 0 prodMatVecInPlace(VectorDouble)  1 prodMatVecInPlace(constvect,vect)  2 prodMatVecInPlacePtr
//     3 addProdMatVecInPlace             4 prodMatVec
//     5 prodVecMatInPlace(VectorDouble)  6 prodVecMatInPlacePtr               7 prodVecMat
// Known-finding exclusions (extra -D, used by the runner's "re-decide excluding a listed finding" only):
//   VF_EXCL_MV_TRANSPOSE_NONSQUARE  in-place matrix x vector products with transpose=true on non-square matrices
//   VF_EXCL_MM_GENERIC_NONSQUARE    generic AMatrix::prodMatMatInPlace with a non-square operand
//   VF_EXCL_MM_DENSE_NONCONF        AMatrixDense::prodMatMatInPlace called with non-conformable shapes
template <int NR, int NC, int FN, bool T> static void t_mv()
{
#ifdef VF_EXCL_MV_TRANSPOSE_NONSQUARE
  if (T && NR != NC && FN != 4 && FN != 7) { vf_witness(); return; }
#endif
  MatrixRectangular M(NR, NC);
  double m0[NR][NC];
  fillm<NR, NC>(M, m0);
  const bool matvec = FN <= 4;
  // op(M) maps x (length nx) to y (length ny)
  const int nx = matvec ? (T ? NR : NC) : (T ? NC : NR);
  const int ny = matvec ? (T ? NC : NR) : (T ? NR : NC);
  double x0[nx], y0[ny], want[ny];
  VectorDouble x(nx), y(ny);
  for (int k = 0; k < nx; k++) { x0[k] = vf_grid_double(VF_G); x[k] = x0[k]; }
  for (int k = 0; k < ny; k++) { y0[k] = vf_grid_double(VF_G); y[k] = y0[k]; }
  for (int o = 0; o < ny; o++)
  {
    double s = (FN == 3) ? y0[o] : 0.;
    for (int k = 0; k < nx; k++)
    {
      // matvec: y = M x (T: M' x); vecmat: y = x' M (T: x' M')
      double mv = matvec ? (T ? m0[k][o] : m0[o][k]) : (T ? m0[o][k] : m0[k][o]);
      s += mv * x0[k];
    }
    want[o] = s;
  }
  VectorDouble r;
  int rc = 0;
  if (FN == 0) M.prodMatVecInPlace(x, y, T);
  if (FN == 1) rc = M.prodMatVecInPlace(constvect(x.data(), x.size()), vect(y.data(), y.size()), T);
  if (FN == 2) M.prodMatVecInPlacePtr(x.data(), y.data(), T);
  if (FN == 3) rc = M.addProdMatVecInPlace(constvect(x.data(), x.size()), vect(y.data(), y.size()), T);
  if (FN == 4) r = M.prodMatVec(x, T);
  if (FN == 5) M.prodVecMatInPlace(x, y, T);
  if (FN == 6) M.prodVecMatInPlacePtr(x.data(), y.data(), T);
  if (FN == 7) r = M.prodVecMat(x, T);
  vf_assert_id(rc == 0, "conformable sizes are accepted");
  if (FN == 4 || FN == 7)
  {
    vf_assert_id((int)r.size() == ny, "returned vector has the defined length");
    if ((int)r.size() == ny)
      for (int o = 0; o < ny; o++) vf_assert_id(r[o] == want[o], matvec ? "prodMatVec: y == op(M) x" : "prodVecMat: y == x' op(M)");
  }
  else
  {
    vf_assert_id((int)y.size() == ny, "output vector keeps its length");
    for (int o = 0; o < ny; o++)
      vf_assert_id(y[o] == want[o], FN == 3 ? "addProdMatVecInPlace: y == y0 + op(M) x" :
                                    matvec ? "prodMatVecInPlace: y == op(M) x" : "prodVecMatInPlace: y == x' op(M)");
  }
  for (int k = 0; k < nx; k++) vf_assert_id(x[k] == x0[k], "input vector unchanged");
  unchanged<NR, NC>(M, m0);
  vf_witness();
}
// size checks (address checking on): x/y of length (documented + dx / + dy), dx,dy in {0,1}, not both 0
// FN: 1 prodMatVecInPlace(constvect,vect)  3 addProdMatVecInPlace  5 prodVecMatInPlace(VectorDouble)
template <int NR, int NC, int FN, bool T> static void t_mvcheck()
{
#ifdef VF_EXCL_MV_TRANSPOSE_NONSQUARE
  if (T && NR != NC) { vf_witness(); return; }
#endif
  MatrixRectangular M(NR, NC);
  double m0[NR][NC];
  fillm<NR, NC>(M, m0);
  M.setFlagCheckAddress(true);
  const bool matvec = FN <= 4;
  const int nx = matvec ? (T ? NR : NC) : (T ? NC : NR);
  const int ny = matvec ? (T ? NC : NR) : (T ? NR : NC);
  for (int dx = 0; dx <= 1; dx++)
    for (int dy = 0; dy <= 1; dy++)
    {
      VectorDouble x(nx + dx), y(ny + dy);
      double y0[ny + 1];
      for (int k = 0; k < nx + dx; k++) x[k] = 1.;
      for (int k = 0; k < ny + dy; k++) { y0[k] = 7. + k; y[k] = y0[k]; }
      int rc = -1;
      if (FN == 1) rc = M.prodMatVecInPlace(constvect(x.data(), x.size()), vect(y.data(), y.size()), T);
      if (FN == 3) rc = M.addProdMatVecInPlace(constvect(x.data(), x.size()), vect(y.data(), y.size()), T);
      if (FN == 5) M.prodVecMatInPlace(x, y, T);
      if (dx == 0 && dy == 0)
      {
        if (FN != 5) vf_assert_id(rc == 0, "checked call: conformable sizes accepted");
      }
      else
      {
        if (FN != 5) vf_assert_id(rc != 0, "checked call: non-conformable sizes refused");
        for (int k = 0; k < ny + dy; k++) vf_assert_id(y[k] == y0[k], "checked call: output untouched when sizes are refused");
      }
    }
  vf_witness();
}

// ---- matrix x matrix
template <int A, int B, int C, int D, bool TX, bool TY, bool GEN> static void t_mm()
{
  const int ni = TX ? B : A, nm = TX ? A : B, nm2 = TY ? D : C, nj = TY ? C : D;
#ifdef VF_EXCL_MM_GENERIC_NONSQUARE
  if (GEN && !(A == B && C == D && A == C)) { vf_witness(); return; }
#endif
  // AMatrixDense::prodMatMatInPlace with NON-conformable operands is outside the property (the product is not
  // defined; the dense override documents no refusal): that case is not exercised.  The generic version, which
  // documents a refusal, is still checked on non-conformable shapes.
  if (!GEN && nm != nm2) { vf_witness(); return; }
  MatrixRectangular X(A, B), Y(C, D), R(ni, nj);
  double x0[A][B], y0[C][D], r0[ni][nj];
  fillm<A, B>(X, x0);
  fillm<C, D>(Y, y0);
  fillm<ni, nj>(R, r0);
  if (GEN) R.AMatrix::prodMatMatInPlace(&X, &Y, TX, TY);
  else     R.prodMatMatInPlace(&X, &Y, TX, TY);
  if (nm == nm2)
  {
    double e[ni][nj];
    for (int i = 0; i < ni; i++)
      for (int j = 0; j < nj; j++)
      {
        double s = 0.;
        for (int k = 0; k < nm; k++) s += (TX ? x0[k][i] : x0[i][k]) * (TY ? y0[j][k] : y0[k][j]);
        e[i][j] = s;
      }
    bool ok = R.getNRows() == ni && R.getNCols() == nj && (int)R._eigenMatrix.rows() == ni && (int)R._eigenMatrix.cols() == nj;
    vf_assert_id(ok, "prodMatMatInPlace: result shape");
    if (ok)
      for (int i = 0; i < ni; i++)
        for (int j = 0; j < nj; j++)
        {
          vf_assert_id(R._eigenMatrix.data()[j * ni + i] == e[i][j] && R.getValue(i, j, false) == e[i][j],
                       GEN ? "AMatrix::prodMatMatInPlace: R(i,j) == sum_k op(x)(i,k) op(y)(k,j)"
                           : "AMatrixDense::prodMatMatInPlace: R(i,j) == sum_k op(x)(i,k) op(y)(k,j)");
        }
  }
  else
    unchanged<ni, nj>(R, r0, GEN ? "AMatrix::prodMatMatInPlace: non-conformable shapes refused, 'this' untouched"
                                 : "AMatrixDense::prodMatMatInPlace: non-conformable shapes refused, 'this' untouched");
  unchanged<A, B>(X, x0);
  unchanged<C, D>(Y, y0);
  vf_witness();
}

#define X(NR, NC)                                                                                   \
  extern "C" void k_mv0_##NR##x##NC##_n() { t_mv<NR, NC, 0, false>(); }                             \
  extern "C" void k_mv0_##NR##x##NC##_t() { t_mv<NR, NC, 0, true>(); }                              \
  extern "C" void k_mv1_##NR##x##NC##_n() { t_mv<NR, NC, 1, false>(); }                             \
  extern "C" void k_mv1_##NR##x##NC##_t() { t_mv<NR, NC, 1, true>(); }                              \
  extern "C" void k_mv2_##NR##x##NC##_n() { t_mv<NR, NC, 2, false>(); }                             \
  extern "C" void k_mv2_##NR##x##NC##_t() { t_mv<NR, NC, 2, true>(); }                              \
  extern "C" void k_mv3_##NR##x##NC##_n() { t_mv<NR, NC, 3, false>(); }                             \
  extern "C" void k_mv3_##NR##x##NC##_t() { t_mv<NR, NC, 3, true>(); }                              \
  extern "C" void k_mv4_##NR##x##NC##_n() { t_mv<NR, NC, 4, false>(); }                             \
  extern "C" void k_mv4_##NR##x##NC##_t() { t_mv<NR, NC, 4, true>(); }                              \
  extern "C" void k_mv5_##NR##x##NC##_n() { t_mv<NR, NC, 5, false>(); }                             \
  extern "C" void k_mv5_##NR##x##NC##_t() { t_mv<NR, NC, 5, true>(); }                              \
  extern "C" void k_mv6_##NR##x##NC##_n() { t_mv<NR, NC, 6, false>(); }                             \
  extern "C" void k_mv6_##NR##x##NC##_t() { t_mv<NR, NC, 6, true>(); }                              \
  extern "C" void k_mv7_##NR##x##NC##_n() { t_mv<NR, NC, 7, false>(); }                             \
  extern "C" void k_mv7_##NR##x##NC##_t() { t_mv<NR, NC, 7, true>(); }                              \
  extern "C" void k_mvchk_##NR##x##NC()                                                             \
  {                                                                                                 \
    t_mvcheck<NR, NC, 1, false>(); t_mvcheck<NR, NC, 1, true>(); t_mvcheck<NR, NC, 3, false>();     \
    t_mvcheck<NR, NC, 3, true>(); t_mvcheck<NR, NC, 5, false>(); t_mvcheck<NR, NC, 5, true>();      \
  }
#define Z(A, B, C, D, TX, TY)                                                                       \
  extern "C" void k_mm_##A##x##B##_##C##x##D##_##TX##TY() { t_mm<A, B, C, D, TX, TY, false>(); }    \
  extern "C" void k_gmm_##A##x##B##_##C##x##D##_##TX##TY() { t_mm<A, B, C, D, TX, TY, true>(); }
#ifndef VF_NO_MV
VF_SHAPES(X)
#endif
#ifndef VF_NO_MM
VF_MM(Z)
#endif
