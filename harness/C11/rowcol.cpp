// C11.a: AMatrixDense::multiplyRow / multiplyColumn / divideRow / divideColumn
// (src/Matrix/AMatrixDense.cpp) on a real MatrixRectangular(NR,NC), for the shapes listed in
// VF_SHAPES(X) (compile-time list "X(nr,nc) X(nr,nc) ...").
// Definition (headers: "Multiply a Matrix row-wise" / "column-wise"; generic AMatrix::multiplyRow
// and MatrixSparse::multiplyRow agree: 'vec' has one entry per ROW resp. per COLUMN):
//   multiplyRow   : R(i,j) = vec[i] * M(i,j),  vec.size() == nrows
//   multiplyColumn: R(i,j) = vec[j] * M(i,j),  vec.size() == ncols
//   divideRow / divideColumn: the same with M(i,j) / vec[.] (vec entries non-zero)
// 'vec' is allocated at exactly its documented length: any read beyond it is an out-of-bounds
// obligation of the executor.  The shape of the matrix must not change.
#include "vf.h"
#include "Matrix/MatrixRectangular.hpp"
#ifndef VF_SHAPES
#define VF_SHAPES(X) X(2, 2)
#endif
#ifndef VF_G
#define VF_G 1000
#endif
#ifdef VF_S9_PROPOSED_FIX
// NOT used by any registered kernel: the minimal source change proposed for suspect S9 (swap
// getNCols()/getNRows()), to confirm that the checks pass on the corrected code
// (python3-vt vf/kernel_run.py C11.a quick 0 VF_S9_PROPOSED_FIX).
#include "Basic/VectorHelper.hpp"
void AMatrixDense::multiplyRow(const VectorDouble& vec)
{
  Eigen::Map<const Eigen::VectorXd> vecm(vec.data(), getNRows());
  _eigenMatrix = vecm.asDiagonal() * _eigenMatrix;
}
void AMatrixDense::multiplyColumn(const VectorDouble& vec)
{
  Eigen::Map<const Eigen::VectorXd> vecm(vec.data(), getNCols());
  _eigenMatrix = _eigenMatrix * vecm.asDiagonal();
}
void AMatrixDense::divideRow(const VectorDouble& vec)
{
  VectorDouble temp = VH::inverse(vec);
  Eigen::Map<const Eigen::VectorXd> vecm(temp.data(), getNRows());
  _eigenMatrix = vecm.asDiagonal() * _eigenMatrix;
}
void AMatrixDense::divideColumn(const VectorDouble& vec)
{
  VectorDouble temp = VH::inverse(vec);
  Eigen::Map<const Eigen::VectorXd> vecm(temp.data(), getNCols());
  _eigenMatrix = _eigenMatrix * vecm.asDiagonal();
}
#endif
static bool same(double got, double want)
{
#ifdef VF_NATIVE
  // native runs (validation/replay) round 1/v and the product; the solver compares exactly
  double d = got - want; if (d < 0) d = -d;
  double a = want < 0 ? -want : want;
  return d <= 1e-12 * (a + 1.);
#else
  return got == want;
#endif
}
// OP: 0 multiplyRow, 1 multiplyColumn, 2 divideRow, 3 divideColumn; GEN: the generic AMatrix:: implementation
// (qualified call on the same object) instead of the Eigen one of AMatrixDense
template <int NR, int NC, int OP, bool GEN> static void run()
{
#ifdef VF_EXCL_S9_NONSQUARE // known-finding exclusion: AMatrixDense row/column scaling of a non-square matrix (S9)
  if (!GEN && NR != NC) { vf_witness(); return; }
#endif
  MatrixRectangular M(NR, NC);
  double m0[NR][NC];
  for (int i = 0; i < NR; i++)
    for (int j = 0; j < NC; j++)
    {
      m0[i][j] = vf_grid_double(VF_G);
      M.setValue(i, j, m0[i][j]);
    }
  const bool byrow = (OP == 0 || OP == 2);
  const int nv = byrow ? NR : NC;
  double v0[nv];
  VectorDouble vec(nv);
  for (int k = 0; k < nv; k++)
  {
    v0[k] = vf_grid_double(VF_G);
    if (OP >= 2 && v0[k] >= 0.) v0[k] += 1.; // divisors: every non-zero integer in [-G, G+1] (no assume needed)
    vec[k] = v0[k];
  }
  if (OP == 0 && !GEN) M.multiplyRow(vec);
  if (OP == 1 && !GEN) M.multiplyColumn(vec);
  if (OP == 2 && !GEN) M.divideRow(vec);
  if (OP == 3 && !GEN) M.divideColumn(vec);
  if (OP == 0 && GEN) M.AMatrix::multiplyRow(vec);
  if (OP == 1 && GEN) M.AMatrix::multiplyColumn(vec);
  if (OP == 2 && GEN) M.AMatrix::divideRow(vec);
  if (OP == 3 && GEN) M.AMatrix::divideColumn(vec);
  vf_assert_id(M.getNRows() == NR && M.getNCols() == NC, "shape unchanged");
  vf_assert_id((int)M._eigenMatrix.rows() == NR && (int)M._eigenMatrix.cols() == NC, "storage shape unchanged");
  if ((int)M._eigenMatrix.rows() == NR && (int)M._eigenMatrix.cols() == NC)
    for (int i = 0; i < NR; i++)
      for (int j = 0; j < NC; j++)
      {
        double f = v0[byrow ? i : j];
        double want = (OP < 2) ? f * m0[i][j] : m0[i][j] / f;
        vf_assert_id(same(M.getValue(i, j), want),
                     OP == 0 ? "multiplyRow: R(i,j) == vec[i]*M(i,j)" :
                     OP == 1 ? "multiplyColumn: R(i,j) == vec[j]*M(i,j)" :
                     OP == 2 ? "divideRow: R(i,j) == M(i,j)/vec[i]" : "divideColumn: R(i,j) == M(i,j)/vec[j]");
      }
  for (int k = 0; k < nv; k++) vf_assert_id(vec[k] == v0[k], "argument vector unchanged");
  vf_witness();
}
#define X(NR, NC)                                                               \
  extern "C" void k_mulrow_##NR##x##NC() { run<NR, NC, 0, false>(); }           \
  extern "C" void k_mulcol_##NR##x##NC() { run<NR, NC, 1, false>(); }           \
  extern "C" void k_divrow_##NR##x##NC() { run<NR, NC, 2, false>(); }           \
  extern "C" void k_divcol_##NR##x##NC() { run<NR, NC, 3, false>(); }           \
  extern "C" void k_gmulrow_##NR##x##NC() { run<NR, NC, 0, true>(); }           \
  extern "C" void k_gmulcol_##NR##x##NC() { run<NR, NC, 1, true>(); }           \
  extern "C" void k_gdivrow_##NR##x##NC() { run<NR, NC, 2, true>(); }           \
  extern "C" void k_gdivcol_##NR##x##NC() { run<NR, NC, 3, true>(); }
VF_SHAPES(X)
#undef X
