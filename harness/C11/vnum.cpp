// C11.f: reductions and element-wise arithmetic of VectorNumT<double> (include/Basic/VectorNumT.hpp,
// header-only) on vectors of every length 0..4 (one entry per length) with arbitrary content.
// The header documents no special treatment of TEST entries for these methods: none is assumed.
#include "vf.h"
#include "Basic/VectorNumT.hpp"
#include <math.h>
#ifndef VF_G
#define VF_G 1000
#endif
#ifdef VF_SOLVER
// stub (solver build only): C library abs(int) -- the unqualified abs(...) calls of VectorNumT.hpp resolve to it
extern "C" int abs(int x) { return x < 0 ? -x : x; }
#endif
static bool close_to(double got, double want)
{
  // relative tolerance in every build: the solver's exact reading satisfies it trivially; the concrete
  // validation runs of the engine and the native runs use a rounded sqrt / division
  double d = got - want; if (d < 0) d = -d;
  double a = want < 0 ? -want : want;
  return d <= 1e-12 * (a + 1.);
}
template <int N> static void draw(VectorDouble& v, double* v0, int g = VF_G)
{
  for (int i = 0; i < N; i++) { v0[i] = vf_grid_double(g); v[i] = v0[i]; }
}
template <int N> static void t_reduce()
{
  double a0[N + 1], b0[N + 1];
  VectorDouble a(N), b(N);
  draw<N>(a, a0);
  draw<N>(b, b0);
  double s = 0., ip = 0., nn = 0.;
  for (int i = 0; i < N; i++) { s += a0[i]; ip += a0[i] * b0[i]; nn += a0[i] * a0[i]; }
  vf_assert_id(a.sum() == s, "sum() == a[0]+...+a[n-1]");
  vf_assert_id(a.innerProduct(b) == ip, "innerProduct(b) == sum a[i]*b[i]");
  double nr = a.norm();
  vf_assert_id(nr >= 0. && close_to(nr * nr, nn), "norm() >= 0 and norm()^2 == sum a[i]^2");
  if (N > 0)
  {
    double mx = a0[0], mn = a0[0];
    for (int i = 1; i < N; i++) { if (a0[i] > mx) mx = a0[i]; if (a0[i] < mn) mn = a0[i]; }
#ifndef VF_EXCL_MAXIMUM // known-finding exclusion: maximum() starts from numeric_limits<double>::min()
    vf_assert_id(a.maximum() == mx, "maximum() == largest entry");
#endif
    vf_assert_id(a.minimum() == mn, "minimum() == smallest entry");
    vf_assert_id(close_to(a.mean() * N, s), "mean() == sum()/n");
  }
  for (int i = 0; i < N; i++) vf_assert_id(a[i] == a0[i] && b[i] == b0[i], "reductions leave the vectors unchanged");
  // size mismatch is refused
  VectorDouble c(N + 1);
  bool thrown = false;
  try { (void)a.innerProduct(c); } catch (const char*) { thrown = true; }
  vf_assert_id(thrown, "innerProduct with a vector of another length throws");
  vf_witness();
}
// element-wise arithmetic: OP 0 add 1 subtract 2 multiply 3 divide; SC: scalar right operand
template <int N, int OP, bool SC> static void t_arith()
{
  double a0[N + 1], b0[N + 1];
  VectorDouble a(N), b(N);
  draw<N>(a, a0);
  draw<N>(b, b0);
  double c = vf_grid_double(VF_G);
  if (OP == 3)
  { // divisors: every non-zero quarter-integer (divide accepts |v| >= 1e-10 and throws below)
#ifdef VF_EXCL_ABS // known-finding exclusion (unqualified abs resolves to abs(int)): integer divisors only
    const double q = 1.;
#else
    const double q = 0.25;
#endif
    for (int i = 0; i < N; i++) { if (b0[i] >= 0.) b0[i] += 1.; b0[i] *= q; b[i] = b0[i]; }
    if (c >= 0.) c += 1.;
    c *= q;
  }
  bool thrown = false;
  try
  {
    if (SC)
    {
      if (OP == 0) a.add(c);
      if (OP == 1) a.subtract(c);
      if (OP == 2) a.multiply(c);
      if (OP == 3) a.divide(c);
    }
    else
    {
      if (OP == 0) a.add(b);
      if (OP == 1) a.subtract(b);
      if (OP == 2) a.multiply(b);
      if (OP == 3) a.divide(b);
    }
  }
  catch (const char*) { thrown = true; }
  vf_assert_id(!thrown, OP == 3 ? "divide: divisors with |v| >= 1e-10 are accepted" : "conformable operands are accepted");
  if (thrown) { vf_witness(); return; }
  vf_assert_id((int)a.size() == N, "arithmetic keeps the length");
  for (int i = 0; i < N; i++)
  {
    double r = SC ? c : b0[i];
    double want = OP == 0 ? a0[i] + r : OP == 1 ? a0[i] - r : OP == 2 ? a0[i] * r : a0[i] / r;
    vf_assert_id(OP == 3 ? close_to(a[i], want) : a[i] == want,
                 OP == 0 ? "add: a[i] + b[i]" : OP == 1 ? "subtract: a[i] - b[i]" : OP == 2 ? "multiply: a[i] * b[i]" : "divide: a[i] / b[i]");
    vf_assert_id(b[i] == b0[i], "right operand unchanged");
  }
  vf_witness();
}
// isSame(other, eps): all |a[i]-b[i]| <= eps; quarter-integer values so that differences below 1 occur
template <int N> static void t_same()
{
  double a0[N + 1], b0[N + 1];
  VectorDouble a(N), b(N);
  for (int i = 0; i < N; i++)
  {
    a0[i] = vf_grid_double(40) * 0.25;
    b0[i] = vf_grid_double(40) * 0.25;
    a[i] = a0[i];
    b[i] = b0[i];
  }
  double eps = vf_grid_double(40) * 0.25;
  vf_assume(eps >= 0.);
  bool want = true;
  for (int i = 0; i < N; i++)
  {
    double d = a0[i] - b0[i]; if (d < 0) d = -d;
    if (d > eps) want = false;
  }
#ifndef VF_EXCL_ABS
  vf_assert_id(a.isSame(b, eps) == want, "isSame(b, eps) == (all |a[i]-b[i]| <= eps)");
#endif
  VectorDouble c(N + 1);
  vf_assert_id(!a.isSame(c, eps), "isSame: different lengths are not the same");
  vf_witness();
}
#define PERN(N)                                                        \
  extern "C" void k_reduce_##N() { t_reduce<N>(); }                    \
  extern "C" void k_same_##N() { t_same<N>(); }                        \
  extern "C" void k_add_##N() { t_arith<N, 0, false>(); }              \
  extern "C" void k_sub_##N() { t_arith<N, 1, false>(); }              \
  extern "C" void k_mul_##N() { t_arith<N, 2, false>(); }              \
  extern "C" void k_div_##N() { t_arith<N, 3, false>(); }              \
  extern "C" void k_adds_##N() { t_arith<N, 0, true>(); }              \
  extern "C" void k_subs_##N() { t_arith<N, 1, true>(); }              \
  extern "C" void k_muls_##N() { t_arith<N, 2, true>(); }              \
  extern "C" void k_divs_##N() { t_arith<N, 3, true>(); }
PERN(0) PERN(1) PERN(2) PERN(3) PERN(4)
