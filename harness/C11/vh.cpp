// C11.e: sorting / ranking helpers and simple reductions of VectorHelper (src/Basic/VectorHelper.cpp)
// on vectors of every length 0..VF_NMAX (compile-time, one entry per length) with arbitrary content.
// libstdc++'s std::sort / std::stable_sort / std::unique are real code and are executed.
#include "vf.h"
#include "Basic/VectorHelper.hpp"
#include "Basic/AException.hpp"
#include "geoslib_define.h"
#ifndef VF_G
#define VF_G 1000
#endif
// override (stub): the real throw_exp formats its message through std::stringstream/std::cout
void throw_exp(const std::string&, const std::string&, int) { throw 1; }
// override (stub): nothrow operator new is only used by std::get_temporary_buffer inside std::stable_sort.  It reports
// "no memory" (which the standard allows at any time): libstdc++ then runs its buffer-less __inplace_stable_sort
// (insertion sort below 15 elements).  The buffered merge path moves ranges whose length depends on the data
// (memmove of symbolic length), which the executor does not support.  gstlearn's own code is unaffected.
#include <new>
void* operator new(std::size_t, const std::nothrow_t&) noexcept { return nullptr; }

template <int N> static void drawD(VectorDouble& v, double* v0)
{
  for (int i = 0; i < N; i++) { v0[i] = vf_grid_double(VF_G); v[i] = v0[i]; }
}
template <int N> static void drawI(VectorInt& v, int* v0)
{
  for (int i = 0; i < N; i++) { v0[i] = vf_range(-VF_G, VF_G); v[i] = v0[i]; }
}
// values possibly undefined (TEST)
template <int N> static void drawDT(VectorDouble& v, double* v0, bool* def)
{
  for (int i = 0; i < N; i++)
  {
    double g = vf_grid_double(VF_G);
    bool t = vf_nondet_bool();
    def[i] = !t;
    v0[i] = t ? TEST : g;
    v[i] = v0[i];
  }
}
static bool is_perm(const VectorInt& p, int n)
{
  if ((int)p.size() != n) return false;
  bool ok = true;
  for (int i = 0; i < n; i++)
  {
    if (p[i] < 0 || p[i] >= n) ok = false;
    for (int j = 0; j < i; j++)
      if (p[i] == p[j]) ok = false;
  }
  return ok;
}
static double pick(const double* a, int n, int idx) // a[idx] for a symbolic in-range idx
{
  double r = 0.;
  for (int i = 0; i < n; i++)
    if (i == idx) r = a[i];
  return r;
}

// ---- orderRanks (double and int), sortRanks;  S = size argument (-1: whole vector)
template <int N, int S, bool ASC, bool INT> static void t_order()
{
  const int m = S < 0 ? N : S;
  double d0[N + 1];
  int i0[N + 1];
  VectorDouble vd(N);
  VectorInt vi(N);
  drawD<N>(vd, d0);
  drawI<N>(vi, i0);
  if (INT) for (int i = 0; i < N; i++) d0[i] = i0[i];
  VectorInt o = INT ? VH::orderRanks(vi, ASC, S) : VH::orderRanks(vd, ASC, S);
  if (N == 0) { vf_assert_id(o.size() == 0, "orderRanks: empty input gives empty output"); vf_witness(); return; }
  bool perm = is_perm(o, m);
  vf_assert_id(perm, "orderRanks: result is a permutation of 0..size-1");
  if (perm)
    for (int i = 0; i + 1 < m; i++)
    {
      double a = pick(d0, N, o[i]), b = pick(d0, N, o[i + 1]);
      vf_assert_id(ASC ? a <= b : a >= b, "orderRanks: vecin[order[i]] is sorted in the requested direction");
    }
  for (int i = 0; i < N; i++) vf_assert_id(INT ? vi[i] == i0[i] : vd[i] == d0[i], "orderRanks: input unchanged");
  vf_witness();
}
template <int N, int S, bool ASC> static void t_sortranks()
{
  const int m = S < 0 ? N : S;
  double d0[N + 1];
  VectorDouble vd(N);
  drawD<N>(vd, d0);
  VectorInt r = VH::sortRanks(vd, ASC, S);
  if (N == 0) { vf_assert_id(r.size() == 0, "sortRanks: empty input gives empty output"); vf_witness(); return; }
  bool perm = is_perm(r, m);
  vf_assert_id(perm, "sortRanks: result is a permutation of 0..size-1");
  if (perm)
    for (int a = 0; a < m; a++)
      for (int b = 0; b < m; b++)
        if (ASC ? d0[a] < d0[b] : d0[a] > d0[b])
          vf_assert_id(r[a] < r[b], "sortRanks: a value that comes strictly first gets the smaller rank");
  vf_witness();
}
// ---- arrangeInPlace(safe, ranks, values, ascending, size), double and int values
// Known-finding exclusions (extra -D, used by the runner's "re-decide excluding a listed finding" only):
//   VF_EXCL_ARRANGE_INT_SIZE  arrangeInPlace(VectorInt values) with size < length (S14)
//   VF_EXCL_EXTAUX_MODE       maximum/minimum conditional to aux with mode != 0
//   VF_EXCL_EXT_VV            maximum/minimum of a VectorVectorDouble
template <int N, int S, bool ASC, bool INT, int SAFE> static void t_arrange()
{
#ifdef VF_EXCL_ARRANGE_INT_SIZE
  if (INT && S >= 0 && S < N) { vf_witness(); return; }
#endif
  const int m = S < 0 ? N : S;
  double d0[N + 1];
  int i0[N + 1];
  VectorDouble vd(N);
  VectorInt vi(N), ranks(N);
  drawD<N>(vd, d0);
  drawI<N>(vi, i0);
  if (INT) for (int i = 0; i < N; i++) d0[i] = i0[i];
  for (int i = 0; i < N; i++) ranks[i] = 10 + i; // rank 10+i tags the original slot i
  if (INT) VH::arrangeInPlace(SAFE, ranks, vi, ASC, S);
  else     VH::arrangeInPlace(SAFE, ranks, vd, ASC, S);
  bool szok = (int)ranks.size() == N && (INT ? (int)vi.size() == N : (int)vd.size() == N);
  vf_assert_id(szok, "arrangeInPlace: the arrays keep their length (the part beyond 'size' is unchanged)");
  if (szok)
  {
    // head: ranks is a permutation of the original head tags, values follow (or are preserved if safe)
    bool tags = true;
    for (int i = 0; i < m; i++)
    {
      if (ranks[i] < 10 || ranks[i] >= 10 + m) tags = false;
      for (int j = 0; j < i; j++)
        if (ranks[i] == ranks[j]) tags = false;
    }
    vf_assert_id(tags, "arrangeInPlace: ranks[0..size) is a permutation of its original content");
    if (tags)
    {
      for (int i = 0; i + 1 < m; i++)
      {
        double a = pick(d0, N, ranks[i] - 10), b = pick(d0, N, ranks[i + 1] - 10);
        vf_assert_id(ASC ? a <= b : a >= b, "arrangeInPlace: ranks are arranged by sorted value");
      }
      for (int i = 0; i < m; i++)
      {
        double now = INT ? (double)vi[i] : vd[i];
        double want = SAFE ? d0[i] : pick(d0, N, ranks[i] - 10);
        vf_assert_id(now == want, SAFE ? "arrangeInPlace(safe=1): values preserved" : "arrangeInPlace(safe=0): values travel with their ranks");
      }
    }
    for (int i = m; i < N; i++)
    {
      vf_assert_id(ranks[i] == 10 + i, "arrangeInPlace: ranks beyond 'size' unchanged");
      vf_assert_id((INT ? (double)vi[i] : vd[i]) == d0[i], "arrangeInPlace: values beyond 'size' unchanged");
    }
  }
  vf_witness();
}
// ---- isSorted
template <int N, bool ASC> static void t_issorted()
{
  double d0[N + 1];
  VectorDouble vd(N);
  drawD<N>(vd, d0);
  bool got = VH::isSorted(vd, ASC);
  bool strict = true, broken = false;
  for (int i = 1; i < N; i++)
  {
    if (!(ASC ? d0[i] > d0[i - 1] : d0[i] < d0[i - 1])) strict = false;
    if (ASC ? d0[i] < d0[i - 1] : d0[i] > d0[i - 1]) broken = true;
  }
  if (strict) vf_assert_id(got, "isSorted: a strictly ordered vector is sorted");
  if (broken) vf_assert_id(!got, "isSorted: a vector with an inversion is not sorted");
  vf_witness();
}
// ---- unique (double and int)
template <int N, int S, bool INT> static void t_unique()
{
  const int m = S < 0 ? N : S;
  double d0[N + 1];
  int i0[N + 1];
  VectorDouble vd(N);
  VectorInt vi(N);
  drawD<N>(vd, d0);
  drawI<N>(vi, i0);
  if (INT) for (int i = 0; i < N; i++) d0[i] = i0[i];
  double u[N + 1];
  int nu = 0;
  if (INT) { VectorInt r = VH::unique(vi, S); nu = (int)r.size(); vf_assert_id(nu <= m, "unique: at most 'size' values"); if (nu <= m) for (int i = 0; i < nu; i++) u[i] = r[i]; }
  else     { VectorDouble r = VH::unique(vd, S); nu = (int)r.size(); vf_assert_id(nu <= m, "unique: at most 'size' values"); if (nu <= m) for (int i = 0; i < nu; i++) u[i] = r[i]; }
  if (nu <= m)
  {
    for (int i = 0; i + 1 < nu; i++) vf_assert_id(u[i] < u[i + 1], "unique: strictly ascending (no duplicates)");
    for (int i = 0; i < nu; i++)
    {
      bool found = false;
      for (int j = 0; j < m; j++) if (u[i] == d0[j]) found = true;
      vf_assert_id(found, "unique: every output value occurs in the input");
    }
    for (int j = 0; j < m; j++)
    {
      bool found = false;
      for (int i = 0; i < nu; i++) if (u[i] == d0[j]) found = true;
      vf_assert_id(found, "unique: every input value occurs in the output");
    }
  }
  vf_witness();
}
// ---- reductions: cumul, count, sequence, whereMinimum/whereMaximum, maximum/minimum
template <int N> static void t_reduce()
{
  double d0[N + 1];
  bool def[N + 1];
  int i0[N + 1];
  VectorDouble vd(N);
  VectorInt vi(N);
  drawDT<N>(vd, d0, def);
  drawI<N>(vi, i0);
  bool flagAbs = vf_nondet_bool();
  int ndef = 0, si = 0;
  double sd = 0.;
  for (int i = 0; i < N; i++) { si += i0[i]; if (def[i]) { sd += d0[i]; ndef++; } }
  vf_assert_id(VH::cumul(vi) == si, "cumul(VectorInt) == sum");
  vf_assert_id(VH::cumul(vd) == sd, "cumul(VectorDouble) == sum of the defined values");
  // extrema of the defined values
  double mx = 0., mn = 0., amx = 0., amn = 0.;
  bool first = true;
  for (int i = 0; i < N; i++)
    if (def[i])
    {
      double a = d0[i] < 0 ? -d0[i] : d0[i];
      if (first || d0[i] > mx) mx = d0[i];
      if (first || d0[i] < mn) mn = d0[i];
      if (first || a > amx) amx = a;
      if (first || a < amn) amn = a;
      first = false;
    }
  int wmin = VH::whereMinimum(vd), wmax = VH::whereMaximum(vd);
  if (ndef == 0)
  {
    vf_assert_id(wmin == -1, "whereMinimum: -1 when no value is defined");
    vf_assert_id(wmax == -1, "whereMaximum: -1 when no value is defined");
  }
  else
  {
    vf_assert_id(wmin >= 0 && wmin < N, "whereMinimum: rank in range");
    vf_assert_id(wmax >= 0 && wmax < N, "whereMaximum: rank in range");
    if (wmin >= 0 && wmin < N) vf_assert_id(pick(d0, N, wmin) == mn, "whereMinimum: rank of the minimum defined value");
    if (wmax >= 0 && wmax < N) vf_assert_id(pick(d0, N, wmax) == mx, "whereMaximum: rank of the maximum defined value");
    vf_assert_id(VH::maximum(vd, flagAbs) == (flagAbs ? amx : mx), "maximum(VectorDouble, flagAbs): maximum of the defined (absolute) values");
    vf_assert_id(VH::minimum(vd, flagAbs) == (flagAbs ? amn : mn), "minimum(VectorDouble, flagAbs): minimum of the defined (absolute) values");
  }
  if (N == 0)
  {
    vf_assert_id(VH::maximum(vd, flagAbs) == TEST && VH::minimum(vd, flagAbs) == TEST, "maximum/minimum of an empty vector is TEST");
  }
  else
  {
    int imx = i0[0], imn = i0[0];
    for (int i = 0; i < N; i++)
    {
      int a = flagAbs && i0[i] < 0 ? -i0[i] : i0[i];
      if (i == 0 || a > imx) imx = a;
      if (i == 0 || a < imn) imn = a;
    }
    vf_assert_id(VH::maximum(vi, flagAbs) == imx, "maximum(VectorInt, flagAbs)");
    vf_assert_id(VH::minimum(vi, flagAbs) == imn, "minimum(VectorInt, flagAbs)");
  }
  vf_witness();
}
// maximum/minimum conditional to 'aux' (mode -1, 0, +1): "statistics calculated only when vec > aux (mode>0) / vec < aux (mode<0)"
template <int N, int MODE, bool MAXI> static void t_extaux()
{
#ifdef VF_EXCL_EXTAUX_MODE
  if (MODE != 0) { vf_witness(); return; }
#endif
  double d0[N + 1], a0[N + 1];
  bool def[N + 1], adef[N + 1];
  VectorDouble vd(N), aux(N);
  drawDT<N>(vd, d0, def);
  drawDT<N>(aux, a0, adef);
  for (int i = 0; i < N; i++) vf_assume(!def[i] || !adef[i] || d0[i] != a0[i]); // ties vec == aux: the documentation (strict) and the code (non-strict) differ, not decided here
  double best = 0.;
  bool any = false;
  for (int i = 0; i < N; i++)
  {
    if (!def[i] || !adef[i]) continue;
    if (MODE > 0 && !(d0[i] > a0[i])) continue;
    if (MODE < 0 && !(d0[i] < a0[i])) continue;
    if (!any || (MAXI ? d0[i] > best : d0[i] < best)) best = d0[i];
    any = true;
  }
  double got = MAXI ? VH::maximum(vd, false, aux, MODE) : VH::minimum(vd, false, aux, MODE);
  if (any) vf_assert_id(got == best, MAXI ? "maximum(vec, aux, mode): extremum over the entries selected by aux/mode" : "minimum(vec, aux, mode): extremum over the entries selected by aux/mode");
  vf_witness();
}
// extrema of a vector of vectors (2 x N)
template <int N> static void t_extvv()
{
  double d0[2][N + 1];
  VectorVectorDouble vv(2);
  bool flagAbs = vf_nondet_bool();
  for (int k = 0; k < 2; k++) { VectorDouble v(N); drawD<N>(v, d0[k]); vv[k] = v; }
  double mx = 0., mn = 0.;
  for (int k = 0; k < 2; k++)
    for (int i = 0; i < N; i++)
    {
      double a = (flagAbs && d0[k][i] < 0) ? -d0[k][i] : d0[k][i];
      if ((k == 0 && i == 0) || a > mx) mx = a;
      if ((k == 0 && i == 0) || a < mn) mn = a;
    }
#ifndef VF_EXCL_EXT_VV
  vf_assert_id(VH::maximum(vv, flagAbs) == mx, "maximum(VectorVectorDouble, flagAbs): maximum over all (absolute) values");
  vf_assert_id(VH::minimum(vv, flagAbs) == mn, "minimum(VectorVectorDouble, flagAbs): minimum over all (absolute) values");
#endif
  VectorVectorInt ww(2);
  ww[0] = VectorInt(N);
  ww[1] = VectorInt(N > 0 ? N - 1 : 0);
  int tot = 0;
  for (int i = 0; i < N; i++) { int v = vf_range(-VF_G, VF_G); ww[0][i] = v; tot += v; }
  vf_assert_id(VH::count(ww) == N + (N > 0 ? N - 1 : 0), "count(VectorVectorInt) == total number of elements");
  vf_assert_id(VH::cumul(ww) == tot, "cumul(VectorVectorInt) == total sum");
  vf_witness();
}
template <int N> static void t_sequence()
{
  int ideb = vf_range(-VF_G, VF_G), step = vf_range(-VF_G, VF_G);
  VectorInt s = VH::sequence(N, ideb, step);
  vf_assert_id((int)s.size() == N, "sequence(number, ideb, step): length == number");
  if ((int)s.size() == N)
    for (int i = 0; i < N; i++) vf_assert_id(s[i] == ideb + i * step, "sequence: s[i] == ideb + i*step");
  vf_witness();
}

#define SORTS(N, S, TAG)                                                                       \
  extern "C" void k_orderD_##TAG##_a() { t_order<N, S, true, false>(); }                       \
  extern "C" void k_orderD_##TAG##_d() { t_order<N, S, false, false>(); }                      \
  extern "C" void k_orderI_##TAG##_a() { t_order<N, S, true, true>(); }                        \
  extern "C" void k_orderI_##TAG##_d() { t_order<N, S, false, true>(); }                       \
  extern "C" void k_sortranks_##TAG##_a() { t_sortranks<N, S, true>(); }                       \
  extern "C" void k_sortranks_##TAG##_d() { t_sortranks<N, S, false>(); }                      \
  extern "C" void k_arrD0_##TAG##_a() { t_arrange<N, S, true, false, 0>(); }                   \
  extern "C" void k_arrD0_##TAG##_d() { t_arrange<N, S, false, false, 0>(); }                  \
  extern "C" void k_arrD1_##TAG##_a() { t_arrange<N, S, true, false, 1>(); }                   \
  extern "C" void k_arrI0_##TAG##_a() { t_arrange<N, S, true, true, 0>(); }                    \
  extern "C" void k_arrI0_##TAG##_d() { t_arrange<N, S, false, true, 0>(); }                   \
  extern "C" void k_arrI1_##TAG##_a() { t_arrange<N, S, true, true, 1>(); }                    \
  extern "C" void k_uniqD_##TAG() { t_unique<N, S, false>(); }                                 \
  extern "C" void k_uniqI_##TAG() { t_unique<N, S, true>(); }
#define PERN(N)                                                                                \
  extern "C" void k_issorted_##N##_a() { t_issorted<N, true>(); }                              \
  extern "C" void k_issorted_##N##_d() { t_issorted<N, false>(); }                             \
  extern "C" void k_reduce_##N() { t_reduce<N>(); }                                            \
  extern "C" void k_sequence_##N() { t_sequence<N>(); }
#define AUXN(N)                                                                                \
  extern "C" void k_maxaux_##N##_m() { t_extaux<N, -1, true>(); }                              \
  extern "C" void k_maxaux_##N##_z() { t_extaux<N, 0, true>(); }                               \
  extern "C" void k_maxaux_##N##_p() { t_extaux<N, 1, true>(); }                               \
  extern "C" void k_minaux_##N##_m() { t_extaux<N, -1, false>(); }                             \
  extern "C" void k_minaux_##N##_z() { t_extaux<N, 0, false>(); }                              \
  extern "C" void k_minaux_##N##_p() { t_extaux<N, 1, false>(); }                              \
  extern "C" void k_extvv_##N() { t_extvv<N>(); }
#ifdef VF_SORTS
VF_SORTS(SORTS)
#endif
#ifdef VF_PERN
VF_PERN(PERN)
#endif
#ifdef VF_AUXN
VF_AUXN(AUXN)
#endif
