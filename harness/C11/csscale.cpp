// C11.s: row / column scaling of a sparse matrix held in the "cs" back-end (opt_eigen = 0):
// MatrixSparse::multiplyRow / multiplyColumn / divideRow / divideColumn (src/Matrix/MatrixSparse.cpp), which go
// through cs_matvecR / cs_matvecL (src/Matrix/LinkMatrixSparse.cpp: cs_duplicate = cs_add(A, A, 1, 0), operate_Identify,
// operate_Identity / operate_Inverse of src/Basic/Utilities.cpp) and cs_spfree2, on a REAL MatrixSparse object built
// by MatrixSparse(const cs*) from a compressed VF_M x VF_N matrix with exactly NZ entries at arbitrary pairwise distinct
// positions (every sparsity pattern with NZ non-zero cells, in every storage order of the triplets).
// Definition (include/Matrix/AMatrix.hpp "Multiply a Matrix row-wise" / "column-wise"; the dense classes agree, C11.a):
//   multiplyRow   : R(i,j) = vec[i] * M(i,j),  vec.size() == nrows
//   multiplyColumn: R(i,j) = vec[j] * M(i,j),  vec.size() == ncols
//   divideRow / divideColumn: M(i,j) / vec[.]  (vec entries non-zero integers)
// The result is compared cell by cell with the dense definition D(i,j) = the triplet value at (i,j) or 0, read both through the
// public MatrixSparse::getValue and through an independent reading of the compressed-column arrays.  'vec' is allocated
// at exactly its documented length (any read beyond it is an out-of-bounds obligation of the executor).
// vec is an arbitrary integer-valued vector for NZ <= VF_NZSYM (default 3: always) and the fixed vector (2,-4,8) beyond.
#include "vf.h"
#include "Matrix/MatrixSparse.hpp"
#include "Matrix/LinkMatrixSparse.hpp"
#include "csparse_d.h"
#include "csparse_f.h"
#ifndef VF_M
#define VF_M 2
#endif
#ifndef VF_N
#define VF_N 2
#endif
#ifndef VF_G
#define VF_G 100
#endif
#ifndef VF_NZSYM
#define VF_NZSYM 3
#endif
#ifdef VF_SOLVER
// C library memset (the default constructor of the unused Eigen::SparseMatrix member zeroes its one-element outer index
// with it; -fno-builtin keeps it a library call): the llvm.memset intrinsic, which the executor models
extern "C" void* memset(void* d, int c, size_t n) { __builtin_memset(d, c, n); return d; }
// realloc (cs_sprealloc(C, 0) at the end of cs_add trims the result to its number of entries, a data-dependent size):
// the block is kept where it is with its allocated size.  Sound for shrinking calls (the only ones here: cs_add allocates
// anz + bnz entries); a growing call would show up as an out-of-bounds obligation on the old block.
extern "C" void* realloc(void* p, size_t) { return p; }
#endif
static bool same(double got, double want)
{
#ifdef VF_NATIVE
  // native runs (validation/replay) round 1/v and the product; the solver compares exactly
  double d = got - want; if (d < 0) d = -d;
  double a = want < 0 ? -want : want;
  return d <= 1e-12 * (a + 1.);
#else
  return got == want;
#endif
}
// dense reading of a compressed-column matrix (sum of the stored entries of each cell); false if the structure is broken
template <int M, int N> static bool dense_of(const cs* C, int nzmax, double out[M][N])
{
  if (C == nullptr || C->m != M || C->n != N || C->nz != -1) return false;
  bool st = C->p[0] == 0 && C->p[N] >= 0 && C->p[N] <= nzmax;
  for (int j = 0; j < N; j++) st = st && C->p[j] <= C->p[j + 1];
  if (!st) return false;
  for (int p = 0; p < nzmax; p++)
    if (p < C->p[N]) st = st && C->i[p] >= 0 && C->i[p] < M;
  if (!st) return false;
  for (int i = 0; i < M; i++)
    for (int j = 0; j < N; j++)
    {
      double s = 0.;
      for (int p = 0; p < nzmax; p++)
        if (C->p[j] <= p && p < C->p[j + 1] && C->i[p] == i) s += C->x[p];
      out[i][j] = s;
    }
  return true;
}
// OP: 0 multiplyRow, 1 multiplyColumn, 2 divideRow, 3 divideColumn
template <int NZ, int OP> static void t_scale()
{
  const int M = VF_M, N = VF_N;
  const bool byrow = (OP == 0 || OP == 2);
  const int nv = byrow ? M : N;
  double D[M][N];
  for (int i = 0; i < M; i++)
    for (int j = 0; j < N; j++) D[i][j] = 0.;
  cs* T = cs_spalloc(M, N, NZ, 1, 1);
  int pos[NZ + 1];
  for (int k = 0; k < NZ; k++)
  {
    int ti = vf_range(0, M - 1);
    int tj = vf_range(0, N - 1);
    double tx = vf_grid_double(VF_G);
    // pairwise distinct cells: the constructor sums duplicates (cs_add), after which the matrix is a pattern with fewer
    // entries, i.e. one of the other entry points; the number of stored entries is then the constant NZ (allocation sizes)
    pos[k] = ti * N + tj;
    for (int l = 0; l < k; l++) vf_assume(pos[l] != pos[k]);
    for (int i = 0; i < M; i++)
      for (int j = 0; j < N; j++)
        if (ti == i && tj == j) D[i][j] += tx;
    cs_entry(T, ti, tj, tx);
  }
  double v0[nv];
  VectorDouble vec(nv);
  for (int k = 0; k < nv; k++)
  {
    v0[k] = vf_grid_double(VF_G);
    if (OP >= 2 && v0[k] >= 0.) v0[k] += 1.; // divisors: every non-zero integer in [-G, G+1] (no assume needed)
    // more than VF_NZSYM entries: the fixed vector (2,-4,8) (pairwise distinct entries, 1/v exact), which keeps the
    // arithmetic linear in the symbolic matrix values while still telling rows from columns
    if (NZ > VF_NZSYM) v0[k] = k == 0 ? 2. : k == 1 ? -4. : 8.;
    vec[k] = v0[k];
  }
  T->m = M; // cs_entry keeps max(index)+1 >= allocated shape: constants again (decided by C11.d) so that sizes are concrete
  T->n = N;
  cs* C = cs_triplet(T);
  MatrixSparse ms(C); // cs back-end (_flagEigen = false), own copy of C
  vf_assert_id(!ms.isFlagEigen(), "MatrixSparse(const cs*) uses the cs back-end");
  if (OP == 0) ms.multiplyRow(vec);
  if (OP == 1) ms.multiplyColumn(vec);
  if (OP == 2) ms.divideRow(vec);
  if (OP == 3) ms.divideColumn(vec);
  vf_assert_id(ms.getNRows() == M && ms.getNCols() == N, "shape unchanged");
  double dr[M][N];
  bool ok = dense_of<M, N>(ms._csMatrix, NZ, dr);
  vf_assert_id(ok, "result storage is a well-formed compressed M x N matrix");
  for (int i = 0; i < M; i++)
    for (int j = 0; j < N; j++)
    {
      double f = v0[byrow ? i : j];
      double want = (OP < 2) ? f * D[i][j] : D[i][j] / f;
      const char* id = OP == 0 ? "multiplyRow (cs): R(i,j) == vec[i]*M(i,j)" :
                       OP == 1 ? "multiplyColumn (cs): R(i,j) == vec[j]*M(i,j)" :
                       OP == 2 ? "divideRow (cs): R(i,j) == M(i,j)/vec[i]" : "divideColumn (cs): R(i,j) == M(i,j)/vec[j]";
      if (ok) vf_assert_id(same(dr[i][j], want), id);
      // public accessor (first stored entry of the cell; equal to the cell sum when no cell is stored twice)
      double g = ms.getValue(i, j);
      vf_assert_id(!ok || same(g, want),
                   OP == 0 ? "multiplyRow (cs): getValue(i,j) == vec[i]*M(i,j)" :
                   OP == 1 ? "multiplyColumn (cs): getValue(i,j) == vec[j]*M(i,j)" :
                   OP == 2 ? "divideRow (cs): getValue(i,j) == M(i,j)/vec[i]" : "divideColumn (cs): getValue(i,j) == M(i,j)/vec[j]");
    }
  for (int k = 0; k < nv; k++) vf_assert_id(vec[k] == v0[k], "argument vector unchanged");
  cs_spfree(C);
  cs_spfree(T);
  vf_witness();
}
#define ENT(NZ)                                                       \
  extern "C" void k_mulrow_##NZ() { t_scale<NZ, 0>(); }               \
  extern "C" void k_mulcol_##NZ() { t_scale<NZ, 1>(); }               \
  extern "C" void k_divrow_##NZ() { t_scale<NZ, 2>(); }               \
  extern "C" void k_divcol_##NZ() { t_scale<NZ, 3>(); }
ENT(0) ENT(1) ENT(2) ENT(3)
