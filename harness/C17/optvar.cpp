// C17.f: Option_VarioFit flag wiring in the parameter list of automatic fitting:
//   st_parid_alloc (static function of src/Core/model_auto.cpp, reached by including the translation
//   unit; called by st_model_auto_strmod_alloc): builds strmod->parid, the list of parameters the
//   optimiser (foxleg) is allowed to move, with the real st_parid_encode, Option_VarioFit copy
//   constructor / accessors, Model::getDimensionNumber / getVariableNumber (inline) and VectorT.
// One model with VF_NCOV basic structures in dimension VF_NDIM with VF_NVAR variables; per structure a
// symbolic flag_range in {-1, 0, +1} and flag_param in {0, 1} (what model_cova_characteristics
// reports); every option flag symbolic; tapering on or off.
// Reference (identifier decoded by the harness's own arithmetic, base CONGRUENCY = 50):
//   flag_goulard_used              => no SILL identifier
//   !auth_aniso                    => no RANGE identifier with ivar >= 1 and no ANGLE identifier
//   !auth_rotation                 => no ANGLE identifier
//   lock_samerot                   => ANGLE identifiers for one structure only
//   3-D: lock_iso2d => no RANGE ivar == 1; lock_no3d => no RANGE ivar == 2; lock_rot2d => ANGLE ivar == 0 only
//   a structure without range (flag_range == 0) has no RANGE / ANGLE identifier; without third
//   parameter no PARAM identifier; T_RANGE only with tapering
#include "vf.h"
#include "Core/model_auto.cpp" // -I/repo/src: the real file, its statics become visible here
#include "Covariances/CovAniso.hpp"
#include "Enum/EModelProperty.hpp"
#include <stdlib.h>

#ifndef VF_NCOV
#define VF_NCOV 2
#endif
#ifndef VF_NDIM
#define VF_NDIM 2
#endif
#ifndef VF_NVAR
#define VF_NVAR 1
#endif
// room for every parameter the function can emit
#define VF_NPAR0 (VF_NCOV * (VF_NVAR * (VF_NVAR + 1) / 2 + 2 + (VF_NDIM - 1) + VF_NDIM + 1))

// ---- static enum items: static constructors are not executed by the solver build, so the integer
// value of the items read by the kernel is written by hand; natively the same values are checked
template<class E> static void g_enum(const E& e, int v)
{
#ifdef VF_SOLVER
  E& x = const_cast<E&>(e);
  x._value = v;
  x._key = std::string_view();
  *(int*)((char*)&x._value + 4) = 0;
  x._descr = std::string_view();
#else
  if (e.getValue() != v) abort();
#endif
}
static void init_enums()
{
  g_enum(EConsElem::RANGE, 1);
  g_enum(EConsElem::ANGLE, 2);
  g_enum(EConsElem::PARAM, 3);
  g_enum(EConsElem::SILL, 4);
  g_enum(EConsElem::T_RANGE, 6);
  g_enum(EModelProperty::NONE, 0);
  g_enum(EModelProperty::TAPE, 3);
}

// ---- symbolic description of the model
static int g_flag_range[VF_NCOV];
static int g_flag_param[VF_NCOV];
static bool g_tape;
alignas(16) static char g_ecov[VF_NCOV * sizeof(ECov)]; // structure type objects: _value = rank of the structure

// ---- overrides
unsigned int ASpaceObject::getNDim(int ispace) const { (void)ispace; return VF_NDIM; } // Model::getDimensionNumber -> _ctxt.getNDim()
int Model::getCovaNumber(bool skipNugget) const { (void)skipNugget; return VF_NCOV; }
const ECov& Model::getCovaType(int icov) const { return *((const ECov*)g_ecov + icov); }
const EModelProperty& Model::getCovMode() const { return g_tape ? EModelProperty::TAPE : EModelProperty::NONE; }
void model_cova_characteristics(const ECov& type, char cov_name[STRING_LENGTH], int* flag_range, int* flag_param, int* min_order,
                                int* max_ndim, int* flag_int_1d, int* flag_int_2d, int* flag_aniso, int* flag_rotation,
                                double* scale, double* parmax)
{
  int ic = type.getValue();
  cov_name[0] = 0;
  *flag_range = g_flag_range[ic];
  *flag_param = g_flag_param[ic];
  *min_order = -1;
  *max_ndim = -1;
  *flag_int_1d = 0;
  *flag_int_2d = 0;
  *flag_aniso = (g_flag_range[ic] != 0);
  *flag_rotation = (g_flag_range[ic] != 0);
  *scale = 1.;
  *parmax = -1.;
}

extern "C" char vt_CovAniso[] asm("_ZTV8CovAniso");
alignas(16) static char g_modelbuf[sizeof(Model)];
alignas(16) static char g_covbuf[sizeof(CovAniso)];

extern "C" void k_parid_options()
{
  // ---- symbolic inputs, drawn unconditionally
  for (int c = 0; c < VF_NCOV; c++)
  {
    g_flag_range[c] = vf_range(-1, 1);
    g_flag_param[c] = vf_range(0, 1);
  }
  g_tape = vf_nondet_bool();
  bool goulard = vf_nondet_bool(), authAniso = vf_nondet_bool(), authRot = vf_nondet_bool(), sameRot = vf_nondet_bool();
  bool rot2d = vf_nondet_bool(), no3d = vf_nondet_bool(), iso2d = vf_nondet_bool();

  init_enums();
  for (int c = 0; c < VF_NCOV; c++) ((ECov*)g_ecov + c)->_value = c;

  // ---- objects: Model and its covariance part are raw storage, only what is read is initialised
  CovAniso* cov = (CovAniso*)g_covbuf;
  *(void**)g_covbuf = (void*)(vt_CovAniso + 16); // real vtable: the virtual getNVariables() reads _ctxt._nVar
  cov->_ctxt._nVar = VF_NVAR;
  Model* model = (Model*)g_modelbuf;
  model->_cova = cov;
  model->_ctxt._nVar = VF_NVAR; // fall-back of Model::getVariableNumber (read speculatively)

  StrMod sm; // really constructed (Option_VarioFit, VectorInt, VectorDouble)
  sm.nmodel = 1;
  sm.models[0] = model;
  sm.models[1] = nullptr;
  sm.optvar.setFlagGoulardUsed(goulard);
  sm.optvar.setAuthAniso(authAniso);
  sm.optvar.setAuthRotation(authRot);
  sm.optvar.setLockSamerot(sameRot);
  sm.optvar.setLockRot2d(rot2d);
  sm.optvar.setLockNo3d(no3d);
  sm.optvar.setLockIso2d(iso2d);

  int ntot = st_parid_alloc(&sm, VF_NPAR0); // REAL

  vf_assert_id(ntot >= 0 && ntot <= VF_NPAR0, "number of parameters within the allocated list");
  vf_assert_id((int)sm.parid.size() == VF_NPAR0, "list keeps its allocated size");

  // one verdict per clause, accumulated branch-free over the slots of the list (slot n is live iff n < ntot)
  bool okStruct = true, okType = true, okSillGoulard = true, okSillPair = true, okParam = true, okRangeHas = true, okRangeDir = true,
       okRangeMain = true, okAniso = true, okIso2d = true, okNo3d = true, okAngleHas = true, okAngleAniso = true, okAngleRot = true,
       okAngleDir = true, okAngle2d = true, okRot2d = true, okSameRot = true, okTape = true;
  int angleCov = -1; // structure carrying the rotation parameters seen so far
  for (int n = 0; n < VF_NPAR0; n++)
  {
    bool live = n < ntot;
    int id = sm.parid[n];
    // own decoding, base 50 (C17.a)
    int jvar = id % 50, ivar = (id / 50) % 50, icons = (id / 2500) % 50, icov = (id / 125000) % 50, imod = id / 6250000;
    bool okcov = imod == 0 && icov >= 0 && icov < VF_NCOV;
    okStruct &= !live || okcov;
    live = live && okcov;
    int frange = 0, fparam = 0; // flags of the structure (selected branch-free)
    for (int c = 0; c < VF_NCOV; c++)
    {
      frange = (c == icov) ? g_flag_range[c] : frange;
      fparam = (c == icov) ? g_flag_param[c] : fparam;
    }
    bool isSill = live && icons == 4, isParam = live && icons == 3, isRange = live && icons == 1, isAngle = live && icons == 2, isTape = live && icons == 6;
    okType &= !live || icons == 4 || icons == 3 || icons == 1 || icons == 2 || icons == 6;
    okSillGoulard &= !isSill || !goulard;
    okSillPair &= !isSill || (jvar <= ivar && ivar < VF_NVAR);
    okParam &= !isParam || fparam != 0;
    okRangeHas &= !isRange || frange != 0;
    okRangeDir &= !isRange || (ivar >= 0 && ivar < VF_NDIM);
    okRangeMain &= !(isRange && ivar == 0) || frange > 0;
    okAniso &= !(isRange && ivar >= 1) || authAniso;
    okIso2d &= !(isRange && VF_NDIM == 3 && ivar == 1) || !iso2d;
    okNo3d &= !(isRange && VF_NDIM == 3 && ivar == 2) || !no3d;
    okAngleHas &= !isAngle || frange != 0;
    okAngleAniso &= !isAngle || authAniso;
    okAngleRot &= !isAngle || authRot;
    okAngleDir &= !isAngle || (ivar >= 0 && ivar < VF_NDIM);
    okAngle2d &= !(isAngle && VF_NDIM == 2) || ivar == 0;
    okRot2d &= !(isAngle && VF_NDIM == 3 && rot2d) || ivar == 0;
    okSameRot &= !(isAngle && sameRot) || angleCov < 0 || angleCov == icov;
    angleCov = isAngle ? icov : angleCov;
    okTape &= !isTape || g_tape;
  }
  vf_assert_id(okStruct, "identifier names a structure of the model");
  vf_assert_id(okType, "identifier has one of the element types of the fitting (SILL, PARAM, RANGE, ANGLE, T_RANGE)");
  vf_assert_id(okSillGoulard, "no sill parameter when the sills are left to Goulard");
  vf_assert_id(okSillPair, "sill parameter names a variable pair");
  vf_assert_id(okParam, "third parameter only for a structure which has one");
  vf_assert_id(okRangeHas, "no range parameter for a structure without range");
  vf_assert_id(okRangeDir, "range parameter names a space direction");
  vf_assert_id(okRangeMain, "no main range parameter when the range is redundant with the sill");
  vf_assert_id(okAniso, "auth_aniso = false: no anisotropy (second / third range) parameter");
  vf_assert_id(okIso2d, "lock_iso2d (3-D): no second horizontal range parameter");
  vf_assert_id(okNo3d, "lock_no3d (3-D): no vertical range parameter");
  vf_assert_id(okAngleHas, "no rotation parameter for a structure without range");
  vf_assert_id(okAngleAniso, "auth_aniso = false: no rotation parameter");
  vf_assert_id(okAngleRot, "auth_rotation = false: no rotation parameter");
  vf_assert_id(okAngleDir, "rotation parameter names an angle of the space");
  vf_assert_id(okAngle2d, "2-D: a single rotation angle");
  vf_assert_id(okRot2d, "lock_rot2d (3-D): rotation around the vertical axis only");
  vf_assert_id(okSameRot, "lock_samerot: rotation parameters for one structure only");
  vf_assert_id(okTape, "tapering range only for a tapered model");
  vf_witness();
}
