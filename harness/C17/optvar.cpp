// C17.f: Option_VarioFit flag wiring in the parameter list of automatic fitting:
//   st_parid_alloc (static function of src/Core/model_auto.cpp, reached by including the translation
//   unit; called by st_model_auto_strmod_alloc): builds strmod->parid, the list of parameters the
//   optimiser (foxleg) is allowed to move, with the real st_parid_encode, Option_VarioFit copy
//   constructor / accessors, Model::getDimensionNumber / getVariableNumber (inline) and VectorT.
// One model with VF_NCOV basic structures in dimension VF_NDIM with VF_NVAR variables; per structure a
// symbolic flag_range in {-1, 0, +1} and flag_param in {0, 1} (what model_cova_characteristics
// reports); every option flag symbolic; tapering on or off.
// Reference (each identifier of the list is compared with the codes, computed here in base CONGRUENCY = 50,
// of every (structure, element type, ivar, jvar) the fitting knows for this model):
//   flag_goulard_used              => no SILL identifier
//   !auth_aniso                    => no RANGE identifier with ivar >= 1 and no ANGLE identifier
//   !auth_rotation                 => no ANGLE identifier
//   lock_samerot                   => ANGLE identifiers for one structure only
//   3-D: lock_iso2d => no RANGE ivar == 1; lock_no3d => no RANGE ivar == 2; lock_rot2d => ANGLE ivar == 0 only
//   a structure without range (flag_range == 0) has no RANGE / ANGLE identifier; without third
//   parameter no PARAM identifier; T_RANGE only with tapering
#include "vf.h"
#include "Core/model_auto.cpp" // -I/repo/src: the real file, its statics become visible here
#include "Covariances/CovAniso.hpp"
#include "Enum/EModelProperty.hpp"
#include <stdlib.h>

#ifndef VF_NCOV
#define VF_NCOV 2
#endif
#ifndef VF_NDIM
#define VF_NDIM 2
#endif
#ifndef VF_NVAR
#define VF_NVAR 1
#endif
// room for every parameter the function can emit
#define VF_NPAR0 (VF_NCOV * (VF_NVAR * (VF_NVAR + 1) / 2 + 2 + (VF_NDIM - 1) + VF_NDIM + 1))

// ---- static enum items: static constructors are not executed by the solver build, so the integer
// value of the items read by the kernel is written by hand; natively the same values are checked
template<class E> static void g_enum(const E& e, int v)
{
#ifdef VF_SOLVER
  E& x = const_cast<E&>(e);
  x._value = v;
  x._key = std::string_view();
  *(int*)((char*)&x._value + 4) = 0;
  x._descr = std::string_view();
#else
  if (e.getValue() != v) abort();
#endif
}
static void init_enums()
{
  g_enum(EConsElem::RANGE, 1);
  g_enum(EConsElem::ANGLE, 2);
  g_enum(EConsElem::PARAM, 3);
  g_enum(EConsElem::SILL, 4);
  g_enum(EConsElem::T_RANGE, 6);
  g_enum(EModelProperty::NONE, 0);
  g_enum(EModelProperty::TAPE, 3);
}

// ---- symbolic description of the model
static int g_flag_range[VF_NCOV];
static int g_flag_param[VF_NCOV];
static bool g_tape;
alignas(16) static char g_ecov[VF_NCOV * sizeof(ECov)]; // structure type objects: _value = rank of the structure

// ---- overrides
unsigned int ASpaceObject::getNDim(int ispace) const { (void)ispace; return VF_NDIM; } // Model::getDimensionNumber -> _ctxt.getNDim()
int Model::getCovaNumber(bool skipNugget) const { (void)skipNugget; return VF_NCOV; }
const ECov& Model::getCovaType(int icov) const { return *((const ECov*)g_ecov + icov); }
const EModelProperty& Model::getCovMode() const { return g_tape ? EModelProperty::TAPE : EModelProperty::NONE; }
void model_cova_characteristics(const ECov& type, char cov_name[STRING_LENGTH], int* flag_range, int* flag_param, int* min_order,
                                int* max_ndim, int* flag_int_1d, int* flag_int_2d, int* flag_aniso, int* flag_rotation,
                                double* scale, double* parmax)
{
  int ic = type.getValue();
  cov_name[0] = 0;
  *flag_range = g_flag_range[ic];
  *flag_param = g_flag_param[ic];
  *min_order = -1;
  *max_ndim = -1;
  *flag_int_1d = 0;
  *flag_int_2d = 0;
  *flag_aniso = (g_flag_range[ic] != 0);
  *flag_rotation = (g_flag_range[ic] != 0);
  *scale = 1.;
  *parmax = -1.;
}

extern "C" char vt_CovAniso[] asm("_ZTV8CovAniso");
alignas(16) static char g_modelbuf[sizeof(Model)];
alignas(16) static char g_covbuf[sizeof(CovAniso)];

extern "C" void k_parid_options()
{
  // ---- symbolic inputs, drawn unconditionally
  for (int c = 0; c < VF_NCOV; c++)
  {
    g_flag_range[c] = vf_range(-1, 1);
    g_flag_param[c] = vf_range(0, 1);
  }
  g_tape = vf_nondet_bool();
  bool goulard = vf_nondet_bool(), authAniso = vf_nondet_bool(), authRot = vf_nondet_bool(), sameRot = vf_nondet_bool();
  bool rot2d = vf_nondet_bool(), no3d = vf_nondet_bool(), iso2d = vf_nondet_bool();

  init_enums();
  for (int c = 0; c < VF_NCOV; c++) ((ECov*)g_ecov + c)->_value = c;

  // ---- objects: Model and its covariance part are raw storage, only what is read is initialised
  CovAniso* cov = (CovAniso*)g_covbuf;
  *(void**)g_covbuf = (void*)(vt_CovAniso + 16); // real vtable: the virtual getNVariables() reads _ctxt._nVar
  cov->_ctxt._nVar = VF_NVAR;
  Model* model = (Model*)g_modelbuf;
  model->_cova = cov;
  model->_ctxt._nVar = VF_NVAR; // fall-back of Model::getVariableNumber (read speculatively)

  StrMod sm; // really constructed (Option_VarioFit, VectorInt, VectorDouble)
  sm.nmodel = 1;
  sm.models[0] = model;
  sm.models[1] = nullptr;
  sm.optvar.setFlagGoulardUsed(goulard);
  sm.optvar.setAuthAniso(authAniso);
  sm.optvar.setAuthRotation(authRot);
  sm.optvar.setLockSamerot(sameRot);
  sm.optvar.setLockRot2d(rot2d);
  sm.optvar.setLockNo3d(no3d);
  sm.optvar.setLockIso2d(iso2d);

  int ntot = st_parid_alloc(&sm, VF_NPAR0); // REAL

  vf_assert_id(ntot >= 0 && ntot <= VF_NPAR0, "number of parameters within the allocated list");
  vf_assert_id((int)sm.parid.size() == VF_NPAR0, "list keeps its allocated size");

  // one verdict per clause, accumulated branch-free over the slots of the list (slot n is live iff n < ntot)
  // and over every identifier the fitting knows for this model: (structure, element type, ivar, jvar)
  // with its code computed here in base 50 (C17.a) - no decoding arithmetic on symbolic identifiers
  // (violation counters, not bool &=: clang turns those into bitwise operations on bytes)
  int badStruct = 0, badSillGoulard = 0, badParam = 0, badRangeHas = 0, badRangeMain = 0, badAniso = 0, badIso2d = 0, badNo3d = 0,
      badAngleHas = 0, badAngleAniso = 0, badAngleRot = 0, badAngle2d = 0, badRot2d = 0, badSameRot = 0, badTape = 0;
  int angleCov = -1; // structure carrying the rotation parameters seen so far
  static const int types[5] = {4, 3, 1, 2, 6}; // SILL, PARAM, RANGE, ANGLE, T_RANGE
  for (int n = 0; n < VF_NPAR0; n++)
  {
    bool live = n < ntot;
    int id = sm.parid[n];
    int known = 0;
    for (int icov = 0; icov < VF_NCOV; icov++)
      for (int it = 0; it < 5; it++)
      {
        int icons = types[it];
        int nv1 = (icons == 4) ? VF_NVAR : (icons == 1 || icons == 2) ? VF_NDIM : 1;
        for (int ivar = 0; ivar < nv1; ivar++)
          for (int jvar = 0; jvar <= ((icons == 4) ? ivar : 0); jvar++)
          {
            int code = ((icov * 50 + icons) * 50 + ivar) * 50 + jvar; // imod = 0
            bool is = live && id == code;
            known += is ? 1 : 0;
            int frange = g_flag_range[icov], fparam = g_flag_param[icov];
            if (icons == 4) badSillGoulard += (is && !(!goulard)) ? 1 : 0;
            if (icons == 3) badParam += (is && !(fparam != 0)) ? 1 : 0;
            if (icons == 1)
            {
              badRangeHas += (is && !(frange != 0)) ? 1 : 0;
              if (ivar == 0) badRangeMain += (is && !(frange > 0)) ? 1 : 0;
              if (ivar >= 1) badAniso += (is && !(authAniso)) ? 1 : 0;
              if (VF_NDIM == 3 && ivar == 1) badIso2d += (is && !(!iso2d)) ? 1 : 0;
              if (VF_NDIM == 3 && ivar == 2) badNo3d += (is && !(!no3d)) ? 1 : 0;
            }
            if (icons == 2)
            {
              badAngleHas += (is && !(frange != 0)) ? 1 : 0;
              badAngleAniso += (is && !(authAniso)) ? 1 : 0;
              badAngleRot += (is && !(authRot)) ? 1 : 0;
              if (VF_NDIM == 2 && ivar != 0) badAngle2d += is ? 1 : 0;
              if (VF_NDIM == 3 && ivar != 0) badRot2d += (is && !(!rot2d)) ? 1 : 0;
              badSameRot += (is && sameRot && !(angleCov < 0 || angleCov == icov)) ? 1 : 0;
              angleCov = is ? icov : angleCov;
            }
            if (icons == 6) badTape += (is && !(g_tape)) ? 1 : 0;
          }
      }
    // (every well-formed identifier is in the enumeration above: structure of the model, one of the five
    // element types, sill pair jvar <= ivar < nvar, range / angle direction < ndim)
    badStruct += (live && known == 0) ? 1 : 0;
  }
  vf_assert_id(badStruct == 0, "identifier names a structure of the model, an element type of the fitting (SILL, PARAM, RANGE, ANGLE, T_RANGE), a variable pair / a direction of the space");
  vf_assert_id(badSillGoulard == 0, "no sill parameter when the sills are left to Goulard");
  vf_assert_id(badParam == 0, "third parameter only for a structure which has one");
  vf_assert_id(badRangeHas == 0, "no range parameter for a structure without range");
  vf_assert_id(badRangeMain == 0, "no main range parameter when the range is redundant with the sill");
  vf_assert_id(badAniso == 0, "auth_aniso = false: no anisotropy (second / third range) parameter");
  vf_assert_id(badIso2d == 0, "lock_iso2d (3-D): no second horizontal range parameter");
  vf_assert_id(badNo3d == 0, "lock_no3d (3-D): no vertical range parameter");
  vf_assert_id(badAngleHas == 0, "no rotation parameter for a structure without range");
  vf_assert_id(badAngleAniso == 0, "auth_aniso = false: no rotation parameter");
  vf_assert_id(badAngleRot == 0, "auth_rotation = false: no rotation parameter");
  vf_assert_id(badAngle2d == 0, "2-D: a single rotation angle");
  vf_assert_id(badRot2d == 0, "lock_rot2d (3-D): rotation around the vertical axis only");
  vf_assert_id(badSameRot == 0, "lock_samerot: rotation parameters for one structure only");
  vf_assert_id(badTape == 0, "tapering range only for a tapered model");
  vf_witness();
}
