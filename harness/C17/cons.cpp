// C17.b: how user constraints reach the optimiser in automatic fitting:
//   st_model_auto_constraints_apply -> st_parid_decode, constraints_get (x3), st_affect
//   (static functions of src/Core/model_auto.cpp, reached by including the translation unit;
//   constraints_get: src/Model/Constraints.cpp), on a really built constraint list:
//   CovParamId(igrf, icov, elem, iv1, iv2), ConsItem(paramid, type, value) (-> ConsItem::_init),
//   Constraints::addItem (-> ConsItem::clone -> copy constructors).
//
// VF_NITEM items with symbolic (igrf, icov, element type, iv1, iv2, constraint type, value) and
// VF_NPAR parameters with symbolic (imod, icov, element type, ivar, jvar), coded by the real
// st_parid_encode.  Reference: item i concerns parameter p iff igrf == imod, icov, element type and
// iv1 == ivar agree, and iv2 == jvar for a sill (CovParamId: "rank of the first / second variable").
//   k_fresh    : param / lower / upper all undefined (TEST), the state st_model_auto_count leaves
//   k_defaults : after built-in defaults (st_model_auto_pardef): param defined, lower / upper each
//                undefined or defined, lower <= param <= upper
#include "vf.h"
#include "Core/model_auto.cpp" // -I/repo/src: the real file, its statics become visible here
#include "Model/ConsItem.hpp"
#include "Model/CovParamId.hpp"
#include "Enum/ESpaceType.hpp"
#include <stdlib.h>

#ifndef VF_NITEM
#define VF_NITEM 2
#endif
#ifndef VF_NPAR
#define VF_NPAR 2
#endif
#define GRID (1 << 20)
#define VF_NCONS 10 // EConsElem: UNKNOWN=0 ... TENSOR=9

// ---- stub (as C17.a): EConsElem::fromValue looks the value up in a std::map filled by static
// constructors (not executed by the solver build).  Valid values 0..9 give an item of that value,
// anything else the default item UNKNOWN (0).  One object per call site is enough here: the result is
// copied at once by st_parid_decode.
alignas(16) static char consbuf[sizeof(EConsElem)];
const EConsElem& EConsElem::fromValue(int value)
{
  EConsElem* e = (EConsElem*)consbuf;
  e->_value = (value >= 0 && value < VF_NCONS) ? value : 0;
  return *e;
}
#ifdef VF_SOLVER
// ---- stub (solver build only): EConsElem::fromKey searches the same static-constructor map.  The only
// key asked for is "UNKNOWN" (default argument of CovParamId(), run by ConsItem's constructor before
// _init assigns the real identifier): the item of value 0.
const EConsElem& EConsElem::fromKey(const std::string_view key) { (void)key; return EConsElem::UNKNOWN; }
// libc piece reached through std::string_view(const char*)
extern "C" size_t strlen(const char* s) { size_t n = 0; while (s[n] != 0) n++; return n; }
#endif
// ---- stub: the default space is the Euclidean one (what the library defines when nothing was set)
ESpaceType getDefaultSpaceType() { return ESpaceType::RN; }

// ---- static enum items: static constructors are not executed by the solver build, so the integer
// value of the items read by the kernel is written by hand; natively the same values are checked
template<class E> static void g_enum(const E& e, int v)
{
#ifdef VF_SOLVER
  E& x = const_cast<E&>(e);
  x._value = v;
  x._key = std::string_view();
  *(int*)((char*)&x._value + 4) = 0;
  x._descr = std::string_view();
#else
  if (e.getValue() != v) abort();
#endif
}
static void init_enums()
{
  g_enum(EConsElem::UNKNOWN, 0);
  g_enum(EConsElem::RANGE, 1);
  g_enum(EConsElem::ANGLE, 2);
  g_enum(EConsElem::PARAM, 3);
  g_enum(EConsElem::SILL, 4);
  g_enum(EConsType::LOWER, -1);
  g_enum(EConsType::DEFAULT, 0);
  g_enum(EConsType::UPPER, 1);
  g_enum(EConsType::EQUAL, 2);
  g_enum(ESpaceType::COMPOSITE, 0);
  g_enum(ESpaceType::RN, 1);
  g_enum(ESpaceType::SN, 2);
}
// an enum object with a given value (only _value is read)
template<class E> struct VfEnum
{
  alignas(16) char buf[sizeof(E)];
  VfEnum(int v)
  {
    for (unsigned i = 0; i < sizeof(E); i++) buf[i] = 0;
    ((E*)buf)->_value = v;
  }
  const E& get() const { return *(const E*)buf; }
};

// ---- symbolic inputs
struct Item { int igrf, icov, elem, iv1, iv2, icase; double value; };
struct Par { int imod, icov, icons, ivar, jvar; };
static Item g_it[VF_NITEM + 1];
static Par g_par[VF_NPAR];

static void draw()
{
  for (int i = 0; i < VF_NITEM; i++)
  {
    g_it[i].igrf = vf_range(0, 1);
    g_it[i].icov = vf_range(0, 2);
    g_it[i].elem = vf_range(0, VF_NCONS - 1);
    g_it[i].iv1 = vf_range(0, 2);
    g_it[i].iv2 = vf_range(0, 2);
    g_it[i].icase = vf_range(-1, 2); // LOWER, DEFAULT, UPPER, EQUAL
    g_it[i].value = vf_grid_double(GRID);
  }
  for (int p = 0; p < VF_NPAR; p++)
  {
    g_par[p].imod = vf_range(0, 1);
    g_par[p].icov = vf_range(0, 2);
    g_par[p].icons = vf_range(0, VF_NCONS - 1);
    g_par[p].ivar = vf_range(0, 2);
    g_par[p].jvar = vf_range(0, 2);
  }
}

static bool undef(double v) { return v > 1.e30; }

// reference: item i concerns parameter p
static bool concerns(int i, int p)
{
  const Item& it = g_it[i];
  const Par& pa = g_par[p];
  if (it.igrf != pa.imod || it.icov != pa.icov || it.elem != pa.icons || it.iv1 != pa.ivar) return false;
  if (pa.icons == 4 /* SILL */ && it.iv2 != pa.jvar) return false;
  return true;
}
static bool is_lower(int i) { return g_it[i].icase == -1 || g_it[i].icase == 2; }
static bool is_upper(int i) { return g_it[i].icase == 1 || g_it[i].icase == 2; }

static double max_d(double a, double b) { return a > b ? a : b; }
static double min_d(double a, double b) { return a < b ? a : b; }

// pre-state -> real code -> reference.  lower0/upper0/param0: value before the call (TEST = undefined)
static void run(const double* param0, const double* lower0, const double* upper0)
{
  init_enums();

  // ---- the constraint list, really built
  Constraints cons;
  for (int i = 0; i < VF_NITEM; i++)
  {
    VfEnum<EConsElem> el(g_it[i].elem);
    VfEnum<EConsType> ty(g_it[i].icase);
    CovParamId pid(g_it[i].igrf, g_it[i].icov, el.get(), g_it[i].iv1, g_it[i].iv2); // REAL
    ConsItem item(pid, ty.get(), g_it[i].value);                                     // REAL
    cons.addItem(&item);                                                             // REAL (clone)
  }
  vf_assert_id(cons.getConsItemNumber() == VF_NITEM, "every added item is in the list");

  // ---- the parameter list
  StrMod sm;
  sm.parid = VectorInt(VF_NPAR);
  VectorDouble param(VF_NPAR), lower(VF_NPAR), upper(VF_NPAR);
  for (int p = 0; p < VF_NPAR; p++)
  {
    VfEnum<EConsElem> ic(g_par[p].icons);
    sm.parid[p] = st_parid_encode(g_par[p].imod, g_par[p].icov, ic.get(), g_par[p].ivar, g_par[p].jvar); // REAL (C17.a)
    param[p] = param0[p];
    lower[p] = lower0[p];
    upper[p] = upper0[p];
  }

  st_model_auto_constraints_apply(&sm, VF_NPAR, cons, param, lower, upper); // REAL

  // ---- reference
  for (int p = 0; p < VF_NPAR; p++)
  {
    bool anyL = false, okL = false, anyU = false, okU = false;
    for (int i = 0; i < VF_NITEM; i++)
    {
      if (!concerns(i, p)) continue;
      double v = g_it[i].value;
      if (is_lower(i))
      {
        anyL = true;
        if (lower[p] == (undef(lower0[p]) ? v : max_d(v, lower0[p]))) okL = true;
      }
      if (is_upper(i))
      {
        anyU = true;
        if (upper[p] == (undef(upper0[p]) ? v : min_d(v, upper0[p]))) okU = true;
      }
    }
    // (bounds are compared as values: TEST == TEST for an untouched undefined bound)
    vf_assert_id(anyL ? okL : lower[p] == lower0[p],
                 "lower bound handed to the optimiser is that of an item concerning the parameter (never looser than a built-in bound), unchanged when no item concerns it");
    vf_assert_id(anyU ? okU : upper[p] == upper0[p],
                 "upper bound handed to the optimiser is that of an item concerning the parameter (never looser than a built-in bound), unchanged when no item concerns it");

    // an equality constraint which is the only bound on its parameter pins it
    for (int i = 0; i < VF_NITEM; i++)
    {
      if (!concerns(i, p) || g_it[i].icase != 2) continue;
      bool alone = true;
      for (int j = 0; j < VF_NITEM; j++)
        if (j != i && concerns(j, p) && g_it[j].icase != 0) alone = false;
      double v = g_it[i].value;
      bool compatible = (undef(lower0[p]) || lower0[p] <= v) && (undef(upper0[p]) || v <= upper0[p]);
      if (alone && compatible)
        vf_assert_id(lower[p] == v && upper[p] == v, "equality constraint gives lower == upper == value");
    }

    // initial value: defined, and inside the bounds whenever these are consistent
    vf_assert_id(!undef(param[p]), "initial parameter value is defined");
    bool consistent = undef(lower[p]) || undef(upper[p]) || lower[p] <= upper[p];
    if (consistent)
      vf_assert_id((undef(lower[p]) || param[p] >= lower[p]) && (undef(upper[p]) || param[p] <= upper[p]),
                   "initial parameter value lies within [lower, upper]");

    // a DEFAULT item is used when no initial value exists yet and it respects the bounds
    if (undef(param0[p]))
    {
      bool anyD = false, okD = false, allin = true;
      for (int i = 0; i < VF_NITEM; i++)
      {
        if (!concerns(i, p) || g_it[i].icase != 0) continue;
        double v = g_it[i].value;
        anyD = true;
        if (param[p] == v) okD = true;
        if ((!undef(lower[p]) && v < lower[p]) || (!undef(upper[p]) && v > upper[p])) allin = false;
      }
      if (anyD && allin) vf_assert_id(okD, "initial value is that of a DEFAULT item concerning the parameter when it respects the bounds");
    }
  }
  vf_witness();
}

extern "C" void k_fresh()
{
  draw();
  double p0[VF_NPAR], l0[VF_NPAR], u0[VF_NPAR];
  for (int p = 0; p < VF_NPAR; p++) p0[p] = l0[p] = u0[p] = TEST;
  run(p0, l0, u0);
}

extern "C" void k_defaults()
{
  draw();
  double p0[VF_NPAR], l0[VF_NPAR], u0[VF_NPAR];
  for (int p = 0; p < VF_NPAR; p++)
  {
    // built constructively: lower0 <= param0 <= upper0 when defined
    double c = vf_grid_double(GRID), a = vf_grid_double(GRID), b = vf_grid_double(GRID);
    bool nol = vf_nondet_bool(), nou = vf_nondet_bool();
    p0[p] = c;
    l0[p] = nol ? TEST : c - (a < 0. ? -a : a);
    u0[p] = nou ? TEST : c + (b < 0. ? -b : b);
  }
  run(p0, l0, u0);
}
