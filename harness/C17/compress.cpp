// C17.h: st_compress_parid (static function of src/Core/model_auto.cpp, reached by including the
// translation unit).  Between two rounds of the fit st_model_auto_strmod_reduce marks the parameters
// of a suppressed basic structure as undefined (param = TEST) and compresses the four parallel arrays
// (identifier, current value, lower bound, upper bound) handed to the optimiser.  Property: the k-th
// surviving parameter keeps ITS OWN identifier, value, lower bound and upper bound (a user bound on a
// kept structure must stay attached to it), and the count returned is the number of survivors.
#include "vf.h"
#include "Core/model_auto.cpp" // -I/repo/src: the real file, its statics become visible here
#ifndef VF_N
#define VF_N 4
#endif

extern "C" void k_compress()
{
  int id0[VF_N];
  double p0[VF_N], l0[VF_N], u0[VF_N];
  bool dead[VF_N];
  for (int i = 0; i < VF_N; i++)
  {
    id0[i]     = vf_range(0, 1 << 20);
    double p   = vf_finite_double();
    double l   = vf_finite_double();
    double u   = vf_finite_double();
    dead[i]    = vf_nondet_bool(); // parameter of a suppressed structure
    bool nol   = vf_nondet_bool(); // no lower bound
    bool nou   = vf_nondet_bool(); // no upper bound
    p0[i]      = dead[i] ? TEST : p;
    l0[i]      = nol ? TEST : l;
    u0[i]      = nou ? TEST : u;
    vf_assume(p < 1.e30); // a live value is a defined one: FFFF(x) is x > TEST_COMP = 1e30 (or NaN / Inf)
  }
  VectorInt parid(VF_N);
  VectorDouble param(VF_N), lower(VF_N), upper(VF_N);
  for (int i = 0; i < VF_N; i++)
  {
    parid[i] = id0[i];
    param[i] = p0[i];
    lower[i] = l0[i];
    upper[i] = u0[i];
  }
  int ntot = st_compress_parid(VF_N, parid, param, lower, upper); // REAL
  int k = 0;
  for (int i = 0; i < VF_N; i++)
  {
    if (dead[i]) continue;
    // survivor number k is the original parameter i
    vf_assert_id(parid[k] == id0[i], "surviving parameter keeps its identifier");
    vf_assert_id(param[k] == p0[i], "surviving parameter keeps its value");
    vf_assert_id(lower[k] == l0[i], "surviving parameter keeps its own lower bound");
    vf_assert_id(upper[k] == u0[i], "surviving parameter keeps its own upper bound");
    k++;
  }
  vf_assert_id(ntot == k, "returned count == number of surviving parameters");
  vf_witness();
}
