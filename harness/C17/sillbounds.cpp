// C17.g: user bounds on sills when the sills are fitted by the optimiser instead of Goulard's algorithm.
//   st_alter_vmap_optvar / st_alter_model_optvar (static functions of src/Core/model_auto.cpp, reached by including the
//   translation unit) -> Constraints::isDefinedForSill, modify_constraints_on_sill (src/Model/Constraints.cpp: "If a
//   constraint concerns a sill, take its square root as it corresponds to a constraints on AIC (not on a sill directly) due
//   to the fact that it will be processed in FOXLEG (not in GOULARD)"), Constraints::setValue / addItem, ConsItem copy.
// With Goulard switched off the SILL parameter the optimiser moves is the coefficient a of the AIC (lower triangular)
// factor; for one variable the sill is a^2 (st_model_auto_strmod_define: MatrixSquareSymmetric::createFromTLTU).
// Really built constraint list of VF_NITEM items with symbolic (igrf, icov, element type, iv1, iv2, constraint type,
// value), Option_VarioFit with a symbolic Goulard flag, a model of 1 or 2 variables without anamorphosis properties.
// "The case": the list holds an item on a sill and Goulard is on at entry -- the situation in which the function itself
// switches Goulard off ("Case when constraints involve sill(s)").
// Asserted after the call:
//   * success with more than one variable => Goulard still in use (sills are never in AIC form for several variables);
//   * not the case  => Goulard flag and every item are unchanged (no transformation when the sills stay with Goulard
//                      or when there is no sill item);
//   * the case      => a negative sill bound makes the call fail; on success Goulard is off AND every sill item is the
//                      transformed one: same identifier and constraint type, value v' >= 0 with v'^2 == user value; every
//                      other item is unchanged; each UPPER item on the sill of variable (0,0) is completed by a LOWER item
//                      of value -v' appended to the list, nothing else is appended;
//   * the case, semantically: for any structure, any coefficient a that respects the LOWER / UPPER values which the real
//                      constraints_get now reports for the SILL parameter (0,0) gives a sill a^2 inside the user's own
//                      lower / upper bounds; the DEFAULT value reported squares to the user's default.
#include "vf.h"
#include "Core/model_auto.cpp" // -I/repo/src: the real file, its statics become visible here
#include "Model/ConsItem.hpp"
#include "Model/CovParamId.hpp"
#include "Covariances/CovAniso.hpp"
#include "Enum/ESpaceType.hpp"
#include "Db/Db.hpp"
#include <stdlib.h>

#ifndef VF_NITEM
#define VF_NITEM 2
#endif
#ifndef VF_MUT
#define VF_MUT 0
#endif
#define VF_NCONS 10 // EConsElem: UNKNOWN=0 ... TENSOR=9
#define E_SILL_V 4

// ---- stubs as in C17.b (cons.cpp)
alignas(16) static char consbuf[sizeof(EConsElem)];
const EConsElem& EConsElem::fromValue(int value)
{
  EConsElem* e = (EConsElem*)consbuf;
  e->_value = (value >= 0 && value < VF_NCONS) ? value : 0;
  return *e;
}
#ifdef VF_SOLVER
const EConsElem& EConsElem::fromKey(const std::string_view key) { (void)key; return EConsElem::UNKNOWN; }
extern "C" size_t strlen(const char* s) { size_t n = 0; while (s[n] != 0) n++; return n; }
#endif
ESpaceType getDefaultSpaceType() { return ESpaceType::RN; }
void messerr(const char*, ...) {}
void message(const char*, ...) {}

template<class E> static void g_enum(const E& e, int v)
{
#ifdef VF_SOLVER
  E& x = const_cast<E&>(e);
  x._value = v;
  x._key = std::string_view();
  *(int*)((char*)&x._value + 4) = 0;
  x._descr = std::string_view();
#else
  if (e.getValue() != v) abort();
#endif
}
static void init_enums()
{
  g_enum(EConsElem::UNKNOWN, 0);
  g_enum(EConsElem::RANGE, 1);
  g_enum(EConsElem::ANGLE, 2);
  g_enum(EConsElem::PARAM, 3);
  g_enum(EConsElem::SILL, 4);
  g_enum(EConsType::LOWER, -1);
  g_enum(EConsType::DEFAULT, 0);
  g_enum(EConsType::UPPER, 1);
  g_enum(EConsType::EQUAL, 2);
  g_enum(ESpaceType::COMPOSITE, 0);
  g_enum(ESpaceType::RN, 1);
  g_enum(ESpaceType::SN, 2);
}
template<class E> struct VfEnum
{
  alignas(16) char buf[sizeof(E)];
  VfEnum(int v)
  {
    for (unsigned i = 0; i < sizeof(E); i++) buf[i] = 0;
    ((E*)buf)->_value = v;
  }
  const E& get() const { return *(const E*)buf; }
};

// ---- the model: raw storage, 1 or 2 variables, no anamorphosis properties (the covariance part is not a CovLMCAnamorphosis)
extern "C" char vt_CovAniso[] asm("_ZTV8CovAniso");
alignas(16) static char g_modelbuf[sizeof(Model)];
alignas(16) static char g_covbuf[sizeof(CovAniso)];
const ACovAnisoList* Model::getCovAnisoList() const { return nullptr; }
// ---- the grid of the variogram map: only its space dimension is asked for (virtual Db::getNDim)
alignas(16) static char g_dbbuf[sizeof(Db)];
static int g_ndim;
static int v_getNDim(const Db* db) { (void)db; return g_ndim; }
#define VTN 128
static void* vt_db[VTN];
template <class PMF> static inline long vslot(PMF p)
{
  union { PMF p; long w[2]; } u;
  u.w[0] = 0;
  u.w[1] = 0;
  u.p    = p;
  return (u.w[0] - 1) / 8;
}
#ifdef VF_VARIO
// ---- the experimental variogram of st_alter_model_optvar: number of directions and their third component
alignas(16) static char g_variobuf[sizeof(Vario)];
#ifndef VF_NDIR
#define VF_NDIR 2
#endif
alignas(16) static char g_dirbuf[VF_NDIR * sizeof(DirParam)]; // never read: only the length of VarioParam::_dirparams is asked for
static bool g_dirflat[VF_NDIR];
double Vario::getCodir(int idir, int idim) const { return (idim == 2 && !g_dirflat[idir]) ? 1. : 0.; }
unsigned int ASpaceObject::getNDim(int ispace) const { (void)ispace; return g_ndim; } // Model::getDimensionNumber
#endif

struct Item { int igrf, icov, elem, iv1, iv2, icase; double value; };
static Item g_it[VF_NITEM + 1];
static bool undef(double v) { return v > 1.e30; }
static bool concerns(int i, int igrf, int icov) // item i is on the sill of variable (0,0) of structure (igrf, icov)
{
  return g_it[i].igrf == igrf && g_it[i].icov == icov && g_it[i].elem == E_SILL_V && g_it[i].iv1 == 0 && g_it[i].iv2 == 0;
}

extern "C" void k_sill_bounds()
{
  // ---- symbolic inputs, drawn unconditionally
  for (int i = 0; i < VF_NITEM; i++)
  {
    g_it[i].igrf  = vf_range(0, 1);
    g_it[i].icov  = vf_range(0, 2);
    g_it[i].elem  = vf_range(0, VF_NCONS - 1);
    g_it[i].iv1   = vf_range(0, 1);
    g_it[i].iv2   = vf_range(0, 1);
    g_it[i].icase = vf_range(-1, 2); // LOWER, DEFAULT, UPPER, EQUAL
    double g      = vf_nondet_double();
    bool   neg    = vf_nondet_bool();
    vf_assume(g >= -1024. && g <= 1024.);
    g_it[i].value = neg ? -1. - g * g : g * g; // any value in [-2^20 - 1, -1] or [0, 2^20]; the square root of a bound >= 0 is |g|
  }
  bool   goulard0 = vf_nondet_bool();
  int    nvar     = vf_range(1, 2);
  g_ndim          = vf_range(1, 3);
  int    tg = vf_range(0, 1), tc = vf_range(0, 2); // structure looked at by the semantic check
  double a  = vf_nondet_double();                  // any AIC coefficient
#ifdef VF_VARIO
  for (int d = 0; d < VF_NDIR; d++) g_dirflat[d] = vf_nondet_bool();
#endif

  init_enums();
  CovAniso* cov = (CovAniso*)g_covbuf;
  *(void**)g_covbuf = (void*)(vt_CovAniso + 16); // real vtable: the virtual getNVariables() reads _ctxt._nVar
  cov->_ctxt._nVar = nvar;
  Model* model = (Model*)g_modelbuf;
  model->_cova = cov;
  model->_ctxt._nVar = nvar;
  long slot = vslot(static_cast<int (Db::*)() const>(&Db::getNDim));
  if (slot >= 0 && slot < VTN) vt_db[slot] = (void*)&v_getNDim;
  *(void***)g_dbbuf = vt_db;

  Constraints cons; // really built
  cons._consItems.reserve(2 * VF_NITEM); // room for the appended items: no reallocation (a copy of symbolic length) inside the kernel
  for (int i = 0; i < VF_NITEM; i++)
  {
    VfEnum<EConsElem> el(g_it[i].elem);
    VfEnum<EConsType> ty(g_it[i].icase);
    CovParamId pid(g_it[i].igrf, g_it[i].icov, el.get(), g_it[i].iv1, g_it[i].iv2); // REAL
    ConsItem item(pid, ty.get(), g_it[i].value);                                     // REAL
    cons.addItem(&item);                                                             // REAL (clone)
  }
  Option_VarioFit optvar; // REAL
  optvar.setFlagGoulardUsed(goulard0);

#ifdef VF_VARIO
  {
    auto& dv = ((Vario*)g_variobuf)->_varioparam._dirparams; // std::vector<DirParam> of length VF_NDIR over raw storage
    dv._M_impl._M_start          = (DirParam*)g_dirbuf;
    dv._M_impl._M_finish         = (DirParam*)g_dirbuf + VF_NDIR;
    dv._M_impl._M_end_of_storage = (DirParam*)g_dirbuf + VF_NDIR;
  }
  int rc = st_alter_model_optvar((const Vario*)g_variobuf, model, cons, optvar); // REAL
#else
  int rc = st_alter_vmap_optvar((const Db*)g_dbbuf, model, cons, optvar); // REAL
#endif

  bool goulard1 = optvar.getFlagGoulardUsed();
  bool anysill = false, anyneg = false;
  int  nadd = 0;
  for (int i = 0; i < VF_NITEM; i++)
    if (g_it[i].elem == E_SILL_V)
    {
      anysill = true;
      if (g_it[i].value < 0.) anyneg = true;
      if (g_it[i].iv1 == 0 && g_it[i].iv2 == 0 && g_it[i].icase == 1) nadd++;
    }
  bool thecase = anysill && goulard0;
  int  n1      = cons.getConsItemNumber();

  vf_assert_id(rc == 0 || rc == 1, "return code is 0 or 1");
  vf_assert_id(rc != 0 || nvar <= 1 || goulard1, "success with several variables => Goulard is still in use");
  if (!thecase)
  {
    vf_assert_id(goulard1 == goulard0, "no sill item or Goulard already off: the Goulard flag is unchanged");
    vf_assert_id(n1 == VF_NITEM, "no sill item or Goulard already off: no item is appended");
    for (int i = 0; i < VF_NITEM; i++)
      if (i < n1) vf_assert_id(cons.getConsItems(i)->getValue() == g_it[i].value, "no sill item or Goulard already off: the values of the items are unchanged");
  }
  else
  {
    vf_assert_id(!anyneg || rc == 1, "a negative bound on a sill makes the call fail");
    if (rc == 0)
    {
#if VF_MUT == 1 // self-test of the check only: claiming untransformed sill items must be refuted
      for (int i = 0; i < VF_NITEM; i++)
        vf_assert_id(cons.getConsItems(i)->getValue() == g_it[i].value, "MUT: items unchanged");
#endif
      vf_assert_id(!goulard1, "sill items present: Goulard is switched off (sills go to the optimiser in AIC form)");
      vf_assert_id(n1 == VF_NITEM + nadd, "one item appended per UPPER item on the sill of variable (0,0), nothing else");
      int e = VF_NITEM; // next appended item
      for (int i = 0; i < VF_NITEM; i++)
      {
        const ConsItem* it = cons.getConsItems(i);
        double v = it->getValue();
        vf_assert_id(it->getIGrf() == g_it[i].igrf && it->getICov() == g_it[i].icov && it->getType().getValue() == g_it[i].elem &&
                       it->getIV1() == g_it[i].iv1 && it->getIV2() == g_it[i].iv2 && it->getIcase().getValue() == g_it[i].icase,
                     "identifier and constraint type of every user item are unchanged");
        if (g_it[i].elem != E_SILL_V)
          vf_assert_id(v == g_it[i].value, "items that are not on a sill keep their value");
        else
        {
          vf_assert_id(v >= 0. && v * v == g_it[i].value, "sills in AIC form: the bound on a sill is replaced by its square root");
          if (g_it[i].iv1 == 0 && g_it[i].iv2 == 0 && g_it[i].icase == 1)
          {
            bool there = e < n1;
            vf_assert_id(there, "UPPER bound on the sill (0,0): a LOWER item is appended");
            if (there)
            {
              const ConsItem* jt = cons.getConsItems(e);
              vf_assert_id(jt->getIGrf() == g_it[i].igrf && jt->getICov() == g_it[i].icov && jt->getType().getValue() == E_SILL_V &&
                             jt->getIV1() == 0 && jt->getIV2() == 0 && jt->getIcase().getValue() == -1 && jt->getValue() == -v,
                           "the appended item is LOWER bound -sqrt(upper) on the same AIC coefficient");
            }
            e++;
          }
        }
      }
      // ---- semantics for the structure (tg, tc): what the optimiser is given (real constraints_get, as st_model_auto_constraints_apply
      // asks for it) against the user's own bounds (first matching item of the list as the user wrote it)
      double lo = constraints_get(cons, EConsType::LOWER, tg, tc, EConsElem::SILL, 0, 0);   // REAL
      double hi = constraints_get(cons, EConsType::UPPER, tg, tc, EConsElem::SILL, 0, 0);   // REAL
      double df = constraints_get(cons, EConsType::DEFAULT, tg, tc, EConsElem::SILL, 0, 0); // REAL
      double ulo = TEST, uhi = TEST, udf = TEST;
      for (int i = VF_NITEM - 1; i >= 0; i--)
      {
        if (!concerns(i, tg, tc)) continue;
        if (g_it[i].icase == -1 || g_it[i].icase == 2) ulo = g_it[i].value;
        if (g_it[i].icase == 1 || g_it[i].icase == 2) uhi = g_it[i].value;
        if (g_it[i].icase == 0) udf = g_it[i].value;
      }
      bool inside = (undef(lo) || a >= lo) && (undef(hi) || a <= hi);
      vf_assert_id(!inside || undef(uhi) || a * a <= uhi, "a coefficient within the bounds handed to the optimiser gives a sill <= the user's upper bound");
      vf_assert_id(!inside || undef(ulo) || a * a >= ulo, "a coefficient within the bounds handed to the optimiser gives a sill >= the user's lower bound");
      vf_assert_id(undef(df) == undef(udf) && (undef(df) || df * df == udf), "the default coefficient squares to the user's default sill");
    }
  }
  vf_witness();
}
