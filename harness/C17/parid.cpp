// C17.a: st_parid_encode / st_parid_decode (static functions of src/Core/model_auto.cpp, reached by
// including the translation unit): the parameter identifier handed to the optimiser codes
// (imod, icov, icons, ivar, jvar) in base CONGRUENCY.
#include "vf.h"
#include "Core/model_auto.cpp" // -I/repo/src: the real file, its statics become visible here
#include <limits.h>

// ---- stub: EConsElem::fromValue looks the value up in a std::map filled by static constructors
// (not executed by the solver build).  Model: valid values 0..9 give the item of that value,
// anything else the default item UNKNOWN (value 0), as the real function does.  Only _value is
// modelled (key / description string_views are not read by the kernel).
#define VF_NCONS 10 // EConsElem: UNKNOWN=0 ... TENSOR=9
alignas(16) static char consbuf[sizeof(EConsElem)];
const EConsElem& EConsElem::fromValue(int value)
{
  EConsElem* e = (EConsElem*)consbuf;
  e->_value = (value >= 0 && value < VF_NCONS) ? value : 0;
  return *e;
}

struct Tup { int imod, icov, icons, ivar, jvar; };
static Tup draw()
{
  Tup t;
  t.imod = vf_range(0, CONGRUENCY - 1);
  t.icov = vf_range(0, CONGRUENCY - 1);
  t.icons = vf_range(0, VF_NCONS - 1); // every EConsElem
  t.ivar = vf_range(0, CONGRUENCY - 1);
  t.jvar = vf_range(0, CONGRUENCY - 1);
  return t;
}
static int encode(const Tup& t)
{
  alignas(16) char buf[sizeof(EConsElem)];
  EConsElem* c = (EConsElem*)buf;
  c->_value = t.icons;
  return st_parid_encode(t.imod, t.icov, *c, t.ivar, t.jvar); // REAL
}

extern "C" void k_parid_roundtrip()
{
  vf_assert_id(CONGRUENCY > VF_NCONS - 1, "every EConsElem value is below CONGRUENCY");
  Tup t = draw();
  int id = encode(t);
  vf_assert_id(id >= 0, "identifier is non-negative");
  alignas(16) char obuf[sizeof(EConsElem)];
  EConsElem* oc = (EConsElem*)obuf;
  int imod, icov, ivar, jvar;
  st_parid_decode(id, &imod, &icov, oc, &ivar, &jvar); // REAL
  vf_assert_id(imod == t.imod && icov == t.icov && oc->_value == t.icons && ivar == t.ivar && jvar == t.jvar,
               "decode(encode(x)) == x");
  vf_witness();
}

extern "C" void k_parid_injective()
{
  Tup a = draw(), b = draw();
  int ia = encode(a), ib = encode(b);
  bool same = a.imod == b.imod && a.icov == b.icov && a.icons == b.icons && a.ivar == b.ivar && a.jvar == b.jvar;
  vf_assert_id(same || ia != ib, "distinct tuples give distinct identifiers");
  vf_witness();
}
