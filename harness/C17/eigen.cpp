// C17.c: st_truncate_negative_eigen (static, src/Core/model_auto.cpp): the repair step that makes a
// fitted sill matrix positive semi-definite.  The eigen decomposition is a stub returning ARBITRARY
// eigenvalues and eigenvectors (no orthogonality assumed): whatever it returns,
//   * the return value is 1 iff every eigenvalue is > 0 (documented),
//   * when some eigenvalue is <= 0 the matrix written is  sum_k max(l_k,0) v_k v_k^t : symmetric and
//     positive semi-definite (all principal minors >= 0),
//   * when all are > 0 the matrix written equals the input.
// One kernel per VF_NVAR (2; 3 in the thorough tier).
#include "vf.h"
#include "Core/model_auto.cpp" // -I/repo/src: the real file, its statics become visible here
#ifndef VF_NVAR
#define VF_NVAR 2
#endif
static double ab(double v) { return v < 0 ? -v : v; }
// v >= 0, where v is a sum of products whose absolute values add up to 'scale'
static bool ge0(double v, double scale)
{
#ifdef VF_NATIVE
  return v >= -1e-9 * (1. + scale); // native runs compute in rounded arithmetic
#else
  return v >= 0.;
#endif
}
static double EV[VF_NVAR];          // what the stub returned (for the oracle)
static double VV[VF_NVAR][VF_NVAR]; // VV[i][k]: component i of eigenvector k

// ---- stub: replaces MatrixSquareSymmetric::computeEigen (Eigen::SelfAdjointEigenSolver)
int MatrixSquareSymmetric::computeEigen(bool /*optionPositive*/)
{
  int n = getNRows();
  _eigenValues = VectorDouble(n);
  for (int k = 0; k < n; k++) _eigenValues[k] = EV[k];
  delete _eigenVectors;
  _eigenVectors = new MatrixSquareGeneral(n);
  for (int i = 0; i < n; i++)
    for (int k = 0; k < n; k++) _eigenVectors->setValue(i, k, VV[i][k]);
  _flagEigenDecompose = true;
  return 0;
}

static void run(bool alias)
{
  const int n = VF_NVAR;
  double in[VF_NVAR][VF_NVAR];
  std::vector<MatrixSquareSymmetric> matcor(2, MatrixSquareSymmetric(n)), other(2, MatrixSquareSymmetric(n));
  std::vector<MatrixSquareSymmetric>& matcoru = alias ? matcor : other;
  const int icov0 = 1;
  for (int i = 0; i < n; i++)
    for (int j = 0; j <= i; j++)
    {
      in[i][j] = in[j][i] = vf_finite_double();
      matcor[icov0].setValue(i, j, in[i][j]);
      if (!alias) matcoru[icov0].setValue(i, j, vf_finite_double()); // arbitrary previous content
    }
  bool allpos = true;
  for (int k = 0; k < n; k++)
  {
    EV[k] = vf_finite_double();
    vf_split(EV[k] > 0);
    if (!(EV[k] > 0)) allpos = false;
    for (int i = 0; i < n; i++) VV[i][k] = vf_finite_double();
  }

  int ret = st_truncate_negative_eigen(n, icov0, matcor, matcoru); // REAL

  vf_assert_id(ret == (allpos ? 1 : 0), "returns 1 iff all eigenvalues are strictly positive");
  double m[VF_NVAR][VF_NVAR];
  for (int i = 0; i < n; i++)
    for (int j = 0; j < n; j++) m[i][j] = matcoru[icov0].getValue(i, j);
  for (int i = 0; i < n; i++)
    for (int j = 0; j < i; j++) vf_assert_id(m[i][j] == m[j][i], "result is symmetric");
  if (allpos)
  {
    for (int i = 0; i < n; i++)
      for (int j = 0; j < n; j++) vf_assert_id(m[i][j] == in[i][j], "all eigenvalues positive: result equals the input");
  }
  else
  {
    // positive semi-definite <=> every principal minor is >= 0
    for (int i = 0; i < n; i++) vf_assert_id(ge0(m[i][i], 0.), "rebuilt matrix: diagonal >= 0");
    for (int i = 0; i < n; i++)
      for (int j = 0; j < i; j++)
        vf_assert_id(ge0(m[i][i] * m[j][j] - m[i][j] * m[i][j], ab(m[i][i] * m[j][j]) + m[i][j] * m[i][j]),
                     "rebuilt matrix: 2x2 principal minors >= 0");
#if VF_NVAR == 3
    double det = m[0][0] * (m[1][1] * m[2][2] - m[1][2] * m[2][1]) - m[0][1] * (m[1][0] * m[2][2] - m[1][2] * m[2][0]) +
                 m[0][2] * (m[1][0] * m[2][1] - m[1][1] * m[2][0]);
    double sc = ab(m[0][0] * m[1][1] * m[2][2]) + ab(m[0][0] * m[1][2] * m[2][1]) + ab(m[0][1] * m[1][0] * m[2][2]) +
                ab(m[0][1] * m[1][2] * m[2][0]) + ab(m[0][2] * m[1][0] * m[2][1]) + ab(m[0][2] * m[1][1] * m[2][0]);
    vf_assert_id(ge0(det, sc), "rebuilt matrix: determinant >= 0");
#endif
  }
  if (!alias) // the input matrix is not modified
    for (int i = 0; i < n; i++)
      for (int j = 0; j < n; j++) vf_assert_id(matcor[icov0].getValue(i, j) == in[i][j], "input sill matrix unchanged");
  vf_witness();
}
extern "C" void k_truncate() { run(false); }
extern "C" void k_truncate_inplace() { run(true); }
