// C19.c: CalcMigrate under symbolic fault schedules.
//   real code: ACalculator::run, ACalcDbToDb::_check/_preprocess/_addVariableDb/_storeInVariableList/
//   _cleanVariableDb/_renameVariable, CalcMigrate::_check/_preprocess/_postprocess/_rollback.
//   stubbed: CalcMigrate::_run (the numerical part).
#include "Calculators/CalcMigrate.hpp"
#include "simple.h"

bool CalcMigrate::_run() { VF_RUN_STUB_DBTODB }
extern "C" char vt_CalcMigrate[] asm("_ZTV11CalcMigrate");

extern "C" void k_migrate()
{
  ghost_setup();
  pick_run();
  alignas(16) static char cb[sizeof(CalcMigrate)];
  CalcMigrate* c = (CalcMigrate*)cb;
  *(void**)cb = (void*)(vt_CalcMigrate + 16);
  init_dbtodb(c);
  c->_mustShareSpaceDimension = false;
  c->_iattOut = -1;
  new (&c->_iuids) VectorInt();
  new (&c->_dmax) VectorDouble();
  // the variables to migrate: the VF_NVAR variables of dbin, or none (refused by _check)
  bool some = vf_nondet_bool();
  int dt = vf_range(0, 3);
  bool loc = vf_nondet_bool();
  if (some)
    for (int v = 0; v < VF_NVAR; v++) c->_iuids.push_back(VF_NDIM + v);
  c->_distType = dt;
  c->_flagFill = c->_flagInter = c->_flagBall = false;
  c->_flagLocate = loc;
  g_enum(c->_locatorType, 3); // ELoc::F

  ghost_snapshot();
  bool ok = c->run();

  vf_assert_id(c->_listVariableTempDbIn.empty() && c->_listVariableTempDbOut.empty(),
               "temporary bookkeeping lists are empty after run()");
  if (!ok)
  {
    vf_assert_id(c->_listVariablePermDbIn.empty() && c->_listVariablePermDbOut.empty(),
                 "failure: permanent bookkeeping lists are empty");
    check_failure_both();
  }
  else
  {
    // documented outputs: one column of dbout per migrated variable (+ what the stubbed _run registered)
    int expect = VF_NVAR + r_add1 + 2 * r_add2;
    vf_assert_id(ghost_same_ids(0), "success: dbin has exactly the identifiers it had");
    vf_assert_id(ghost_same_roles(0), "success: roles in dbin unchanged");
    vf_assert_id(ghost_untouched(0), "success: contents of dbin untouched");
    vf_assert_id(all_old_alive(1), "success: every previous column of dbout is still there");
    vf_assert_id(count_new(1) == expect, "success: dbout gained exactly the documented output variables");
    vf_assert_id(ghost_untouched(1), "success: contents of the previous columns of dbout untouched");
  }
  vf_witness();
}
