// C19.p: the roll-back protocol of the calculator base classes alone.
//   ACalculator::run (real try/catch), ACalcDbToDb::_check/_preprocess/_addVariableDb/
//   _storeInVariableList/_cleanVariableDb  (entry k_proto_dbtodb)
//   ACalcDbVarCreator::_addVariableDb/_storeInVariableList/_cleanVariableDb (entry k_proto_varcreator)
// driven by a minimal calculator defined here whose stages create variables through the real
// _addVariableDb (data base, permanent/temporary status and number under symbolic choice) and
// fail - by returning false or by throwing - under symbolic bits.  The minimal calculator follows
// the discipline the base classes ask for: every variable is created through _addVariableDb,
// _postprocess frees the temporaries, _rollback frees both lists.
// -DVF_ROLLBACK_PERM_ONLY=1: _rollback frees the permanent list only (the idiom used by every
// calculator of the library) - used to show the checks are not vacuous and to pin S12.
#define G_NDIM_NAMES 1
#include "ghost.h"
#include "Calculators/ACalcDbToDb.hpp"
#include "Calculators/ACalcDbVarCreator.hpp"

#ifndef VF_NRUN
#define VF_NRUN 1
#endif
#ifndef VF_ROLLBACK_PERM_ONLY
#define VF_ROLLBACK_PERM_ONLY 0
#endif

// ---- opaque strings / messages
void throw_exp(const std::string& msg, const std::string& file, int line) { throw AException(std::string()); }
void NamingConvention::setNamesAndLocators(const Db* dbin, const VectorString& names, const ELoc& locatorInType,
                                           int nvar, Db* dbout, int iattout_start, const String& qualifier,
                                           int nitems, bool flagSetLocator, int locatorShift) const
{
  Ghost& g = gh(dbout);
  for (int i = 0; i < nvar * nitems; i++) g_touch(g, iattout_start + i);
}

// ---- ghost data bases: raw storage, vptr of a harness class whose virtuals answer from the ghost
class GhostDb: public Db
{
public:
  virtual bool isGrid() const override;
  virtual int getNDim() const override;
};
bool GhostDb::isGrid() const { return gh(this).grid; }
int GhostDb::getNDim() const { return gh(this).ndim; }
extern "C" char vt_GhostDb[] asm("_ZTV7GhostDb");

alignas(16) static char dbbuf[2][sizeof(GhostDb)];

static void ghost_setup(int npre_in, int npre_out)
{
  ghost_enums();
  for (int w = 0; w < 2; w++)
  {
    g_db[w] = (Db*)dbbuf[w];
    *(void**)dbbuf[w] = (void*)(vt_GhostDb + 16);
    Ghost& g = G[w];
    int npre = (w == 0) ? npre_in : npre_out;
    for (int i = 0; i < G_MAXID; i++)
    {
      g.live[i] = false;
      g.loc[i] = G_NONE;
      g.rank[i] = 0;
      g.touched[i] = false;
    }
    // arbitrary prior content: npre identifiers were issued, any subset still alive, any roles
    for (int i = 0; i < npre; i++)
    {
      g.live[i] = vf_nondet_bool();
      if (g.live[i] && vf_nondet_bool())
      {
        int t = vf_range(0, 3);
        g.loc[i] = (t == 0) ? 0 : (t == 1) ? 1 : (t == 2) ? 3 : 22; // X, Z, F, SIMU
        g.rank[i] = vf_range(0, 1);
        for (int j = 0; j < i; j++) vf_assume(!(g.live[j] && g.loc[j] == g.loc[i] && g.rank[j] == g.rank[i]));
      }
    }
    g.next = npre;
    g.ndim = vf_range(0, 3);
    g.grid = vf_nondet_bool();
    g.baddel = false;
  }
}
static void ghost_snapshot()
{
  for (int w = 0; w < 2; w++)
  {
    for (int i = 0; i < G_MAXID; i++) G[w].touched[i] = false;
    G[w].baddel = false;
    PRE[w] = G[w];
  }
}
// data base w is exactly as at the snapshot
static bool ghost_same(int w)
{
  bool ok = !G[w].baddel;
  for (int i = 0; i < G_MAXID; i++)
  {
    if (G[w].live[i] != PRE[w].live[i]) ok = false;
    if (PRE[w].live[i] && G[w].live[i])
    {
      if (G[w].loc[i] != PRE[w].loc[i] || G[w].rank[i] != PRE[w].rank[i]) ok = false;
      if (G[w].touched[i]) ok = false;
    }
  }
  return ok;
}

// ---- the schedule: what a stage does
struct Stage
{
  bool add1, add2; // create 1 variable / 2 more variables
  int which1, which2, status1, status2;
  bool fail, thrw;
};
static void pick(Stage& s, bool twoDb)
{
  s.add1 = vf_nondet_bool();
  s.add2 = vf_nondet_bool();
  s.which1 = twoDb ? vf_range(1, 2) : 1;
  s.which2 = twoDb ? vf_range(1, 2) : 1;
  s.status1 = vf_range(1, 2);
  s.status2 = vf_range(1, 2);
  s.fail = vf_nondet_bool();
  s.thrw = vf_nondet_bool();
}
// documented outputs = what was registered as permanent in a successful run
static bool perm[2][G_MAXID];
static bool temp[2][G_MAXID];
static void note(int which, int status, int iuid, int n)
{
  if (iuid < 0) return;
  for (int i = 0; i < n; i++)
    if (iuid + i < G_MAXID) (status == 1 ? perm : temp)[which - 1][iuid + i] = true;
}

// =========================================================== ACalcDbToDb
class MiniCalc: public ACalcDbToDb
{
public:
  Stage pre, run_;
  bool failCheck, failPost, throwPost;
  virtual bool _check() override;
  virtual bool _preprocess() override;
  virtual bool _run() override;
  virtual bool _postprocess() override;
  virtual void _rollback() override;
  bool stage(const Stage& s);
};
bool MiniCalc::stage(const Stage& s)
{
  if (s.add1)
  {
    int id = _addVariableDb(s.which1, s.status1, ELoc::UNKNOWN, 0, 1, 0.);
    if (id < 0) return false;
    note(s.which1, s.status1, id, 1);
  }
  if (s.add2)
  {
    int id = _addVariableDb(s.which2, s.status2, ELoc::UNKNOWN, 0, 2, 0.);
    if (id < 0) return false;
    note(s.which2, s.status2, id, 2);
  }
  if (s.fail)
  {
    if (s.thrw) my_throw("stage");
    return false;
  }
  return true;
}
bool MiniCalc::_check()
{
  if (!ACalcDbToDb::_check()) return false;
  return !failCheck;
}
bool MiniCalc::_preprocess()
{
  if (!ACalcDbToDb::_preprocess()) return false;
  return stage(pre);
}
bool MiniCalc::_run() { return stage(run_); }
bool MiniCalc::_postprocess()
{
  _cleanVariableDb(2);
  if (failPost)
  {
    if (throwPost) my_throw("post");
    return false;
  }
  return true;
}
void MiniCalc::_rollback()
{
  _cleanVariableDb(1);
#if !VF_ROLLBACK_PERM_ONLY
  _cleanVariableDb(2);
#endif
}
extern "C" char vt_MiniCalc[] asm("_ZTV8MiniCalc");

extern "C" void k_proto_dbtodb()
{
  ghost_setup(VF_NPRE, VF_NPRE);
  alignas(16) static char cb[sizeof(MiniCalc)];
  MiniCalc* c = (MiniCalc*)cb;
  *(void**)cb = (void*)(vt_MiniCalc + 16);
  new (&c->_listVariablePermDbIn) VectorInt();
  new (&c->_listVariablePermDbOut) VectorInt();
  new (&c->_listVariableTempDbIn) VectorInt();
  new (&c->_listVariableTempDbOut) VectorInt();
  c->_mustShareSpaceDimension = vf_nondet_bool();
  c->_ndim = 0;
  c->_nvar = 0;
  c->_dbin = g_db[0];
  c->_dbout = g_db[1];

  for (int r = 0; r < VF_NRUN; r++) // after a reported failure the objects remain usable: run again
  {
    ghost_snapshot();
    for (int w = 0; w < 2; w++)
      for (int i = 0; i < G_MAXID; i++) perm[w][i] = temp[w][i] = false;
    pick(c->pre, true);
    pick(c->run_, true);
    c->failCheck = vf_nondet_bool();
    c->failPost = vf_nondet_bool();
    c->throwPost = vf_nondet_bool();

    bool ok = c->run();

    vf_assert_id(c->_listVariableTempDbIn.empty() && c->_listVariableTempDbOut.empty(),
                 "temporary bookkeeping lists are empty after run()");
    if (!ok)
    {
      vf_assert_id(c->_listVariablePermDbIn.empty() && c->_listVariablePermDbOut.empty(),
                   "failure: permanent bookkeeping lists are empty");
      vf_assert_id(ghost_same(0), "failure: dbin is exactly as before (live identifiers, roles, contents)");
      vf_assert_id(ghost_same(1), "failure: dbout is exactly as before (live identifiers, roles, contents)");
    }
    else
    {
      for (int w = 0; w < 2; w++)
      {
        bool ids = !G[w].baddel, tmp = true, oldroles = true;
        for (int i = 0; i < G_MAXID; i++)
        {
          if (G[w].live[i] != (PRE[w].live[i] || perm[w][i])) ids = false;
          if (temp[w][i] && G[w].live[i]) tmp = false;
          if (PRE[w].live[i] && G[w].live[i] && G[w].touched[i]) oldroles = false;
        }
        vf_assert_id(ids, "success: live identifiers == previous ones + the variables registered as permanent");
        vf_assert_id(tmp, "success: no temporary variable is left");
        vf_assert_id(oldroles, "success: contents of pre-existing columns untouched");
      }
      // a successful calculator keeps its outputs: forget them before the next run
      c->_listVariablePermDbIn.clear();
      c->_listVariablePermDbOut.clear();
    }
  }
  vf_witness();
}
