// C19.p: the roll-back protocol of the calculator base classes alone.
//   k_proto_dbtodb:     ACalculator::run (real try/catch), ACalcDbToDb::_check/_preprocess/
//                       _addVariableDb/_storeInVariableList/_cleanVariableDb/_whichDb
//   k_proto_varcreator: ACalculator::run, ACalcDbVarCreator::_addVariableDb/_storeInVariableList/
//                       _cleanVariableDb
// driven by a minimal calculator defined here whose stages create variables through the real
// _addVariableDb (data base, permanent/temporary status and number under symbolic choice) and
// fail - by returning false or by throwing - under symbolic bits.  The minimal calculator follows
// the discipline the base classes ask for: every variable is created through _addVariableDb,
// _postprocess frees the temporaries, _rollback frees both lists.
// -DVF_ROLLBACK_PERM_ONLY=1: _rollback frees the permanent list only (the idiom used by every
// calculator of the library) - used to show the checks are not vacuous and to pin S12.
#include "ghost.h"
#include "Calculators/ACalcDbToDb.hpp"
#include "Calculators/ACalcDbVarCreator.hpp"

#ifndef VF_NRUN
#define VF_NRUN 1
#endif
#ifndef VF_NPRE
#define VF_NPRE 3
#endif
#ifndef VF_ROLLBACK_PERM_ONLY
#define VF_ROLLBACK_PERM_ONLY 0
#endif

// ---- opaque strings / messages
void throw_exp(const std::string& msg, const std::string& file, int line) { throw AException(std::string()); }

alignas(16) static char dbbuf[2][sizeof(GhostDb)];

// arbitrary prior content: VF_NPRE identifiers were issued in each data base, any subset is still
// alive, roles arbitrary (one column per (type, rank), ranks of a type contiguous from 0)
static void ghost_setup()
{
  ghost_enums();
  for (int w = 0; w < 2; w++)
  {
    g_db[w] = (Db*)dbbuf[w];
    *(void**)dbbuf[w] = (void*)(vt_GhostDb + 16);
    for (int i = 0; i < G_MAXID; i++)
    {
      g_live[w][i] = 0;
      g_loc[w][i] = G_NONE;
      g_rank[w][i] = 0;
      g_touched[w][i] = 0;
    }
    for (int i = 0; i < VF_NPRE; i++)
    {
      bool live = vf_nondet_bool();
      bool role = vf_nondet_bool();
      int t = vf_range(0, 3);
      int r = vf_range(0, 1);
      g_live[w][i] = live ? 1 : 0;
      bool lr = G_AND(live, role);
      g_loc[w][i] = lr ? ((t == 0) ? 0 : (t == 1) ? 1 : (t == 2) ? 3 : 22) : G_NONE; // X, Z, F, SIMU
      g_rank[w][i] = lr ? r : 0;
    }
    for (int i = 0; i < VF_NPRE; i++)
      for (int j = 0; j < i; j++)
        vf_assume(G_OR(g_loc[w][i] < 0, G_OR(g_loc[w][j] != g_loc[w][i], g_rank[w][j] != g_rank[w][i])));
    for (int i = 0; i < VF_NPRE; i++)
    {
      int f0 = g_find(w, g_loc[w][i], 0);
      vf_assume(G_OR(g_loc[w][i] < 0, G_OR(g_rank[w][i] == 0, f0 >= 0)));
    }
    g_next[w] = VF_NPRE;
    g_ndim[w] = vf_range(0, 3);
    g_grid[w] = vf_nondet_bool() ? 1 : 0;
    g_baddel[w] = 0;
  }
}

// ---- the schedule: what a stage does (drawn up front)
struct Stage
{
  bool add1, add2; // create 1 variable / 2 more variables
  int which1, which2, status1, status2;
  bool fail, thrw;
};
static void pick(Stage& s, bool twoDb)
{
  s.add1 = vf_nondet_bool();
  s.add2 = vf_nondet_bool();
  int w1 = vf_range(1, 2), w2 = vf_range(1, 2);
  s.which1 = twoDb ? w1 : 1;
  s.which2 = twoDb ? w2 : 1;
  s.status1 = vf_range(1, 2);
  s.status2 = vf_range(1, 2);
  s.fail = vf_nondet_bool();
  s.thrw = vf_nondet_bool();
}
// what the calculator registered: permanent = its documented outputs, temporary = scratch
static int perm[2][G_MAXID];
static int temp[2][G_MAXID];
static void note(int which, int status, int iuid, int n)
{
  for (int i = 0; i < G_MAXID; i++)
  {
    bool in = G_AND3(iuid >= 0, i >= iuid, i < iuid + n);
    int pp = perm[which - 1][i], tt = temp[which - 1][i];
    perm[which - 1][i] = G_AND(in, status == 1) ? 1 : pp;
    temp[which - 1][i] = G_AND(in, status != 1) ? 1 : tt;
  }
}
static void check_success(int w)
{
  bool ids = (g_baddel[w] == 0), tmp = true;
  for (int i = 0; i < G_MAXID; i++)
  {
    int l = g_live[w][i], pl = p_live[w][i], pp = perm[w][i], tt = temp[w][i];
    bool want = G_OR(pl == 1, pp == 1);
    ids = G_AND(ids, (l == 1) == want);
    tmp = G_AND(tt == 1, l == 1) ? false : tmp;
  }
  vf_assert_id(ids, "success: live identifiers == previous ones + the variables registered as permanent");
  vf_assert_id(tmp, "success: no temporary variable is left");
  vf_assert_id(ghost_same_roles(w), "success: roles of pre-existing columns unchanged");
  vf_assert_id(ghost_untouched(w), "success: contents of pre-existing columns untouched");
}
static void check_failure(int w)
{
  vf_assert_id(ghost_same_ids(w), w == 0 ? "failure: dbin has exactly the identifiers it had" : "failure: dbout has exactly the identifiers it had");
  vf_assert_id(ghost_same_roles(w), w == 0 ? "failure: roles in dbin unchanged" : "failure: roles in dbout unchanged");
  vf_assert_id(ghost_untouched(w), w == 0 ? "failure: contents of dbin untouched" : "failure: contents of dbout untouched");
}

// =========================================================== ACalcDbToDb
class MiniCalc: public ACalcDbToDb
{
public:
  Stage pre, run_;
  bool failCheck, failPost, throwPost;
  virtual bool _check() override;
  virtual bool _preprocess() override;
  virtual bool _run() override;
  virtual bool _postprocess() override;
  virtual void _rollback() override;
  bool stage(const Stage& s);
  // two distinct callees: the data base is a constant at each real _addVariableDb call site
  __attribute__((noinline)) int addIn(int status, int n) { return _addVariableDb(1, status, ELoc::UNKNOWN, 0, n, 0.); }
  __attribute__((noinline)) int addOut(int status, int n) { return _addVariableDb(2, status, ELoc::UNKNOWN, 0, n, 0.); }
};
bool MiniCalc::stage(const Stage& s)
{
  if (s.add1)
  {
    int id = (s.which1 == 1) ? addIn(s.status1, 1) : addOut(s.status1, 1);
    if (id < 0) return false;
    if (s.which1 == 1) note(1, s.status1, id, 1); else note(2, s.status1, id, 1);
  }
  if (s.add2)
  {
    int id = (s.which2 == 1) ? addIn(s.status2, 2) : addOut(s.status2, 2);
    if (id < 0) return false;
    if (s.which2 == 1) note(1, s.status2, id, 2); else note(2, s.status2, id, 2);
  }
  if (s.fail)
  {
    if (s.thrw) my_throw("stage");
    return false;
  }
  return true;
}
bool MiniCalc::_check()
{
  if (!ACalcDbToDb::_check()) return false;
  return !failCheck;
}
bool MiniCalc::_preprocess()
{
  if (!ACalcDbToDb::_preprocess()) return false;
  return stage(pre);
}
bool MiniCalc::_run() { return stage(run_); }
bool MiniCalc::_postprocess()
{
  _cleanVariableDb(2);
  if (failPost)
  {
    if (throwPost) my_throw("post");
    return false;
  }
  return true;
}
void MiniCalc::_rollback()
{
  _cleanVariableDb(1);
#if !VF_ROLLBACK_PERM_ONLY
  _cleanVariableDb(2);
#endif
}
extern "C" char vt_MiniCalc[] asm("_ZTV8MiniCalc");

extern "C" void k_proto_dbtodb()
{
  ghost_setup();
  alignas(16) static char cb[sizeof(MiniCalc)];
  MiniCalc* c = (MiniCalc*)cb;
  *(void**)cb = (void*)(vt_MiniCalc + 16);
  new (&c->_listVariablePermDbIn) VectorInt();
  new (&c->_listVariablePermDbOut) VectorInt();
  new (&c->_listVariableTempDbIn) VectorInt();
  new (&c->_listVariableTempDbOut) VectorInt();
  // capacity is not observable: reserving keeps the heap layout independent of the path taken
  c->_listVariablePermDbIn.reserve(8);
  c->_listVariablePermDbOut.reserve(8);
  c->_listVariableTempDbIn.reserve(8);
  c->_listVariableTempDbOut.reserve(8);
  c->_mustShareSpaceDimension = vf_nondet_bool();
  c->_ndim = 0;
  c->_nvar = 0;
  c->_dbin = g_db[0];
  c->_dbout = g_db[1];

  for (int r = 0; r < VF_NRUN; r++) // after a reported failure the objects remain usable: run again
  {
    ghost_snapshot();
    for (int w = 0; w < 2; w++)
      for (int i = 0; i < G_MAXID; i++) perm[w][i] = temp[w][i] = 0;
    pick(c->pre, true);
    pick(c->run_, true);
    c->failCheck = vf_nondet_bool();
    c->failPost = vf_nondet_bool();
    c->throwPost = vf_nondet_bool();

    bool ok = c->run();

    vf_assert_id(c->_listVariableTempDbIn.empty() && c->_listVariableTempDbOut.empty(),
                 "temporary bookkeeping lists are empty after run()");
    if (!ok)
    {
      vf_assert_id(c->_listVariablePermDbIn.empty() && c->_listVariablePermDbOut.empty(),
                   "failure: permanent bookkeeping lists are empty");
      check_failure(0);
      check_failure(1);
    }
    else
    {
      check_success(0);
      check_success(1);
      // a successful calculator keeps its outputs: a new calculation starts with empty lists
      c->_listVariablePermDbIn.clear();
      c->_listVariablePermDbOut.clear();
    }
  }
  vf_witness();
}

// =========================================================== ACalcDbVarCreator
class MiniVar: public ACalcDbVarCreator
{
public:
  Stage pre, run_;
  bool failCheck, failPost, throwPost;
  virtual bool _check() override;
  virtual bool _preprocess() override;
  virtual bool _run() override;
  virtual bool _postprocess() override;
  virtual void _rollback() override;
  bool stage(const Stage& s);
};
bool MiniVar::stage(const Stage& s)
{
  if (s.add1)
  {
    int id = _addVariableDb(s.status1, ELoc::UNKNOWN, 0, 1, 0.);
    if (id < 0) return false;
    note(1, s.status1, id, 1);
  }
  if (s.add2)
  {
    int id = _addVariableDb(s.status2, ELoc::UNKNOWN, 0, 2, 0.);
    if (id < 0) return false;
    note(1, s.status2, id, 2);
  }
  if (s.fail)
  {
    if (s.thrw) my_throw("stage");
    return false;
  }
  return true;
}
bool MiniVar::_check() { return !failCheck; }
bool MiniVar::_preprocess() { return stage(pre); }
bool MiniVar::_run() { return stage(run_); }
bool MiniVar::_postprocess()
{
  _cleanVariableDb(2);
  if (failPost)
  {
    if (throwPost) my_throw("post");
    return false;
  }
  return true;
}
void MiniVar::_rollback()
{
  _cleanVariableDb(1);
#if !VF_ROLLBACK_PERM_ONLY
  _cleanVariableDb(2);
#endif
}
extern "C" char vt_MiniVar[] asm("_ZTV7MiniVar");

extern "C" void k_proto_varcreator()
{
  ghost_setup();
  alignas(16) static char cb[sizeof(MiniVar)];
  MiniVar* c = (MiniVar*)cb;
  *(void**)cb = (void*)(vt_MiniVar + 16);
  new (&c->_listVariablePermDb) VectorInt();
  new (&c->_listVariableTempDb) VectorInt();
  c->_listVariablePermDb.reserve(8);
  c->_listVariableTempDb.reserve(8);
  c->_db = g_db[0];

  for (int r = 0; r < VF_NRUN; r++)
  {
    ghost_snapshot();
    for (int w = 0; w < 2; w++)
      for (int i = 0; i < G_MAXID; i++) perm[w][i] = temp[w][i] = 0;
    pick(c->pre, false);
    pick(c->run_, false);
    c->failCheck = vf_nondet_bool();
    c->failPost = vf_nondet_bool();
    c->throwPost = vf_nondet_bool();

    bool ok = c->run();

    vf_assert_id(c->_listVariableTempDb.empty(), "temporary bookkeeping list is empty after run()");
    if (!ok)
    {
      vf_assert_id(c->_listVariablePermDb.empty(), "failure: permanent bookkeeping list is empty");
      check_failure(0);
    }
    else
    {
      check_success(0);
      c->_listVariablePermDb.clear();
    }
  }
  vf_witness();
}
