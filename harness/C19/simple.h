// C19: pieces shared by the kernels of the calculators built directly on ACalcDbToDb /
// ACalcDbVarCreator (CalcMigrate, CalcStatistics, CalcAnamTransform): opaque messages and
// NamingConvention, arbitrary prior content of the two ghost data bases, oracle helpers.
// Parameters (macros): VF_NDIM, VF_NVAR, VF_NEXTRA, VF_GRIDOUT, VF_NOUTMAX.
#pragma once
#ifndef VF_NDIM
#define VF_NDIM 1
#endif
#ifndef VF_NVAR
#define VF_NVAR 1
#endif
#ifndef VF_NEXTRA
#define VF_NEXTRA 2
#endif
#ifndef VF_GRIDOUT
#define VF_GRIDOUT 0
#endif
#ifndef VF_NOUTMAX
#define VF_NOUTMAX VF_NVAR // largest number of columns renamed by one _renameVariable call
#endif
#define G_NDIM_NAMES VF_NVAR
#include "ghost.h"

// ---- opaque strings / messages
void throw_exp(const std::string& msg, const std::string& file, int line) { throw AException(std::string()); }

// ---- NamingConvention (opaque): names of the designated columns are written; the convention
// may give them its output locator (documented behaviour: the new results take the role over)
static int n_flagLocator, n_clean;
void NamingConvention::setNamesAndLocators(const Db* dbin, const VectorString& names, const ELoc& locatorInType,
                                           int nvar, Db* dbout, int iattout_start, const String& qualifier,
                                           int nitems, bool flagSetLocator, int locatorShift) const
{
  if (iattout_start < 0) return;
  int w = gw(dbout);
  int nv = names.empty() ? ((nvar < 0) ? 1 : nvar) : (int)names.size();
  int n = nv * nitems;
  for (int i = 0; i < G_MAXID; i++)
  {
    int l = g_live[w][i], tc = g_touched[w][i];
    g_touched[w][i] = G_AND3(i >= iattout_start, i < iattout_start + n, l == 1) ? 1 : tc;
  }
  if (!flagSetLocator || n_flagLocator == 0) return;
  if (n_clean == 1 && locatorShift == 0) g_clear(w, 1);
  for (int e = 0; e < VF_NOUTMAX; e++) // nvar * nitems <= VF_NOUTMAX at every call site
    if (e < n) g_setrole(w, iattout_start + e, 1, e + locatorShift);
}
VectorString Db::getNamesByUID(const VectorInt& iuids) const { return VectorString(iuids.size()); }

// ---- ghost data bases
class GhostGrid: public DbGrid
{
public:
  virtual bool isGrid() const override;
  virtual int getNDim() const override;
};
bool GhostGrid::isGrid() const { return true; }
int GhostGrid::getNDim() const { return g_ndim[gw(this)]; }
extern "C" char vt_GhostGrid[] asm("_ZTV9GhostGrid");
alignas(16) static char dbinbuf[sizeof(GhostDb)];
alignas(16) static char dboutbuf[sizeof(GhostGrid)];

// arbitrary prior content. dbin: VF_NDIM coordinates, VF_NVAR variables (concrete: they size the
// calculator's vectors) + VF_NEXTRA columns, each alive or not, with no role or one of F, V, SIMU,
// SEL; dbout: coordinates + extra columns with its own choices.
static void ghost_setup()
{
  ghost_enums();
  n_flagLocator = vf_range(0, 1);
  n_clean = vf_range(0, 1);
  g_db[0] = (Db*)dbinbuf;
  g_db[1] = (Db*)dboutbuf;
  *(void**)dbinbuf = (void*)(vt_GhostDb + 16);
  *(void**)dboutbuf = VF_GRIDOUT ? (void*)(vt_GhostGrid + 16) : (void*)(vt_GhostDb + 16);
  for (int w = 0; w < 2; w++)
  {
    for (int i = 0; i < G_MAXID; i++)
    {
      g_live[w][i] = 0;
      g_loc[w][i] = G_NONE;
      g_rank[w][i] = 0;
      g_touched[w][i] = 0;
    }
    int n = 0;
    for (int d = 0; d < VF_NDIM; d++, n++) { g_live[w][n] = 1; g_loc[w][n] = 0; g_rank[w][n] = d; }
    if (w == 0)
      for (int v = 0; v < VF_NVAR; v++, n++) { g_live[w][n] = 1; g_loc[w][n] = 1; g_rank[w][n] = v; }
    for (int e = 0; e < VF_NEXTRA; e++, n++)
    {
      bool live = vf_nondet_bool();
      int t = vf_range(0, 4);
      int r = vf_range(0, 1);
      g_live[w][n] = live ? 1 : 0;
      bool lr = G_AND(live, t > 0);
      int ty = (t == 1) ? 3 : (t == 2) ? 10 : (t == 3) ? 2 : 22; // F, SEL, V, SIMU
      g_loc[w][n] = lr ? ty : G_NONE;
      g_rank[w][n] = lr ? r : 0;
      for (int j = n - e; j < n; j++)
        vf_assume(G_OR(g_loc[w][n] < 0, G_OR(g_loc[w][j] != g_loc[w][n], g_rank[w][j] != g_rank[w][n])));
    }
    for (int i = 0; i < n; i++)
    {
      int f0 = g_find(w, g_loc[w][i], 0);
      vf_assume(G_OR(g_loc[w][i] < 0, G_OR(g_rank[w][i] == 0, f0 >= 0)));
    }
    g_next[w] = n;
    g_ndim[w] = VF_NDIM;
    g_grid[w] = (w == 1 && VF_GRIDOUT) ? 1 : 0;
    g_baddel[w] = 0;
  }
}

static int count_new(int w)
{
  int n = 0;
  for (int i = 0; i < G_MAXID; i++)
  {
    int l = g_live[w][i], pl = p_live[w][i];
    n = G_AND(l == 1, pl != 1) ? n + 1 : n;
  }
  return n;
}
static bool all_old_alive(int w)
{
  bool ok = (g_baddel[w] == 0);
  for (int i = 0; i < G_MAXID; i++)
  {
    int l = g_live[w][i], pl = p_live[w][i];
    ok = G_AND(pl == 1, l != 1) ? false : ok;
  }
  return ok;
}
static void check_failure_both()
{
  vf_assert_id(ghost_same_ids(0), "failure: dbin has exactly the identifiers it had");
  vf_assert_id(ghost_same_roles(0), "failure: roles in dbin unchanged");
  vf_assert_id(ghost_untouched(0), "failure: contents of dbin untouched");
  vf_assert_id(ghost_same_ids(1), "failure: dbout has exactly the identifiers it had");
  vf_assert_id(ghost_same_roles(1), "failure: roles in dbout unchanged");
  vf_assert_id(ghost_untouched(1), "failure: contents of dbout untouched");
}
// the numerical stage is stubbed: it may create 1 + 2 further permanent variables through the real
// _addVariableDb, then succeeds, returns false or throws
static int r_add1, r_add2, r_fail, r_throw;
static void pick_run()
{
  r_add1 = vf_range(0, 1);
  r_add2 = vf_range(0, 1);
  r_fail = vf_range(0, 1);
  r_throw = vf_range(0, 1);
}
#define VF_RUN_STUB_DBTODB                                                              \
  if (r_add1 == 1 && _addVariableDb(2, 1, ELoc::UNKNOWN, 0, 1, 0.) < 0) return false;   \
  if (r_add2 == 1 && _addVariableDb(2, 1, ELoc::UNKNOWN, 0, 2, 0.) < 0) return false;   \
  if (r_fail == 1)                                                                      \
  {                                                                                     \
    if (r_throw == 1) my_throw("run");                                                  \
    return false;                                                                       \
  }                                                                                     \
  return true;
template<class C> static void init_dbtodb(C* c)
{
  new (&c->_listVariablePermDbIn) VectorInt();
  new (&c->_listVariablePermDbOut) VectorInt();
  new (&c->_listVariableTempDbIn) VectorInt();
  new (&c->_listVariableTempDbOut) VectorInt();
  // capacity is not observable: reserving keeps the heap layout independent of the path taken
  c->_listVariablePermDbIn.reserve(16);
  c->_listVariablePermDbOut.reserve(16);
  c->_listVariableTempDbIn.reserve(16);
  c->_listVariableTempDbOut.reserve(16);
  c->_ndim = 0;
  c->_nvar = 0;
  c->_dbin = g_db[0];
  c->_dbout = g_db[1];
  G_NATIVE_VPTR(&c->_namconv, _ZTV16NamingConvention);
}
