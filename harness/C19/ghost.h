// C19 ghost model of Db (shared by the C19 harnesses).
//
// The real Db member functions that the calculators call are DEFINED here (llvm-link -override /
// native link order make these definitions replace the library's).  They do not touch the Db
// object at all (the Db objects of the harness are raw storage with only a vptr); they keep, per
// data base, in harness globals:
//   live[id]   the set of live column identifiers (fresh identifiers are never reused),
//   loc/rank   the role table (locator type value, locator index) of every live column,
//   touched[id] content (values / name) of the column was written,
//   ...
// Names (String) and NamingConvention are opaque: no std::string code is executed for them.
#pragma once
#include "vf.h"
#include "Db/Db.hpp"
#include "Db/DbGrid.hpp"
#include "Db/DbHelper.hpp"
#include "Basic/NamingConvention.hpp"
#include "Basic/AException.hpp"
#include "Enum/ELoc.hpp"
#include <new>

#ifndef G_MAXID
#define G_MAXID 16
#endif
#define G_NONE (-1)

struct Ghost
{
  bool live[G_MAXID];
  int  loc[G_MAXID];     // ELoc value of the role, G_NONE when the column has no role
  int  rank[G_MAXID];    // locator index of the role
  bool touched[G_MAXID]; // values or name of the column written since the snapshot
  int  next;             // next fresh identifier (== UID max number of the real Db)
  int  ndim;
  bool grid;
  bool baddel;           // a delete was asked for an identifier that is not live
};
static Ghost G[2];        // [0] = dbin, [1] = dbout
static Ghost PRE[2];
static Db*   g_db[2];

static Ghost& gh(const Db* d) { return (d == g_db[0]) ? G[0] : G[1]; }

#ifdef VF_SOLVER
// libc pieces reached through std::string(const char*) of the real my_throw(...) calls
extern "C" size_t strlen(const char* s) { size_t n = 0; while (s[n] != 0) n++; return n; }
#endif

// ---- ELoc / static enum items: static constructors are not executed by the solver build, so the
// integer value of the items the kernels use is written by hand (natively: same values again).
static void g_eloc(const ELoc& e, int v) { const_cast<ELoc&>(e)._value = v; }
static void ghost_enums()
{
  g_eloc(ELoc::UNKNOWN, -1);
  g_eloc(ELoc::X, 0);
  g_eloc(ELoc::Z, 1);
  g_eloc(ELoc::V, 2);
  g_eloc(ELoc::F, 3);
  g_eloc(ELoc::SEL, 10);
  g_eloc(ELoc::NOSTAT, 20);
  g_eloc(ELoc::SIMU, 22);
}

// ---- ghost primitives
// the column holding (type, rank) loses its role; the ranks above stay (PtrGeos::setLocatorByIndex overwrites)
static void g_unrole(Ghost& g, int type, int rank)
{
  for (int i = 0; i < G_MAXID; i++)
    if (g.live[i] && g.loc[i] == type && g.rank[i] == rank) { g.loc[i] = G_NONE; g.rank[i] = 0; }
}
// column iuid gives its role up and the higher ranks of that type move down (PtrGeos::erase)
static void g_erase(Ghost& g, int iuid)
{
  int t = g.loc[iuid], r = g.rank[iuid];
  g.loc[iuid] = G_NONE;
  g.rank[iuid] = 0;
  if (t < 0) return;
  for (int i = 0; i < G_MAXID; i++)
    if (g.live[i] && g.loc[i] == t && g.rank[i] > r) g.rank[i]--;
}
static int g_count(const Ghost& g, int type)
{
  if (type < 0) return 0;
  int n = 0; // same as PtrGeos::getLocatorNumber: highest rank in use + 1
  for (int i = 0; i < G_MAXID; i++)
    if (g.live[i] && g.loc[i] == type && g.rank[i] + 1 > n) n = g.rank[i] + 1;
  return n;
}
static int g_find(const Ghost& g, int type, int rank)
{
  for (int i = 0; i < G_MAXID; i++)
    if (g.live[i] && g.loc[i] == type && g.rank[i] == rank) return i;
  return -1;
}
static void g_setrole(Ghost& g, int iuid, int type, int rank)
{
  if (iuid < 0 || iuid >= G_MAXID || !g.live[iuid]) return;
  if (rank < 0) rank = g_count(g, type);
  g_erase(g, iuid);
  if (type >= 0)
  {
    g_unrole(g, type, rank);
    g.loc[iuid] = type;
    g.rank[iuid] = rank;
  }
}
static void g_clear(Ghost& g, int type)
{
  for (int i = 0; i < G_MAXID; i++)
    if (g.live[i] && g.loc[i] == type) { g.loc[i] = G_NONE; g.rank[i] = 0; }
}
static int g_add(Ghost& g, int nadd, int type, int rank)
{
  if (nadd <= 0) return -1;
  vf_assume(g.next + nadd <= G_MAXID); // bound of the identifier space (stated in the registry)
  int first = g.next;
  for (int i = 0; i < nadd; i++)
  {
    g.live[first + i] = true;
    g.loc[first + i] = G_NONE;
    g.rank[first + i] = 0;
    g.touched[first + i] = false;
  }
  g.next = first + nadd;
  if (type >= 0)
  {
    if (rank < 0) rank = g_count(g, type);
    for (int i = 0; i < nadd; i++) g_setrole(g, first + i, type, rank + i);
  }
  return first;
}
static void g_del(Ghost& g, int iuid)
{
  if (iuid < 0 || iuid >= G_MAXID || !g.live[iuid]) { g.baddel = true; return; }
  g_erase(g, iuid);
  g.live[iuid] = false;
}
static void g_touch(Ghost& g, int iuid)
{
  if (iuid < 0 || iuid >= G_MAXID || !g.live[iuid]) return;
  g.touched[iuid] = true;
}

// ---- Db member functions replaced by the ghost (exact signatures of include/Db/Db.hpp)
int Db::addColumnsByConstant(int nadd, double valinit, const String& radix, const ELoc& locatorType,
                             int locatorIndex, int nechInit)
{
  return g_add(gh(this), nadd, locatorType.getValue(), locatorIndex);
}
void Db::deleteColumnByUID(int iuid_del) { g_del(gh(this), iuid_del); }
void Db::deleteColumnsByLocator(const ELoc& locatorType)
{
  Ghost& g = gh(this);
  int t = locatorType.getValue();
  for (int i = 0; i < G_MAXID; i++)
    if (g.live[i] && g.loc[i] == t && t >= 0) g_del(g, i);
}
int Db::getLocNumber(const ELoc& loctype) const { return g_count(gh(this), loctype.getValue()); }
int Db::getLocatorNumber(const ELoc& locatorType) const { return g_count(gh(this), locatorType.getValue()); }
int Db::getFromLocatorNumber(const ELoc& locatorType) const { return g_count(gh(this), locatorType.getValue()); }
int Db::getUIDByLocator(const ELoc& locatorType, int locatorIndex) const
{
  return g_find(gh(this), locatorType.getValue(), locatorIndex);
}
void Db::clearLocators(const ELoc& locatorType) { g_clear(gh(this), locatorType.getValue()); }
void Db::setLocatorByUID(int iuid, const ELoc& locatorType, int locatorIndex, bool cleanSameLocator)
{
  Ghost& g = gh(this);
  if (iuid < 0 || iuid >= G_MAXID || !g.live[iuid]) return;
  if (cleanSameLocator) g_clear(g, locatorType.getValue());
  g_setrole(g, iuid, locatorType.getValue(), locatorIndex);
}
void Db::setLocatorsByUID(int number, int iuid, const ELoc& locatorType, int locatorIndex, bool cleanSameLocator)
{
  Ghost& g = gh(this);
  int t = locatorType.getValue();
  if (cleanSameLocator) g_clear(g, t);
  if (locatorIndex < 0) locatorIndex = g_count(g, t);
  for (int i = 0; i < number; i++) g_setrole(g, iuid + i, t, locatorIndex + i);
}
void Db::duplicateColumnByUID(int iuid_in, int iuid_out) { g_touch(gh(this), iuid_out); }
int  Db::getSampleNumber(bool useSel) const { return 1; }
void Db::getExtensionInPlace(VectorDouble& mini, VectorDouble& maxi, bool flagPreserve, bool useSel) const {}

// names are handles: getNamesByLocator remembers which columns carried the role (side table),
// setLocators(names, ...) gives the role back to exactly those columns (names of pre-existing
// columns are never changed by a calculator, so name -> column is the identity on them).
#define G_MAXNAMES 4
static int g_names_id[2][G_MAXNAMES];
static int g_names_n[2];
VectorString Db::getNamesByLocator(const ELoc& locatorType) const
{
  Ghost& g = gh(this);
  int w = (this == g_db[0]) ? 0 : 1;
  int n = g_count(g, locatorType.getValue());
  vf_assume(n <= G_MAXNAMES);
  g_names_n[w] = n;
  for (int r = 0; r < G_MAXNAMES; r++) g_names_id[w][r] = (r < n) ? g_find(g, locatorType.getValue(), r) : -1;
  return VectorString(G_NDIM_NAMES);
}
void Db::setLocators(const VectorString& names, const ELoc& locatorType, int locatorIndex, bool cleanSameLocator)
{
  Ghost& g = gh(this);
  int w = (this == g_db[0]) ? 0 : 1;
  int t = locatorType.getValue();
  if (cleanSameLocator) g_clear(g, t);
  if (locatorIndex < 0) locatorIndex = g_count(g, t);
  for (int r = 0; r < G_MAXNAMES; r++)
    if (r < g_names_n[w] && g_names_id[w][r] >= 0) g_setrole(g, g_names_id[w][r], t, locatorIndex + r);
}
