// C19 ghost model of Db (shared by the C19 harnesses).
//
// The real Db member functions that the calculators call are DEFINED here (llvm-link -override /
// native link order make these definitions replace the library's).  They do not touch the Db
// object at all (the Db objects of the harness are raw storage with only a vptr); they keep, per
// data base w (0 = dbin, 1 = dbout), in harness globals:
//   g_live[w][id]     the set of live column identifiers (fresh identifiers are never reused),
//   g_loc/g_rank      the role table (locator type value, locator index) of every live column,
//   g_touched[w][id]  values or name of the column were written since the snapshot,
//   g_baddel[w]       a delete was requested for an identifier that is not live.
// Role semantics follow src/Db/Db.cpp + PtrGeos.cpp: setLocatorByUID first erases the column's
// own role (higher ranks of that type move down), then overwrites the slot (type, rank): the
// column that held it loses its role; deleteColumnByUID erases the role the same way.
// Names (String) and NamingConvention are opaque: no std::string code is executed for them.
// No vf_nondet_* is drawn in here (inputs are drawn up front by the harness, HARNESS_GUIDE).
#pragma once
#include "vf.h"
#include "Db/Db.hpp"
#include "Db/DbGrid.hpp"
#include "Db/DbHelper.hpp"
#include "Basic/NamingConvention.hpp"
#include "Basic/AException.hpp"
#include "Enum/ELoc.hpp"
#include <new>

#ifndef G_MAXID
#define G_MAXID 16
#endif
#ifndef G_NDIM_NAMES
#define G_NDIM_NAMES 1
#endif
#define G_NONE (-1)

static int  g_live[2][G_MAXID], p_live[2][G_MAXID];
static int  g_loc[2][G_MAXID], p_loc[2][G_MAXID];
static int  g_rank[2][G_MAXID], p_rank[2][G_MAXID];
static int  g_touched[2][G_MAXID];
static int  g_next[2];
static int  g_ndim[2];
static int  g_grid[2];
static int  g_baddel[2];
static Db*  g_db[2];

static int gw(const Db* d) { return (d == g_db[0]) ? 0 : 1; }

#ifdef VF_SOLVER
// libc piece reached through std::string(const char*) of the real my_throw(...) calls
extern "C" size_t strlen(const char* s) { size_t n = 0; while (s[n] != 0) n++; return n; }
#endif

// ---- static enum items: static constructors are not executed by the solver build, so the
// integer value of the items the kernels use is written by hand (natively: same values again).
static void g_eloc(const ELoc& e, int v) { const_cast<ELoc&>(e)._value = v; }
static void ghost_enums()
{
  g_eloc(ELoc::UNKNOWN, -1);
  g_eloc(ELoc::X, 0);
  g_eloc(ELoc::Z, 1);
  g_eloc(ELoc::V, 2);
  g_eloc(ELoc::F, 3);
  g_eloc(ELoc::SEL, 10);
  g_eloc(ELoc::NOSTAT, 20);
  g_eloc(ELoc::SIMU, 22);
}

// ---- ghost primitives.  Written without data-dependent branches (conditional expressions over
// every identifier) so that the symbolic executor does not fork inside the model.
#define G_IS(w, i, t, r) ((g_live[w][i] != 0) ? ((g_loc[w][i] == (t)) ? (g_rank[w][i] == (r)) : false) : false)
static bool g_valid(int w, int iuid)
{
  bool ok = false;
  for (int i = 0; i < G_MAXID; i++) ok = (i == iuid) ? (g_live[w][i] != 0) : ok;
  return ok;
}
// the column holding (type, rank) loses its role; other ranks stay (PtrGeos::setLocatorByIndex overwrites)
static void g_unrole(int w, int type, int rank)
{
  for (int i = 0; i < G_MAXID; i++)
  {
    bool hit = G_IS(w, i, type, rank);
    g_loc[w][i] = hit ? G_NONE : g_loc[w][i];
    g_rank[w][i] = hit ? 0 : g_rank[w][i];
  }
}
// column iuid gives its role up and the higher ranks of that type move down (PtrGeos::erase)
static void g_erase(int w, int iuid)
{
  int t = G_NONE, r = 0;
  for (int i = 0; i < G_MAXID; i++)
  {
    bool me = (i == iuid);
    t = me ? g_loc[w][i] : t;
    r = me ? g_rank[w][i] : r;
    g_loc[w][i] = me ? G_NONE : g_loc[w][i];
    g_rank[w][i] = me ? 0 : g_rank[w][i];
  }
  for (int i = 0; i < G_MAXID; i++)
  {
    bool up = (t >= 0) ? ((g_live[w][i] != 0) ? ((g_loc[w][i] == t) ? (g_rank[w][i] > r) : false) : false) : false;
    g_rank[w][i] = up ? g_rank[w][i] - 1 : g_rank[w][i];
  }
}
static int g_count(int w, int type)
{
  int n = 0; // PtrGeos::getLocatorNumber: highest rank in use + 1
  for (int i = 0; i < G_MAXID; i++)
  {
    bool in = (type >= 0) ? ((g_live[w][i] != 0) ? ((g_loc[w][i] == type) ? (g_rank[w][i] + 1 > n) : false) : false) : false;
    n = in ? g_rank[w][i] + 1 : n;
  }
  return n;
}
static int g_find(int w, int type, int rank)
{
  int r = -1;
  for (int i = 0; i < G_MAXID; i++) r = G_IS(w, i, type, rank) ? i : r;
  return r;
}
// setLocatorByUID on a valid identifier
static void g_setrole(int w, int iuid, int type, int rank)
{
  bool ok = g_valid(w, iuid);
  int id = ok ? iuid : -1; // -1 matches no identifier: nothing happens
  int rk = (rank < 0) ? g_count(w, type) : rank;
  g_erase(w, id);
  g_unrole(w, (ok && type >= 0) ? type : -2, rk);
  for (int i = 0; i < G_MAXID; i++)
  {
    bool me = (i == id) ? (type >= 0) : false;
    g_loc[w][i] = me ? type : g_loc[w][i];
    g_rank[w][i] = me ? rk : g_rank[w][i];
  }
}
static void g_clear(int w, int type)
{
  for (int i = 0; i < G_MAXID; i++)
  {
    bool hit = (g_live[w][i] != 0) ? (g_loc[w][i] == type) : false;
    g_loc[w][i] = hit ? G_NONE : g_loc[w][i];
    g_rank[w][i] = hit ? 0 : g_rank[w][i];
  }
}
// nadd is a concrete number in every kernel (it sizes the calculators' own vectors)
static int g_add(int w, int nadd, int type, int rank)
{
  if (nadd <= 0) return -1;
  vf_assume(g_next[w] + nadd <= G_MAXID); // bound of the identifier space (stated in the registry)
  int first = g_next[w];
  for (int i = 0; i < G_MAXID; i++)
  {
    bool in = (i >= first) ? (i < first + nadd) : false;
    g_live[w][i] = in ? 1 : g_live[w][i];
    g_loc[w][i] = in ? G_NONE : g_loc[w][i];
    g_rank[w][i] = in ? 0 : g_rank[w][i];
    g_touched[w][i] = in ? 0 : g_touched[w][i];
  }
  g_next[w] = first + nadd;
  if (type >= 0)
  {
    int rk = (rank < 0) ? g_count(w, type) : rank;
    for (int k = 0; k < nadd; k++) g_setrole(w, first + k, type, rk + k);
  }
  return first;
}
static void g_del(int w, int iuid)
{
  bool ok = g_valid(w, iuid);
  g_baddel[w] = ok ? g_baddel[w] : 1;
  int id = ok ? iuid : -1;
  g_erase(w, id);
  for (int i = 0; i < G_MAXID; i++) g_live[w][i] = (i == id) ? 0 : g_live[w][i];
}
static void g_touch(int w, int iuid)
{
  for (int i = 0; i < G_MAXID; i++) g_touched[w][i] = (i == iuid) ? ((g_live[w][i] != 0) ? 1 : g_touched[w][i]) : g_touched[w][i];
}
static void ghost_snapshot()
{
  for (int w = 0; w < 2; w++)
  {
    g_baddel[w] = 0;
    for (int i = 0; i < G_MAXID; i++)
    {
      g_touched[w][i] = 0;
      p_live[w][i] = g_live[w][i];
      p_loc[w][i] = g_loc[w][i];
      p_rank[w][i] = g_rank[w][i];
    }
  }
}
// data base w compared with the snapshot: same live identifiers / same roles / contents untouched
static bool ghost_same_ids(int w)
{
  bool ok = (g_baddel[w] == 0);
  for (int i = 0; i < G_MAXID; i++) ok = ((g_live[w][i] != 0) == (p_live[w][i] != 0)) ? ok : false;
  return ok;
}
static bool ghost_same_roles(int w)
{
  bool ok = true;
  for (int i = 0; i < G_MAXID; i++)
  {
    bool both = (p_live[w][i] != 0) ? (g_live[w][i] != 0) : false;
    bool diff = (g_loc[w][i] != p_loc[w][i]) ? true : (g_rank[w][i] != p_rank[w][i]);
    ok = (both ? diff : false) ? false : ok;
  }
  return ok;
}
static bool ghost_untouched(int w)
{
  bool ok = true;
  for (int i = 0; i < G_MAXID; i++)
  {
    bool both = (p_live[w][i] != 0) ? (g_live[w][i] != 0) : false;
    ok = (both ? (g_touched[w][i] != 0) : false) ? false : ok;
  }
  return ok;
}

// ---- Db member functions replaced by the ghost (exact signatures of include/Db/Db.hpp)
int Db::addColumnsByConstant(int nadd, double valinit, const String& radix, const ELoc& locatorType,
                             int locatorIndex, int nechInit)
{
  return g_add(gw(this), nadd, locatorType.getValue(), locatorIndex);
}
void Db::deleteColumnByUID(int iuid_del) { g_del(gw(this), iuid_del); }
void Db::deleteColumnsByLocator(const ELoc& locatorType)
{
  int w = gw(this);
  int t = locatorType.getValue();
  if (t < 0) return;
  for (int i = 0; i < G_MAXID; i++)
  {
    bool hit = (g_live[w][i] != 0) ? (g_loc[w][i] == t) : false;
    g_loc[w][i] = hit ? G_NONE : g_loc[w][i];
    g_rank[w][i] = hit ? 0 : g_rank[w][i];
    g_live[w][i] = hit ? 0 : g_live[w][i];
  }
}
int Db::getLocNumber(const ELoc& loctype) const { return g_count(gw(this), loctype.getValue()); }
int Db::getLocatorNumber(const ELoc& locatorType) const { return g_count(gw(this), locatorType.getValue()); }
int Db::getFromLocatorNumber(const ELoc& locatorType) const { return g_count(gw(this), locatorType.getValue()); }
int Db::getUIDByLocator(const ELoc& locatorType, int locatorIndex) const
{
  return g_find(gw(this), locatorType.getValue(), locatorIndex);
}
void Db::clearLocators(const ELoc& locatorType) { g_clear(gw(this), locatorType.getValue()); }
void Db::setLocatorByUID(int iuid, const ELoc& locatorType, int locatorIndex, bool cleanSameLocator)
{
  int w = gw(this);
  if (cleanSameLocator && g_valid(w, iuid)) g_clear(w, locatorType.getValue());
  g_setrole(w, iuid, locatorType.getValue(), locatorIndex);
}
void Db::setLocatorsByUID(int number, int iuid, const ELoc& locatorType, int locatorIndex, bool cleanSameLocator)
{
  int w = gw(this);
  int t = locatorType.getValue();
  if (cleanSameLocator) g_clear(w, t);
  if (locatorIndex < 0) locatorIndex = g_count(w, t);
  for (int i = 0; i < number; i++) g_setrole(w, iuid + i, t, locatorIndex + i);
}
void Db::duplicateColumnByUID(int iuid_in, int iuid_out) { g_touch(gw(this), iuid_out); }
int  Db::getSampleNumber(bool useSel) const { return 1; }
void Db::getExtensionInPlace(VectorDouble& mini, VectorDouble& maxi, bool flagPreserve, bool useSel) const {}

// names are handles: getNamesByLocator remembers which columns carried the role (side table),
// setLocators(names, ...) gives the role back to exactly those columns (names of pre-existing
// columns are never changed by a calculator, so name -> column is the identity on them).
#define G_MAXNAMES 4
static int g_names_id[2][G_MAXNAMES];
static int g_names_n[2];
VectorString Db::getNamesByLocator(const ELoc& locatorType) const
{
  int w = gw(this);
  int n = g_count(w, locatorType.getValue());
  vf_assume(n <= G_MAXNAMES);
  g_names_n[w] = n;
  for (int r = 0; r < G_MAXNAMES; r++) g_names_id[w][r] = (r < n) ? g_find(w, locatorType.getValue(), r) : -1;
  return VectorString(G_NDIM_NAMES);
}
void Db::setLocators(const VectorString& names, const ELoc& locatorType, int locatorIndex, bool cleanSameLocator)
{
  int w = gw(this);
  int t = locatorType.getValue();
  if (cleanSameLocator) g_clear(w, t);
  if (locatorIndex < 0) locatorIndex = g_count(w, t);
  for (int r = 0; r < G_MAXNAMES; r++)
    g_setrole(w, (r < g_names_n[w]) ? g_names_id[w][r] : -1, t, locatorIndex + r);
}

// ---- ghost data bases: raw storage + the vptr of a harness class whose virtuals answer from the ghost
class GhostDb: public Db
{
public:
  virtual bool isGrid() const override;
  virtual int getNDim() const override;
};
bool GhostDb::isGrid() const { return g_grid[gw(this)] != 0; }
int GhostDb::getNDim() const { return g_ndim[gw(this)]; }
extern "C" char vt_GhostDb[] asm("_ZTV7GhostDb");
