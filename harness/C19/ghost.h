// C19 ghost model of Db (shared by the C19 harnesses).
//
// The real Db member functions that the calculators call are DEFINED here (llvm-link -override /
// native link order make these definitions replace the library's).  They do not touch the Db
// object at all (the Db objects of the harness are raw storage with only a vptr); they keep, per
// data base w (0 = dbin, 1 = dbout), in harness globals:
//   g_live[w][id]     the set of live column identifiers (fresh identifiers are never reused),
//   g_loc/g_rank      the role table (locator type value, locator index) of every live column,
//   g_touched[w][id]  values or name of the column were written since the snapshot,
//   g_baddel[w]       a delete was requested for an identifier that is not live.
// Role semantics follow src/Db/Db.cpp + PtrGeos.cpp: setLocatorByUID first erases the column's
// own role (higher ranks of that type move down), then overwrites the slot (type, rank): the
// column that held it loses its role; deleteColumnByUID erases the role the same way.
// Names (String) and NamingConvention are opaque: no std::string code is executed for them.
// No vf_nondet_* is drawn in here (inputs are drawn up front by the harness, HARNESS_GUIDE).
#pragma once
#include "vf.h"
#include "Db/Db.hpp"
#include "Db/DbGrid.hpp"
#include "Db/DbHelper.hpp"
#include "Basic/NamingConvention.hpp"
#include "Basic/AException.hpp"
#include "Enum/ELoc.hpp"
#include <new>

#ifndef G_MAXID
#define G_MAXID 16
#endif
#ifndef G_NDIM_NAMES
#define G_NDIM_NAMES 1
#endif
#define G_NONE (-1)

static int  g_live[2][G_MAXID], p_live[2][G_MAXID];
static int  g_loc[2][G_MAXID], p_loc[2][G_MAXID];
static int  g_rank[2][G_MAXID], p_rank[2][G_MAXID];
static int  g_touched[2][G_MAXID];
static int  g_next[2];
static int  g_ndim[2];
static int  g_grid[2];
static int  g_baddel[2];
static Db*  g_db[2];

static int g_nullcall; // a Db member function was called through a null pointer (the real one would crash)
static int gw(const Db* d)
{
  if (d == nullptr) g_nullcall = 1; // kernels that can reach this are compiled with -fno-delete-null-pointer-checks
  return (d == g_db[0]) ? 0 : 1;
}

#ifdef VF_SOLVER
// libc piece reached through std::string(const char*) of the real my_throw(...) calls
extern "C" size_t strlen(const char* s) { size_t n = 0; while (s[n] != 0) n++; return n; }
#endif

// ---- static enum items: static constructors are not executed by the solver build, so the
// integer value of the items the kernels use is written by hand (natively: same values again).
// every field (and the padding) is written so that the items can be copied by the compiled code.
template<class E> static void g_enum(const E& e, int v)
{
  E& x = const_cast<E&>(e);
  x._value = v;
#ifdef VF_SOLVER
  x._key = std::string_view();
  *(int*)((char*)&x._value + 4) = 0;
  x._descr = std::string_view();
#endif
}
static void ghost_enums()
{
  g_enum(ELoc::UNKNOWN, -1);
  g_enum(ELoc::X, 0);
  g_enum(ELoc::Z, 1);
  g_enum(ELoc::V, 2);
  g_enum(ELoc::F, 3);
  g_enum(ELoc::SEL, 10);
  g_enum(ELoc::NOSTAT, 20);
  g_enum(ELoc::SIMU, 22);
}
// the item map is not constructed either: the two keys the kernels reach ("Z", "UNKNOWN" default arguments)
const ELoc& ELoc::fromKey(const std::string_view key) { return (key.size() == 1) ? ELoc::Z : ELoc::UNKNOWN; }

// ---- ghost primitives.  Written without data-dependent branches (values are loaded first, then
// combined with & | and conditional expressions over every identifier) so that the symbolic
// executor does not fork inside the model.
static inline bool G_AND(bool a, bool b) { return a ? b : false; }
static inline bool G_OR(bool a, bool b) { return a ? true : b; }
static inline bool G_AND3(bool a, bool b, bool c) { return a ? (b ? c : false) : false; }
static inline bool g_is(int w, int i, int t, int r)
{
  int l = g_live[w][i], lo = g_loc[w][i], rk = g_rank[w][i];
  return G_AND3(l == 1, lo == t, rk == r);
}
static bool g_valid(int w, int iuid)
{
  bool ok = false;
  for (int i = 0; i < G_MAXID; i++)
  {
    int l = g_live[w][i];
    ok = G_OR(ok, G_AND(i == iuid, l == 1));
  }
  return ok;
}
// the column holding (type, rank) loses its role; other ranks stay (PtrGeos::setLocatorByIndex overwrites)
static void g_unrole(int w, int type, int rank)
{
  for (int i = 0; i < G_MAXID; i++)
  {
    bool hit = g_is(w, i, type, rank);
    int lo = g_loc[w][i], rk = g_rank[w][i];
    g_loc[w][i] = hit ? G_NONE : lo;
    g_rank[w][i] = hit ? 0 : rk;
  }
}
// column iuid gives its role up and the higher ranks of that type move down (PtrGeos::erase)
static void g_erase(int w, int iuid)
{
  int t = G_NONE, r = 0;
  for (int i = 0; i < G_MAXID; i++)
  {
    bool me = (i == iuid);
    int lo = g_loc[w][i], rk = g_rank[w][i];
    t = me ? lo : t;
    r = me ? rk : r;
    g_loc[w][i] = me ? G_NONE : lo;
    g_rank[w][i] = me ? 0 : rk;
  }
  for (int i = 0; i < G_MAXID; i++)
  {
    int l = g_live[w][i], lo = g_loc[w][i], rk = g_rank[w][i];
    bool up = G_AND(G_AND(t >= 0, l == 1), G_AND(lo == t, rk > r));
    g_rank[w][i] = up ? rk - 1 : rk;
  }
}
static int g_count(int w, int type)
{
  int n = 0; // PtrGeos::getLocatorNumber: highest rank in use + 1
  for (int i = 0; i < G_MAXID; i++)
  {
    int l = g_live[w][i], lo = g_loc[w][i], rk = g_rank[w][i];
    bool in = G_AND(G_AND(type >= 0, l == 1), G_AND(lo == type, rk + 1 > n));
    n = in ? rk + 1 : n;
  }
  return n;
}
static int g_find(int w, int type, int rank)
{
  int r = -1;
  for (int i = 0; i < G_MAXID; i++) r = g_is(w, i, type, rank) ? i : r;
  return r;
}
// setLocatorByUID on a valid identifier
static void g_setrole(int w, int iuid, int type, int rank)
{
  bool ok = g_valid(w, iuid);
  int id = ok ? iuid : -1; // -1 matches no identifier: nothing happens
  int cnt = g_count(w, type);
  int rk = (rank < 0) ? cnt : rank;
  g_erase(w, id);
  g_unrole(w, G_AND(ok, type >= 0) ? type : -2, rk);
  for (int i = 0; i < G_MAXID; i++)
  {
    bool me = G_AND(i == id, type >= 0);
    int lo = g_loc[w][i], r0 = g_rank[w][i];
    g_loc[w][i] = me ? type : lo;
    g_rank[w][i] = me ? rk : r0;
  }
}
static void g_clear(int w, int type)
{
  for (int i = 0; i < G_MAXID; i++)
  {
    int l = g_live[w][i], lo = g_loc[w][i], rk = g_rank[w][i];
    bool hit = G_AND(l == 1, lo == type);
    g_loc[w][i] = hit ? G_NONE : lo;
    g_rank[w][i] = hit ? 0 : rk;
  }
}
// nadd and type are concrete in every kernel (nadd sizes the calculators' own vectors)
static int g_add(int w, int nadd, int type, int rank)
{
  if (nadd <= 0) return -1;
  vf_assume(g_next[w] + nadd <= G_MAXID); // bound of the identifier space (stated in the registry)
  int first = g_next[w];
  for (int i = 0; i < G_MAXID; i++)
  {
    bool in = G_AND(i >= first, i < first + nadd);
    int l = g_live[w][i], lo = g_loc[w][i], rk = g_rank[w][i], tc = g_touched[w][i];
    g_live[w][i] = in ? 1 : l;
    g_loc[w][i] = in ? G_NONE : lo;
    g_rank[w][i] = in ? 0 : rk;
    g_touched[w][i] = in ? 0 : tc;
  }
  g_next[w] = first + nadd;
  if (type >= 0)
  {
    int cnt = g_count(w, type);
    int rk = (rank < 0) ? cnt : rank;
    for (int k = 0; k < nadd; k++) g_setrole(w, first + k, type, rk + k);
  }
  return first;
}
static void g_del(int w, int iuid)
{
  bool ok = g_valid(w, iuid);
  int bd = g_baddel[w];
  g_baddel[w] = ok ? bd : 1;
  int id = ok ? iuid : -1;
  g_erase(w, id);
  for (int i = 0; i < G_MAXID; i++)
  {
    int l = g_live[w][i];
    g_live[w][i] = (i == id) ? 0 : l;
  }
}
static void g_touch(int w, int iuid)
{
  for (int i = 0; i < G_MAXID; i++)
  {
    int l = g_live[w][i], tc = g_touched[w][i];
    g_touched[w][i] = G_AND(i == iuid, l == 1) ? 1 : tc;
  }
}
static void ghost_snapshot()
{
  for (int w = 0; w < 2; w++)
  {
    g_baddel[w] = 0;
    g_nullcall = 0;
    for (int i = 0; i < G_MAXID; i++)
    {
      g_touched[w][i] = 0;
      p_live[w][i] = g_live[w][i];
      p_loc[w][i] = g_loc[w][i];
      p_rank[w][i] = g_rank[w][i];
    }
  }
}
// data base w compared with the snapshot: same live identifiers / same roles / contents untouched
static bool ghost_same_ids(int w)
{
  bool ok = (g_baddel[w] == 0);
  for (int i = 0; i < G_MAXID; i++)
  {
    int l = g_live[w][i], pl = p_live[w][i];
    ok = G_AND(ok, (l == 1) == (pl == 1));
  }
  return ok;
}
static bool ghost_same_roles(int w)
{
  bool ok = true;
  for (int i = 0; i < G_MAXID; i++)
  {
    int l = g_live[w][i], pl = p_live[w][i], lo = g_loc[w][i], plo = p_loc[w][i], rk = g_rank[w][i], prk = p_rank[w][i];
    bool bad = G_AND3(pl == 1, l == 1, G_OR(lo != plo, rk != prk));
    ok = bad ? false : ok;
  }
  return ok;
}
static bool ghost_untouched(int w)
{
  bool ok = true;
  for (int i = 0; i < G_MAXID; i++)
  {
    int l = g_live[w][i], pl = p_live[w][i], tc = g_touched[w][i];
    bool bad = G_AND3(pl == 1, l == 1, tc == 1);
    ok = bad ? false : ok;
  }
  return ok;
}

// ---- Db member functions replaced by the ghost (exact signatures of include/Db/Db.hpp)
int Db::addColumnsByConstant(int nadd, double valinit, const String& radix, const ELoc& locatorType,
                             int locatorIndex, int nechInit)
{
  return g_add(gw(this), nadd, locatorType.getValue(), locatorIndex);
}
void Db::deleteColumnByUID(int iuid_del) { g_del(gw(this), iuid_del); }
void Db::deleteColumnsByLocator(const ELoc& locatorType)
{
  int w = gw(this);
  int t = locatorType.getValue();
  if (t < 0) return;
  for (int i = 0; i < G_MAXID; i++)
  {
    int l = g_live[w][i], lo = g_loc[w][i], rk = g_rank[w][i];
    bool hit = G_AND(l == 1, lo == t);
    g_loc[w][i] = hit ? G_NONE : lo;
    g_rank[w][i] = hit ? 0 : rk;
    g_live[w][i] = hit ? 0 : l;
  }
}
int Db::getLocNumber(const ELoc& loctype) const { return g_count(gw(this), loctype.getValue()); }
int Db::getLocatorNumber(const ELoc& locatorType) const { return g_count(gw(this), locatorType.getValue()); }
int Db::getFromLocatorNumber(const ELoc& locatorType) const { return g_count(gw(this), locatorType.getValue()); }
int Db::getUIDByLocator(const ELoc& locatorType, int locatorIndex) const
{
  return g_find(gw(this), locatorType.getValue(), locatorIndex);
}
void Db::clearLocators(const ELoc& locatorType) { g_clear(gw(this), locatorType.getValue()); }
void Db::setLocatorByUID(int iuid, const ELoc& locatorType, int locatorIndex, bool cleanSameLocator)
{
  int w = gw(this);
  if (cleanSameLocator && g_valid(w, iuid)) g_clear(w, locatorType.getValue());
  g_setrole(w, iuid, locatorType.getValue(), locatorIndex);
}
void Db::setLocatorsByUID(int number, int iuid, const ELoc& locatorType, int locatorIndex, bool cleanSameLocator)
{
  int w = gw(this);
  int t = locatorType.getValue();
  if (cleanSameLocator) g_clear(w, t);
  if (locatorIndex < 0) locatorIndex = g_count(w, t);
  for (int i = 0; i < number; i++) g_setrole(w, iuid + i, t, locatorIndex + i);
}
void Db::duplicateColumnByUID(int iuid_in, int iuid_out) { g_touch(gw(this), iuid_out); }
int  Db::getSampleNumber(bool useSel) const { return 1; }
void Db::getExtensionInPlace(VectorDouble& mini, VectorDouble& maxi, bool flagPreserve, bool useSel) const {}

// names are handles: getNamesByLocator remembers which columns carried the role (side table),
// setLocators(names, ...) gives the role back to exactly those columns (names of pre-existing
// columns are never changed by a calculator, so name -> column is the identity on them).
#define G_MAXNAMES 4
static int g_names_id[2][G_MAXNAMES];
static int g_names_n[2];
VectorString Db::getNamesByLocator(const ELoc& locatorType) const
{
  int w = gw(this);
  int n = g_count(w, locatorType.getValue());
  vf_assume(n <= G_MAXNAMES);
  g_names_n[w] = n;
  for (int r = 0; r < G_MAXNAMES; r++)
  {
    int id = g_find(w, locatorType.getValue(), r);
    g_names_id[w][r] = (r < n) ? id : -1;
  }
  return VectorString(G_NDIM_NAMES);
}
void Db::setLocators(const VectorString& names, const ELoc& locatorType, int locatorIndex, bool cleanSameLocator)
{
  int w = gw(this);
  int t = locatorType.getValue();
  if (cleanSameLocator) g_clear(w, t);
  if (locatorIndex < 0) locatorIndex = g_count(w, t);
  for (int r = 0; r < G_MAXNAMES; r++)
  {
    int id = g_names_id[w][r];
    g_setrole(w, (r < g_names_n[w]) ? id : -1, t, locatorIndex + r);
  }
}

// ---- raw-storage objects: natively they get the vptr of their class from the library (keeps the
// sanitizer's vptr check quiet); the solver build never looks at it.
#ifdef VF_NATIVE
#define G_NATIVE_VPTR(obj, sym) do { extern char sym[]; *(void**)(obj) = (void*)(sym + 16); } while (0)
#else
#define G_NATIVE_VPTR(obj, sym) do { } while (0)
#endif

// ---- NamingConvention objects created by the real code (NamingConvention::create("Migrate") in
// ACalcDbToDb::_expandInformation): raw object with the real vptr, no string is built
NamingConvention::~NamingConvention() {}
AStringable::~AStringable() {}
extern "C" char vt_NamingConvention[] asm("_ZTV16NamingConvention");
NamingConvention* NamingConvention::create(const String& prefix, bool flag_varname, bool flag_qualifier,
                                           bool flag_locator, const ELoc& locatorOutType, const String& delim,
                                           bool cleanSameLocator)
{
  char* p = (char*)operator new(sizeof(NamingConvention));
  for (size_t i = 0; i < sizeof(NamingConvention) / 8; i++) ((long*)p)[i] = 0;
  *(void**)p = (void*)(vt_NamingConvention + 16);
  NamingConvention* nc = (NamingConvention*)p;
  new (&nc->_prefix) String();
  new (&nc->_delim) String();
  return nc;
}

// ---- ghost data bases: raw storage + the vptr of a harness class whose virtuals answer from the ghost
class GhostDb: public Db
{
public:
  virtual bool isGrid() const override;
  virtual int getNDim() const override;
};
bool GhostDb::isGrid() const { return g_grid[gw(this)] != 0; }
int GhostDb::getNDim() const { return g_ndim[gw(this)]; }
extern "C" char vt_GhostDb[] asm("_ZTV7GhostDb");
