// C19.a: CalcKriging under symbolic fault schedules.
//   real code: ACalculator::run, ACalcDbToDb::_check/_checkSpaceDimension/_checkVariableNumber/
//   _preprocess/_addVariableDb/_storeInVariableList/_cleanVariableDb/_renameVariable/
//   _expandInformation, ACalcInterpolator::_check/_preprocess/_centerDataToGrid,
//   CalcKriging::_check/_preprocess/_postprocess/_rollback.
//   stubbed: CalcKriging::_run (the numerical part): creates up to 1 + 2 further permanent
//   variables in dbout through the real _addVariableDb, then succeeds, returns false or throws.
//   Db = ghost (ghost.h).  Model / ANeigh = ghosts answering the consistency questions of _check.
// Configuration (registry defines): VF_NDIM, VF_NVAR space dimension / number of variables of dbin
//   (concrete: they size the calculators' vectors); VF_SINGLE 1: single-target mode
//   (_iechSingleTarget >= 0) allowed; VF_DGM 1: DGM option allowed; VF_GRIDOUT 1: dbout is a grid;
//   VF_FEX 1: the model may carry external drifts (information expanded from dbout to dbin).
#ifndef VF_NDIM
#define VF_NDIM 1
#endif
#ifndef VF_NVAR
#define VF_NVAR 1
#endif
#ifndef VF_SINGLE
#define VF_SINGLE 0
#endif
#ifndef VF_DGM
#define VF_DGM 0
#endif
#ifndef VF_FEX
#define VF_FEX 0
#endif
#ifndef VF_EXPAND
#define VF_EXPAND VF_FEX // 1: dbout may carry F / NOSTAT columns (information to expand into dbin)
#endif
#ifndef VF_XVALID
#define VF_XVALID 0 // 1: cross-validation: dbout is dbin itself (the only way the API sets _flagXvalid)
#endif
#ifndef VF_GRIDOUT
#define VF_GRIDOUT (VF_DGM || VF_FEX)
#endif
#ifndef VF_NEXTRA
#define VF_NEXTRA 2
#endif
#include "Estimation/CalcKriging.hpp"
#include "interp.h"

// ---- the numerical stage, stubbed
static int r_add1, r_add2, r_fail, r_throw;
bool CalcKriging::_run()
{
  if (r_add1 == 1 && _addVariableDb(2, 1, ELoc::UNKNOWN, 0, 1, 0.) < 0) return false;
  if (r_add2 == 1 && _addVariableDb(2, 1, ELoc::UNKNOWN, 0, 2, 0.) < 0) return false;
  if (r_fail == 1)
  {
    if (r_throw == 1) my_throw("run");
    return false;
  }
  return true;
}
extern "C" char vt_CalcKriging[] asm("_ZTV11CalcKriging");

extern "C" void k_kriging()
{
  ghost_setup();
  // ghost model / neighbourhood answers
  m_ndim = vf_range(VF_NDIM, VF_NDIM + 1);
  n_ndim = vf_range(VF_NDIM, VF_NDIM + 1);
  m_nvar = VF_NVAR > 0 ? VF_NVAR : 1;
  {
    int nf = vf_range(0, 2);
    m_nfex = VF_FEX ? nf : 0;
  }
  m_ncova = vf_range(0, 1);
  m_stat = vf_range(0, 1);
  m_anam = vf_range(0, 1);
  m_support = vf_range(0, 1);
  n_image = vf_range(0, 1);
  n_flagLocator = vf_range(0, 1);
  n_clean = vf_range(0, 1);
  x_fail[0] = vf_range(0, 1);
  x_fail[1] = vf_range(0, 1);
  x_call = 0;
  c_fail = vf_range(0, 1);
  r_add1 = vf_range(0, 1);
  r_add2 = vf_range(0, 1);
  r_fail = vf_range(0, 1);
  r_throw = vf_range(0, 1);

  alignas(16) static char cb[sizeof(CalcKriging)];
  CalcKriging* c = (CalcKriging*)cb;
  *(void**)cb = (void*)(vt_CalcKriging + 16);
  new (&c->_listVariablePermDbIn) VectorInt();
  new (&c->_listVariablePermDbOut) VectorInt();
  new (&c->_listVariableTempDbIn) VectorInt();
  new (&c->_listVariableTempDbOut) VectorInt();
  // capacity is not observable: reserving keeps the heap layout independent of the path taken
  c->_listVariablePermDbIn.reserve(16);
  c->_listVariablePermDbOut.reserve(16);
  c->_listVariableTempDbIn.reserve(16);
  c->_listVariableTempDbOut.reserve(16);
  new (&c->_nameCoord) VectorString();
  c->_mustShareSpaceDimension = true;
  c->_ndim = 0;
  c->_nvar = 0;
  c->_ncova = 0;
  c->_dbin = g_db[0];
  c->_dbout = g_db[1];
  const int WO = VF_XVALID ? 0 : 1; // ghost index of the output data base
  c->_model = (Model*)modelbuf;
  G_NATIVE_VPTR(modelbuf, _ZTV5Model);
  G_NATIVE_VPTR(covabuf, _ZTV13ACovAnisoList);
  G_NATIVE_VPTR(&c->_namconv, _ZTV16NamingConvention);
  *(void**)neighbuf = (void*)(vt_GhostNeigh + 16);
  c->_neigh = (ANeigh*)neighbuf;
  // options of the calculation
  bool fe = vf_nondet_bool(), fs = vf_nondet_bool(), fv = vf_nondet_bool(), single = vf_nondet_bool(), dgm = vf_nondet_bool();
  bool xv = vf_nondet_bool();
  int xe = vf_range(-1, 1), xs = vf_range(-1, 1), xz = vf_range(0, 1);
  c->_flagEst = VF_XVALID ? (xe != 0) : fe;
  c->_flagStd = VF_XVALID ? (xs != 0) : fs;
  c->_flagVarZ = VF_XVALID ? (xz != 0) : fv;
  c->_matLC = nullptr;
  c->_flagDGM = VF_DGM ? dgm : false;
  c->_iechSingleTarget = (VF_SINGLE && single) ? 0 : -1;
  c->_flagXvalid = VF_XVALID ? true : false;
  (void)xv;
  c->_flagXvalidEst = xe;
  c->_flagXvalidStd = xs;
  c->_flagXvalidVarZ = xz;
  c->_flagNeighOnly = false;
  c->_nbNeigh = 5;
  c->_iptrEst = c->_iptrStd = c->_iptrVarZ = c->_iptrNeigh = -1;
  c->_flagBayes = c->_flagProf = c->_flagPerCell = c->_flagGam = c->_flagKfold = c->_verboseSingleTarget = false;
  c->_anam = nullptr;

  ghost_snapshot();
  bool ok = c->run();

  vf_assert_id(c->_listVariableTempDbIn.empty() && c->_listVariableTempDbOut.empty(),
               "temporary bookkeeping lists are empty after run()");
  if (!ok)
  {
    vf_assert_id(c->_listVariablePermDbIn.empty() && c->_listVariablePermDbOut.empty(),
                 "failure: permanent bookkeeping lists are empty");
    vf_assert_id(ghost_same_ids(0), "failure: dbin has exactly the identifiers it had");
    vf_assert_id(ghost_same_roles(0), "failure: roles in dbin unchanged");
    vf_assert_id(ghost_untouched(0), "failure: contents of dbin untouched");
    vf_assert_id(ghost_same_ids(1), "failure: dbout has exactly the identifiers it had");
    vf_assert_id(ghost_same_roles(1), "failure: roles in dbout unchanged");
    vf_assert_id(ghost_untouched(1), "failure: contents of dbout untouched");
  }
  else
  {
    // documented outputs: VF_NVAR columns per requested result (estimation, st. dev., variance of the
    // estimator) in dbout (+ what the stubbed _run registered as permanent); single-target mode keeps nothing
    int expect = (c->_flagEst ? VF_NVAR : 0) + (c->_flagStd ? VF_NVAR : 0) + (c->_flagVarZ ? VF_NVAR : 0);
    if (c->_iechSingleTarget >= 0) expect = 0;
    expect += r_add1 + 2 * r_add2;
    if (!VF_XVALID)
    {
      vf_assert_id(ghost_same_ids(0), "success: dbin has exactly the identifiers it had");
      vf_assert_id(ghost_same_roles(0), "success: roles in dbin unchanged");
      vf_assert_id(ghost_untouched(0), "success: contents of dbin untouched");
    }
    vf_assert_id(all_old_alive(WO), "success: every previous column of dbout is still there");
    vf_assert_id(count_new(WO) == expect, "success: dbout gained exactly the documented output variables");
    vf_assert_id(ghost_untouched(WO), "success: contents of the previous columns of dbout untouched");
  }
  vf_witness();
}
