// C19: ghosts shared by the calculators built on ACalcInterpolator (CalcKriging, CalcSimuTurningBands):
// Model / neighbourhood answering the consistency questions of _check, the nested migration used by
// ACalcDbToDb::_expandInformation, DbHelper::centerPointToGrid (DGM centring), the opaque
// NamingConvention, the ghost output grid, and the arbitrary prior content of the two data bases.
// Parameters (macros): VF_NDIM, VF_NVAR, VF_NEXTRA, VF_GRIDOUT, VF_EXPAND, VF_XVALID, VF_NOUTMAX.
#pragma once
#ifndef VF_NOUTMAX
#define VF_NOUTMAX VF_NVAR // largest number of columns renamed by one _renameVariable call
#endif
#define G_NDIM_NAMES VF_NDIM
#include "ghost.h"
#include "Model/Model.hpp"
#include "Neigh/ANeigh.hpp"
#include "Covariances/ACovAnisoList.hpp"
#include "Calculators/CalcMigrate.hpp"
#include "Enum/ENeigh.hpp"
#include "Basic/VectorHelper.hpp"

// ---- opaque strings / messages
void throw_exp(const std::string& msg, const std::string& file, int line) { throw AException(std::string()); }

// ---- NamingConvention (opaque): names of the designated columns are written; the convention
// may give them its output locator (documented behaviour: the new results take the role over)
static int n_flagLocator, n_clean;
void NamingConvention::setNamesAndLocators(const Db* dbin, const VectorString& names, const ELoc& locatorInType,
                                           int nvar, Db* dbout, int iattout_start, const String& qualifier,
                                           int nitems, bool flagSetLocator, int locatorShift) const
{
  if (iattout_start < 0) return;
  int w = gw(dbout);
  int n = ((nvar < 0) ? 1 : nvar) * nitems;
  for (int i = 0; i < G_MAXID; i++)
  {
    int l = g_live[w][i], tc = g_touched[w][i];
    g_touched[w][i] = G_AND3(i >= iattout_start, i < iattout_start + n, l == 1) ? 1 : tc;
  }
  if (!flagSetLocator || n_flagLocator == 0) return;
  if (n_clean == 1 && locatorShift == 0) g_clear(w, 1);
  for (int e = 0; e < VF_NOUTMAX; e++) // nvar * nitems <= VF_NOUTMAX at every call site
    if (e < n) g_setrole(w, iattout_start + e, 1, e + locatorShift);
}

// ---- ghost data bases
class GhostGrid: public DbGrid
{
public:
  virtual bool isGrid() const override;
  virtual int getNDim() const override;
};
bool GhostGrid::isGrid() const { return true; }
int GhostGrid::getNDim() const { return g_ndim[gw(this)]; }
extern "C" char vt_GhostGrid[] asm("_ZTV9GhostGrid");
alignas(16) static char dbinbuf[sizeof(GhostDb)];
alignas(16) static char dboutbuf[sizeof(GhostGrid)];
#ifdef VF_SOLVER
// dynamic_cast<DbGrid*>(Db*) is the only cast the kernel reaches: the ghost grid is a DbGrid
extern "C" void* __dynamic_cast(const void* src, const void* srct, const void* dstt, long hint)
{
  return (VF_GRIDOUT && src == (const void*)dboutbuf) ? (void*)src : nullptr;
}
#endif

// ---- ghost Model / neighbourhood: answers are inputs drawn up front
static int m_ndim, m_nvar, m_nfex, m_ncova, m_stat, m_anam, m_support, n_ndim, n_image;
alignas(16) static char modelbuf[sizeof(Model)];
alignas(16) static char covabuf[64];
extern "C" int ghost_model_nvar(const Model* m) asm("_ZNK5Model17getVariableNumberEv");
extern "C" int ghost_model_nvar(const Model* m) { return m_nvar; }
unsigned int ASpaceObject::getNDim(int ispace) const
{
  return (this == (const ASpaceObject*)&((Model*)modelbuf)->_ctxt) ? m_ndim : n_ndim;
}
int Model::getExternalDriftNumber() const { return m_nfex; }
int Model::getCovaNumber(bool skipNugget) const { return m_ncova; }
bool Model::hasAnam() const { return m_anam == 1; }
bool Model::isChangeSupportDefined() const { return m_support == 1; }
void Model::setField(double field) {}
double VectorHelper::extensionDiagonal(const VectorDouble& mini, const VectorDouble& maxi) { return 1.; }
const ACovAnisoList* Model::getCovAnisoList() const { return (const ACovAnisoList*)covabuf; }
bool ACovAnisoList::isStationary() const { return m_stat == 1; }

class GhostNeigh: public ANeigh
{
public:
  virtual int attach(const Db* dbin, const Db* dbout) override;
  virtual void getNeigh(int iech_out, VectorInt& ranks) override;
  virtual int getMaxSampleNumber(const Db* db) const override;
  virtual ENeigh getType() const override;
};
int GhostNeigh::attach(const Db* dbin, const Db* dbout) { return 0; }
void GhostNeigh::getNeigh(int iech_out, VectorInt& ranks) {}
int GhostNeigh::getMaxSampleNumber(const Db* db) const { return 0; }
ENeigh GhostNeigh::getType() const
{
  alignas(8) char raw[sizeof(ENeigh)]; // built field by field (the enum items are not constructed in the solver build)
  ENeigh* e = (ENeigh*)raw;
  e->_key = std::string_view();
  e->_descr = std::string_view();
  e->_value = (n_image == 1) ? 4 : 2; // IMAGE : MOVING
  return *e;
}
extern "C" char vt_GhostNeigh[] asm("_ZTV10GhostNeigh");
alignas(16) static char neighbuf[sizeof(GhostNeigh)];

// ---- information expanded from the output grid to the input data base (ACalcDbToDb::_expandInformation
// calls migrateByLocator, a complete nested calculation): ghost = either fails and leaves its data
// bases alone (what C19 asks of it) or creates in its output (our dbin) one column per located
// column of its input, with the same locator.
static int x_fail[2], x_call;
int migrateByLocator(Db* dbin, Db* dbout, const ELoc& locatorType, int dist_type, const VectorDouble& dmax,
                     bool flag_fill, bool flag_inter, bool flag_ball, const NamingConvention& namconv)
{
  int k = (x_call < 1) ? x_call : 1;
  x_call++;
  if (x_fail[k] == 1) return 1;
  int wi = gw(dbin), wo = gw(dbout);
  int n = g_count(wi, locatorType.getValue());
  vf_assume(n <= 2);
  if (n >= 1) g_add(wo, 1, locatorType.getValue(), 0);
  if (n >= 2) g_add(wo, 1, locatorType.getValue(), 1);
  return 0;
}
// DGM: data are moved to the centre of their grid cell: coordinates of db_point are rewritten
static int c_fail;
int DbHelper::centerPointToGrid(Db* db_point, DbGrid* db_grid, double eps_random)
{
  int w = gw(db_point);
  for (int i = 0; i < G_MAXID; i++)
  {
    int l = g_live[w][i], lo = g_loc[w][i], tc = g_touched[w][i];
    g_touched[w][i] = G_AND(l == 1, lo == 0) ? 1 : tc;
  }
  return c_fail;
}

// arbitrary prior content. dbin: VF_NDIM coordinates, VF_NVAR variables (concrete: they size the
// calculator's vectors) + VF_NEXTRA columns, each alive or not, with no role or one of F, NOSTAT, V,
// SIMU; dbout: the same with its own choices.
static void ghost_setup()
{
  ghost_enums();
  g_enum(ENeigh::MOVING, 2);
  g_enum(ENeigh::IMAGE, 4);
  g_db[0] = (Db*)dbinbuf;
  g_db[1] = VF_XVALID ? (Db*)dbinbuf : (Db*)dboutbuf;
  *(void**)dbinbuf = (void*)(vt_GhostDb + 16);
  *(void**)dboutbuf = VF_GRIDOUT ? (void*)(vt_GhostGrid + 16) : (void*)(vt_GhostDb + 16);
  for (int w = 0; w < 2; w++)
  {
    for (int i = 0; i < G_MAXID; i++)
    {
      g_live[w][i] = 0;
      g_loc[w][i] = G_NONE;
      g_rank[w][i] = 0;
      g_touched[w][i] = 0;
    }
    int n = 0;
    for (int d = 0; d < VF_NDIM; d++, n++) { g_live[w][n] = 1; g_loc[w][n] = 0; g_rank[w][n] = d; }
    if (w == 0)
      for (int v = 0; v < VF_NVAR; v++, n++) { g_live[w][n] = 1; g_loc[w][n] = 1; g_rank[w][n] = v; }
    for (int e = 0; e < VF_NEXTRA; e++, n++)
    {
      bool live = vf_nondet_bool();
      int t = vf_range(0, 4);
      int r = vf_range(0, 1);
      g_live[w][n] = live ? 1 : 0;
      bool lr = G_AND(live, t > 0);
      int ty = (t == 1) ? 3 : (t == 2) ? 20 : (t == 3) ? 2 : 22; // F, NOSTAT, V, SIMU
      if (w == 1 && !VF_EXPAND) ty = (t <= 2) ? 2 : 22;         // dbout without information to expand: V, SIMU
#ifdef VF_NOSIMU
      if (VF_NOSIMU && ty == 22) ty = 2;                        // no column with the SIMU locator beforehand
#endif
      g_loc[w][n] = lr ? ty : G_NONE;
      g_rank[w][n] = lr ? r : 0;
      for (int j = n - e; j < n; j++)
        vf_assume(G_OR(g_loc[w][n] < 0, G_OR(g_loc[w][j] != g_loc[w][n], g_rank[w][j] != g_rank[w][n])));
    }
    for (int i = 0; i < n; i++)
    {
      int f0 = g_find(w, g_loc[w][i], 0);
      vf_assume(G_OR(g_loc[w][i] < 0, G_OR(g_rank[w][i] == 0, f0 >= 0)));
    }
    g_next[w] = n;
    g_ndim[w] = VF_NDIM;
    g_grid[w] = (w == 1 && VF_GRIDOUT) ? 1 : 0;
    g_baddel[w] = 0;
  }
}

static int count_new(int w)
{
  int n = 0;
  for (int i = 0; i < G_MAXID; i++)
  {
    int l = g_live[w][i], pl = p_live[w][i];
    n = G_AND(l == 1, pl != 1) ? n + 1 : n;
  }
  return n;
}
static bool all_old_alive(int w)
{
  bool ok = (g_baddel[w] == 0);
  for (int i = 0; i < G_MAXID; i++)
  {
    int l = g_live[w][i], pl = p_live[w][i];
    ok = G_AND(pl == 1, l != 1) ? false : ok;
  }
  return ok;
}

