// C19.b: ACalcSimulation + CalcSimuTurningBands under symbolic fault schedules.
//   real code: ACalculator::run, ACalcDbToDb::_check/_preprocess/_addVariableDb/_storeInVariableList/
//   _cleanVariableDb/_renameVariable/_expandInformation, ACalcInterpolator::_check/_preprocess/
//   _centerDataToGrid, ACalcSimulation::_check/_preprocess,
//   CalcSimuTurningBands::_check/_preprocess/_postprocess/_rollback.
//   stubbed: CalcSimuTurningBands::_run (the numerical part): creates up to 1 + 2 further permanent
//   variables in dbout through the real _addVariableDb, then succeeds, returns false or throws.
// Configuration (registry defines): VF_NDIM, VF_NVAR, VF_NBSIMU (concrete: they size vectors);
//   VF_COND 1: conditional simulation (dbin and neighbourhood given), 0: dbin == nullptr;
//   VF_DGM 1: DGM option allowed (dbout is then a grid); VF_EXPAND 1: dbout (a grid) may carry
//   F / NOSTAT columns to expand into dbin; VF_SIMUPRE 1: the data bases may already hold columns
//   with the SIMU locator (0: their extra columns carry V / none only).
#ifndef VF_NDIM
#define VF_NDIM 1
#endif
#ifndef VF_NVAR
#define VF_NVAR 1
#endif
#ifndef VF_NBSIMU
#define VF_NBSIMU 1
#endif
#ifndef VF_COND
#define VF_COND 1
#endif
#ifndef VF_DGM
#define VF_DGM 0
#endif
#ifndef VF_EXPAND
#define VF_EXPAND 0
#endif
#ifndef VF_SIMUPRE
#define VF_SIMUPRE 0
#endif
#define VF_FEX VF_EXPAND
#define VF_XVALID 0
#ifndef VF_GRIDOUT
#define VF_GRIDOUT (VF_DGM || VF_EXPAND)
#endif
#ifndef VF_NEXTRA
#define VF_NEXTRA 2
#endif
#define VF_NOUTMAX (VF_NVAR * VF_NBSIMU)
#define VF_NOSIMU (!VF_SIMUPRE)
#include "Simulation/CalcSimuTurningBands.hpp"
#include "interp.h"

// ---- the numerical stage, stubbed
static int r_add1, r_add2, r_fail, r_throw;
bool CalcSimuTurningBands::_run()
{
  if (r_add1 == 1 && _addVariableDb(2, 1, ELoc::UNKNOWN, 0, 1, 0.) < 0) return false;
  if (r_add2 == 1 && _addVariableDb(2, 1, ELoc::UNKNOWN, 0, 2, 0.) < 0) return false;
  if (r_fail == 1)
  {
    if (r_throw == 1) my_throw("run");
    return false;
  }
  return true;
}
extern "C" char vt_CalcTB[] asm("_ZTV20CalcSimuTurningBands");

extern "C" void k_simtub()
{
  ghost_setup();
  {
    int md = vf_range(VF_NDIM, VF_NDIM + 1);
    m_ndim = VF_COND ? md : VF_NDIM; // without dbin the model's dimension sizes the calculator's vectors: concrete
  }
  n_ndim = vf_range(VF_NDIM, VF_NDIM + 1);
  m_nvar = VF_NVAR;
  {
    int nf = vf_range(0, 2);
    m_nfex = VF_FEX ? nf : 0;
  }
  m_ncova = vf_range(0, 1);
  m_stat = vf_range(0, 1);
  m_anam = vf_range(0, 1);
  m_support = vf_range(0, 1);
  n_image = vf_range(0, 1);
  n_flagLocator = vf_range(0, 1);
  n_clean = vf_range(0, 1);
  x_fail[0] = vf_range(0, 1);
  x_fail[1] = vf_range(0, 1);
  x_call = 0;
  c_fail = vf_range(0, 1);
  r_add1 = vf_range(0, 1);
  r_add2 = vf_range(0, 1);
  r_fail = vf_range(0, 1);
  r_throw = vf_range(0, 1);

  alignas(16) static char cb[sizeof(CalcSimuTurningBands)];
  CalcSimuTurningBands* c = (CalcSimuTurningBands*)cb;
  *(void**)cb = (void*)(vt_CalcTB + 16);
  new (&c->_listVariablePermDbIn) VectorInt();
  new (&c->_listVariablePermDbOut) VectorInt();
  new (&c->_listVariableTempDbIn) VectorInt();
  new (&c->_listVariableTempDbOut) VectorInt();
  // capacity is not observable: reserving keeps the heap layout independent of the path taken
  c->_listVariablePermDbIn.reserve(16);
  c->_listVariablePermDbOut.reserve(16);
  c->_listVariableTempDbIn.reserve(16);
  c->_listVariableTempDbOut.reserve(16);
  new (&c->_nameCoord) VectorString();
  c->_mustShareSpaceDimension = true;
  c->_ndim = 0;
  c->_nvar = 0;
  c->_ncova = 0;
  c->_dbin = VF_COND ? g_db[0] : nullptr;
  c->_dbout = g_db[1];
  const int WO = 1;
  c->_model = (Model*)modelbuf;
  G_NATIVE_VPTR(modelbuf, _ZTV5Model);
  G_NATIVE_VPTR(covabuf, _ZTV13ACovAnisoList);
  G_NATIVE_VPTR(&c->_namconv, _ZTV16NamingConvention);
  *(void**)neighbuf = (void*)(vt_GhostNeigh + 16);
  c->_neigh = VF_COND ? (ANeigh*)neighbuf : nullptr;
  // options of the calculation
  int nbs = vf_range(0, 1), nbt = vf_range(0, 1);
  bool dgm = vf_nondet_bool(), done = vf_nondet_bool();
  c->_nbsimu = (nbs == 1) ? VF_NBSIMU : 0;
  c->_seed = 1;
  c->_nbtuba = (nbt == 1) ? 100 : 0;
  c->_iattOut = -1;
  c->_icase = 0;
  c->_flagCheck = c->_flagBayes = c->_flagPGS = c->_flagGibbs = false;
  c->_flagDGM = VF_DGM ? dgm : false;
  c->_flagAllocationAlreadyDone = done;

  ghost_snapshot();
  bool ok = c->run();

  vf_assert_id(g_nullcall == 0, "no member function of a data base is called through a null pointer");

  if (g_nullcall != 0)
  {
    vf_witness(); // the real Db would have crashed there: nothing else is meaningful on this path
    return;
  }
  vf_assert_id(c->_listVariableTempDbIn.empty() && c->_listVariableTempDbOut.empty(),
               "temporary bookkeeping lists are empty after run()");
  if (!ok)
  {
    vf_assert_id(c->_listVariablePermDbIn.empty() && c->_listVariablePermDbOut.empty(),
                 "failure: permanent bookkeeping lists are empty");
    vf_assert_id(ghost_same_ids(0), "failure: dbin has exactly the identifiers it had");
    vf_assert_id(ghost_same_roles(0), "failure: roles in dbin unchanged");
    vf_assert_id(ghost_untouched(0), "failure: contents of dbin untouched");
    vf_assert_id(ghost_same_ids(1), "failure: dbout has exactly the identifiers it had");
    vf_assert_id(ghost_same_roles(1), "failure: roles in dbout unchanged");
    vf_assert_id(ghost_untouched(1), "failure: contents of dbout untouched");
  }
  else
  {
    // documented outputs: VF_NVAR * nbsimu columns in dbout (none when the caller allocated them
    // itself) + what the stubbed _run registered as permanent
    int expect = done ? 0 : VF_NVAR * VF_NBSIMU;
    expect += r_add1 + 2 * r_add2;
    vf_assert_id(ghost_same_ids(0), "success: dbin has exactly the identifiers it had");
    vf_assert_id(ghost_same_roles(0), "success: roles in dbin unchanged");
    vf_assert_id(ghost_untouched(0), "success: contents of dbin untouched");
    vf_assert_id(all_old_alive(WO), "success: every previous column of dbout is still there");
    vf_assert_id(count_new(WO) == expect, "success: dbout gained exactly the documented output variables");
    vf_assert_id(ghost_untouched(WO), "success: contents of the previous columns of dbout untouched");
  }
  vf_witness();
}
