// C19.e: CalcAnamTransform (on ACalcDbVarCreator) under symbolic fault schedules.
//   real code: ACalculator::run, ACalcDbVarCreator::_renameVariable/_cleanVariableDb,
//   CalcAnamTransform::_check/_hasAnam/_hasVariableNumber/_preprocess/_postprocess/_rollback,
//   for the two transformations "variables <-> gaussian" (_flagVars) and "variable -> factors"
//   (_flagToFactors).  stubbed: CalcAnamTransform::_run (the numerical part) succeeds, returns false
//   or throws; the anamorphosis is a ghost (type / number of factors are inputs).
#ifndef VF_NFACT
#define VF_NFACT 2
#endif
#include "Anamorphosis/CalcAnamTransform.hpp"
#include "Anamorphosis/AnamContinuous.hpp"
#include "Enum/EAnam.hpp"
#define VF_NOUTMAX ((VF_NVAR) > (VF_NFACT) ? (VF_NVAR) : (VF_NFACT))
#include "simple.h"

static int a_nfactor, a_cont;
class GhostAnam: public AnamContinuous
{
public:
  virtual const EAnam& getType() const override;
  virtual bool isChangeSupportDefined() const override;
  virtual int getNFactor() const override;
};
const EAnam& GhostAnam::getType() const { return EAnam::HERMITIAN; }
bool GhostAnam::isChangeSupportDefined() const { return false; }
int GhostAnam::getNFactor() const { return a_nfactor; }
extern "C" char vt_GhostAnam[] asm("_ZTV9GhostAnam");
// a discrete (non continuous) anamorphosis for the refusal path of _check
class GhostAnamD: public AAnam
{
public:
  virtual const EAnam& getType() const override;
  virtual bool isChangeSupportDefined() const override;
  virtual int getNFactor() const override;
};
const EAnam& GhostAnamD::getType() const { return EAnam::DISCRETE_DD; }
bool GhostAnamD::isChangeSupportDefined() const { return false; }
int GhostAnamD::getNFactor() const { return a_nfactor; }
extern "C" char vt_GhostAnamD[] asm("_ZTV10GhostAnamD");
alignas(16) static char anambuf[sizeof(GhostAnam)];
const EAnam& EAnam::fromKey(const std::string_view key) { return EAnam::UNKNOWN; } // only default argument "UNKNOWN" is reached
#ifdef VF_SOLVER
// dynamic_cast<AnamContinuous*>(AAnam*) is the only cast the kernel reaches
extern "C" void* __dynamic_cast(const void* src, const void* srct, const void* dstt, long hint)
{
  return (VF_CONT && src == (const void*)anambuf) ? (void*)src : nullptr;
}
#endif

bool CalcAnamTransform::_run()
{
  if (r_fail == 1)
  {
    if (r_throw == 1) my_throw("run");
    return false;
  }
  return true;
}
extern "C" char vt_CalcAnam[] asm("_ZTV17CalcAnamTransform");

extern "C" void k_anam()
{
  ghost_setup();
  pick_run();
  g_enum(EAnam::UNKNOWN, 0);
  g_enum(EAnam::HERMITIAN, 2);
  g_enum(EAnam::DISCRETE_DD, 4);
  a_nfactor = vf_range(0, 3);
  *(void**)anambuf = VF_CONT ? (void*)(vt_GhostAnam + 16) : (void*)(vt_GhostAnamD + 16);

  alignas(16) static char cb[sizeof(CalcAnamTransform)];
  CalcAnamTransform* c = (CalcAnamTransform*)cb;
  *(void**)cb = (void*)(vt_CalcAnam + 16);
  new (&c->_listVariablePermDb) VectorInt();
  new (&c->_listVariableTempDb) VectorInt();
  c->_listVariablePermDb.reserve(16);
  c->_listVariableTempDb.reserve(16);
  G_NATIVE_VPTR(&c->_namconv, _ZTV16NamingConvention);
  c->_db = g_db[0];
  new (&c->_ifacs) VectorInt();
  new (&c->_iptrEst) VectorInt();
  new (&c->_iptrStd) VectorInt();
  c->_iattVar = c->_iattFac = c->_iattSel = -1;
  bool vars = vf_nondet_bool(), hasAnam = vf_nondet_bool();
  int f1 = vf_range(0, 3), f2 = vf_range(0, 3);
  c->_flagVars = vars;
  c->_flagToFactors = !vars;
  c->_flagDisjKrig = c->_flagCondExp = c->_flagUniCond = false;
  c->_flagZToY = true;
  c->_flagNormalScore = false;
  c->_ifacs.push_back(f1);
#if VF_NFACT > 1
  c->_ifacs.push_back(f2);
#endif
  c->_nbsimu = 0;
  c->_flagOK = false;
  c->_anam = hasAnam ? (AAnam*)anambuf : nullptr;
  c->_selectivity = nullptr;

  ghost_snapshot();
  bool ok = c->run();

  vf_assert_id(c->_listVariableTempDb.empty(), "temporary bookkeeping list is empty after run()");
  if (!ok)
  {
    vf_assert_id(c->_listVariablePermDb.empty(), "failure: permanent bookkeeping list is empty");
    vf_assert_id(ghost_same_ids(0), "failure: db has exactly the identifiers it had");
    vf_assert_id(ghost_same_roles(0), "failure: roles in db unchanged");
    vf_assert_id(ghost_untouched(0), "failure: contents of db untouched");
  }
  else
  {
    // documented outputs: one column per variable (gaussian transform) / one column per requested factor
    int expect = vars ? VF_NVAR : VF_NFACT;
    vf_assert_id(all_old_alive(0), "success: every previous column of db is still there");
    vf_assert_id(count_new(0) == expect, "success: db gained exactly the documented output variables");
    vf_assert_id(ghost_untouched(0), "success: contents of the previous columns of db untouched");
  }
  vf_witness();
}
