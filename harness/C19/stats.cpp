// C19.d: CalcStatistics under symbolic fault schedules.
//   real code: ACalculator::run, ACalcDbToDb::_check/_preprocess/_addVariableDb/_storeInVariableList/
//   _cleanVariableDb/_renameVariable, CalcStatistics::_check/_preprocess/_postprocess/_rollback.
//   stubbed: CalcStatistics::_run (the numerical part).
#include "Calculators/CalcStatistics.hpp"
#include "simple.h"

bool CalcStatistics::_run() { VF_RUN_STUB_DBTODB }
extern "C" char vt_CalcStatistics[] asm("_ZTV14CalcStatistics");

extern "C" void k_statistics()
{
  ghost_setup();
  pick_run();
  alignas(16) static char cb[sizeof(CalcStatistics)];
  CalcStatistics* c = (CalcStatistics*)cb;
  *(void**)cb = (void*)(vt_CalcStatistics + 16);
  init_dbtodb(c);
  c->_mustShareSpaceDimension = true;
  c->_iattOut = -1;
  new (&c->_nameResp) String();
  new (&c->_nameAux) VectorString();
  bool st = vf_nondet_bool(), rg = vf_nondet_bool(), mg = vf_nondet_bool(), cst = vf_nondet_bool();
  c->_flagStats = st;
  c->_flagRegr = rg;
  c->_dboutMustBeGrid = mg;
  c->_flagCst = cst;
  c->_radius = 0;
  c->_regrMode = 0;
  c->_model = nullptr;

  ghost_snapshot();
  bool ok = c->run();

  vf_assert_id(c->_listVariableTempDbIn.empty() && c->_listVariableTempDbOut.empty(),
               "temporary bookkeeping lists are empty after run()");
  if (!ok)
  {
    vf_assert_id(c->_listVariablePermDbIn.empty() && c->_listVariablePermDbOut.empty(),
                 "failure: permanent bookkeeping lists are empty");
    check_failure_both();
  }
  else
  {
    // documented outputs: statistics: one column of dbout per variable; regression: one column of dbin
    int expOut = (st ? VF_NVAR : 0) + r_add1 + 2 * r_add2;
    int expIn = rg ? 1 : 0;
    vf_assert_id(all_old_alive(0), "success: every previous column of dbin is still there");
    vf_assert_id(count_new(0) == expIn, "success: dbin gained exactly the documented output variables");
    vf_assert_id(ghost_untouched(0), "success: contents of the previous columns of dbin untouched");
    if (!rg) vf_assert_id(ghost_same_roles(0), "success: roles in dbin unchanged");
    vf_assert_id(all_old_alive(1), "success: every previous column of dbout is still there");
    vf_assert_id(count_new(1) == expOut, "success: dbout gained exactly the documented output variables");
    vf_assert_id(ghost_untouched(1), "success: contents of the previous columns of dbout untouched");
  }
  vf_witness();
}
