// C02.c: CovNugget::_evaluateCov (src/Covariances/CovNugget.cpp): 1 at zero distance, 0 as soon as |h| >= 1e-10
// (h a free real: the nugget effect is counted at zero distance only, identically for every use of the structure)
#include "vf.h"
#include "Covariances/CovNugget.hpp"
static double C(double h)
{
  alignas(16) static char buf[sizeof(CovNugget)];
  CovNugget* c = (CovNugget*)buf;          // _evaluateCov does not read *this
  return c->CovNugget::_evaluateCov(h);    // qualified: the real function, no virtual dispatch
}
extern "C" void k_nugget()
{
  double h = vf_nondet_double();
  double c = C(h);
  vf_assert_id(C(0.) == 1., "nugget is 1 at h == 0");
#ifdef VF_MUT // self-test only (never defined by the registry): a deliberately wrong oracle must be refuted
  if (h >= 1.e-11 || h <= -1.e-11) vf_assert_id(c == 0., "nugget is 0 for |h| >= 1e-10");
#else
  if (h >= 1.e-10 || h <= -1.e-10) vf_assert_id(c == 0., "nugget is 0 for |h| >= 1e-10");
#endif
  vf_witness();
}
