// C02.b / C02.d: structural facts of the kriging read-out (src/Estimation/KrigingSystem.cpp)
//   k_stdv_nonneg : _estimateStdv stores a standard deviation that is never negative, whatever the a-priori
//                   variance var0 and the solved weights are (documented clip of a negative variance to 0);
//                   an unsolved system stores the undefined value TEST
//   k_affine      : _estimateEstim is affine in the (dual) data vector with the same right-hand side:
//                   est(a.z1 + b.z2) - m = a.(est(z1) - m) + b.(est(z2) - m)
// Same raw KrigingSystem set-up as the C01 kernels; the matrix products are the real (Eigen) ones.
#ifndef VF_NRED
#define VF_NRED 2
#endif
#define VF_NECH VF_NRED
#include "../C01/ks_common.h"

static double rhs[VF_NRED][VF_NVAR];

static void build(bool with_wgt)
{
  vf_ks_base();
  KrigingSystem* ks = KS;
  ks->_nred = VF_NRED;
  new (&ks->_rhsc) MatrixRectangular(VF_NRED, VF_NVAR);
  new (&ks->_zam) MatrixRectangular(VF_NRED, 1);
  new (&ks->_wgt) MatrixRectangular(VF_NRED, VF_NVAR);
  new (&ks->_var0) MatrixSquareGeneral(VF_NVAR);
  new (&ks->_results) MatrixRectangular(VF_NVAR, VF_NVAR);
  ks->_rhs = &ks->_rhsc;
  ks->_iptrEst = 0;
  ks->_iptrStd = VF_NVAR;
  ks->_iptrVarZ = 2 * VF_NVAR;
  for (int k = 0; k < VF_NRED; k++)
    for (int iv = 0; iv < VF_NVAR; iv++)
    {
      rhs[k][iv] = vf_nondet_double();
      ks->_rhsc.setValue(k, iv, rhs[k][iv], false);
      if (with_wgt) ks->_wgt.setValue(k, iv, vf_nondet_double(), false);
    }
  for (int iv = 0; iv < VF_NVAR; iv++) T_mean[iv] = vf_nondet_double();
}

extern "C" void k_stdv_nonneg()
{
  build(true);
  KrigingSystem* ks = KS;
  for (int iv = 0; iv < VF_NVAR; iv++)
    for (int jv = 0; jv < VF_NVAR; jv++) ks->_var0.setValue(iv, jv, vf_nondet_double(), false);
  int status = vf_range(0, 1);
  ks->_estimateStdv(status);
  for (int iv = 0; iv < VF_NVAR; iv++)
  {
    double s = T_out[VF_NVAR + iv];
    vf_assert_id(T_outn[VF_NVAR + iv] == 1, "one standard deviation stored per variable");
#ifdef VF_MUT // self-test only (never defined by the registry): a deliberately wrong oracle must be refuted
    if (status == 0) vf_assert_id(s > 0., "stored standard deviation is never negative");
#else
    if (status == 0) vf_assert_id(s >= 0., "stored standard deviation is never negative");
#endif
    else vf_assert_id(s == TEST, "unsolved system: standard deviation is the undefined value");
  }
  vf_assert_id(T_bad == 0, "callbacks reached with the expected arguments only");
  vf_witness();
}

extern "C" void k_affine()
{
  build(false);
  KrigingSystem* ks = KS;
  double z1[VF_NRED], z2[VF_NRED];
  for (int k = 0; k < VF_NRED; k++) { z1[k] = vf_nondet_double(); z2[k] = vf_nondet_double(); }
  double a = vf_nondet_double(), b = vf_nondet_double();
  double e1[VF_NVAR], e2[VF_NVAR], e3[VF_NVAR];
  for (int k = 0; k < VF_NRED; k++) ks->_zam.setValue(k, 0, z1[k], false);
  ks->_estimateEstim(0);
  for (int iv = 0; iv < VF_NVAR; iv++) e1[iv] = T_out[iv];
  for (int k = 0; k < VF_NRED; k++) ks->_zam.setValue(k, 0, z2[k], false);
  ks->_estimateEstim(0);
  for (int iv = 0; iv < VF_NVAR; iv++) e2[iv] = T_out[iv];
  for (int k = 0; k < VF_NRED; k++) ks->_zam.setValue(k, 0, a * z1[k] + b * z2[k], false);
  ks->_estimateEstim(0);
  for (int iv = 0; iv < VF_NVAR; iv++) e3[iv] = T_out[iv];
  for (int iv = 0; iv < VF_NVAR; iv++)
  {
    double m = (VF_NFEQ > 0) ? 0. : T_mean[iv]; // known mean (no drift equation) or zero
#ifdef VF_MUT
    vf_assert_id(e3[iv] == a * (e1[iv] - m) + b * (e2[iv] - m), "estimate is affine in the data vector (same weights)");
#else
    vf_assert_id(e3[iv] - m == a * (e1[iv] - m) + b * (e2[iv] - m), "estimate is affine in the data vector (same weights)");
#endif
    vf_assert_id(T_outn[iv] == 3, "one estimate stored per call and variable");
  }
  vf_assert_id(T_bad == 0, "callbacks reached with the expected arguments only");
  vf_witness();
}
