// C02.e: translation invariance of what kriging / neighbourhood code computes from a pair of points:
//   SpacePoint::getIncrement, SpacePoint::getDistance (ASpaceObject / ASpace / SpaceRN::_getIncrement,
//   _getDistance) and BiTargetCheckDistance::isOK (its own coordinate differences, anisotropy
//   coefficients, matrix_product_safe, sqrt).
// Both points are translated by the same vector t with the library's own SpacePoint::move
// (ASpace::move / SpaceRN::_move); the results computed on the TRANSLATED points are compared with a
// reference written on the ORIGINAL coordinates (differences only):
//   increment[d]        == x2[d] - x1[d]
//   distance            == sqrt(sum_d (x2[d]-x1[d])^2)   (sqrt: the non-negative root)
//   isOK(T1,T2)        <=> radius >= 0 and sum_d ((x1[d]-x2[d])/c[d])^2 <= radius^2
// Inputs are integers (grid), so every +,-,* of the library is exact in IEEE double as well.
#include "vf.h"
#include "Geometry/BiTargetCheckDistance.hpp"
#include "Space/SpaceRN.hpp"
#include "Space/SpaceTarget.hpp"
#include "Space/SpacePoint.hpp"
#include "Space/ASpaceObject.hpp"
#include "Basic/Utilities.hpp"
#include <new>
#include <math.h>

#ifndef VF_ND
#define VF_ND 2
#endif
#define GRID (1 << 20)

// ---- overrides (same as C12.d): space objects keep the pointer they are given instead of a clone
// (the clone goes through an ICloneable -> ASpace cross cast, i.e. RTTI) and never delete it
ASpaceObject::ASpaceObject(const ASpace* space) : AStringable(), _space(space) {}
ASpaceObject::~ASpaceObject() {}

static double g_x1[VF_ND], g_x2[VF_ND], g_t[VF_ND];

static void draw(int m)
{
  for (int d = 0; d < VF_ND; d++)
  {
    g_x1[d] = vf_grid_double(m);
    g_x2[d] = vf_grid_double(m);
    g_t[d]  = vf_grid_double(m);
  }
}

// the two points, translated by t with the library's move()
static void build(SpaceTarget& T1, SpaceTarget& T2)
{
  VectorDouble t(VF_ND);
  for (int d = 0; d < VF_ND; d++)
  {
    T1.setCoord(d, g_x1[d]);
    T2.setCoord(d, g_x2[d]);
    t[d] = g_t[d];
  }
  T1.move(t);
  T2.move(t);
}

extern "C" void k_increment()
{
  draw(GRID);
  SpaceRN sp(VF_ND);
  SpaceTarget T1(&sp, false, false, false);
  SpaceTarget T2(&sp, false, false, false);
  build(T1, T2);
  for (int d = 0; d < VF_ND; d++)
  {
    vf_assert_id(T1.getCoord(d) == g_x1[d] + g_t[d], "move adds the vector to the first point");
    vf_assert_id(T2.getCoord(d) == g_x2[d] + g_t[d], "move adds the vector to the second point");
  }

  VectorDouble inc = T1.getIncrement(T2); // REAL
  vf_assert_id((int)inc.size() == VF_ND, "increment has one component per space dimension");
  if ((int)inc.size() == VF_ND)
    for (int d = 0; d < VF_ND; d++)
      vf_assert_id(inc[d] == g_x2[d] - g_x1[d], "increment of the translated pair equals the coordinate difference of the original pair");

  double dist = T1.getDistance(T2); // REAL
  double D2 = 0.;
  for (int d = 0; d < VF_ND; d++) D2 += (g_x2[d] - g_x1[d]) * (g_x2[d] - g_x1[d]);
  vf_assert_id(dist == sqrt(D2), "distance of the translated pair is the Euclidean distance of the original pair");
  double dback = T2.getDistance(T1); // REAL
  vf_assert_id(dback == dist, "distance is symmetric in the two points");
  vf_witness();
}

// magnitudes of this entry: |x|, |t|, |radius| <= 2^15, so that |x1 - x2| <= 2^17 and every quantity of
// the library ((dx/c)^2 = multiple of 2^-6 below 2^34, their sum) and of the reference (below 2^52) is a
// dyadic number of fewer than 53 significant bits: exact in IEEE double
#define GRID2 (1 << 15)
extern "C" void k_check_distance()
{
  draw(GRID2);
  // neighbourhood radius: any integer (negative: nothing accepted)
  double radius = vf_grid_double(GRID2);
  // anisotropy coefficients (ratio of the ranges): powers of two, so that the library's division is exact
  double c[VF_ND];
  for (int d = 0; d < VF_ND; d++)
  {
    bool b0 = vf_nondet_bool(), b1 = vf_nondet_bool();
    vf_split(b0); // solver hint only: one case per coefficient vector (the cases are then quadratic in the coordinates only)
    vf_split(b1);
    c[d] = b1 ? (b0 ? 8. : 4.) : (b0 ? 2. : 1.);
  }

  SpaceRN sp(VF_ND);
  SpaceTarget T1(&sp, false, false, false);
  SpaceTarget T2(&sp, false, false, false);
  build(T1, T2);

  VectorDouble coeffs(VF_ND);
  for (int d = 0; d < VF_ND; d++)
  {
    coeffs[d] = c[d];
  }
  BiTargetCheckDistance chk(radius, coeffs, VectorDouble()); // really constructed
  vf_assert_id(chk.getNDim() == VF_ND, "checker works in the space dimension of its coefficients");

  bool got = chk.isOK(T1, T2); // REAL

  // reference on the original coordinates; (dx/c)^2 <= r^2 cleared of denominators:
  // sum_d dx_d^2 * prod_{e != d} c_e^2 <= r^2 * prod_e c_e^2
  double P = 1.;
  for (int d = 0; d < VF_ND; d++) P *= c[d] * c[d];
  double S = 0.;
  for (int d = 0; d < VF_ND; d++)
  {
    double dx = g_x1[d] - g_x2[d];
    double q = 1.;
    for (int e = 0; e < VF_ND; e++)
      if (e != d) q *= c[e] * c[e];
    S += dx * dx * q;
  }
  bool expected = radius >= 0. && S <= radius * radius * P;
  vf_assert_id(got == expected, "pair of translated points accepted iff the anisotropic distance of the original pair is within the radius");
  vf_witness();
}
