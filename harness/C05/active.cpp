// C05.a / C05.b: the usability filters of Db (src/Db/Db.cpp)
//   k_ranks_active : Db::getRanksActive(nbgh, item, useSel, useVerr)
//   k_is_active    : Db::isActive, Db::isActiveAndDefined, Db::getActiveSampleNumber, Db::getSampleNumber(true),
//                    Db::getActiveAndDefinedNumber
// against the documented definition, for every selection pattern and every pattern of undefined values:
//   a sample is masked  when a selection exists and its selection value is 0 (or undefined: Db::getSelection);
//   a value is undefined when FFFF(value), i.e. value > 1e30 (TEST = 1.234e30) in the NaN-free reading.
// Db layout: VF_NECH samples, 5 columns: 0 = selection, 1..2 = variables, 3..4 = measurement-error variances;
// the identifier table is a fixed non-trivial one-to-one table with one deleted identifier.
// Shape (one symbolic configuration input): selection present or not, (number of variables, item) in
// {(0,ignored), (1,0), (2,1), (2,-1)}, 0 or 2 variance columns, candidate list {none = all samples, [2,0], [1,1,last]}.
#define VF_NCOL 5
#define VF_NUID 6
#ifndef VF_NECH
#define VF_NECH 4
#endif
#include "../C07/dbstate.h"
#include "Basic/VectorNumT.hpp"
#ifndef VF_SELUNDEF
#define VF_SELUNDEF 0 // 1: the selection value itself may be undefined (TEST)
#endif

// ---- stub: the result vector of getRanksActive has a data-dependent length, which the executor cannot
// allocate; VectorT<int>::push_back appends to this fixed array instead (same stub in the native build)
#define VF_MAXOUT (VF_NECH + 1)
static int g_rk[VF_MAXOUT + 1];
static int g_nrk;
static inline int inc(int n) // n + 1 for 0 <= n <= VF_MAXOUT without arithmetic on symbolic values
{
  int r = VF_MAXOUT + 1;
  for (int i = VF_MAXOUT; i >= 0; i--) r = (n == i) ? i + 1 : r;
  return r;
}
template<> void VectorT<int>::push_back(const int& value)
{
  for (int i = 0; i <= VF_MAXOUT; i++) g_rk[i] = (i == g_nrk) ? value : g_rk[i];
  g_nrk = inc(g_nrk);
}

static const int COL2UID[VF_NCOL] = {2, 4, 5, 0, 3};
// shapes: selection present, (number of variables, item), number of variance columns, candidate list
struct Cfg { int hassel, nz, item, nv, cl; };
constexpr int NZI = 4;
constexpr int ZI[NZI][2] = {{0, 0}, {1, 0}, {2, 1}, {2, -1}}; // (0, item 0): without variables the item is ignored
constexpr int NCL = 3;                                        // candidate lists: none (= all samples), two, three with a repetition
constexpr int CLN[NCL] = {0, 2, 3};
constexpr int CL[NCL][3] = {{0, 0, 0}, {2, 0, 0}, {1, 1, VF_NECH - 1}};
constexpr int NCFGA = 2 * NZI;          // k_is_active
constexpr int NCFG  = NCFGA * 2 * NCL;  // k_ranks_active
constexpr Cfg cfg_get(int i)
{
  Cfg c{};
  c.hassel = i % 2; i /= 2;
  c.nz = ZI[i % NZI][0]; c.item = ZI[i % NZI][1]; i /= NZI;
  c.nv = (i % 2) * 2; i /= 2;
  c.cl = i % NCL;
  return c;
}

static Db* g_db;
static double g_val[VF_NCOL][VF_NECH]; // column-wise copies of the cell values (reference side)

static bool g_usesel, g_useverr;
static bool r_count, r_list, r_active, r_actdef, r_nactive, r_nsel, r_nactdef;

static inline bool undefined(double v) { return v > 1e30; }
static inline bool sel_on(double s) { return !undefined(s) && s != 0.; } // documented rule (Db::getSelection)

static void build_lists(Db* db, const Cfg& c)
{
  if (c.hassel) { db->_p[10]._r.resize(1, 0); db->_p[10]._r[0] = COL2UID[0]; } // ELoc::SEL
  if (c.nz > 0) db->_p[1]._r.resize(c.nz, 0);                                    // ELoc::Z
  for (int i = 0; i < c.nz; i++) db->_p[1]._r[i] = COL2UID[1 + i];
  if (c.nv > 0) db->_p[2]._r.resize(c.nv, 0);                                    // ELoc::V
  for (int i = 0; i < c.nv; i++) db->_p[2]._r[i] = COL2UID[3 + i];
}

// ---------------------------------------------------------------- getRanksActive
__attribute__((noinline)) static void step_ranks(const Cfg& c)
{
  Db* db = g_db;
  build_lists(db, c);
  vf_out_int(c.hassel); vf_out_int(c.nz); vf_out_int(c.item); vf_out_int(c.nv); vf_out_int(c.cl);
  const int m = CLN[c.cl];
  VectorInt nbgh(m);
  for (int j = 0; j < m; j++) nbgh[j] = CL[c.cl][j];
  g_nrk = 0;

  (void)db->getRanksActive(nbgh, c.item, g_usesel, g_useverr); // REAL code; result captured by the push_back stub

  // ---- reference: in-order list of the usable candidates
  const int item = c.nz == 0 ? -1 : c.item; // "if no variable is defined" the item is not looked at
  int exp[VF_MAXOUT + 1];
  int nexp = 0;
  const int ncand = m == 0 ? VF_NECH : m;
  for (int i = 0; i <= VF_MAXOUT; i++) exp[i] = -1;
  for (int j = 0; j < ncand; j++)
  {
    const int ie = m == 0 ? j : CL[c.cl][j];
    double s = g_val[0][ie];
    double z = g_val[item == 1 ? 2 : 1][ie];
    double v = g_val[item == 1 ? 4 : 3][ie];
    bool keep = true;
    if (c.hassel) keep = g_usesel ? sel_on(s) : true;
    if (item >= 0) keep = keep && !undefined(z);
    if (item >= 0 && item < c.nv) keep = keep && (g_useverr ? (!undefined(v) && v >= 0.) : true);
    for (int i = 0; i <= VF_MAXOUT; i++) exp[i] = (keep && i == nexp) ? ie : exp[i];
    nexp = keep ? inc(nexp) : nexp;
  }
  r_count = g_nrk == nexp;
  r_list  = true;
  for (int i = 0; i < VF_MAXOUT; i++) r_list = (i >= nexp || g_rk[i] == exp[i]) ? r_list : false;
}

// ---------------------------------------------------------------- isActive & co
__attribute__((noinline)) static void step_active(const Cfg& c)
{
  Db* db = g_db;
  build_lists(db, c);
  vf_out_int(c.hassel); vf_out_int(c.nz); vf_out_int(c.item);
  const int item = c.item < 0 ? 0 : c.item; // rank of an existing variable (0 when there is none)

  int nact = db->getActiveSampleNumber();
  int nsel = db->getSampleNumber(true);
  int nad  = db->getActiveAndDefinedNumber(item);

  int eact = 0, ead = 0;
  r_active = r_actdef = true;
  for (int k = 0; k < VF_NECH; k++)
  {
    bool act  = db->isActive(k);
    bool actd = db->isActiveAndDefined(k, item);
    double s = g_val[0][k];
    double z = g_val[item == 1 ? 2 : 1][k];
    bool on  = !c.hassel || sel_on(s);
    bool ond = on && c.nz > 0 && !undefined(z); // no variable: nothing is defined
    eact = on ? inc(eact) : eact;
    ead  = ond ? inc(ead) : ead;
    r_active = (act == on) ? r_active : false;
    r_actdef = (actd == ond) ? r_actdef : false;
  }
  r_nactive = nact == eact;
  r_nsel    = nsel == eact;
  r_nactdef = nad == ead;
}

template<int I> struct LeafR
{
  static constexpr Cfg c = cfg_get(I);
  __attribute__((noinline)) static void run() { step_ranks(c); }
};
template<int I> struct LeafA
{
  static constexpr Cfg c = cfg_get(I);
  __attribute__((noinline)) static void run() { step_active(c); }
};

static void draw_state()
{
  vf_eloc_init();
  g_db = vf_db_raw(VF_NCOL, VF_NUID, VF_NECH);
  for (int u = 0; u < VF_NUID; u++) g_db->_uidcol[u] = -1;
  for (int k = 0; k < VF_NCOL; k++) g_db->_uidcol[COL2UID[k]] = k;
  g_db->_p[10]._r.reserve(2);
  // cell values: every pattern of undefined values, every selection pattern
  for (int k = 0; k < VF_NCOL; k++)
    for (int ie = 0; ie < VF_NECH; ie++)
    {
      double g   = vf_grid_double(9);
      bool undef = vf_nondet_bool();
      double x;
      if (k == 0) x = (VF_SELUNDEF && undef) ? TEST : (g > 0 ? 1. : 0.); // selection: 0 / 1 (/ undefined)
      else x = undef ? TEST : g;                                         // variables, variances (may be negative)
      g_val[k][ie] = x;
      g_db->_array[ie + VF_NECH * k] = x;
    }
  g_usesel  = vf_nondet_bool();
  g_useverr = vf_nondet_bool();
}

extern "C" void k_ranks_active()
{
  draw_state();
  int cfg = vf_range(0, NCFG - 1);
  VfDispatch<LeafR, 0, NCFG - 1>::go(cfg);
  vf_assert_id(r_count, "number of ranks returned == number of usable candidates");
  vf_assert_id(r_list, "ranks returned == in-order list of the candidates that are selected, defined (and have a valid variance when requested)");
  vf_witness();
}

extern "C" void k_is_active()
{
  draw_state();
  int cfg = vf_range(0, NCFGA - 1);
  VfDispatch<LeafA, 0, NCFGA - 1>::go(cfg);
  vf_assert_id(r_active, "isActive(iech) == not masked by the selection");
  vf_assert_id(r_actdef, "isActiveAndDefined(iech,item) == active and variable defined");
  vf_assert_id(r_nactive, "getActiveSampleNumber() == number of active samples");
  vf_assert_id(r_nsel, "getSampleNumber(true) == number of active samples");
  vf_assert_id(r_nactdef, "getActiveAndDefinedNumber(item) == number of active samples with the variable defined");
  vf_witness();
}
