// C07.d: designation agreement of the multi-assignment front ends of Db::setLocatorByUID
//   Db::setLocatorByColIdx(icol,..), Db::setLocatorsByUID(number,iuid,..), Db::setLocatorsByUID(VectorInt,..),
//   Db::setLocatorsByColIdx(VectorInt,..)          (src/Db/Db.cpp)
// "the column that receives role (t, k+i) is the one the caller designated".
// Modular step: Db::setLocatorByUID itself is decided by C07.a; here it is replaced by a recorder and the
// assertions are about the (identifier, type, rank) triples the front ends hand to it, together with the
// effect of cleanSameLocator and of the automatic rank on the tables.
#include "dbstate.h"
#ifndef VF_N
#define VF_N 2 // number of columns designated in one call
#endif
#define VF_T1 1 // concrete target role type of the configurations with a known type

// ---- recorder (stub of Db::setLocatorByUID)
struct Call { int iuid, t, k; bool clean; };
static Call g_call[VF_N + 2];
static int g_ncall;
void Db::setLocatorByUID(int iuid, const ELoc& locatorType, int locatorIndex, bool cleanSameLocator)
{
  if (g_ncall < VF_N + 1)
  {
    g_call[g_ncall].iuid  = iuid;
    g_call[g_ncall].t     = locatorType.getValue();
    g_call[g_ncall].k     = locatorIndex;
    g_call[g_ncall].clean = cleanSameLocator;
  }
  g_ncall++;
}

// configuration: target type (UNKNOWN / VF_T1), length of the target list, cleanSameLocator
struct Cfg { int t, lt; bool clean; };
constexpr int NCFG = 1 + 2 * (VF_NCOL + 1);
constexpr Cfg cfg_get(int i)
{
  if (i == 0) return Cfg{-1, 0, false}; // UNKNOWN: without cleanSameLocator (that class is C07.a.uclean's)
  i--;
  return Cfg{VF_T1, i / 2, (i % 2) != 0};
}

static Db* g_db;
static VfTab g_pre;
static int g_which, g_k, g_col[VF_N], g_uid[VF_N], g_uid0;
static bool r_frame, r_ncall, r_type, r_rank, r_column, r_noclean, r_lists;

__attribute__((noinline)) static void step(const Cfg& c)
{
  Db* db = g_db;
  int l[VF_NT] = {0, 0, 0};
  l[VF_T1] = c.lt;
  l[0]     = VF_NCOL - c.lt; // the other live identifiers hold roles of type 0
  vf_db_lists(db, l);
  static VfTab post, ref;
  vf_tab_lists(g_pre, l);
  ref = g_pre;
  g_ncall = 0;
  VfLoc loc(c.t);
  vf_out_int(c.t); vf_out_int(c.lt); vf_out_int(c.clean);

  // ---- REAL code: one of the four front ends
  int n = VF_N;
  if (g_which == 0)
  {
    n = 1;
    db->setLocatorByColIdx(g_col[0], loc.get(), g_k, c.clean);
  }
  else if (g_which == 1)
    db->setLocatorsByUID(VF_N, g_uid0, loc.get(), g_k, c.clean);
  else if (g_which == 2)
  {
    VectorInt v(VF_N);
    for (int i = 0; i < VF_N; i++) v[i] = g_uid[i];
    db->setLocatorsByUID(v, loc.get(), g_k, c.clean);
  }
  else
  {
    VectorInt v(VF_N);
    for (int i = 0; i < VF_N; i++) v[i] = g_col[i];
    db->setLocatorsByColIdx(v, loc.get(), g_k, c.clean);
  }

  (void)vf_snapshot(db, post);
  r_frame = vf_same_uid_and_values(g_pre, post);
  // the front end itself only cleans the target list (the recorder changes nothing)
  if (c.clean && c.t >= 0 && g_which != 0) ref.len[c.t] = 0;
  r_lists = vf_same_lists(post, ref);

  // ---- reference: first rank, then one triple per designated column
  int k0 = g_k;
  if (g_which != 0 && g_k < 0) k0 = (c.t < 0 || c.clean) ? 0 : c.lt; // "next rank of the same type"
  bool colvalid0 = g_col[0] >= 0 && g_col[0] < VF_NCOL;
  int want = (g_which == 0 && !colvalid0) ? 0 : n;
  r_ncall = g_ncall == want;
  r_type = r_rank = r_column = r_noclean = true;
  for (int i = 0; i < want && i < g_ncall; i++)
  {
    r_type = (g_call[i].t == c.t) ? r_type : false;
    r_rank = (g_call[i].k == (g_which == 0 ? g_k : k0 + i)) ? r_rank : false;
    r_noclean = (g_call[i].clean == (g_which == 0 ? c.clean : false)) ? r_noclean : false;
    int iu = g_call[i].iuid;
    bool uvalid = iu >= 0 && iu < VF_NUID;
    if (g_which == 1) r_column = (iu == g_uid0 + i) ? r_column : false;
    else if (g_which == 2) r_column = (iu == g_uid[i]) ? r_column : false;
    else
    {
      // designated by column: the identifier handed over must be the one of that column
      // (a column index out of range designates nothing: the identifier must then be invalid)
      int cd = g_col[i];
      bool cvalid = cd >= 0 && cd < VF_NCOL;
      int colof = -1;
      for (int u = 0; u < VF_NUID; u++) colof = (iu == u) ? g_pre.uidcol[u] : colof;
      bool ok = cvalid ? (uvalid && colof == cd) : !uvalid;
      r_column = ok ? r_column : false;
    }
  }
}

template<int I> struct Leaf
{
  static constexpr Cfg c = cfg_get(I);
  __attribute__((noinline)) static void run() { step(c); }
};

extern "C" void k_set_many()
{
  vf_eloc_init();
  g_db    = vf_db_tables();
  g_which = vf_range(0, 3);
  g_k     = vf_range(-2, VF_NCOL + 2);
  for (int i = 0; i < VF_N; i++) g_col[i] = vf_range(-1, VF_NCOL);
  for (int i = 0; i < VF_N; i++) g_uid[i] = vf_range(-1, VF_NUID);
  g_uid0 = vf_range(-2, VF_NUID);
#ifdef VF_EXCL_COLIDX_COUNTER // known-finding signature: setLocatorsByColIdx looks up the loop counter instead of icols[i]
  for (int i = 0; i < VF_N; i++) vf_assume(g_which != 3 || g_col[i] == i);
#endif
  vf_assume(vf_snapshot(g_db, g_pre));
  int cfg = vf_range(0, NCFG - 1);
  VfDispatch<Leaf, 0, NCFG - 1>::go(cfg);

  vf_assert_id(r_frame, "identifier table, dimensions and values untouched");
  vf_assert_id(r_lists, "only cleanSameLocator empties the target list, nothing else changes before the single assignments");
  vf_assert_id(r_ncall, "one assignment per designated column");
  vf_assert_id(r_type, "assignments carry the requested role type");
  vf_assert_id(r_rank, "the i-th designated column is assigned rank k+i (k<0: next free rank)");
  vf_assert_id(r_column, "role (t,k+i) goes to the column the caller designated");
  vf_assert_id(r_noclean, "single assignments do not clean again");
  vf_witness();
}
