// C07.b: one inductive step of Db::deleteColumnByUID (src/Db/Db.cpp): identifier table shift, value
// compaction, role removal, name removal, from pre-states satisfying I (dbstate.h).
// The identifier bookkeeping of this function is index arithmetic driven by the identifier values, so the
// pre-states are enumerated: a configuration is (one-to-one identifier table, identifier argument, role-list
// shape); the configuration number is a symbolic input and the cell values are symbolic.
//   tables  every one-to-one map of the VF_NCOL columns into the VF_NUID identifiers
//   argument -1, every identifier 0..VF_NUID-1 (live or deleted), VF_NUID (too large)
//   shapes  role lists given by column numbers (the identifiers follow from the table), see g_shape
#include "dbstate.h"

#define NSHAPE 4
struct Shape { int len[VF_NT]; int col[VF_NT][4]; };
static_assert(VF_NCOL >= 3 && VF_NCOL <= 4, "shapes are written for 3 or 4 columns");
constexpr Shape g_shape[NSHAPE] = {
  {{0, 0, 0}, {}},                                       // no roles
  {{VF_NCOL, 0, 0}, {{0, 1, 2, 3}}},                     // all columns in type 0, in column order
  {{2, VF_NCOL - 2, 0}, {{VF_NCOL - 1, 0}, {1, 2}}},     // type 0 = [last, first], type 1 = the rest
  {{0, 1, VF_NCOL - 2}, {{}, {0}, {VF_NCOL - 1, 1}}},    // type 1 = [first], type 2 = [last (, second)], one column free when VF_NCOL == 3
};
constexpr int fact(int n) { return n <= 1 ? 1 : n * fact(n - 1); }
constexpr int NTAB = fact(VF_NUID) / fact(VF_NUID - VF_NCOL);
constexpr int NARG = VF_NUID + 2;
constexpr int NCFG = NTAB * NARG * NSHAPE;
struct Cfg { int uoc[VF_NCOL]; int iuid; int shape; };
constexpr Cfg cfg_get(int i)
{
  Cfg c{};
  c.shape = i % NSHAPE; i /= NSHAPE;
  c.iuid  = i % NARG - 1; i /= NARG;
  // Lehmer decode of the table
  bool used[VF_NUID] = {};
  for (int k = 0; k < VF_NCOL; k++)
  {
    int r = i % (VF_NUID - k); i /= (VF_NUID - k);
    for (int u = 0; u < VF_NUID; u++)
    {
      if (used[u]) continue;
      if (r == 0) { c.uoc[k] = u; used[u] = true; break; }
      r--;
    }
  }
  return c;
}

static Db* g_db;
static VfTab g_pre;
static bool r_fits, r_dims, r_uid, r_inv, r_values, r_names, r_roles, r_live, r_distinct, r_noop;

__attribute__((noinline)) static void step(const Cfg& c)
{
  Db* db = g_db;
  const Shape& sh = g_shape[c.shape];
  VfTab& pre = g_pre;
  for (int u = 0; u < VF_NUID; u++)
  {
    int col = -1;
    for (int k = 0; k < VF_NCOL; k++) if (c.uoc[k] == u) col = k;
    db->_uidcol[u] = col;
    pre.uidcol[u]  = col;
  }
  for (int t = 0; t < VF_NELOC; t++) pre.len[t] = 0;
  for (int t = 0; t < VF_NT; t++)
  {
    pre.len[t] = sh.len[t];
    if (sh.len[t] > 0) db->_p[t]._r.resize(sh.len[t], 0);
    for (int i = 0; i < sh.len[t]; i++)
    {
      db->_p[t]._r[i] = c.uoc[sh.col[t][i]];
      pre.lst[t][i]   = c.uoc[sh.col[t][i]];
    }
  }
  static VfTab post, ref;
  ref = pre;
  int prenames[VF_NCOL + 1];
  for (int i = 0; i < VF_NCOL; i++) { g_names[i] = 100 + i; prenames[i] = 100 + i; }
  g_nnames = VF_NCOL;
  const int iuid = c.iuid;
  for (int k = 0; k < VF_NCOL; k++) vf_out_int(c.uoc[k]);
  vf_out_int(iuid); vf_out_int(c.shape);

  db->deleteColumnByUID(iuid); // REAL code

  r_fits = vf_snapshot(db, post);
  r_dims = r_uid = r_values = r_names = r_roles = r_noop = true;
  r_inv      = vf_uidcol_bijective(post);
  r_live     = vf_lists_live(post);
  r_distinct = vf_lists_distinct(post);
  const bool live = iuid >= 0 && iuid < VF_NUID && pre.uidcol[iuid] >= 0;
  if (!live)
  {
    r_noop = vf_same_uid_and_values(pre, post) && vf_same_lists(pre, post) && g_nnames == VF_NCOL;
    for (int i = 0; i < VF_NCOL; i++) r_noop = (g_names[i] == prenames[i]) ? r_noop : false;
    return;
  }
  // ---- reference
  const int cdel = pre.uidcol[iuid];
  r_dims = post.ncol == VF_NCOL - 1 && post.nech == VF_NECH && post.nuid == VF_NUID &&
           post.narr == (VF_NCOL - 1) * VF_NECH && g_nnames == VF_NCOL - 1;
  if (!r_dims) return;
  // identifiers: the deleted one maps to -1, columns behind it move up by one
  for (int u = 0; u < VF_NUID; u++)
  {
    int pc  = pre.uidcol[u];
    int exp = (u == iuid) ? -1 : (pc > cdel ? pc - 1 : pc);
    r_uid   = (post.uidcol[u] == exp) ? r_uid : false;
  }
  // every surviving column still holds the same values and the same name
  for (int cn = 0; cn < VF_NCOL - 1; cn++)
  {
    int co = cn < cdel ? cn : cn + 1;
    for (int ie = 0; ie < VF_NECH; ie++)
      r_values = (post.arr[ie + VF_NECH * cn] == pre.arr[ie + VF_NECH * co]) ? r_values : false;
    r_names = (g_names[cn] == prenames[co]) ? r_names : false;
  }
  // roles: the identifier disappears from its list, ranks behind it move up, nothing else changes
  for (int t = 0; t < VF_NT; t++)
  {
    int n = 0;
    for (int i = 0; i < pre.len[t]; i++)
      if (pre.lst[t][i] != iuid) ref.lst[t][n++] = pre.lst[t][i];
    ref.len[t] = n;
  }
  r_roles = vf_same_lists(post, ref);
}

template<int I> struct Leaf
{
  static constexpr Cfg c = cfg_get(I);
  __attribute__((noinline)) static void run() { step(c); }
};

extern "C" void k_delete_column()
{
  vf_eloc_init();
  g_db = vf_db_raw(VF_NCOL, VF_NUID, VF_NECH);
  for (int i = 0; i < VF_NCOL * VF_NECH; i++) g_db->_array[i] = vf_finite_double();
  vf_assume(vf_snapshot(g_db, g_pre));
  int cfg = vf_range(0, NCFG - 1);
  VfDispatch<Leaf, 0, NCFG - 1>::go(cfg);

  vf_assert_id(r_fits, "tables stay within the modelled sizes");
  vf_assert_id(r_noop, "invalid or deleted identifier: nothing changes");
  vf_assert_id(r_dims, "one column less, same number of samples, value array and name table sized accordingly");
  vf_assert_id(r_uid, "identifier table: deleted identifier -> -1, columns behind it shift by one");
  vf_assert_id(r_inv, "identifier table stays one-to-one onto the remaining columns");
  vf_assert_id(r_values, "every remaining column keeps its values");
  vf_assert_id(r_names, "every remaining column keeps its name");
  vf_assert_id(r_roles, "roles: the deleted column disappears from its list, every other designation unchanged");
  vf_assert_id(r_live, "every role designates a live column");
  vf_assert_id(r_distinct, "no column has two roles");
  vf_witness();
}
