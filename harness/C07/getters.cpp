// C07.e: on every state satisfying I (dbstate.h) the four designations of a column agree:
//   Db::getColIdxByUID, Db::getUIDByColIdx, Db::getColIdxByLocator, Db::getLocatorByColIdx / getLocatorByUID
// (src/Db/Db.cpp) against the tables themselves, for arbitrary (also invalid) arguments.
// Read-only kernel: only the list lengths form the shape, identifiers and positions are symbolic.
#include "dbstate.h"

struct Cfg { int l[VF_NT]; bool valid; };
constexpr Cfg cfg_get(int want)
{
  int n = 0;
  Cfg c{};
  for (int l0 = 0; l0 <= VF_NCOL; l0++)
    for (int l1 = 0; l0 + l1 <= VF_NCOL; l1++)
      for (int l2 = 0; l0 + l1 + l2 <= VF_NCOL; l2++)
      {
        c.l[0] = l0; c.l[1] = l1; c.l[2] = l2;
        if (n == want) { c.valid = true; return c; }
        n++;
      }
  c.valid = false;
  c.l[0] = n;
  return c;
}
constexpr int NCFG = cfg_get(-1).l[0];

// output role type of the getters: zero-initialised static storage, only _value is set / read
alignas(16) static char g_outbuf[sizeof(ELoc)];
static ELoc* out_reset() { ((ELoc*)g_outbuf)->_value = -7; return (ELoc*)g_outbuf; }
static int out_value() { return ((const ELoc*)g_outbuf)->_value; }

static Db* g_db;
static VfTab g_pre;
static int g_u, g_c;
static bool r_frame, r_col_of_uid, r_uid_of_col, r_inverse, r_col_of_role, r_role_of_col, r_role_of_uid, r_roundtrip;

__attribute__((noinline)) static void step(const Cfg& c)
{
  Db* db = g_db;
  vf_db_lists(db, c.l);
  VfTab& pre = g_pre;
  vf_tab_lists(pre, c.l);
  static VfTab post;
  const int u = g_u, col = g_c;
  const bool uvalid = u >= 0 && u < VF_NUID, cvalid = col >= 0 && col < VF_NCOL;
  vf_out_int(c.l[0]); vf_out_int(c.l[1]); vf_out_int(c.l[2]);

  // ---- identifier <-> column
  int uc = -1; // reference: table entry of u
  for (int v = 0; v < VF_NUID; v++) uc = (v == u) ? pre.uidcol[v] : uc;
  int got = db->getColIdxByUID(u);
  r_col_of_uid = got == (uvalid ? uc : -1);
  int cu = -1; // reference: the identifier whose table entry is col
  for (int k = 0; k < VF_NCOL; k++) cu = (k == col) ? g_uoc[k] : cu;
  int gotu = db->getUIDByColIdx(col);
  r_uid_of_col = gotu == (cvalid ? cu : -1);
  r_inverse = true;
  if (cvalid) r_inverse = db->getColIdxByUID(gotu) == col;

  // ---- (type, rank) -> column, for every rank 0..count (count itself is already out of range)
  r_col_of_role = r_roundtrip = true;
  for (int t = 0; t <= VF_NT; t++)
  {
    int len = t < VF_NT ? c.l[t] : 0;
    VfLoc loc(t);
    for (int k = 0; k <= len; k++)
    {
      int gc = db->getColIdxByLocator(loc.get(), k);
      int exp = -1;
      if (k < len)
        for (int v = 0; v < VF_NUID; v++) exp = (v == pre.lst[t][k]) ? pre.uidcol[v] : exp;
      r_col_of_role = (gc == exp) ? r_col_of_role : false;
      if (k < len)
      {
        // and back: the column found holds exactly this role
        int idx = -7;
        bool has = db->getLocatorByColIdx(gc, out_reset(), &idx);
        r_roundtrip = (has && out_value() == t && idx == k) ? r_roundtrip : false;
      }
    }
  }

  // ---- column -> (type, rank)
  int et = -1, ek = -1; // reference: position of the identifier of col in the lists
  for (int t = 0; t < VF_NT; t++)
    for (int k = 0; k < c.l[t]; k++)
    {
      bool hit = cvalid && pre.lst[t][k] == cu;
      et = hit ? t : et;
      ek = hit ? k : ek;
    }
  {
    int idx = -7;
    bool has = db->getLocatorByColIdx(col, out_reset(), &idx);
    r_role_of_col = has == (et >= 0) && out_value() == et && idx == ek;
  }
  // ---- identifier -> (type, rank)
  int ut = -1, uk = -1;
  for (int t = 0; t < VF_NT; t++)
    for (int k = 0; k < c.l[t]; k++)
    {
      bool hit = uvalid && pre.lst[t][k] == u;
      ut = hit ? t : ut;
      uk = hit ? k : uk;
    }
  {
    int idx = -7;
    bool has = db->getLocatorByUID(u, out_reset(), &idx);
    // an invalid identifier leaves the outputs untouched (documented return value false only)
    r_role_of_uid = has == (ut >= 0) && (!uvalid || (out_value() == ut && idx == uk));
  }

  (void)vf_snapshot(db, post);
  r_frame = vf_same_uid_and_values(pre, post) && vf_same_lists(pre, post);
}

template<int I> struct Leaf
{
  static constexpr Cfg c = cfg_get(I);
  static_assert(c.valid, "configuration index out of range");
  __attribute__((noinline)) static void run() { step(c); }
};

extern "C" void k_getters()
{
  vf_eloc_init();
  g_db = vf_db_tables();
  g_u  = vf_range(-2, VF_NUID + 1);
  g_c  = vf_range(-2, VF_NCOL + 1);
  vf_assume(vf_snapshot(g_db, g_pre));
  int cfg = vf_range(0, NCFG - 1);
  VfDispatch<Leaf, 0, NCFG - 1>::go(cfg);

  vf_assert_id(r_frame, "getters do not change the tables");
  vf_assert_id(r_col_of_uid, "getColIdxByUID(u) is the table entry of u (-1 when u is out of range)");
  vf_assert_id(r_uid_of_col, "getUIDByColIdx(c) is the identifier mapped to c (-1 when c is out of range)");
  vf_assert_id(r_inverse, "getColIdxByUID(getUIDByColIdx(c)) == c");
  vf_assert_id(r_col_of_role, "getColIdxByLocator(t,k) is the column of the k-th identifier of type t (-1 beyond the count)");
  vf_assert_id(r_roundtrip, "getLocatorByColIdx(getColIdxByLocator(t,k)) == (t,k)");
  vf_assert_id(r_role_of_col, "getLocatorByColIdx(c) is the role of column c (false/UNKNOWN/-1 when it has none)");
  vf_assert_id(r_role_of_uid, "getLocatorByUID(u) is the role of the column of u");
  vf_witness();
}
