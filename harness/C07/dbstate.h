// Shared by the C07 / C05 harnesses: a Db in raw storage (its constructor is never run) whose
// numeric tables are built directly:  _ncol, _nech, _array, _uidcol, _p[0..VF_NELOC-1].
// _colNames is never constructed; the two VectorString members that deleteColumnByUID touches
// are overridden below by an integer model of the name table (g_names).
#pragma once
#include "vf.h"
#include "Db/Db.hpp"
#include "Db/PtrGeos.hpp"
#include "Enum/ELoc.hpp"
#include <new>
#include <stdlib.h>

#ifndef VF_NCOL
#define VF_NCOL 3 // live columns
#endif
#ifndef VF_NUID
#define VF_NUID 5 // size of the identifier table (live + deleted identifiers)
#endif
#ifndef VF_NECH
#define VF_NECH 2 // samples
#endif
#define VF_NELOC 29 // number of role types (ELoc without UNKNOWN)
#define VF_NT 3     // role types 0..VF_NT-1 may be non-empty in the pre-state, all others are empty

// ---- stubs (listed in the registry key `stubs`)
// ELoc's value->object map is filled by static constructors, which kernels do not execute.
int Db::getNEloc() { return VF_NELOC; }
// error printing of checkArg (AStringable.cpp: formats through a va_list)
#include "Basic/AStringable.hpp"
void mesArg(const char* title, int current, int nmax) { (void)title; (void)current; (void)nmax; }

// integer model of the name table: g_names[icol] is the "name" of column icol
static int g_names[VF_NCOL + 1];
static int g_nnames;
alignas(16) static char g_namebuf[(VF_NCOL + 2) * sizeof(String)];
template<> VectorT<String>::iterator VectorT<String>::begin() { return iterator((String*)g_namebuf); }
template<> VectorT<String>::iterator VectorT<String>::erase(const_iterator pos)
{
  int i = (int)(&*pos - (const String*)g_namebuf); // may be symbolic: shift branch-free
  for (int j = 0; j + 1 < g_nnames; j++) g_names[j] = (j >= i) ? g_names[j + 1] : g_names[j];
  g_nnames--;
  return iterator((String*)g_namebuf + i);
}
// ELoc::fromValue looks the object up in the static std::map (empty without static constructors):
// table of role-type objects owned by the harness, entry v+1 has value v
alignas(16) static char g_elocbuf[(VF_NELOC + 1) * sizeof(ELoc)];
const ELoc& ELoc::fromValue(int value)
{
  int i = (value >= 0 && value < VF_NELOC) ? value + 1 : 0;
  return *((const ELoc*)g_elocbuf + i);
}

// ---- role-type objects.  The library's static ELoc objects are zero in the solver build (no static
// constructors): give the ones the kernels read their documented values.
static void vf_eloc_init()
{
  for (int v = -1; v < VF_NELOC; v++) ((ELoc*)g_elocbuf + (v + 1))->_value = v;
#ifdef VF_SOLVER
  const_cast<ELoc&>(ELoc::UNKNOWN)._value = -1;
  const_cast<ELoc&>(ELoc::X)._value       = 0;
  const_cast<ELoc&>(ELoc::Z)._value       = 1;
  const_cast<ELoc&>(ELoc::V)._value       = 2;
  const_cast<ELoc&>(ELoc::SEL)._value     = 10;
  const_cast<ELoc&>(ELoc::DOM)._value     = 11;
#else
  // native build: the overridden constant must be the library's own value
  int n = 0;
  auto it = ELoc::getIterator();
  while (it.hasNext()) { if (*it != ELoc::UNKNOWN) n++; it.toNext(); }
  if (n != VF_NELOC || ELoc::UNKNOWN.getValue() != -1 || ELoc::Z.getValue() != 1 || ELoc::V.getValue() != 2 ||
      ELoc::SEL.getValue() != 10 || ELoc::DOM.getValue() != 11) abort();
#endif
}
// an ELoc with value t (t == -1: UNKNOWN); only _value is read by the kernels
struct VfLoc
{
  alignas(16) char buf[sizeof(ELoc)];
  VfLoc(int t)
  {
    for (unsigned i = 0; i < sizeof(ELoc); i++) buf[i] = 0;
    ((ELoc*)buf)->_value = t;
  }
  const ELoc& get() const { return *(const ELoc*)buf; }
};

#define VF_LMAX (VF_NCOL + 4)
// ---- the Db
alignas(16) static char g_dbbuf[sizeof(Db)];
static Db* vf_db_raw(int ncol, int nuid, int nech)
{
  Db* db = (Db*)g_dbbuf;
  db->_ncol = ncol;
  db->_nech = nech;
  new (&db->_array) std::vector<double>(ncol * nech);
  new (&db->_uidcol) std::vector<int>(nuid);
  new (&db->_p) std::vector<PtrGeos>(VF_NELOC);
  // storage of the lists that may be non-empty is reserved once, so that every configuration works in
  // the same buffers (no reallocation inside the kernels: stated in the registry under `out`)
  for (int t = 0; t < VF_NT; t++) db->_p[t]._r.reserve(VF_LMAX);
  return db;
}

// plain copy of the tables (pre / post state of the reference model)
struct VfTab
{
  int ncol, nech, nuid;
  int uidcol[VF_NUID + 1];
  double arr[(VF_NCOL + 1) * VF_NECH + 1];
  int narr;
  int len[VF_NELOC];
  int lst[VF_NELOC][VF_NCOL + 4];
};
// returns false when a table is larger than the reference model can hold (asserted by callers)
static bool vf_snapshot(const Db* db, VfTab& s)
{
  bool ok = true;
  s.ncol = db->_ncol;
  s.nech = db->_nech;
  s.nuid = (int)db->_uidcol.size();
  if (s.nuid > VF_NUID + 1) { ok = false; s.nuid = VF_NUID + 1; }
  for (int u = 0; u < s.nuid; u++) s.uidcol[u] = db->_uidcol[u];
  s.narr = (int)db->_array.size();
  if (s.narr > (VF_NCOL + 1) * VF_NECH + 1) { ok = false; s.narr = (VF_NCOL + 1) * VF_NECH + 1; }
  for (int i = 0; i < s.narr; i++) s.arr[i] = db->_array[i];
  if ((int)db->_p.size() != VF_NELOC) return false;
  for (int t = 0; t < VF_NELOC; t++)
  {
    int n = db->_p[t].getLocatorNumber();
    if (n > VF_LMAX) { ok = false; n = VF_LMAX; }
    s.len[t] = n;
    for (int i = 0; i < n; i++) s.lst[t][i] = db->_p[t].getLocatorByIndex(i);
  }
  return ok;
}

// Arbitrary tables satisfying the representation invariant I.  All symbolic inputs are drawn here,
// unconditionally and before any configuration-dependent code, and the state is *constructed* from them
// (no assumption can reject a draw, so the translator validation exercises real executions):
//   g_uoc   arbitrary one-to-one assignment column -> identifier; _uidcol is its inverse, -1 elsewhere
//   g_pool  arbitrary enumeration of the live identifiers; the role lists of a configuration are
//           consecutive pieces of it, hence hold live, pairwise distinct identifiers.
// vf_injection: n pairwise distinct values in [0,m), every such sequence is produced (Lehmer code), branch-free.
static void vf_injection(int* out, int n, int m)
{
  int sorted[VF_NUID + 1];
  for (int i = 0; i < n; i++)
  {
    int x = vf_range(0, m - 1 - i);
    for (int j = 0; j < i; j++) x = (x >= sorted[j]) ? x + 1 : x; // skip the values already taken (ascending)
    out[i] = x;
    int v = x;
    for (int j = 0; j < i; j++)
    {
      int lo = sorted[j] < v ? sorted[j] : v;
      int hi = sorted[j] < v ? v : sorted[j];
      sorted[j] = lo;
      v = hi;
    }
    sorted[i] = v;
  }
}
static int g_uoc[VF_NCOL + 1];
static int g_pool[VF_NCOL + 1];
static int g_permdrawn[VF_NCOL + 1]; // g_pool[i] == g_uoc[g_permdrawn[i]]
static Db* vf_db_tables()
{
  Db* db = vf_db_raw(VF_NCOL, VF_NUID, VF_NECH);
  vf_injection(g_uoc, VF_NCOL, VF_NUID);
  for (int u = 0; u < VF_NUID; u++)
  {
    int c = -1;
    for (int k = 0; k < VF_NCOL; k++) c = (g_uoc[k] == u) ? k : c;
    db->_uidcol[u] = c;
  }
  for (int i = 0; i < VF_NCOL * VF_NECH; i++) db->_array[i] = vf_finite_double();
  int* perm = g_permdrawn;
  vf_injection(perm, VF_NCOL, VF_NCOL);
  for (int i = 0; i < VF_NCOL; i++)
  {
    int e = g_uoc[0];
    for (int k = 1; k < VF_NCOL; k++) e = (perm[i] == k) ? g_uoc[k] : e;
    g_pool[i] = e;
  }
  return db;
}
// the r-th deleted identifier (r = 0..VF_NUID-VF_NCOL-1)
static int vf_dead_uid(const Db* db, int r)
{
  int res = -1, cnt = 0;
  for (int u = 0; u < VF_NUID; u++)
  {
    bool dead = db->_uidcol[u] < 0;
    res = (dead && cnt == r) ? u : res;
    cnt = dead ? cnt + 1 : cnt;
  }
  return res;
}
// role lists of types 0..VF_NT-1 with lengths l[] taken from the pool (types >= VF_NT stay empty)
static void vf_db_lists(Db* db, const int* l)
{
  int n = 0;
  for (int t = 0; t < VF_NT; t++)
  {
    if (l[t] > 0) db->_p[t]._r.resize(l[t], 0);
    for (int i = 0; i < l[t]; i++) db->_p[t]._r[i] = g_pool[n++];
  }
}

// the same lists written into a snapshot (reference side: does not read the Db)
static void vf_tab_lists(VfTab& s, const int* l)
{
  int n = 0;
  for (int t = 0; t < VF_NELOC; t++)
  {
    s.len[t] = t < VF_NT ? l[t] : 0;
    for (int i = 0; i < s.len[t]; i++) s.lst[t][i] = g_pool[n++];
  }
}

// I(post) clause by clause on a snapshot; ids are passed so that every kernel names its own obligations
// (written branch-free: the values are symbolic, a branch would fork the executor)
static bool vf_lists_live(const VfTab& s)
{
  bool ok = true;
  for (int t = 0; t < VF_NELOC; t++)
    for (int i = 0; i < s.len[t]; i++)
    {
      int e = s.lst[t][i];
      ok = (e >= 0 && e < s.nuid) ? ok : false;
      for (int u = 0; u < s.nuid; u++)
      {
        int c = s.uidcol[u];
        ok = (e == u && c < 0) ? false : ok;
      }
    }
  return ok;
}
static bool vf_lists_distinct(const VfTab& s)
{
  bool ok = true;
  int all[VF_NELOC * VF_LMAX];
  int n = 0;
  for (int t = 0; t < VF_NELOC; t++)
    for (int i = 0; i < s.len[t]; i++) all[n++] = s.lst[t][i];
  for (int i = 0; i < n; i++)
    for (int j = 0; j < i; j++) ok = (all[i] != all[j]) ? ok : false;
  return ok;
}
static bool vf_uidcol_bijective(const VfTab& s)
{
  bool ok = true;
  int live = 0;
  for (int u = 0; u < s.nuid; u++)
  {
    int c = s.uidcol[u];
    if (c < -1 || c >= s.ncol) ok = false;
    if (c >= 0) live++;
    for (int v = 0; v < u; v++)
      if (c >= 0 && s.uidcol[v] == c) ok = false;
  }
  return ok && live == s.ncol;
}
static bool vf_same_uid_and_values(const VfTab& a, const VfTab& b)
{
  bool ok = a.ncol == b.ncol && a.nech == b.nech && a.nuid == b.nuid && a.narr == b.narr;
  if (!ok) return false;
  for (int u = 0; u < a.nuid; u++) ok = (a.uidcol[u] == b.uidcol[u]) ? ok : false;
  for (int i = 0; i < a.narr; i++) ok = (a.arr[i] == b.arr[i]) ? ok : false;
  return ok;
}
static bool vf_same_lists(const VfTab& a, const VfTab& b)
{
  bool ok = true;
  for (int j = 0; j < VF_NELOC; j++)
  {
    if (a.len[j] != b.len[j]) { ok = false; continue; }
    for (int i = 0; i < a.len[j]; i++) ok = (a.lst[j][i] == b.lst[j][i]) ? ok : false;
  }
  return ok;
}

// binary dispatch on a symbolic configuration number: every leaf is a distinct function, so the
// executor follows one concrete-shaped path per configuration
template<template<int> class F, int Lo, int Hi> struct VfDispatch
{
  static void go(int cfg)
  {
    if constexpr (Lo == Hi) F<Lo>::run();
    else
    {
      constexpr int Mid = (Lo + Hi) / 2;
      if (cfg <= Mid) VfDispatch<F, Lo, Mid>::go(cfg);
      else VfDispatch<F, Mid + 1, Hi>::go(cfg);
    }
  }
};
