// C07.n: name uniqueness.  k_names: correctNamesForDuplicates (src/Basic/String.cpp), the function Db::addColumns*,
// Db::setName(s) and the Db constructors/loaders run over the whole name table after every addition or renaming.
// The REAL function is executed together with the real libstdc++ std::string / std::vector<std::string> code it uses
// (operator==, assignment, VectorT<String> copy-on-write detach) on a list of VF_N names, each name chosen
// independently (symbolic choice per position) in the family
//      "v", "v.1", "v.1.1", "v.2", "w"
// i.e. names that clash with each other and names that clash with the corrected form of another name (the version
// suffix the function appends is ".1").  Every combination is explored as a path of its own (no state merging): all
// string contents are concrete on a path.
//   asserted: the list keeps its length; afterwards all names are pairwise distinct; the first name is unchanged; a name
//   that differs from every (final) name before it is unchanged; a corrected name is its original followed by a suffix.
// Solver-build environment (the native build runs the library's own function):
//   incrementStringVersion(string, rank, delim) (std::stringstream formatting) -> string + delim + decimal digit of rank
#include "vf.h"
#include "Basic/String.hpp"
#include "Basic/VectorT.hpp"
#include "geoslib_define.h"
#ifndef VF_N
#define VF_N 3
#endif
#define VF_NFAM 5
static const char* const vf_fam[VF_NFAM] = {"v", "v.1", "v.1.1", "v.2", "w"};

#ifdef VF_SOLVER
extern "C" {
size_t strlen(const char* s) { size_t n = 0; while (s[n] != 0) n++; return n; }
int memcmp(const void* a, const void* b, size_t n)
{
  const unsigned char* p = (const unsigned char*)a;
  const unsigned char* q = (const unsigned char*)b;
  for (size_t i = 0; i < n; i++)
    if (p[i] != q[i]) return p[i] < q[i] ? -1 : 1;
  return 0;
}
}
// the real one formats through a std::stringstream (iostream code is not executable by the engine)
String incrementStringVersion(const String& string, int rank, const String& delim)
{
  String r(string);
  r.append(delim);
  r.push_back((char)('0' + (rank % 10))); // called with the default rank 1 only
  return r;
}
#endif

// harness-side comparison helpers on (pointer, length): no library string comparison in the oracle
static bool same_text(const char* a, size_t na, const char* b, size_t nb)
{
  if (na != nb) return false;
  for (size_t k = 0; k < na; k++)
    if (a[k] != b[k]) return false;
  return true;
}
static bool starts_with(const char* a, size_t na, const char* pre, size_t np)
{
  if (na < np) return false;
  for (size_t k = 0; k < np; k++)
    if (a[k] != pre[k]) return false;
  return true;
}
static size_t text_len(const char* s)
{
  size_t n = 0;
  while (s[n] != 0) n++;
  return n;
}
// one call per family member, each in a branch of its own (a call cannot be turned into a select by the optimiser)
static const char* push_name(VectorString& list, int c)
{
  if (c == 0) { list.push_back(String("v")); return vf_fam[0]; }
  if (c == 1) { list.push_back(String("v.1")); return vf_fam[1]; }
  if (c == 2) { list.push_back(String("v.1.1")); return vf_fam[2]; }
  if (c == 3) { list.push_back(String("v.2")); return vf_fam[3]; }
  list.push_back(String("w"));
  return vf_fam[4];
}

extern "C" void k_names()
{
  int c[VF_N];
  for (int i = 0; i < VF_N; i++) c[i] = vf_range(0, VF_NFAM - 1);
  VectorString list;
  list.reserve(VF_N);
  const char* orig[VF_N];
  size_t olen[VF_N];
  for (int i = 0; i < VF_N; i++)
  {
    orig[i] = push_name(list, c[i]);
    olen[i] = text_len(orig[i]);
  }

  correctNamesForDuplicates(list);

  vf_assert_id((int)list.size() == VF_N, "the list keeps its length");
  if ((int)list.size() == VF_N)
  {
    const VectorString& fin = list;
    for (int i = 0; i < VF_N; i++)
      for (int j = 0; j < i; j++)
        vf_assert_id(!same_text(fin[i].data(), fin[i].size(), fin[j].data(), fin[j].size()), "names are pairwise distinct after the call");
    vf_assert_id(same_text(fin[0].data(), fin[0].size(), orig[0], olen[0]), "the first name is unchanged");
    for (int i = 1; i < VF_N; i++)
    {
      bool clash = false;
      for (int j = 0; j < i; j++)
        if (same_text(orig[i], olen[i], fin[j].data(), fin[j].size())) clash = true;
      if (!clash)
        vf_assert_id(same_text(fin[i].data(), fin[i].size(), orig[i], olen[i]), "a name that clashes with no name before it is unchanged");
      vf_assert_id(starts_with(fin[i].data(), fin[i].size(), orig[i], olen[i]), "a corrected name is its original followed by a version suffix");
    }
    int total = 0;
    for (int i = 0; i < VF_N; i++) total += (int)fin[i].size();
    vf_out_int(total);
  }
  vf_witness();
}

// Renaming of one column (Db::setNameByColIdx / setNameByUID -> correctNewNameForDuplicates(list, rank)): the table
// holds pairwise distinct names except possibly the new name at position 'rank' (any position, any family member).
//   asserted: the list keeps its length; every other name is unchanged; afterwards all names are pairwise distinct; the
//   new name is unchanged when it clashes with no other name, and is its original followed by a suffix otherwise.
extern "C" void k_newname()
{
  int c[VF_N];
  for (int i = 0; i < VF_N; i++) c[i] = vf_range(0, VF_NFAM - 1);
  int rank = vf_range(0, VF_N - 1);
  VectorString list;
  list.reserve(VF_N);
  const char* orig[VF_N];
  size_t olen[VF_N];
  for (int i = 0; i < VF_N; i++)
  {
    orig[i] = push_name(list, c[i]);
    olen[i] = text_len(orig[i]);
  }
  // one call per position, each in a branch of its own: the position is a constant inside the call
  int r0 = -1;
  for (int r = 0; r < VF_N; r++)
    if (rank == r)
    {
      r0 = r;
      for (int i = 0; i < VF_N; i++)
        for (int j = 0; j < i; j++)
          if (i != r && j != r) vf_assume(c[i] != c[j]); // pre-state: the names of the other columns are unique
      correctNewNameForDuplicates(list, r);
    }
  vf_assert_id((int)list.size() == VF_N, "renaming: the list keeps its length");
  if ((int)list.size() == VF_N && r0 >= 0)
  {
    const VectorString& fin = list;
    bool clash = false;
    for (int i = 0; i < VF_N; i++)
    {
      if (i == r0) continue;
      vf_assert_id(same_text(fin[i].data(), fin[i].size(), orig[i], olen[i]), "renaming: the names of the other columns are unchanged");
      if (same_text(orig[r0], olen[r0], orig[i], olen[i])) clash = true;
    }
    for (int i = 0; i < VF_N; i++)
      for (int j = 0; j < i; j++)
        vf_assert_id(!same_text(fin[i].data(), fin[i].size(), fin[j].data(), fin[j].size()), "renaming: names are pairwise distinct after the call");
    if (!clash)
      vf_assert_id(same_text(fin[r0].data(), fin[r0].size(), orig[r0], olen[r0]), "renaming: a new name that clashes with no other name is unchanged");
    vf_assert_id(starts_with(fin[r0].data(), fin[r0].size(), orig[r0], olen[r0]), "renaming: a corrected name is its original followed by a version suffix");
    vf_out_int((int)fin[r0].size());
  }
  vf_witness();
}
