// C07.a / C07.g / C07.a.stale: one inductive step of Db::setLocatorByUID (src/Db/Db.cpp) with
// PtrGeos::findUIDInLocator/erase/resize/setLocatorByIndex and Db::clearLocators, from an arbitrary
// pre-state satisfying the representation invariant I (see dbstate.h: vf_db_tables).
//
// The *shape* of a step is a configuration (list lengths, target role type, rank argument, clean flag,
// where the identifier sits in the pre-state); the configuration number is a symbolic input, so one
// query covers all shapes, and within a shape every identifier / table content is symbolic.
//   VF_MODE 0 (C07.a)  rank argument is -1 (automatic) or 0..count (count = number of roles of the
//                      target type once the identifier itself / the cleaned list is taken out)
//   VF_MODE 1 (C07.g)  explicit rank argument beyond the count (count+1, count+2): consecutiveness clause
//   VF_MODE 2 (C07.a.stale) the identifier is in range but designates a deleted column
//   VF_MODE 3 (C07.a.reassign) / 4 (C07.a.uclean): the two argument classes split off mode 0 (see cfg_admissible)
#include "dbstate.h"
#ifndef VF_MODE
#define VF_MODE 0
#endif
#ifndef VF_TMIN
#define VF_TMIN (-1)
#endif
#ifndef VF_TMAX
#define VF_TMAX (VF_NT - 1)
#endif

// where the identifier argument sits
enum { W_NEG = -4, W_BIG = -3, W_STALE = -2, W_FREE = -1 /* live, no role */ /* >=0: role type holding it */ };

struct Cfg
{
  int l[VF_NT];
  int t, k, wj, wq;
  bool clean, valid;
};
constexpr int cfg_count_after(const Cfg& c) // roles of type t once the list is cleaned / the identifier removed
{
  if (c.t < 0) return 0;
  if (c.clean) return 0;
  return c.l[c.t] - (c.wj == c.t ? 1 : 0);
}
// Two argument classes are decided by kernels of their own (VF_MODE 3 and 4), so that a defect confined to one
// class does not mask the verdict on the rest; together the modes 0, 3, 4 partition the domain described above.
constexpr bool cfg_auto_reassign(const Cfg& c) // automatic rank while the identifier already holds a role of the target type
{
  return c.k < 0 && !c.clean && c.t >= 0 && c.wj == c.t;
}
constexpr bool cfg_unknown_clean(const Cfg& c) // cleanSameLocator together with ELoc::UNKNOWN, valid identifier
{
  return c.t < 0 && c.clean && c.wj > W_BIG;
}
constexpr bool cfg_admissible(const Cfg& c)
{
  if (VF_MODE == 0) return !cfg_auto_reassign(c) && !cfg_unknown_clean(c);
  if (VF_MODE == 3) return cfg_auto_reassign(c);
  if (VF_MODE == 4) return cfg_unknown_clean(c) && c.wj != W_STALE;
  if (VF_MODE == 2) return !cfg_unknown_clean(c);
  return true;
}
constexpr Cfg cfg_get(int want) // want < 0: returns the count in .k
{
  int n = 0;
  Cfg c{};
  for (int l0 = 0; l0 <= VF_NCOL; l0++)
    for (int l1 = 0; l0 + l1 <= VF_NCOL; l1++)
      for (int l2 = 0; l0 + l1 + l2 <= VF_NCOL; l2++)
        for (int t = VF_TMIN; t <= VF_TMAX; t++)
          for (int cl = 0; cl < 2; cl++)
            for (int wj = W_NEG; wj < VF_NT; wj++)
            {
              c.l[0] = l0; c.l[1] = l1; c.l[2] = l2;
              c.t = t; c.clean = cl != 0; c.wj = wj;
              if ((VF_MODE == 0 || VF_MODE == 3 || VF_MODE == 4) && wj == W_STALE) continue;
              if (VF_MODE == 1 && (wj < W_FREE || t < 0)) continue;
              if (VF_MODE == 2 && wj != W_STALE) continue;
              if (wj == W_FREE && l0 + l1 + l2 >= VF_NCOL) continue; // no live identifier left without a role
              int nq = wj >= 0 ? c.l[wj] : 1;
              for (int wq = 0; wq < nq; wq++)
              {
                c.wq = wq;
                int cnt = cfg_count_after(c);
                int klo = VF_MODE == 1 ? cnt + 1 : -1;
                int khi = VF_MODE == 1 ? cnt + 2 : (t < 0 ? 0 : cnt);
                for (int k = klo; k <= khi; k++)
                {
                  c.k = k;
                  if (!cfg_admissible(c)) continue;
                  if (n == want) { c.valid = true; return c; }
                  n++;
                }
              }
            }
  c.valid = false;
  c.k = n;
  return c;
}
constexpr int NCFG = cfg_get(-1).k;
static_assert(NCFG > 0, "empty configuration space");

// verdicts of the executed configuration (asserted once, after the dispatch)
static bool r_fits, r_frame, r_live, r_distinct, r_designated, r_others, r_noop;
static int g_neg, g_big, g_stale;
static Db* g_db;
static VfTab g_pre;

__attribute__((noinline)) static void step(const Cfg& c)
{
  Db* db = g_db;
  int used = c.l[0] + c.l[1] + c.l[2];
  vf_db_lists(db, c.l);
  // the identifier argument
  int iuid;
  if (c.wj >= 0) iuid = db->_p[c.wj]._r[c.wq];
  else if (c.wj == W_NEG) iuid = g_neg;
  else if (c.wj == W_BIG) iuid = g_big;
  else if (c.wj == W_STALE) iuid = g_stale;
  else iuid = g_pool[used]; // live, no role
  static VfTab post, ref;
  VfTab& pre = g_pre; // identifier table and values: taken before the dispatch; lists: from the pool
  vf_tab_lists(pre, c.l);
  ref = pre;

  vf_out_int(c.l[0]); vf_out_int(c.l[1]); vf_out_int(c.l[2]); vf_out_int(c.t); vf_out_int(c.k);
  vf_out_int(c.clean); vf_out_int(c.wj); vf_out_int(c.wq);
  VfLoc loc(c.t);
  db->setLocatorByUID(iuid, loc.get(), c.k, c.clean); // REAL code

  r_fits  = vf_snapshot(db, post);
  r_frame = vf_same_uid_and_values(pre, post);
  r_live  = vf_lists_live(post);
  r_distinct = vf_lists_distinct(post);
  const bool valid = c.wj > W_BIG;
  r_designated = r_others = r_noop = true;
#if VF_MODE == 0 || VF_MODE == 3 || VF_MODE == 4
  // ---- reference: take the identifier out (ranks behind it move up), clean, then place it
  if (valid)
  {
    for (int j = 0; j < VF_NT; j++)
    {
      if (j == c.t && c.clean) { ref.len[j] = 0; continue; }
      if (j == c.wj)
      {
        for (int i = c.wq; i + 1 < ref.len[j]; i++) ref.lst[j][i] = ref.lst[j][i + 1];
        ref.len[j]--;
      }
    }
    if (c.t >= 0)
    {
      int kk = c.k < 0 ? ref.len[c.t] : c.k; // admissible configurations have kk <= count
      if (kk == ref.len[c.t]) ref.len[c.t]++;
      ref.lst[c.t][kk] = iuid;
    }
  }
  if (valid && c.t >= 0)
  {
    int kk = c.k < 0 ? post.len[c.t] - 1 : c.k;
    r_designated = kk >= 0 && kk < post.len[c.t] && post.lst[c.t][kk] == iuid;
  }
  bool same = vf_same_lists(post, ref);
  if (valid) r_others = same;
  else r_noop = same;
#elif VF_MODE == 1
  r_designated = c.k < post.len[c.t] && post.lst[c.t][c.k] == iuid;
#endif
}

template<int I> struct Leaf
{
  static constexpr Cfg c = cfg_get(I);
  static_assert(c.valid, "configuration index out of range");
  __attribute__((noinline)) static void run() { step(c); }
};

extern "C" void k_set_locator()
{
  vf_eloc_init();
  g_db    = vf_db_tables();
  g_neg   = vf_range(-2147483647 - 1, -1);
  g_big   = vf_range(VF_NUID, 2147483647);
  g_stale = vf_dead_uid(g_db, vf_range(0, VF_NUID - VF_NCOL - 1));
  vf_assume(vf_snapshot(g_db, g_pre));
  int cfg = vf_range(0, NCFG - 1);
  VfDispatch<Leaf, 0, NCFG - 1>::go(cfg);

  vf_assert_id(r_fits, "tables stay within the modelled sizes");
  vf_assert_id(r_frame, "identifier table, dimensions and values untouched");
#if VF_MODE == 1
  vf_assert_id(r_live, "ranks of a role type are consecutive: every rank up to the count designates a live column");
#else
  vf_assert_id(r_live, "every role designates a live column");
#endif
  vf_assert_id(r_distinct, "no column has two roles");
  vf_assert_id(r_designated, "the designated column holds the designated role");
  vf_assert_id(r_others, "other columns keep their role type and relative rank");
  vf_assert_id(r_noop, "invalid identifier: no role changes");
  vf_witness();
}
