// C16.g: point-to-cell assignment in migration (grid -> points):
//   CalcMigrate::_migrateGridToPoint and the static helper st_locate_point_on_grid
//   (src/Calculators/CalcMigrate.cpp), with the real Db::hasLargerDimension, DbGrid::getNDim, FFFF, VectorT.
// Index glue only: Grid::coordinateToRank is overridden by an arbitrary *function of the coordinates*
// (C16.b / C16.d decide the real one): the value a point receives is the grid value stored at the rank
// this function returns for the point's own coordinates; a negative rank (outside the grid) or a
// masked point gives TEST.
//   X[i][d]   coordinates of point i (integer grid); two points may coincide
//   R[i]      what coordinateToRank answers for the coordinates of point i: -1 or a node rank
//             (points with equal coordinates get the answer of the first of them: a function)
//   V[r]      grid value of node r for the migrated attribute (TEST allowed)
#include "vf.h"
#include "Calculators/CalcMigrate.hpp"
#include "Db/Db.hpp"
#include "Db/DbGrid.hpp"
#include "Basic/Grid.hpp"
#include "Basic/Utilities.hpp"
#include <new>

#ifndef VF_ND
#define VF_ND 2
#endif
#ifndef VF_NP
#define VF_NP 3 // points
#endif
#ifndef VF_NG
#define VF_NG 4 // grid nodes
#endif
#define GRID 1024

static double g_X[VF_NP][VF_ND];
static bool g_sel[VF_NP];
static int g_R[VF_NP];
static double g_V[VF_NG];
static int g_iatt;
static const Db* g_point;
static const DbGrid* g_grid;
static int g_unknown; // coordinateToRank asked for coordinates which are those of no point

// reference: rank of the cell of point i (the answer for the first point with the same coordinates)
static bool same(int a, int b)
{
  for (int d = 0; d < VF_ND; d++)
    if (g_X[a][d] != g_X[b][d]) return false;
  return true;
}
static int cell_of(int i)
{
  for (int k = 0; k < i; k++)
    if (same(k, i)) return g_R[k];
  return g_R[i];
}

// ---- overrides
// the point data base (real Db vtable; DbGrid has its own getNDim / getCoordinate, not touched)
int Db::getNDim() const { return VF_ND; }
int Db::getSampleNumber(bool useSel) const { (void)useSel; return VF_NP; }
bool Db::isActive(int iech) const { return g_sel[iech]; }
double Db::getCoordinate(int iech, int idim, bool flag_rotate) const
{
  (void)flag_rotate;
  return g_X[iech][idim];
}
void Db::getCoordinatesPerSampleInPlace(int iech, VectorDouble& coor, bool flag_rotate) const
{
  (void)flag_rotate;
  for (int d = 0; d < VF_ND; d++) coor[d] = g_X[iech][d];
}
// the grid value of the migrated attribute
double Db::getArray(int iech, int iuid) const
{
  vf_assert_id(this == (const Db*)g_grid && iuid == g_iatt, "value is read from the grid, in the migrated attribute");
  return g_V[iech]; // (out-of-range rank: in-bounds obligation of the engine / sanitizer natively)
}
// point -> cell: an arbitrary function of the coordinates
int Grid::coordinateToRank(const VectorDouble& coor, bool centered, double eps) const
{
  (void)centered; (void)eps;
  for (int k = 0; k < VF_NP; k++)
  {
    bool eq = true;
    for (int d = 0; d < VF_ND; d++)
      if (coor[d] != g_X[k][d]) eq = false;
    if (eq) return g_R[k];
  }
  g_unknown++;
  return -1;
}

extern "C" char vt_DbGrid[] asm("_ZTV6DbGrid");
extern "C" char vt_Db[] asm("_ZTV2Db");
alignas(16) static char g_gbuf[sizeof(DbGrid)];
alignas(16) static char g_pbuf[sizeof(Db)];

extern "C" void k_grid_to_point()
{
  // ---- symbolic inputs, drawn unconditionally
  for (int i = 0; i < VF_NP; i++)
  {
    for (int d = 0; d < VF_ND; d++) g_X[i][d] = vf_grid_double(GRID);
    g_sel[i] = vf_nondet_bool();
    g_R[i] = vf_range(-1, VF_NG - 1);
  }
  for (int r = 0; r < VF_NG; r++)
  {
    double v = vf_grid_double(GRID);
    bool undef = vf_nondet_bool();
    g_V[r] = undef ? TEST : v;
  }
  g_iatt = vf_range(0, 5);
  g_unknown = 0;

  // ---- objects: raw storage + the real vtables
  DbGrid* dbg = (DbGrid*)g_gbuf;
  *(void**)g_gbuf = (void*)(vt_DbGrid + 16);
  dbg->_grid._nDim = VF_ND;
  Db* dbp = (Db*)g_pbuf;
  *(void**)g_pbuf = (void*)(vt_Db + 16);
  g_grid = dbg;
  g_point = dbp;

  VectorDouble tab(VF_NP);
  for (int i = 0; i < VF_NP; i++) tab[i] = -7.;
  VectorDouble dmax; // no maximum distance

  int err = CalcMigrate::_migrateGridToPoint(dbg, dbp, g_iatt, 1, dmax, tab); // REAL

  vf_assert_id(err == 0, "migration reports success");
  vf_assert_id(g_unknown == 0, "coordinateToRank is only asked about the coordinates of a point of the Db");
  for (int i = 0; i < VF_NP; i++)
  {
    int r = cell_of(i);
    if (!g_sel[i] || r < 0)
      vf_assert_id(tab[i] > 1.e30, "masked point or point outside the grid receives TEST");
    else
    {
      double ref = 0.;
      for (int q = 0; q < VF_NG; q++)
        if (q == r) ref = g_V[q];
      vf_assert_id(tab[i] == ref, "point receives the grid value stored at the rank returned for its own coordinates");
    }
  }
  vf_witness();
}
