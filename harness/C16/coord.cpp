// C16.b: Grid::indicesToCoordinateInPlace / Grid::coordinateToIndicesInPlace (src/Basic/Grid.cpp)
// on an unrotated grid with VF_ND dimensions; x0, dx > 0 arbitrary reals, nx[d] in [1, VF_NXMAX].
//   k_node_roundtrip : node i (any int vector) -> coordinates == x0 + i*dx -> the same node, for both
//                      conventions (centered or not); reported outside <=> some i[d] not in [0,nx[d])
//   k_percent        : coordinates of (i, percent) == x0 + (i+percent)*dx; a point shifted by
//                      'percent' of a mesh stays in the cell of node i (percent in [0,1) when the node
//                      is the cell corner, in [-1/2,1/2) when the cell is centered on the node)
//   k_point_to_cell  : an arbitrary point strictly inside cell k (cell-boundary band of relative
//                      width eps excluded, eps = the round-off guard argument) is assigned to k;
//                      reported outside <=> k is not a cell of the grid
// Exact (real) arithmetic reading of the code.
#include "vf.h"
#include "Basic/Grid.hpp"
#include "geoslib_define.h"
#include <new>
#ifndef VF_ND
#define VF_ND 1
#endif
#ifndef VF_NXMAX
#define VF_NXMAX 1024
#endif
#ifndef VF_IMAX
#define VF_IMAX 1048576
#endif
// symbolic domains (overridable from the registry)
#ifndef VF_X0
#define VF_X0 vf_nondet_double() // origin
#endif
#ifndef VF_DX
#define VF_DX vf_nondet_double() // mesh (assumed > 0)
#endif
#ifndef VF_PC
#define VF_PC vf_nondet_double() // percent
#endif
#ifndef VF_X
#define VF_X vf_nondet_double() // query point coordinate
#endif

static int nx[VF_ND];
static double x0[VF_ND], dx[VF_ND];
// Grid as raw storage: the two functions read _nDim, _nx, _x0, _dx, _rotation._flagRot and use the
// work vectors _work1, _work2 (constructing a Grid for real drags the Eigen-backed rotation matrices in)
alignas(16) static char gbuf[sizeof(Grid)];
static Grid* make_grid()
{
  Grid* g = (Grid*)gbuf;
  g->_nDim = VF_ND;
  new (&g->_nx) VectorInt(VF_ND);
  new (&g->_x0) VectorDouble(VF_ND);
  new (&g->_dx) VectorDouble(VF_ND);
  new (&g->_work1) VectorDouble(VF_ND);
  new (&g->_work2) std::vector<double>(VF_ND);
  g->_rotation._nDim = VF_ND;
  g->_rotation._flagRot = false; // unrotated
  for (int d = 0; d < VF_ND; d++)
  {
    nx[d] = vf_range(1, VF_NXMAX);
    x0[d] = VF_X0;
    dx[d] = VF_DX;
    vf_assume(dx[d] > 0);
    g->_nx[d] = nx[d];
    g->_x0[d] = x0[d];
    g->_dx[d] = dx[d];
  }
  return g;
}

extern "C" void k_node_roundtrip()
{
  Grid* g = make_grid();
  bool centered = vf_nondet_bool();
  int ind[VF_ND];
  int nout = 0; // number of directions in which the index is outside [0,nx)
  for (int d = 0; d < VF_ND; d++)
  {
    ind[d] = vf_range(-VF_IMAX, VF_IMAX);
    if (ind[d] < 0 || ind[d] >= nx[d]) nout++;
  }
  VectorDouble coor(VF_ND);
  g->indicesToCoordinateInPlace(constvectint(ind, VF_ND), vect(coor.data(), VF_ND));
  for (int d = 0; d < VF_ND; d++)
  {
    vf_assert_id(coor[d] == x0[d] + (double)ind[d] * dx[d], "node coordinate == x0 + i*dx");
    vf_assume(coor[d] < 1.e30 && coor[d] > -1.e30); // defined coordinates (TEST = 1.234e30 means undefined)
  }
  VectorInt out(VF_ND);
  int err = g->coordinateToIndicesInPlace(coor, out, centered, EPSILON6);
  for (int d = 0; d < VF_ND; d++)
    vf_assert_id(out[d] == ind[d], "node -> coordinates -> same node");
  vf_assert_id((err != 0) == (nout > 0), "reported outside <=> node index outside [0,nx)");
  vf_witness();
}

extern "C" void k_percent()
{
  Grid* g = make_grid();
  bool centered = vf_nondet_bool();
  const double eps = EPSILON6;
  int ind[VF_ND];
  double pc[VF_ND];
  for (int d = 0; d < VF_ND; d++)
  {
    ind[d] = vf_range(-VF_IMAX, VF_IMAX);
    pc[d] = VF_PC;
    // written so that no constant expression is folded (= rounded) by the compiler: exact in the solver
    if (centered)
      vf_assume(pc[d] + 0.5 > eps && pc[d] + eps < 0.5);
    else
      vf_assume(pc[d] > eps && pc[d] + eps < 1.);
  }
  VectorDouble coor(VF_ND);
  g->indicesToCoordinateInPlace(constvectint(ind, VF_ND), vect(coor.data(), VF_ND), constvect(pc, VF_ND));
  for (int d = 0; d < VF_ND; d++)
  {
    vf_assert_id(coor[d] == x0[d] + ((double)ind[d] + pc[d]) * dx[d], "coordinate == x0 + (i+percent)*dx");
    vf_assume(coor[d] < 1.e30 && coor[d] > -1.e30);
  }
  VectorInt out(VF_ND);
  g->coordinateToIndicesInPlace(coor, out, centered, eps);
  for (int d = 0; d < VF_ND; d++)
    vf_assert_id(out[d] == ind[d], "point shifted by percent of a mesh stays in the cell of its node");
  vf_witness();
}

extern "C" void k_point_to_cell()
{
  Grid* g = make_grid();
  bool centered = vf_nondet_bool();
  const double eps = EPSILON6;
  int k[VF_ND];
  int nout = 0; // number of directions in which the index is outside [0,nx)
  VectorDouble x(VF_ND);
  for (int d = 0; d < VF_ND; d++)
  {
    k[d] = vf_range(-VF_IMAX, VF_IMAX);
    if (k[d] < 0 || k[d] >= nx[d]) nout++;
    double xx = VF_X;
    vf_assume(xx < 1.e30 && xx > -1.e30);
    // cell k: [k-1/2, k+1/2]*dx around the node (centered) or [k, k+1]*dx (node = lower corner); strictly
    // inside, at more than eps*dx from the two faces
    double lo = centered ? (double)k[d] - 0.5 : (double)k[d];
    double w = xx - x0[d];
    vf_assume(w > (lo + eps) * dx[d] && w < (lo + 1. - eps) * dx[d]);
    x[d] = xx;
  }
  VectorInt out(VF_ND);
  int err = g->coordinateToIndicesInPlace(x, out, centered, eps);
  for (int d = 0; d < VF_ND; d++)
    vf_assert_id(out[d] == k[d], "point is assigned to the cell that contains it");
  vf_assert_id((err != 0) == (nout > 0), "reported outside <=> containing cell is not in the grid");
  vf_witness();
}
