// C16.h: scalar coordinate accessors of Grid (src/Basic/Grid.cpp) with a NON-EMPTY 'percent' argument:
//   Grid::indiceToCoordinate(idim, indice, percent)  and  Grid::rankToCoordinate(idim, rank, percent)
// return component idim of the point of the grid geometry
//   x0 + M ((i + percent) o dx)          (M = identity on an unrotated grid)
// which is also component idim of what the vector versions Grid::indicesToCoordinate(indice, percent) /
// Grid::rankToCoordinates(rank, percent) return.
//   VF_ROTATED == 0 : unrotated grid with VF_ND dimensions, raw storage as harness/C16/coord.cpp
//   VF_ROTATED == 1 : 2-D grid constructed for real with an arbitrary angle, as harness/C16/rot.cpp
//                     (M = the direct matrix the Grid reports, cos/sin uninterpreted with cos^2+sin^2 = 1)
//   k_scalar_indice : arbitrary node indices
//   k_scalar_rank   : node (i0,i1[,i2]) inside the grid, addressed by its rank i0 + nx0*(i1 + nx1*i2)
// Exact (real) arithmetic reading of the code.
#include "vf.h"
#include "Basic/Grid.hpp"
#include "geoslib_define.h"
#include <new>
#include <math.h>
#ifndef VF_ROTATED
#define VF_ROTATED 0
#endif
#if VF_ROTATED
#include "Matrix/MatrixSquareGeneral.hpp"
#undef VF_ND
#define VF_ND 2
#endif
#ifndef VF_ND
#define VF_ND 2
#endif
#ifndef VF_NXMAX
#define VF_NXMAX 1024
#endif
#ifndef VF_IMAX
#define VF_IMAX 1048576
#endif
#ifndef VF_X0
#define VF_X0 vf_nondet_double() // origin
#endif
#ifndef VF_DX
#define VF_DX vf_nondet_double() // mesh (assumed > 0)
#endif
#ifndef VF_PC
#define VF_PC vf_nondet_double() // percent (assumed in [-1,1])
#endif

#if defined(VF_NATIVE) && VF_ROTATED
static bool req(double a, double b)
{
  double e = a - b, m = (a < 0 ? -a : a) + (b < 0 ? -b : b) + 1.;
  return (e < 0 ? -e : e) <= 1e-9 * m;
}
#else
static bool req(double a, double b) { return a == b; }
#endif

static int nx[VF_ND];
static double x0[VF_ND], dx[VF_ND], pc[VF_ND];

#if VF_ROTATED
static double M[2][2];
static Grid* make_grid()
{
  VectorInt vnx(2);
  VectorDouble vx0(2), vdx(2);
  for (int d = 0; d < 2; d++)
  {
    nx[d] = vf_range(1, VF_NXMAX);
    x0[d] = VF_X0;
    dx[d] = VF_DX;
    vf_assume(dx[d] > 0);
    vnx[d] = nx[d];
    vx0[d] = x0[d];
    vdx[d] = dx[d];
  }
  double angle = vf_nondet_double(); // degrees
  vf_assume(angle > -360. && angle < 360.);
  Grid* g = new Grid(2, vnx, vx0, vdx);
  g->setRotationByAngle(angle);
  // a matrix within 1e-10 of the identity is flagged "not rotated": the identity is then the matrix in force (see rot.cpp)
  bool rot = g->isRotated();
  for (int i = 0; i < 2; i++)
    for (int j = 0; j < 2; j++) M[i][j] = rot ? g->getRotation().getMatrixDirect(i, j) : (i == j ? 1. : 0.);
  return g;
}
static double geom(int d, const int* ind) // x0 + M ((i + percent) o dx), component d
{
  return x0[d] + M[d][0] * (((double)ind[0] + pc[0]) * dx[0]) + M[d][1] * (((double)ind[1] + pc[1]) * dx[1]);
}
#else
// Grid as raw storage: the accessors read _nDim, _nx, _x0, _dx, _rotation._flagRot and use the work vectors
alignas(16) static char gbuf[sizeof(Grid)];
static Grid* make_grid()
{
  Grid* g = (Grid*)gbuf;
  g->_nDim = VF_ND;
  new (&g->_nx) VectorInt(VF_ND);
  new (&g->_x0) VectorDouble(VF_ND);
  new (&g->_dx) VectorDouble(VF_ND);
  new (&g->_iwork0) VectorInt(VF_ND);
  new (&g->_work1) VectorDouble(VF_ND);
  new (&g->_work2) std::vector<double>(VF_ND);
  g->_rotation._nDim = VF_ND;
  g->_rotation._flagRot = false; // unrotated
  for (int d = 0; d < VF_ND; d++)
  {
    nx[d] = vf_range(1, VF_NXMAX);
    x0[d] = VF_X0;
    dx[d] = VF_DX;
    vf_assume(dx[d] > 0);
    g->_nx[d] = nx[d];
    g->_x0[d] = x0[d];
    g->_dx[d] = dx[d];
  }
  return g;
}
static double geom(int d, const int* ind) // x0 + (i + percent) * dx, component d
{
  return x0[d] + ((double)ind[d] + pc[d]) * dx[d];
}
#endif

static void draw_percent()
{
  for (int d = 0; d < VF_ND; d++)
  {
    pc[d] = VF_PC;
    vf_assume(pc[d] >= -1. && pc[d] <= 1.);
  }
}

extern "C" void k_scalar_indice()
{
  Grid* g = make_grid();
  draw_percent();
  int ind[VF_ND];
  for (int d = 0; d < VF_ND; d++) ind[d] = vf_range(-VF_IMAX, VF_IMAX);
  VectorInt vind(VF_ND);
  VectorDouble vpc(VF_ND);
  for (int d = 0; d < VF_ND; d++)
  {
    vind[d] = ind[d];
    vpc[d] = pc[d];
  }
  double s[VF_ND];
  for (int d = 0; d < VF_ND; d++)
    s[d] = g->indiceToCoordinate(d, constvectint(ind, VF_ND), constvect(pc, VF_ND)); // REAL code (scalar accessor)
  VectorDouble v = g->indicesToCoordinate(vind, vpc);                                  // REAL code (vector accessor)
  for (int d = 0; d < VF_ND; d++)
  {
    vf_assert_id(req(s[d], geom(d, ind)), "indiceToCoordinate(idim, i, percent) == component idim of x0 + M ((i+percent) o dx)");
    vf_assert_id(req(s[d], v[d]), "indiceToCoordinate(idim, i, percent) == indicesToCoordinate(i, percent)[idim]");
  }
  vf_witness();
}

extern "C" void k_scalar_rank()
{
  Grid* g = make_grid();
  draw_percent();
  int ind[VF_ND];
  for (int d = 0; d < VF_ND; d++)
  {
    ind[d] = vf_nondet_int();
    vf_assume(ind[d] >= 0 && ind[d] < nx[d]);
  }
  int rank = ind[VF_ND - 1];
  for (int d = VF_ND - 2; d >= 0; d--) rank = rank * nx[d] + ind[d];
  VectorDouble vpc(VF_ND);
  for (int d = 0; d < VF_ND; d++) vpc[d] = pc[d];
  double s[VF_ND];
  for (int d = 0; d < VF_ND; d++) s[d] = g->rankToCoordinate(d, rank, vpc); // REAL code (scalar accessor)
  VectorDouble v = g->rankToCoordinates(rank, vpc);                          // REAL code (vector accessor)
  for (int d = 0; d < VF_ND; d++)
  {
    vf_assert_id(req(s[d], geom(d, ind)), "rankToCoordinate(idim, rank, percent) == component idim of x0 + M ((i+percent) o dx)");
    vf_assert_id(req(s[d], v[d]), "rankToCoordinate(idim, rank, percent) == rankToCoordinates(rank, percent)[idim]");
  }
  vf_witness();
}
