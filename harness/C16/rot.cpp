// C16.d: rotated 2-D grid.  The Grid is constructed for real (Grid(ndim,nx,x0,dx), setRotationByAngle:
// Rotation::setAngles, GH::rotationMatrixInPlace, MatrixSquareGeneral storage, Rotation::_directToInverse,
// _checkRotForIdentity) with an arbitrary angle; cos/sin are uninterpreted with cos^2+sin^2 = 1.
// M = the direct rotation matrix the Grid reports (whatever its sign convention), or the identity when the
// Grid flags itself as not rotated (matrix within 1e-10 of the identity).
//   k_rot_matrix    : M is a rotation (M^t M = I, det M = 1) and the stored inverse matrix is M^t
//   k_rot_nodes     : every way of asking for the coordinates of node (i0,i1) gives x0 + M (i0*dx0, i1*dx1):
//                     indicesToCoordinateInPlace, indiceToCoordinate, getCoordinatesByIndice,
//                     getCoordinatesByRank / getCoordinate of the node's rank (direct matrix everywhere)
//   k_rot_roundtrip : node -> coordinates -> same node (inverse matrix on the way back), centered or not
//   k_rot_point     : the point x0 + M ((k+t) o dx), t strictly inside the cell (eps band excluded), is assigned to k
// Exact (real) arithmetic reading of the code.
#include "vf.h"
#include "Basic/Grid.hpp"
#include "Matrix/MatrixSquareGeneral.hpp"
#include "geoslib_define.h"
#include <math.h>
#ifndef VF_NXMAX
#define VF_NXMAX 1024
#endif
#ifndef VF_IMAX
#define VF_IMAX 1048576
#endif
#ifndef VF_X0
#define VF_X0 vf_nondet_double()
#endif
#ifndef VF_DX
#define VF_DX vf_nondet_double()
#endif
#ifdef VF_NATIVE
static bool req(double a, double b)
{
  double e = a - b, m = (a < 0 ? -a : a) + (b < 0 ? -b : b) + 1.;
  return (e < 0 ? -e : e) <= 1e-9 * m;
}
#else
static bool req(double a, double b) { return a == b; }
#endif

static int nx[2];
static double x0[2], dx[2], M[2][2];
static Grid* make_grid()
{
  VectorInt vnx(2);
  VectorDouble vx0(2), vdx(2);
  for (int d = 0; d < 2; d++)
  {
    nx[d] = vf_range(1, VF_NXMAX);
    x0[d] = VF_X0;
    dx[d] = VF_DX;
    vf_assume(dx[d] > 0);
    vnx[d] = nx[d];
    vx0[d] = x0[d];
    vdx[d] = dx[d];
  }
  double angle = vf_nondet_double(); // degrees
  vf_assume(angle > -360. && angle < 360.);
  Grid* g = new Grid(2, vnx, vx0, vdx);
  g->setRotationByAngle(angle);
  // A matrix within 1e-10 of the identity is flagged "not rotated" (Rotation::_checkRotForIdentity, AMatrix::isIdentity)
  // and the Grid then skips the rotation: the matrix in force is the identity in that case.
  bool rot = g->isRotated();
#ifdef VF_ASSUME_ROT
  vf_assume(rot); // the other case is the unrotated code path (C16.b)
#endif
  for (int i = 0; i < 2; i++)
    for (int j = 0; j < 2; j++) M[i][j] = rot ? g->getRotation().getMatrixDirect(i, j) : (i == j ? 1. : 0.);
  return g;
}
static double node(int d, double u0, double u1) // x0 + M (u0*dx0, u1*dx1), component d
{
  return x0[d] + M[d][0] * (u0 * dx[0]) + M[d][1] * (u1 * dx[1]);
}

// Cut rule for the solver: the polynomial identity  M^t (p - x0) == a  for p = x0 + M a  (a consequence of M^t M = I)
// is first ASSERTED (decided on its own, pure polynomial arithmetic) and then assumed, so that the obligations
// that follow the real call see the grid-frame coordinates as the plain terms a[d] instead of degree-4 polynomials.
static void lemma_grid_frame(const double* p, const double* a)
{
  double w0 = p[0] - x0[0], w1 = p[1] - x0[1];
  double u0 = M[0][0] * w0 + M[1][0] * w1; // M^t w
  double u1 = M[0][1] * w0 + M[1][1] * w1;
  vf_assert_id(req(u0, a[0]) && req(u1, a[1]), "lemma: M^t (x0 + M a - x0) == a");
#ifndef VF_NATIVE
  vf_assume(u0 == a[0] && u1 == a[1]);
#endif
}

extern "C" void k_rot_matrix()
{
  Grid* g = make_grid();
  vf_assert_id(req(M[0][0] * M[0][0] + M[1][0] * M[1][0], 1.), "direct matrix: first column has norm 1");
  vf_assert_id(req(M[0][1] * M[0][1] + M[1][1] * M[1][1], 1.), "direct matrix: second column has norm 1");
  vf_assert_id(req(M[0][0] * M[0][1] + M[1][0] * M[1][1], 0.), "direct matrix: columns orthogonal");
  vf_assert_id(req(M[0][0] * M[1][1] - M[0][1] * M[1][0], 1.), "direct matrix: determinant 1");
  for (int i = 0; i < 2; i++)
    for (int j = 0; j < 2; j++)
      vf_assert_id(g->getRotation().getMatrixInverse(i, j) == g->getRotation().getMatrixDirect(j, i), "inverse matrix is the transpose of the direct one");
  vf_witness();
}

extern "C" void k_rot_nodes()
{
  Grid* g = make_grid();
  int ind[2];
  for (int d = 0; d < 2; d++)
  {
    ind[d] = vf_nondet_int();
    vf_assume(ind[d] >= 0 && ind[d] < nx[d]);
  }
  VectorInt vind(2);
  vind[0] = ind[0];
  vind[1] = ind[1];
  int rank = ind[0] + nx[0] * ind[1];
  double ref[2];
  for (int d = 0; d < 2; d++) ref[d] = node(d, (double)ind[0], (double)ind[1]);

  VectorDouble c1(2);
  g->indicesToCoordinateInPlace(constvectint(ind, 2), vect(c1.data(), 2));
  for (int d = 0; d < 2; d++) vf_assert_id(req(c1[d], ref[d]), "indicesToCoordinateInPlace == x0 + M (i o dx)");
  for (int d = 0; d < 2; d++)
    vf_assert_id(req(g->indiceToCoordinate(d, constvectint(ind, 2)), ref[d]), "indiceToCoordinate == x0 + M (i o dx)");
  VectorDouble c2 = g->getCoordinatesByIndice(vind);
  for (int d = 0; d < 2; d++) vf_assert_id(req(c2[d], ref[d]), "getCoordinatesByIndice == x0 + M (i o dx)");
  VectorDouble c3 = g->getCoordinatesByRank(rank);
  for (int d = 0; d < 2; d++) vf_assert_id(req(c3[d], ref[d]), "getCoordinatesByRank == x0 + M (i o dx)");
  for (int d = 0; d < 2; d++) vf_assert_id(req(g->getCoordinate(rank, d), ref[d]), "getCoordinate == x0 + M (i o dx)");
  vf_witness();
}

extern "C" void k_rot_roundtrip()
{
  Grid* g = make_grid();
  bool centered = vf_nondet_bool();
  int ind[2];
  int nout = 0;
  for (int d = 0; d < 2; d++)
  {
    ind[d] = vf_range(-VF_IMAX, VF_IMAX);
    if (ind[d] < 0 || ind[d] >= nx[d]) nout++;
  }
  VectorDouble coor(2);
  g->indicesToCoordinateInPlace(constvectint(ind, 2), vect(coor.data(), 2));
  for (int d = 0; d < 2; d++) vf_assume(coor[d] < 1.e30 && coor[d] > -1.e30);
  {
    double pp[2] = {coor[0], coor[1]}, a[2] = {(double)ind[0] * dx[0], (double)ind[1] * dx[1]};
    lemma_grid_frame(pp, a);
  }
  VectorInt out(2);
  int err = g->coordinateToIndicesInPlace(coor, out, centered, EPSILON6);
  for (int d = 0; d < 2; d++) vf_assert_id(out[d] == ind[d], "rotated: node -> coordinates -> same node");
  vf_assert_id((err != 0) == (nout > 0), "rotated: reported outside <=> node index outside [0,nx)");
  vf_witness();
}

extern "C" void k_rot_point()
{
  Grid* g = make_grid();
  bool centered = vf_nondet_bool();
  const double eps = EPSILON6;
  int k[2];
  double t[2];
  int nout = 0;
  for (int d = 0; d < 2; d++)
  {
    k[d] = vf_range(-VF_IMAX, VF_IMAX);
    if (k[d] < 0 || k[d] >= nx[d]) nout++;
    t[d] = vf_nondet_double(); // position inside the cell, in mesh units from the node
    if (centered)
      vf_assume(t[d] + 0.5 > eps && t[d] + eps < 0.5);
    else
      vf_assume(t[d] > eps && t[d] + eps < 1.);
  }
  VectorDouble p(2);
  for (int d = 0; d < 2; d++)
  {
    p[d] = node(d, (double)k[0] + t[0], (double)k[1] + t[1]);
    vf_assume(p[d] < 1.e30 && p[d] > -1.e30);
  }
  {
    double pp[2] = {p[0], p[1]}, a[2] = {((double)k[0] + t[0]) * dx[0], ((double)k[1] + t[1]) * dx[1]};
    lemma_grid_frame(pp, a);
  }
  VectorInt out(2);
  int err = g->coordinateToIndicesInPlace(p, out, centered, eps);
  for (int d = 0; d < 2; d++) vf_assert_id(out[d] == k[d], "rotated: point is assigned to the cell that contains it");
  vf_assert_id((err != 0) == (nout > 0), "rotated: reported outside <=> containing cell is not in the grid");
  vf_witness();
}
