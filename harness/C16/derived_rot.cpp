// C16.e.rot: geometry of derived grids on a ROTATED 2-D grid: Grid::multiple / Grid::divider (src/Basic/Grid.cpp).
// The parent Grid is constructed for real (Grid(ndim,nx,x0,dx), setRotationByAngle: as harness/C16/rot.cpp) with an
// arbitrary angle; cos/sin are uninterpreted with cos^2+sin^2 = 1.  The derived grid is the one DbGrid::createCoarse /
// createRefine build: the node counts, meshes and origin returned by multiple() / divider() with the parent's rotation
// angle (a second real Grid object).  The property is stated through the two grids' own coordinate functions
// (indicesToCoordinateInPlace, decided on rotated grids by C16.d):
//   k_rot_multiple : cell matching: node (k0,k1) of the coarse grid is the centre of its block of nmult0 x nmult1 parent
//                    cells = the mean of the centres of the two diagonally opposite corner cells of the block, and also
//                    the parent's coordinate function at the first cell of the block shifted by (nmult-1)/2 meshes;
//                    point matching: node (k0,k1) is parent node (k0*nmult0, k1*nmult1); node counts and meshes
//   k_rot_divider  : cell matching: node (q*nmult+r) of the refined grid is the centre of sub-cell r of parent cell q =
//                    the parent's coordinate function at q shifted by -1/2 + (r+1/2)/nmult meshes; point matching:
//                    refined node q*nmult is parent node q; node counts and meshes
// One entry per pair of factors (nmult0, nmult1) in 1..3 (k_rot_multiple_<nmult0><nmult1>, k_rot_divider_<nmult0><nmult1>).
// Exact (real) arithmetic reading of the code.
#include "vf.h"
#include "Basic/Grid.hpp"
#include "Matrix/MatrixSquareGeneral.hpp"
#include "geoslib_define.h"
#include <math.h>
#ifndef VF_NXMAX
#define VF_NXMAX 1024
#endif
#ifdef VF_NATIVE
static bool req(double a, double b)
{
  double e = a - b, m = (a < 0 ? -a : a) + (b < 0 ? -b : b) + 1.;
  return (e < 0 ? -e : e) <= 1e-9 * m;
}
#else
static bool req(double a, double b) { return a == b; }
#endif

#ifdef VF_PROPOSED_FIX
// NOT used by any registered kernel: the source change proposed for Grid::multiple / Grid::divider (origin of the derived
// grid obtained from the parent's own index -> coordinate conversion, which applies the rotation to the whole shift
// vector), to confirm that the anisotropic kernels pass on the corrected code.
void Grid::multiple(const VectorInt& nmult, bool flagCell, VectorInt& nx, VectorDouble& dx, VectorDouble& x0) const
{
  VectorDouble perc(_nDim);
  for (int idim = 0; idim < _nDim; idim++)
  {
    double value = (double)getNX(idim);
    if (flagCell)
      nx[idim] = (int)floor(value / (double)nmult[idim]);
    else
      nx[idim] = 1 + (int)floor((value - 1.) / (double)nmult[idim]);
    dx[idim] = getDX(idim) * nmult[idim];
  }
  for (int idim = 0; idim < _nDim; idim++) _iwork0[idim] = 0;
  for (int idim = 0; idim < _nDim; idim++) perc[idim] = flagCell ? ((double)nmult[idim] - 1.) / 2. : 0.;
  indicesToCoordinateInPlace(_iwork0, x0, perc);
}
void Grid::divider(const VectorInt& nmult, bool flagCell, VectorInt& nx, VectorDouble& dx, VectorDouble& x0) const
{
  VectorDouble perc(_nDim);
  for (int idim = 0; idim < _nDim; idim++)
  {
    if (flagCell)
      nx[idim] = getNX(idim) * nmult[idim];
    else
      nx[idim] = 1 + (getNX(idim) - 1) * nmult[idim];
    dx[idim] = getDX(idim) / ((double)nmult[idim]);
  }
  for (int idim = 0; idim < _nDim; idim++) _iwork0[idim] = 0;
  for (int idim = 0; idim < _nDim; idim++) perc[idim] = flagCell ? (1. / (double)nmult[idim] - 1.) / 2. : 0.;
  indicesToCoordinateInPlace(_iwork0, x0, perc);
}
#endif

static int nx[2];
static double x0[2], dx[2], angle;
static Grid* make_grid()
{
  VectorInt vnx(2);
  VectorDouble vx0(2), vdx(2);
  for (int d = 0; d < 2; d++)
  {
    nx[d] = vf_range(1, VF_NXMAX);
    x0[d] = vf_nondet_double();
    dx[d] = vf_nondet_double();
    vf_assume(dx[d] > 0);
    vnx[d] = nx[d];
    vx0[d] = x0[d];
    vdx[d] = dx[d];
  }
  angle = vf_nondet_double(); // degrees
  vf_assume(angle > -360. && angle < 360.);
  Grid* g = new Grid(2, vnx, vx0, vdx);
  g->setRotationByAngle(angle);
  return g;
}
// the derived grid as DbGrid::createCoarse / createRefine build it: (nx, dx, x0) of multiple() / divider() + the parent's angles
static Grid* derived_grid(const VectorInt& nxo, const VectorDouble& dxo, const VectorDouble& x0o)
{
  Grid* c = new Grid(2, nxo, x0o, dxo);
  c->setRotationByAngle(angle);
  return c;
}
static void coords(const Grid* g, const int ind[2], const double* percent, double out[2])
{
  VectorDouble c(2);
  if (percent != nullptr)
    g->indicesToCoordinateInPlace(constvectint(ind, 2), vect(c.data(), 2), constvect(percent, 2));
  else
    g->indicesToCoordinateInPlace(constvectint(ind, 2), vect(c.data(), 2));
  out[0] = c[0];
  out[1] = c[1];
}

template <int NM0, int NM1> static void t_multiple()
{
  Grid* g = make_grid();
  bool flagCell = vf_nondet_bool();
  VectorInt nmult(2);
  int nm[2] = {NM0, NM1}, k[2];
  nmult[0] = NM0;
  nmult[1] = NM1;
  for (int d = 0; d < 2; d++) k[d] = vf_range(0, VF_NXMAX); // any coarse node
  VectorInt nxo(2);
  VectorDouble dxo(2), x0o(2);
  g->multiple(nmult, flagCell, nxo, dxo, x0o);
  for (int d = 0; d < 2; d++)
  {
    vf_assert_id(req(dxo[d], dx[d] * (double)nm[d]), "rotated multiple: mesh is nmult parent meshes");
    if (flagCell)
      vf_assert_id(nxo[d] * nm[d] <= nx[d] && nx[d] < (nxo[d] + 1) * nm[d], "rotated multiple(cell): as many whole blocks of nmult cells as fit");
    else
      vf_assert_id(nxo[d] >= 1 && (nxo[d] - 1) * nm[d] <= nx[d] - 1 && nx[d] - 1 < nxo[d] * nm[d], "rotated multiple(point): every nmult-th parent node, up to the last one available");
  }
  Grid* c = derived_grid(nxo, dxo, x0o);
  double node[2];
  coords(c, k, nullptr, node); // node (k0,k1) of the coarse grid
  int first[2] = {k[0] * nm[0], k[1] * nm[1]};                            // first parent cell / node of the block
  int last[2]  = {k[0] * nm[0] + nm[0] - 1, k[1] * nm[1] + nm[1] - 1};    // diagonally opposite cell of the block
  double half[2] = {((double)nm[0] - 1.) / 2., ((double)nm[1] - 1.) / 2.}; // block centre, in meshes from the first cell centre
  double pf[2], pl[2], pc[2];
  coords(g, first, nullptr, pf);
  coords(g, last, nullptr, pl);
  coords(g, first, half, pc);
  for (int d = 0; d < 2; d++)
  {
    if (flagCell)
    {
      vf_assert_id(req(node[d] + node[d], pf[d] + pl[d]), "rotated multiple(cell): coarse node is the mean of the opposite corner cell centres of its block");
      vf_assert_id(req(node[d], pc[d]), "rotated multiple(cell): coarse node is the parent's block centre (first cell + (nmult-1)/2 meshes)");
    }
    else
      vf_assert_id(req(node[d], pf[d]), "rotated multiple(point): coarse node k is parent node k*nmult");
  }
  vf_witness();
}

template <int NM0, int NM1> static void t_divider()
{
  Grid* g = make_grid();
  bool flagCell = vf_nondet_bool();
  VectorInt nmult(2);
  int nm[2] = {NM0, NM1}, q[2], r[2];
  nmult[0] = NM0;
  nmult[1] = NM1;
  for (int d = 0; d < 2; d++)
  {
    q[d] = vf_range(0, VF_NXMAX);  // any parent cell / node
    r[d] = vf_range(0, nm[d] - 1); // sub-cell of the parent cell
  }
  VectorInt nxo(2);
  VectorDouble dxo(2), x0o(2);
  g->divider(nmult, flagCell, nxo, dxo, x0o);
  for (int d = 0; d < 2; d++)
  {
    vf_assert_id(req(dxo[d] * (double)nm[d], dx[d]), "rotated divider: nmult meshes make one parent mesh");
    if (flagCell)
      vf_assert_id(nxo[d] == nx[d] * nm[d], "rotated divider(cell): nmult sub-cells per parent cell");
    else
      vf_assert_id(nxo[d] == 1 + (nx[d] - 1) * nm[d], "rotated divider(point): nmult-1 nodes inserted between parent nodes");
  }
  Grid* c = derived_grid(nxo, dxo, x0o);
  int jc[2] = {q[0] * nm[0] + r[0], q[1] * nm[1] + r[1]}; // refined node of sub-cell (r0,r1) of parent cell (q0,q1)
  int jp[2] = {q[0] * nm[0], q[1] * nm[1]};               // refined node on parent node (q0,q1)
  // centre of sub-cell r of a parent cell, in parent meshes from the parent node: -1/2 + (r + 1/2)/nmult
  double sub[2] = {-0.5 + ((double)r[0] + 0.5) / (double)nm[0], -0.5 + ((double)r[1] + 0.5) / (double)nm[1]};
  double nc[2], np[2], pc[2], pn[2];
  coords(c, jc, nullptr, nc);
  coords(c, jp, nullptr, np);
  coords(g, q, sub, pc);
  coords(g, q, nullptr, pn);
  for (int d = 0; d < 2; d++)
  {
    if (flagCell)
      vf_assert_id(req(nc[d], pc[d]), "rotated divider(cell): refined node is the centre of its sub-cell of the parent cell");
    else
      vf_assert_id(req(np[d], pn[d]), "rotated divider(point): refined node q*nmult is parent node q");
  }
  vf_witness();
}
// one entry per pair of factors (compile-time constants)
#define ENT(A, B)                                                        \
  extern "C" void k_rot_multiple_##A##B() { t_multiple<A, B>(); }        \
  extern "C" void k_rot_divider_##A##B() { t_divider<A, B>(); }
ENT(1, 1) ENT(2, 2) ENT(3, 3)
ENT(1, 2) ENT(1, 3) ENT(2, 1) ENT(2, 3) ENT(3, 1) ENT(3, 2)
