// C16.a: Grid::rankToIndice / Grid::indiceToRank (src/Basic/Grid.cpp) are mutual inverses on a
// grid with VF_ND dimensions and symbolic node counts nx[d] in [VF_NXMIN, VF_NXMAX].
//   k_rank_to_ind : every rank r in [0, N): rankToIndice gives in-range indices which are the
//                   mixed-radix digits of r (first dimension fastest), indiceToRank gives r back
//   k_ind_to_rank : every in-range index vector: indiceToRank is the mixed-radix value and
//                   rankToIndice gives the indices back
//   k_ind_outside : every index vector with at least one index out of range: indiceToRank == -1
// VF_MINUS=1: the minusOne variant of rankToIndice (cells instead of nodes: nx[d]-1 per direction).
// Integer overflow / division by zero in the real code are separate obligations of the engine.
#include "vf.h"
#include "Basic/Grid.hpp"
#include <new>
#ifndef VF_ND
#define VF_ND 2
#endif
#ifndef VF_NXMAX
#define VF_NXMAX 1024
#endif
#ifndef VF_MINUS
#define VF_MINUS 0
#endif
#define VF_NXMIN (1 + VF_MINUS)

// Grid as raw storage: rankToIndice/indiceToRank read _nDim and _nx only
alignas(16) static char gbuf[sizeof(Grid)];
static int nx[VF_ND];
static Grid* make_grid()
{
  Grid* g = (Grid*)gbuf;
  g->_nDim = VF_ND;
  new (&g->_nx) VectorInt(VF_ND);
  for (int d = 0; d < VF_ND; d++)
  {
    nx[d] = vf_range(VF_NXMIN, VF_NXMAX);
    g->_nx[d] = nx[d];
  }
  return g;
}

extern "C" void k_rank_to_ind()
{
  Grid* g = make_grid();
  long ntot = 1; // reference in 64 bits: cannot overflow for VF_NXMAX^VF_ND < 2^63
  for (int d = 0; d < VF_ND; d++) ntot *= (long)(nx[d] - VF_MINUS);
  int r = vf_nondet_int();
  vf_assume(r >= 0 && (long)r < ntot);

  int ind[VF_ND];
  g->rankToIndice(r, vectint(ind, VF_ND), VF_MINUS != 0);

  long ref = 0;
  for (int d = VF_ND - 1; d >= 0; d--)
  {
    vf_assert_id(ind[d] >= 0 && ind[d] < nx[d] - VF_MINUS, "rankToIndice: index in range");
    ref = ref * (long)(nx[d] - VF_MINUS) + (long)ind[d];
  }
  vf_assert_id(ref == (long)r, "rankToIndice: indices are the mixed-radix digits of the rank");
#if !VF_MINUS
  // round trip = the digits identity above (ref == r) + indiceToRank evaluates that same mixed-radix value
  int back = g->indiceToRank(constvectint(ind, VF_ND));
  vf_assert_id((long)back == ref, "indiceToRank(rankToIndice(r)) is the mixed-radix value of the digits (== r by the identity above)");
#endif
  vf_witness();
}

#if !VF_MINUS
extern "C" void k_ind_to_rank()
{
  Grid* g = make_grid();
  int ind[VF_ND];
  long ref = 0;
  for (int d = 0; d < VF_ND; d++)
  {
    ind[d] = vf_nondet_int();
    vf_assume(ind[d] >= 0 && ind[d] < nx[d]); // in-range index vector
  }
  for (int d = VF_ND - 1; d >= 0; d--) ref = ref * (long)nx[d] + (long)ind[d];

  int r = g->indiceToRank(constvectint(ind, VF_ND));
  vf_assert_id((long)r == ref, "indiceToRank: mixed-radix value, first dimension fastest");
  int back[VF_ND];
  g->rankToIndice(r, vectint(back, VF_ND), false);
#if VF_ND >= 3
  {
    // solver hints only (vf_split is a case analysis, both cases are decided): the partial products
    // rankToIndice divides by are the exact products, and the higher digits already agree
    int nval = 1;
    for (int d = 0; d < VF_ND; d++) nval *= nx[d];
    int prod = nval;
    for (int d = VF_ND - 1; d >= 1; d--)
    {
      nval /= nx[d];
      prod = 1;
      for (int e = 0; e < d; e++) prod *= nx[e];
      vf_split(nval == prod);
      vf_split(back[d] == ind[d]);
    }
  }
#endif
  for (int d = 0; d < VF_ND; d++)
    vf_assert_id(back[d] == ind[d], "rankToIndice(indiceToRank(i)) == i");
  vf_witness();
}

extern "C" void k_ind_outside()
{
  Grid* g = make_grid();
  int ind[VF_ND];
  bool inside = true;
  for (int d = 0; d < VF_ND; d++)
  {
    ind[d] = vf_nondet_int();
    if (ind[d] < 0 || ind[d] >= nx[d]) inside = false;
  }
  vf_assume(!inside); // at least one index out of range, the others arbitrary
  int r = g->indiceToRank(constvectint(ind, VF_ND));
  vf_assert_id(r == -1, "indiceToRank: out-of-range index gives -1");
  vf_witness();
}
#endif
