// C16.f: the coordinates stored / reported by a grid data base are those of its geometry.
//   DbGrid::_createGridCoordinates(icol0)  (src/Db/DbGrid.cpp; the step of DbGrid::reset(...,
//       flagAddCoordinates) which fills the coordinate columns; icol0 = 1 when the rank column is
//       also asked for) with the real Grid::iteratorInit / iteratorNext / indicesToCoordinateInPlace
//   DbGrid::getCoordinate(iech, idim)      with the real DbGrid::getNDim, Grid::getCoordinate,
//       Grid::rankToIndice, Rotation::rotateDirect (identity path)
// Concrete node counts (VF_NX0 x VF_NX1 [x VF_NX2]), symbolic origin and mesh (arbitrary reals),
// unrotated.  Reference: node r has indices = mixed-radix digits of r (first dimension fastest,
// C16.a) and coordinate x0[d] + i_d * dx[d] (C16.b).
//   - row r of column icol0 + d receives exactly one value, the reference coordinate; no other cell
//     of the table is written; the X locators are given to these columns
//   - DbGrid::getCoordinate(r, d) returns the same value (TEST for d >= ndim)
#include "vf.h"
#include "Db/DbGrid.hpp"
#include "Db/Db.hpp"
#include "Db/PtrGeos.hpp"
#include "Basic/Grid.hpp"
#include "Basic/Utilities.hpp"
#include "Enum/ELoc.hpp"
#include <new>

#ifndef VF_ND
#define VF_ND 2
#endif
#ifndef VF_NX0
#define VF_NX0 3
#endif
#ifndef VF_NX1
#define VF_NX1 2
#endif
#ifndef VF_NX2
#define VF_NX2 1
#endif
#define N (VF_NX0 * VF_NX1 * VF_NX2)
#define NCOL (VF_ND + 2) // rank column (possibly), coordinates, one spare column

static const int g_nx[3] = {VF_NX0, VF_NX1, VF_NX2};
static double g_x0[VF_ND], g_dx[VF_ND];

// ---- recording
static double g_T[N * NCOL];
static int g_W[N * NCOL];
static int g_bad;          // writes outside the table
static int g_locNumber, g_locUid, g_locCalls;
static bool g_locIsX;

// ---- overrides: Db table access and naming
int Db::getSampleNumber(bool useSel) const { (void)useSel; return N; }
static bool __attribute__((noinline)) in_rng(int i, int n) { return i >= 0 && i < n; }
void Db::setArray(int iech, int iuid, double value)
{
  if (!in_rng(iech, N) || !in_rng(iuid, NCOL)) { g_bad++; return; }
  g_T[iech * NCOL + iuid] = value;
  g_W[iech * NCOL + iuid]++;
}
void Db::_setNameByColIdx(int icol, const String& name) { (void)icol; (void)name; }
String getLocatorName(const ELoc& locatorType, int locatorIndex) { (void)locatorType; (void)locatorIndex; return String(); }
void Db::setLocatorsByUID(int number, int iuid, const ELoc& locatorType, int locatorIndex, bool cleanSameLocator)
{
  (void)cleanSameLocator;
  g_locCalls++;
  g_locNumber = number;
  g_locUid = iuid;
  g_locIsX = (&locatorType == &ELoc::X) && locatorIndex == 0;
}

extern "C" char vt_DbGrid[] asm("_ZTV6DbGrid");
alignas(16) static char g_dbbuf[sizeof(DbGrid)];

static DbGrid* make_db()
{
  DbGrid* db = (DbGrid*)g_dbbuf;
  *(void**)g_dbbuf = (void*)(vt_DbGrid + 16); // the real DbGrid vtable (virtual getNDim / getCoordinate)
  Grid* g = &db->_grid;
  g->_nDim = VF_ND;
  new (&g->_nx) VectorInt(VF_ND);
  new (&g->_x0) VectorDouble(VF_ND);
  new (&g->_dx) VectorDouble(VF_ND);
  new (&g->_counts) std::vector<int>();
  new (&g->_order) VectorInt();
  new (&g->_iwork0) VectorInt(VF_ND);
  new (&g->_work1) VectorDouble(VF_ND);
  new (&g->_work2) std::vector<double>(VF_ND);
  g->_iter = 0;
  g->_nprod = 0;
  g->_rotation._nDim = VF_ND;
  g->_rotation._flagRot = false; // unrotated
  for (int d = 0; d < VF_ND; d++)
  {
    g_x0[d] = vf_nondet_double();
    g_dx[d] = vf_nondet_double();
    g->_nx[d] = g_nx[d];
    g->_x0[d] = g_x0[d];
    g->_dx[d] = g_dx[d];
  }
  return db;
}

// reference: index of node r along direction d (first dimension fastest)
static int digit(int r, int d)
{
  for (int e = 0; e < d; e++) r /= g_nx[e];
  return r % g_nx[d];
}

extern "C" void k_stored_coordinates()
{
  DbGrid* db = make_db();
  bool withRank = vf_nondet_bool();
  int icol0 = withRank ? 1 : 0;
  for (int p = 0; p < N * NCOL; p++) { g_T[p] = -7.; g_W[p] = 0; }
  g_bad = 0;
  g_locCalls = 0;

  db->_createGridCoordinates(icol0); // REAL

  vf_assert_id(g_bad == 0, "no write outside the table");
  for (int r = 0; r < N; r++)
    for (int c = 0; c < NCOL; c++)
    {
      int d = c - icol0; // direction stored in column c (when 0 <= d < ndim)
      bool iscoord = d >= 0 && d < VF_ND;
      if (iscoord)
      {
        // (d is symbolic through icol0: the reference is selected branch-free over the directions)
        double ref = 0.;
        for (int e = 0; e < VF_ND; e++)
          if (e == d) ref = g_x0[e] + digit(r, e) * g_dx[e];
        vf_assert_id(g_W[r * NCOL + c] == 1, "each coordinate cell is written exactly once");
        vf_assert_id(g_T[r * NCOL + c] == ref, "stored coordinate of row r, direction d is x0[d] + index_d(r) * dx[d]");
      }
      else
        vf_assert_id(g_W[r * NCOL + c] == 0, "no other column is written");
    }
  vf_assert_id(g_locCalls >= 1 && g_locNumber == VF_ND && g_locUid == icol0 && g_locIsX, "the X locators are given to the coordinate columns");
  vf_witness();
}

extern "C" void k_reported_coordinates()
{
  DbGrid* db = make_db();
  bool flagRotate = vf_nondet_bool(); // no effect on an unrotated grid
  for (int r = 0; r < N; r++)
  {
    for (int d = 0; d < VF_ND; d++)
    {
      double got = db->getCoordinate(r, d, flagRotate); // REAL
      vf_assert_id(got == g_x0[d] + digit(r, d) * g_dx[d], "reported coordinate of node r, direction d is x0[d] + index_d(r) * dx[d]");
    }
    vf_assert_id(db->getCoordinate(r, VF_ND, flagRotate) > 1.e30, "direction beyond the space dimension: undefined value");
  }
  vf_witness();
}
