// C16.e: geometry of derived grids, Grid::dilate / Grid::multiple / Grid::divider (src/Basic/Grid.cpp),
// unrotated grid with VF_ND dimensions, x0, dx > 0 arbitrary reals, nx[d] in [1, VF_NXMAX].
//   k_dilate   : dilated (mode 1) / compressed (mode -1) grid: nx' = nx + 2*mode*nshift, same mesh, and
//                node i' of the new grid is node i' - mode*nshift of the parent (origin moved by nshift meshes)
//   k_multiple : coarsened grid, mesh nmult*dx; cell matching: node k is the centre of the block of nmult
//                parent cells k*nmult .. (k+1)*nmult-1 and as many whole blocks as fit; point matching: node k
//                is parent node k*nmult and the last node is the last such parent node
//   k_divider  : refined grid, mesh dx/nmult; cell matching: nx*nmult nodes at the centres of the sub-cells;
//                point matching: node k*nmult is parent node k, 1+(nx-1)*nmult nodes
//   k_div_mult : multiple(divider(grid)) with the same factors gives nx, dx, x0 back
// Exact (real) arithmetic reading of the code.
#include "vf.h"
#include "Basic/Grid.hpp"
#include "geoslib_define.h"
#include <new>
#ifndef VF_ND
#define VF_ND 1
#endif
#ifndef VF_NXMAX
#define VF_NXMAX 1024
#endif
#ifndef VF_MULTMAX
#define VF_MULTMAX 16
#endif
#ifndef VF_SHIFTMAX
#define VF_SHIFTMAX 64
#endif

// equality of two real quantities: exact for the solver (real arithmetic); the native build (translator
// validation / replay) computes in rounded arithmetic, where e.g. (dx/3)*3 != dx, and compares up to 1e-9 relative
#ifdef VF_NATIVE
static bool req(double a, double b)
{
  double e = a - b, m = (a < 0 ? -a : a) + (b < 0 ? -b : b) + 1.;
  return (e < 0 ? -e : e) <= 1e-9 * m;
}
#else
static bool req(double a, double b) { return a == b; }
#endif

#ifdef VF_PROPOSED_FIX
// NOT used by any registered kernel: the source change proposed for Grid::dilate, to confirm that k_dilate passes on
// the corrected code (python3-vt vf/kernel_run.py C16.e.2.dilate quick 0 VF_PROPOSED_FIX).  The original calls
// indicesToCoordinate(_iwork0, _work1), whose second parameter is 'percent': _work1 is at the same time the output
// and the percent vector, so every index is added to itself before the multiplication by dx (origin moved twice too far).
void Grid::dilate(int mode, const VectorInt& nshift, VectorInt& nx, VectorDouble& dx, VectorDouble& x0) const
{
  if (mode != 1 && mode != -1) return;
  for (int idim = 0; idim < _nDim; idim++)
  {
    nx[idim] = getNX(idim) + 2 * mode * nshift[idim];
    if (nx[idim] <= 0) return;
    dx[idim] = getDX(idim);
  }
  for (int idim = 0; idim < _nDim; idim++)
    _iwork0[idim] = -mode * nshift[idim];
  indicesToCoordinateInPlace(_iwork0, _work1); // was: indicesToCoordinate(_iwork0, _work1);
  for (int idim = 0; idim < _nDim; idim++)
    x0[idim] = _work1[idim];
}
#endif

// Grid as raw storage: fields read by the three functions and by indicesToCoordinateInPlace
struct RawGrid
{
  alignas(16) char buf[sizeof(Grid)];
  Grid* init()
  {
    Grid* g = (Grid*)buf;
    g->_nDim = VF_ND;
    new (&g->_nx) VectorInt(VF_ND);
    new (&g->_x0) VectorDouble(VF_ND);
    new (&g->_dx) VectorDouble(VF_ND);
    new (&g->_iwork0) VectorInt(VF_ND);
    new (&g->_work1) VectorDouble(VF_ND);
    new (&g->_work2) std::vector<double>(VF_ND);
    g->_rotation._nDim = VF_ND;
    g->_rotation._flagRot = false; // unrotated
    return g;
  }
};
static RawGrid G1, G2;
static int nx[VF_ND];
static double x0[VF_ND], dx[VF_ND];
static Grid* make_grid()
{
  Grid* g = G1.init();
  for (int d = 0; d < VF_ND; d++)
  {
    nx[d] = vf_range(1, VF_NXMAX);
    x0[d] = vf_nondet_double();
    dx[d] = vf_nondet_double();
    vf_assume(dx[d] > 0);
    g->_nx[d] = nx[d];
    g->_x0[d] = x0[d];
    g->_dx[d] = dx[d];
  }
  return g;
}

extern "C" void k_dilate()
{
  Grid* g = make_grid();
  int mode = vf_nondet_bool() ? 1 : -1;
  VectorInt nshift(VF_ND);
  int ns[VF_ND];
  for (int d = 0; d < VF_ND; d++)
  {
    ns[d] = vf_range(0, VF_SHIFTMAX);
    nshift[d] = ns[d];
    vf_assume(nx[d] + 2 * mode * ns[d] > 0); // otherwise the function returns without an answer
  }
  VectorInt nxo(VF_ND);
  VectorDouble dxo(VF_ND), x0o(VF_ND);
  g->dilate(mode, nshift, nxo, dxo, x0o);
  for (int d = 0; d < VF_ND; d++)
  {
    vf_assert_id(nxo[d] == nx[d] + 2 * mode * ns[d], "dilate: nshift nodes added (removed) on each side");
    vf_assert_id(req(dxo[d], dx[d]), "dilate: same mesh");
    vf_assert_id(req(x0o[d], x0[d] - (double)(mode * ns[d]) * dx[d]), "dilate: new node i is parent node i - mode*nshift");
  }
  vf_witness();
}

extern "C" void k_multiple()
{
  Grid* g = make_grid();
  bool flagCell = vf_nondet_bool();
  VectorInt nmult(VF_ND);
  int nm[VF_ND], k[VF_ND];
  for (int d = 0; d < VF_ND; d++)
  {
    nm[d] = vf_range(1, VF_MULTMAX);
    nmult[d] = nm[d];
    k[d] = vf_range(0, VF_NXMAX); // any coarse node
  }
  VectorInt nxo(VF_ND);
  VectorDouble dxo(VF_ND), x0o(VF_ND);
  g->multiple(nmult, flagCell, nxo, dxo, x0o);
  for (int d = 0; d < VF_ND; d++)
  {
    vf_assert_id(req(dxo[d], dx[d] * (double)nm[d]), "multiple: mesh is nmult parent meshes");
    double node = x0o[d] + (double)k[d] * dxo[d]; // node k of the coarse grid
    if (flagCell)
    {
      vf_assert_id(nxo[d] * nm[d] <= nx[d] && nx[d] < (nxo[d] + 1) * nm[d], "multiple(cell): as many whole blocks of nmult cells as fit");
      double first = x0[d] + (double)(k[d] * nm[d]) * dx[d];             // centre of the first parent cell of block k
      double last  = x0[d] + (double)(k[d] * nm[d] + nm[d] - 1) * dx[d]; // centre of the last one
      vf_assert_id(req(node + node, first + last), "multiple(cell): node k is the centre of its block of nmult parent cells");
    }
    else
    {
      vf_assert_id(nxo[d] >= 1 && (nxo[d] - 1) * nm[d] <= nx[d] - 1 && nx[d] - 1 < nxo[d] * nm[d], "multiple(point): every nmult-th parent node, up to the last one available");
      vf_assert_id(req(node, x0[d] + (double)(k[d] * nm[d]) * dx[d]), "multiple(point): node k is parent node k*nmult");
    }
  }
  vf_witness();
}

extern "C" void k_divider()
{
  Grid* g = make_grid();
  bool flagCell = vf_nondet_bool();
  VectorInt nmult(VF_ND);
  int nm[VF_ND], k[VF_ND];
  for (int d = 0; d < VF_ND; d++)
  {
    nm[d] = vf_range(1, VF_MULTMAX);
    nmult[d] = nm[d];
    k[d] = vf_range(0, VF_NXMAX * VF_MULTMAX); // any refined node (cell matching) / any parent node (point matching)
  }
  VectorInt nxo(VF_ND);
  VectorDouble dxo(VF_ND), x0o(VF_ND);
  g->divider(nmult, flagCell, nxo, dxo, x0o);
  for (int d = 0; d < VF_ND; d++)
  {
    vf_assert_id(req(dxo[d] * (double)nm[d], dx[d]), "divider: nmult meshes make one parent mesh");
    if (flagCell)
    {
      vf_assert_id(nxo[d] == nx[d] * nm[d], "divider(cell): nmult sub-cells per parent cell");
      // sub-cell j of the row: [x0 - dx/2 + j*dx/nmult, x0 - dx/2 + (j+1)*dx/nmult], node j at its centre
      double node = x0o[d] + (double)k[d] * dxo[d];
      double lo = x0[d] - dx[d] / 2. + (double)k[d] * dx[d] / (double)nm[d];
      double hi = x0[d] - dx[d] / 2. + (double)(k[d] + 1) * dx[d] / (double)nm[d];
      vf_assert_id(req(node + node, lo + hi), "divider(cell): node j is the centre of sub-cell j");
    }
    else
    {
      vf_assert_id(nxo[d] == 1 + (nx[d] - 1) * nm[d], "divider(point): nmult-1 nodes inserted between parent nodes");
      double node = x0o[d] + (double)(k[d] * nm[d]) * dxo[d];
      vf_assert_id(req(node, x0[d] + (double)k[d] * dx[d]), "divider(point): node k*nmult is parent node k");
    }
  }
  vf_witness();
}

extern "C" void k_div_mult()
{
  Grid* g = make_grid();
  bool flagCell = vf_nondet_bool();
  VectorInt nmult(VF_ND);
  for (int d = 0; d < VF_ND; d++) nmult[d] = vf_range(1, VF_MULTMAX);
  VectorInt nx1(VF_ND), nx2(VF_ND);
  VectorDouble dx1(VF_ND), x01(VF_ND), dx2(VF_ND), x02(VF_ND);
  g->divider(nmult, flagCell, nx1, dx1, x01);
  Grid* h = G2.init();
  for (int d = 0; d < VF_ND; d++)
  {
    h->_nx[d] = nx1[d];
    h->_x0[d] = x01[d];
    h->_dx[d] = dx1[d];
  }
  h->multiple(nmult, flagCell, nx2, dx2, x02);
  for (int d = 0; d < VF_ND; d++)
  {
    vf_assert_id(nx2[d] == nx[d], "multiple(divider(g)): node count restored");
    vf_assert_id(req(dx2[d], dx[d]), "multiple(divider(g)): mesh restored");
    vf_assert_id(req(x02[d], x0[d]), "multiple(divider(g)): origin restored");
  }
  vf_witness();
}
