// C13.c: law_gaussian_between_bounds (src/Basic/Law.cpp): Gaussian value drawn under interval
// constraints by acceptance/rejection on 1..4 sub-intervals ((-inf,-2], [-2,0], [0,2], [2,+inf)).
//   * for every pair of bounds a < b, and for one absent bound (TEST), the value returned lies
//     within the bounds that are present;
//   * the sub-interval table is a partition: the cumulated normalised weights end at 1, so the
//     selection loop `while (ptab[isim] < u) isim++` stops inside the table (engine obligation:
//     every read of ptab/itab/atab/btab is in bounds and initialised);
//   * whatever the uniform draws are, the value an accepted iteration returns lies within the bounds.
// FINDING (kernel C13.c.b): with the lower bound absent and bsup < -20 the function works on [-20, bsup] (a > b):
// the single weight is negative, total <= 0, and atab[0] = -20 > bsup is returned.
// The rejection loop `while (ok)` is unbounded.  Nothing is carried from one iteration to the next
// (isim, u, type, aa, bb, x are all rewritten; the tables are not written inside the loop), so the
// value returned is the proposal of the last iteration.  The harness therefore supplies 3*VF_NREJ
// uniform draws (the degenerate branch total <= 0 uses one of them) and a further call of law_uniform ends the path
// (vf_assume(false)): "the proposal is accepted at the latest at iteration VF_NREJ".  VF_NREJ = 1 is
// the inductive step (registered); VF_NREJ = 2 additionally executes a rejected iteration before the accepted
// one (not registered: no solver verdict within 45 minutes).
// Termination (probability one) is outside the claim.
//
// law_uniform is overridden: it returns mini + u*(maxi-mini) with u the next element of an array
// of arbitrary reals in [0,1) drawn up front.
// exp/log are uninterpreted with the axioms of vf/reg/C13.py (positivity, strict monotonicity on the
// terms present, exp(0)=1, log(1)=0, log(exp(x))=x in its order form); sqrt is exact.
#include "vf.h"
#include "Basic/Law.hpp"
#include "Basic/Utilities.hpp"
#include "geoslib_define.h"
#ifndef VF_MODE
#define VF_MODE 0 // 0: both bounds, 1: lower bound only, 2: upper bound only
#endif
#ifndef VF_NREJ
#define VF_NREJ 1
#endif
#define VF_NU (3 * VF_NREJ)

static double U[VF_NU];
static int nu;

// OVERRIDE of law_uniform (src/Basic/Law.cpp)
double law_uniform(double mini, double maxi)
{
  if (nu >= VF_NU)
  {
    vf_assume(false); // acceptance assumed by iteration VF_NREJ
    return mini;
  }
  double u = U[nu++];
  return mini + u * (maxi - mini);
}

static bool ge(double x, double lo)
{
#ifdef VF_NATIVE
  return x >= lo - 1e-9 * (1. + (lo < 0 ? -lo : lo)); // native runs round exp/log/sqrt
#else
  return x >= lo;
#endif
}
static bool le(double x, double hi) { return ge(-x, -hi); }

extern "C" void k_between()
{
  double a0 = vf_finite_double(), b0 = vf_finite_double();
  for (int i = 0; i < VF_NU; i++)
  {
    double r = vf_finite_double();
    vf_assume(r >= -16. && r < 16.);
    U[i] = (r + 16.) / 32.; // arbitrary real in [0,1)
  }
  nu = 0;
  // values above 1e30 are the encoding of "absent": the bounds present are arbitrary reals with |.| <= 1e29
#if VF_MODE == 0
  vf_assume(a0 >= -1.e29 && a0 <= 1.e29 && b0 >= -1.e29 && b0 <= 1.e29);
  vf_assume(a0 < b0);
  double binf = a0, bsup = b0;
#elif VF_MODE == 1
  vf_assume(a0 >= -1.e29 && a0 <= 1.e29);
  double binf = a0, bsup = TEST;
#else
  vf_assume(b0 >= -1.e29 && b0 <= 1.e29);
#ifdef VF_EXCL_FAR
  vf_assume(b0 >= -20.); // known finding excluded: upper bound below -20 with no lower bound
#endif
  double binf = TEST, bsup = b0;
#endif
  // solver hint: the zones of the two bounds
  vf_split(a0 < -2.); vf_split(a0 < 0.); vf_split(a0 < 2.);
  vf_split(b0 <= -2.); vf_split(b0 <= 0.); vf_split(b0 <= 2.);

  double x = law_gaussian_between_bounds(binf, bsup); // REAL

#if VF_MODE != 2
  vf_assert_id(ge(x, a0), "value drawn >= lower bound");
#endif
#if VF_MODE == 0
  vf_assert_id(le(x, b0), "value drawn <= upper bound");
#elif VF_MODE == 2
  // three ids for one property: the function replaces the absent lower bound by -20 (its "large"), so the zone
  // bsup < -20 is its own finding; the narrow zone next to -20 is separate because a solver model 1e-20 below
  // -20 rounds to -20 when replayed
  if (b0 >= -20.)
    vf_assert_id(le(x, b0), "value drawn <= upper bound");
  else if (b0 <= -20.5)
    vf_assert_id(le(x, b0), "value drawn <= upper bound (upper bound <= -20.5, lower bound absent)");
  else
    vf_assert_id(le(x, b0), "value drawn <= upper bound (upper bound in (-20.5,-20), lower bound absent)");
#endif
  vf_witness();
}
