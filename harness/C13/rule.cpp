// C13.d: facies from two gaussian values through a rule tree.
//   Node::proportionToThresh (propagation of the threshold boxes down the tree),
//   Node::gaussianToFacies (lookup), Rule::getFaciesFromGaussian (src/LithoRule/Node.cpp, Rule.cpp)
// for one fixed tree shape per kernel (VF_TREE) and arbitrary thresholds.
// Nodes and the Rule live in raw storage: no constructor (they build std::string names) is run;
// only the fields read by the three functions are initialised.
// Oracle: plain descent of the decision tree (left when the gaussian is below the threshold of the
// node, right when above); points lying on a threshold are excluded (both sides own the border).
#include "vf.h"
#include "LithoRule/Node.hpp"
#include "LithoRule/Rule.hpp"
#include "geoslib_define.h"
#define O_IDLE 0 // THRESH_IDLE, THRESH_Y1, THRESH_Y2 of Node.cpp (file-local #defines there)
#define O_Y1 1
#define O_Y2 2
#ifndef VF_TREE
#define VF_TREE 1
#endif
struct Shape { int orient, r1, r2, facies; };
#if VF_TREE == 1 // Y1 ; F1 | ( Y2 ; F2 | F3 )
#define NN 5
static const Shape SH[NN] = {{O_Y1, 1, 2, 0}, {O_IDLE, -1, -1, 1}, {O_Y2, 3, 4, 0}, {O_IDLE, -1, -1, 2}, {O_IDLE, -1, -1, 3}};
#elif VF_TREE == 2 // Y1 ; ( Y2 ; F1 | F2 ) | ( Y2 ; F3 | F4 )
#define NN 7
static const Shape SH[NN] = {{O_Y1, 1, 4, 0}, {O_Y2, 2, 3, 0}, {O_IDLE, -1, -1, 1}, {O_IDLE, -1, -1, 2},
                             {O_Y2, 5, 6, 0}, {O_IDLE, -1, -1, 3}, {O_IDLE, -1, -1, 4}};
#elif VF_TREE == 3 // Y2 ; ( Y1 ; F2 | ( Y1 ; F1 | F4 ) ) | F3     (depth 3, repeated orientation)
#define NN 7
static const Shape SH[NN] = {{O_Y2, 1, 6, 0}, {O_Y1, 2, 3, 0}, {O_IDLE, -1, -1, 2}, {O_Y1, 4, 5, 0},
                             {O_IDLE, -1, -1, 1}, {O_IDLE, -1, -1, 4}, {O_IDLE, -1, -1, 3}};
#endif
alignas(16) static char nodebuf[NN][sizeof(Node)];
alignas(16) static char rulebuf[sizeof(Rule)];
static Node* nd(int i) { return (Node*)nodebuf[i]; }

// ---- stubs (replace the library's definitions)
// threshold of a decision node: ANY value between the bounds it received for its orientation
// (the real function inverts cumulative proportions through the gaussian cdf / a bivariate integral)
double Node::_threshFromPropcum(double rho)
{
  if (_orient == O_IDLE) return TEST;
  double t = vf_finite_double();
  if (_orient == O_Y1) vf_assume(t >= _t1min && t <= _t1max);
  else                 vf_assume(t >= _t2min && t <= _t2max);
  return t;
}
double Node::_transform(int mode, double value) { return value; } // feeds _cdf* only (not read here)

extern "C" void k_rule_facies()
{
  for (int i = 0; i < NN; i++)
  {
    Node* n = nd(i);
    n->_orient = SH[i].orient;
    n->_facies = SH[i].facies;
    n->_r1 = SH[i].r1 < 0 ? nullptr : nd(SH[i].r1);
    n->_r2 = SH[i].r2 < 0 ? nullptr : nd(SH[i].r2);
    n->_p1 = n->_p2 = n->_prop = 0.;
    n->_thresh = 0.;
  }
  Rule* rule = (Rule*)rulebuf;
  rule->_mainNode = nd(0);
  rule->_rho = 0.;
  double lo = get_rule_extreme(-1), hi = get_rule_extreme(+1);
  vf_assert_id(lo == THRESH_INF && hi == THRESH_SUP, "extremes are THRESH_INF / THRESH_SUP");
  nd(0)->proportionToThresh(0., lo, hi, lo, hi); // REAL: boxes of every node from the thresholds

  double y1 = vf_finite_double(), y2 = vf_finite_double();
  vf_assume(y1 > THRESH_INF && y1 < THRESH_SUP && y2 > THRESH_INF && y2 < THRESH_SUP); // IS_GAUSS_DEF

  // reference: descent, written out for the fixed shape (T(i) = threshold stored in decision node i)
#define T(i) (nd(i)->_thresh)
  int want;
  bool border;
#if VF_TREE == 1
  border = y1 == T(0) || (y1 > T(0) && y2 == T(2));
  want = y1 < T(0) ? 1 : (y2 < T(2) ? 2 : 3);
#elif VF_TREE == 2
  border = y1 == T(0) || (y1 < T(0) && y2 == T(1)) || (y1 > T(0) && y2 == T(4));
  want = y1 < T(0) ? (y2 < T(1) ? 1 : 2) : (y2 < T(4) ? 3 : 4);
#elif VF_TREE == 3
  border = y2 == T(0) || (y2 < T(0) && (y1 == T(1) || (y1 > T(1) && y1 == T(3))));
  want = y2 < T(0) ? (y1 < T(1) ? 2 : (y1 < T(3) ? 1 : 4)) : 3;
#endif
  vf_assume(!border);

  int got = rule->getFaciesFromGaussian(y1, y2); // REAL
  vf_assert_id(got == want, "facies is the leaf reached by descending the thresholds");
  vf_assert_id(rule->getFaciesFromGaussian(TEST, y2) == 0 && rule->getFaciesFromGaussian(y1, TEST) == 0,
               "undefined gaussian gives facies 0");
  vf_witness();
}
