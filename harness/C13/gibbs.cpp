// C13.e (sweep): index arithmetic of one sweep of the multivariate Gibbs samplers
//   GibbsUMulti::update (unique neighbourhood, VF_KIND 0) / GibbsMMulti::update (moving neighbourhood, VF_KIND 1)
// with the real AGibbs::getRank, getSampleRank, _getSampleRankNumber, _isConstraintTight (and, for VF_KIND 0,
// the real _getVariance / _getEstimate / _getSize over the stored inverse covariance matrix).
// The bounded simulation GibbsMulti::getSimulate is checked on its own (harness/C13/gibbs_sim.cpp); here it is
// overridden by a recorder, and the kernel asserts that for every (variable, active sample):
//   * a tight constraint (both bounds equal) gives the bound, without simulation;
//   * otherwise getSimulate is called exactly once, with icase = ivar + nvar*ipgs, the same ipgs / ivar / iact / iter,
//     the conditional mean and standard deviation of THAT equation (VF_KIND 0: -sum_j C(e,j) y_j / C(e,e) over the
//     current vector with the target entry zeroed, 1/sqrt(C(e,e)), e = iact + nact*ivar; VF_KIND 1: the values the
//     stubs give for column iact + nact*ivar; both compared with the reference inside the recorder, where the call
//     is made) and its result is stored in y[icase][iact];
//   * the entries of the other GS are not touched.
// Overrides (exact real signatures):
//   GibbsMulti::getSimulate                           -> records its arguments, returns an arbitrary real
//   Db::getLocVariable(const ELoc&, int, int) const   -> harness tables LB / UB (role recognised by the address
//                                                        of ELoc::L / ELoc::U: static constructors are not run)
//   OptDbg::query                                     -> false
//   VF_KIND 1: GibbsMMulti::_getVariableNumber -> VF_NVAR, _getWeights -> nothing, _getVariance -> arbitrary
//              positive value per column, _getEstimate -> arbitrary value per column (the sparse weights are outside)
#include "vf.h"
#include "geoslib_define.h"
#include "Basic/OptDbg.hpp"
#include "Basic/Utilities.hpp"
#include "Enum/ELoc.hpp"
#include "Db/Db.hpp"
#ifndef VF_KIND
#define VF_KIND 0
#endif
#if VF_KIND == 0
#include "Gibbs/GibbsUMulti.hpp"
typedef GibbsUMulti GB;
extern "C" char vt_GB[] asm("_ZTV11GibbsUMulti");
#else
#include "Gibbs/GibbsMMulti.hpp"
typedef GibbsMMulti GB;
extern "C" char vt_GB[] asm("_ZTV11GibbsMMulti");
#endif
#include <new>
#ifndef VF_NVAR
#define VF_NVAR 2
#endif
#ifndef VF_NACT
#define VF_NACT 2
#endif
#ifndef VF_NS
#define VF_NS (VF_NACT + 1) // samples in the Db
#endif
#define NPGS 2
#define NITEM (NPGS * VF_NVAR)
#define NEQ (VF_NVAR * VF_NACT)

static double LB[VF_NS][NITEM], UB[VF_NS][NITEM];
static int n_bad;
// OVERRIDE
double Db::getLocVariable(const ELoc& loctype, int iech, int item) const
{
  if (iech < 0 || iech >= VF_NS || item < 0 || item >= NITEM)
  {
    n_bad++;
    return TEST;
  }
  if (&loctype == &ELoc::L) return LB[iech][item];
  if (&loctype == &ELoc::U) return UB[iech][item];
  n_bad++;
  return TEST;
}
// OVERRIDE
bool OptDbg::query(const EDbg&, bool) { return false; }

// OVERRIDE: recorder
static bool eq(double got, double want);
#if VF_KIND == 0
static double CM[NEQ * NEQ]; // copy of the inverse covariance matrix for the reference
#else
static double VK[NEQ], EK[NEQ];
#endif
// The record is filed under the (ivar, iact) the caller passes (concrete loop counters of the sweep), so that no
// symbolic call count is needed; calls with ranks out of range or repeated are counted.
static const VectorVectorDouble* y_expected;
static int C_okmean[NEQ], C_oksd[NEQ]; // reference conditional mean / st.dev. compared where the call is made
static int C_cnt[NEQ], C_yok[NEQ], C_icase[NEQ], C_ipgs[NEQ], C_iter[NEQ];
static double C_snap[NEQ][NITEM * VF_NACT]; // the vector as the simulation sees it
static double RV[NEQ];
static int n_badcall;
double GibbsMulti::getSimulate(VectorVectorDouble& y, double yk, double sk, int icase, int ipgs, int ivar, int iact, int iter)
{
  if (ivar < 0 || ivar >= VF_NVAR || iact < 0 || iact >= VF_NACT)
  {
    n_badcall++;
    return 0.;
  }
  int k = iact + VF_NACT * ivar;
  C_cnt[k]++;
  C_yok[k] = (&y == y_expected) ? 1 : 0;
  const VectorVectorDouble& cy = y;
  for (int c = 0; c < NITEM; c++)
    for (int j = 0; j < VF_NACT; j++) C_snap[k][c * VF_NACT + j] = cy[c][j];
  C_icase[k] = icase; C_ipgs[k] = ipgs; C_iter[k] = iter;
  // reference: equation e = iact + nact*ivar of the system of this GS
  const int e = k;
#if VF_KIND == 0
  double est = 0.;
  for (int jv = 0; jv < VF_NVAR; jv++)
    for (int ja = 0; ja < VF_NACT; ja++) est -= cy[jv + VF_NVAR * ipgs][ja] * CM[e * NEQ + ja + VF_NACT * jv];
  C_okmean[k] = eq(yk, est * (1. / CM[e * NEQ + e])) ? 1 : 0;
  C_oksd[k] = (sk >= 0. && eq(sk * sk * CM[e * NEQ + e], 1.)) ? 1 : 0;
#else
  C_okmean[k] = eq(yk, EK[e] * VK[e]) ? 1 : 0;
  C_oksd[k] = (sk >= 0. && eq(sk * sk, VK[e])) ? 1 : 0;
#endif
  return RV[k];
}

#if VF_KIND == 1
static int n_badcol;
int GibbsMMulti::_getVariableNumber() const { return VF_NVAR; }
void GibbsMMulti::_getWeights(int) const {}
double GibbsMMulti::_getVariance(int icol) const
{
  if (icol < 0 || icol >= NEQ) { n_badcol++; return 1.; }
  return VK[icol];
}
double GibbsMMulti::_getEstimate(int, int icol, const VectorVectorDouble&) const
{
  if (icol < 0 || icol >= NEQ) { n_badcol++; return 0.; }
  return EK[icol];
}
#endif

alignas(16) static char gbuf[sizeof(GB)];
alignas(16) static char dbbuf[64];

static bool eq(double got, double want)
{
#ifdef VF_NATIVE
  double d = got - want; if (d < 0) d = -d;
  double s = want < 0 ? -want : want;
  return d <= 1e-9 * (1. + s); // native runs round the sums of products / the square root
#else
  return got == want;
#endif
}
static double absd(double x) { return x < 0 ? -x : x; }

// the GS rank is concrete per entry (a symbolic rank would make y[icase] a symbolic choice between shared vectors)
static void run(const int ipgs)
{
  // ---- all inputs up front
  bool la[VF_NS][NITEM], ua[VF_NS][NITEM];
  for (int s = 0; s < VF_NS; s++)
    for (int c = 0; c < NITEM; c++)
    {
      double l = vf_finite_double(), w = absd(vf_finite_double());
      vf_assume(l >= -1.e29 && l <= 1.e29 && w <= 1.e29);
      la[s][c] = vf_nondet_bool();
      ua[s][c] = vf_nondet_bool();
      LB[s][c] = la[s][c] ? TEST : l;
      UB[s][c] = ua[s][c] ? TEST : l + w; // ordered bounds (AGibbs::_boundsCheck refuses the others); w == 0: tight
    }
  for (int k = 0; k < NEQ; k++) RV[k] = vf_finite_double();
  int rk[VF_NACT];
  for (int i = 0; i < VF_NACT; i++) rk[i] = vf_range(0, VF_NS - 1);
  int iter = vf_range(0, 2000);
  double y0[NITEM][VF_NACT];
  for (int c = 0; c < NITEM; c++)
    for (int i = 0; i < VF_NACT; i++) y0[c][i] = vf_finite_double();
#if VF_KIND == 0
  for (int i = 0; i < NEQ * NEQ; i++) CM[i] = vf_finite_double();
  for (int i = 0; i < NEQ; i++)
  {
    double q = CM[i * NEQ + i];
    vf_assume(q != 0.);
    CM[i * NEQ + i] = q * q; // inverse of a positive definite matrix: positive diagonal (any positive real is a square)
  }
#else
  for (int i = 0; i < NEQ; i++)
  {
    double q = vf_finite_double();
    EK[i] = vf_finite_double();
    vf_assume(q != 0.);
    VK[i] = q * q; // positive variance
  }
  n_badcol = 0;
#endif

  // ---- the sampler object (raw storage, only the fields read)
  GB* g = (GB*)gbuf;
  *(void**)gbuf = (void*)(vt_GB + 16);
  g->_npgs = NPGS;
  g->_nvar = VF_NVAR;
  g->_nburn = 10;
  g->_niter = 2000;
  g->_flagOrder = 0;
  g->_flagDecay = false;
  g->_optionStats = 0;
  new (&g->_ranks) VectorInt(VF_NACT);
  for (int i = 0; i < VF_NACT; i++) g->_ranks[i] = rk[i];
  g->_db = (Db*)dbbuf;
  g->_model = nullptr;
#if VF_KIND == 0
  new (&g->_covmat) VectorDouble(NEQ * NEQ);
  for (int i = 0; i < NEQ * NEQ; i++) g->_covmat[i] = CM[i];
#endif
  VectorVectorDouble y(NITEM);
  for (int c = 0; c < NITEM; c++)
  {
    y[c].resize(VF_NACT);
    for (int i = 0; i < VF_NACT; i++) y[c][i] = y0[c][i];
  }
  n_bad = 0;
  n_badcall = 0;
  for (int k = 0; k < NEQ; k++) C_cnt[k] = 0;
  y_expected = &y;

  g->update(y, 0, ipgs, iter); // REAL

  vf_assert_id(n_bad == 0, "bounds read at an existing (sample, item) with role L or U");
#if VF_KIND == 1
  vf_assert_id(n_badcol == 0, "column rank of the weights within nvar*nact");
#endif
  // reference sweep over a copy of the initial vector
  double yy[NITEM][VF_NACT];
  for (int c = 0; c < NITEM; c++)
    for (int i = 0; i < VF_NACT; i++) yy[c][i] = y0[c][i];
  vf_assert_id(n_badcall == 0, "simulation called with variable / sample ranks in range");
  for (int ivar = 0; ivar < VF_NVAR; ivar++)
    for (int i = 0; i < VF_NACT; i++)
    {
      const int item = ivar + VF_NVAR * ipgs; // reference: item of (GS, variable)
      const int e = i + VF_NACT * ivar;       // reference: equation of (variable, sample)
      int s = rk[i];                          // reference: absolute rank of the active sample
      double v = y[item][i];
      bool hasl = !la[s][item], hasu = !ua[s][item];
      double lo = LB[s][item], up = UB[s][item];
      if (hasl && hasu && up - lo <= EPSILON10)
      {
        // tight constraint (isEqual with its default tolerance): no simulation, the value is the lower bound
        vf_assert_id(C_cnt[e] == 0, "tight constraint: no simulation");
        vf_assert_id(v == lo, "tight constraint gives the bound");
        yy[item][i] = lo;
        continue;
      }
      vf_assert_id(C_cnt[e] == 1, "exactly one simulation per (variable, active sample) that is not tight");
      vf_assert_id(C_yok[e] == 1, "simulation receives the current vector");
      vf_assert_id(C_icase[e] == item, "simulation called with icase = ivar + nvar*ipgs");
      vf_assert_id(C_ipgs[e] == ipgs, "simulation called with the GS rank of the sweep");
      vf_assert_id(C_iter[e] == iter, "simulation called with the iteration of the sweep");
      yy[item][i] = 0.;
      bool same = true;
      for (int c2 = 0; c2 < NITEM; c2++)
        for (int j = 0; j < VF_NACT; j++) same = same && C_snap[e][c2 * VF_NACT + j] == yy[c2][j];
      vf_assert_id(same, "vector seen by the simulation = initial vector with the earlier results stored and the target entry zeroed");
#if VF_KIND == 0
      vf_assert_id(C_okmean[e] == 1, "conditional mean of the equation of this (variable, sample): -sum_j C(e,j) y_j / C(e,e)");
      vf_assert_id(C_oksd[e] == 1, "conditional standard deviation 1/sqrt(C(e,e))");
#else
      vf_assert_id(C_okmean[e] == 1, "conditional mean of the column of this (variable, sample)");
      vf_assert_id(C_oksd[e] == 1, "conditional standard deviation of the column of this (variable, sample)");
#endif
      vf_assert_id(v == RV[e], "simulated value stored at y[icase][iact]");
      yy[item][i] = RV[e];
    }
  for (int c = 0; c < NITEM; c++)
    if (c / VF_NVAR != ipgs)
      for (int i = 0; i < VF_NACT; i++) vf_assert_id(y[c][i] == y0[c][i], "values of the other GS untouched");
  vf_witness();
}
extern "C" void k_gibbs_gs0() { run(0); }
extern "C" void k_gibbs_gs1() { run(1); }
