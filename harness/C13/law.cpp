// C13.a / C13.b: the old-style congruential generator of src/Basic/Law.cpp
//   law_set_random_seed, law_get_random_seed, law_uniform, law_int_uniform.
// The generator style flag is fixed to Random_Old_Style = true through law_set_old_style(true)
// (the std::mt19937 branch is then never executed).
// Generator state = the file-static Random_value, written through law_set_random_seed (any
// positive int) and read through law_get_random_seed.
#include "vf.h"
#include "Basic/Law.hpp"
#include <limits.h>
#define VF_P 20000159 // Random_congruent (documented only by the source)
#ifndef VF_NDRAW
#define VF_NDRAW 3
#endif

static void range_asserts(double mini, double maxi, double u, int st)
{
  vf_assert_id(st > 0 && st < VF_P, "state stays in (0, 20000159)");
  vf_assert_id(u >= mini && u < maxi, "value in [mini, maxi)");
  vf_assert_id(u > mini, "value strictly above mini");
}

// first draw after seeding, for every seed in (0, INT_MAX] and every prior state
extern "C" void k_seed_first_draw()
{
  law_set_old_style(true);
  law_set_random_seed(vf_range(1, INT_MAX)); // arbitrary prior state
  int seed = vf_range(1, INT_MAX);
  double mini = vf_finite_double(), maxi = vf_finite_double();
  vf_assume(mini < maxi);
  law_set_random_seed(seed);
  double u = law_uniform(mini, maxi);
  range_asserts(mini, maxi, u, law_get_random_seed());
  vf_witness();
}

// inductive step: any state in (0, 20000159) -> one draw
extern "C" void k_step()
{
  law_set_old_style(true);
  int s = vf_range(1, VF_P - 1);
  double mini = vf_finite_double(), maxi = vf_finite_double();
  vf_assume(mini < maxi);
  law_set_random_seed(s);
  double u = law_uniform(mini, maxi);
  range_asserts(mini, maxi, u, law_get_random_seed());
  vf_witness();
}

// same seed => same stream, whatever the two prior states
extern "C" void k_same_stream()
{
  law_set_old_style(true);
  int seed = vf_range(1, INT_MAX);
  double mini = vf_finite_double(), maxi = vf_finite_double();
  vf_assume(mini < maxi);
  double a[VF_NDRAW], b[VF_NDRAW];
  law_set_random_seed(vf_range(1, INT_MAX));
  law_set_random_seed(seed);
  for (int i = 0; i < VF_NDRAW; i++) a[i] = law_uniform(mini, maxi);
  int sa = law_get_random_seed();
  law_set_random_seed(vf_range(1, INT_MAX));
  law_set_random_seed(seed);
  for (int i = 0; i < VF_NDRAW; i++) b[i] = law_uniform(mini, maxi);
  int sb = law_get_random_seed();
  for (int i = 0; i < VF_NDRAW; i++) vf_assert_id(a[i] == b[i], "same seed gives the same stream");
  vf_assert_id(sa == sb, "same seed gives the same final state");
  vf_witness();
}

// C13.b: law_int_uniform from any state of the invariant
extern "C" void k_int_uniform()
{
  law_set_old_style(true);
  int s = vf_range(1, VF_P - 1);
  int mini = vf_nondet_int(), maxi = vf_nondet_int();
  vf_assume(mini <= maxi);
  // clang compiles maxi - mini + 1 as (1 - mini) + maxi: below INT_MIN + 2 the intermediate wraps (harmless on the
  // machine, but outside the Int encoding of the engine)
  vf_assume(mini >= INT_MIN + 2);
  vf_assume((long)maxi - (long)mini < (long)VF_SPAN); // number = maxi - mini + 1 must be representable
  law_set_random_seed(s);
  int r = law_int_uniform(mini, maxi);
  vf_assert_id(r >= mini && r <= maxi, "result in [mini, maxi]");
  int st = law_get_random_seed();
  vf_assert_id(st > 0 && st < VF_P, "state stays in (0, 20000159)");
  vf_witness();
}
