// C13.e (simulation): GibbsMulti::getSimulate (VF_KIND 0) / GibbsMultiMono::getSimulate (VF_KIND 1), the functions
// through which every multivariate Gibbs sampler (GibbsUMulti, GibbsMMulti, GibbsUMultiMono, GibbsUPropMono) draws
// the new value of one (variable, active sample), with the real AGibbs::getSampleRank, getRank, _getBoundsDecay, FFFF.
// For every (icase, iact), conditional mean yk and standard deviation sk > 0:
//   * the bounds handed to law_gaussian_between_bounds are those the Db stores for THAT sample (absolute rank through
//     _ranks, or iact itself when no selection is active) and THAT item icase, centred and scaled:
//     (bound - m)/s with (m, s) = (yk, sk)  [VF_KIND 1, second variable: m = yk*sqrt(1-rho^2) + rho*y[first][iact], s = sk*sqrt(1-rho^2)];
//     an absent bound (TEST) is handed over as absent; both absent: the unbounded law_gaussian is used;
//   * the value returned is yk + sk * draw;
//   * hence (property C13) whenever the draw lies within the bounds it received, the Gaussian value m + s*draw lies within
//     the stored bounds of its own (sample, variable).
// The bounds tables are arbitrary, so reading the bounds of another sample / item is detected.
// Overrides (exact real signatures):
//   Db::getLocVariable(const ELoc&, int, int) const   -> harness tables LB / UB (role recognised by the address of ELoc::L / ELoc::U)
//   law_gaussian_between_bounds(binf, bsup)           -> records the bounds, returns an arbitrary real
//   law_gaussian(mean, sigma)                         -> records "no bound", returns mean + sigma * arbitrary real
#include "vf.h"
#include "geoslib_define.h"
#include "Basic/Law.hpp"
#include "Basic/Utilities.hpp"
#include "Enum/ELoc.hpp"
#include "Db/Db.hpp"
#include "Gibbs/GibbsUMulti.hpp"
#include "Gibbs/GibbsMultiMono.hpp"
#include <math.h>
#include <new>
#ifndef VF_KIND
#define VF_KIND 0
#endif
#if VF_KIND == 0
typedef GibbsMulti GB;
#else
typedef GibbsMultiMono GB;
#endif
#define NVAR 2
#define NACT 2
#define NS 3
#define NPGS 2
#define NITEM (NPGS * NVAR)

static double LB[NS][NITEM], UB[NS][NITEM];
static int n_bad;
// OVERRIDE
double Db::getLocVariable(const ELoc& loctype, int iech, int item) const
{
  if (iech < 0 || iech >= NS || item < 0 || item >= NITEM)
  {
    n_bad++;
    return TEST;
  }
  if (&loctype == &ELoc::L) return LB[iech][item];
  if (&loctype == &ELoc::U) return UB[iech][item];
  n_bad++;
  return TEST;
}
static double G, BI, BS;
static int ndraw, nfree;
// OVERRIDE
double law_gaussian_between_bounds(double binf, double bsup)
{
  ndraw++;
  BI = binf;
  BS = bsup;
  return G;
}
// OVERRIDE
double law_gaussian(double mean, double sigma)
{
  ndraw++;
  nfree++;
  return mean + sigma * G;
}

alignas(16) static char gbuf[sizeof(GibbsUMulti) > sizeof(GibbsMultiMono) ? sizeof(GibbsUMulti) : sizeof(GibbsMultiMono)];
alignas(16) static char dbbuf[64];

static bool eq(double got, double want)
{
#ifdef VF_NATIVE
  double d = got - want; if (d < 0) d = -d;
  double s = want < 0 ? -want : want;
  return d <= 1e-9 * (1. + s); // native runs round the centring / scaling
#else
  return got == want;
#endif
}
static bool ge(double x, double lo)
{
#ifdef VF_NATIVE
  return x >= lo - 1e-9 * (1. + (lo < 0 ? -lo : lo));
#else
  return x >= lo;
#endif
}
static double absd(double x) { return x < 0 ? -x : x; }
static double boxed(double m) // arbitrary real in [-m, m]
{
  double r = vf_finite_double();
  vf_assume(r >= -m && r <= m);
  return r;
}

// sel: a selection is active (_ranks maps active samples to absolute ranks); ipgs concrete per entry
static void run(const bool sel, const int ipgs)
{
  // ---- all inputs up front.  Magnitudes are boxed so that a centred and scaled bound stays far below 1e30, the value
  // from which the library reads a number as "absent"
  bool la[NS][NITEM], ua[NS][NITEM];
  for (int s = 0; s < NS; s++)
    for (int c = 0; c < NITEM; c++)
    {
      double l = boxed(1.e6), w = absd(boxed(1.e6));
      la[s][c] = vf_nondet_bool();
      ua[s][c] = vf_nondet_bool();
      LB[s][c] = la[s][c] ? TEST : l;
      UB[s][c] = ua[s][c] ? TEST : l + w; // ordered bounds (AGibbs::_boundsCheck refuses the others)
    }
  G = vf_finite_double();
  int rk[NACT];
  for (int i = 0; i < NACT; i++) rk[i] = vf_range(0, NS - 1);
  const int ivar = vf_range(0, NVAR - 1);
  const int iact = vf_range(0, NACT - 1);
  bool decay = vf_nondet_bool();
  int nburn = vf_range(1, 1000), iter = vf_range(0, 2000);
  double yk = boxed(1.e6), sk = absd(boxed(1.e3));
  vf_assume(sk >= 1.e-3);
  double y0[NACT];
  for (int i = 0; i < NACT; i++) y0[i] = boxed(1.e6);
  double rho = boxed(16.) / 16.5; // correlation, |rho| <= 0.97
  // bounds are honoured once the decay of the burn-in stage is over (or absent)
  vf_assume(!decay || iter > nburn);
  const int icase = ivar + NVAR * ipgs;

  GB* g = (GB*)gbuf;
  g->_npgs = NPGS;
  g->_nvar = NVAR;
  g->_nburn = nburn;
  g->_niter = 2000;
  g->_flagOrder = 0;
  g->_flagDecay = decay;
  g->_optionStats = 0;
  new (&g->_ranks) VectorInt(sel ? NACT : 0);
  if (sel)
    for (int i = 0; i < NACT; i++) g->_ranks[i] = rk[i];
  g->_db = (Db*)dbbuf;
#if VF_KIND == 1
  g->_rho = rho;
#endif
  VectorVectorDouble y(NITEM);
  for (int c = 0; c < NITEM; c++)
  {
    y[c].resize(NACT);
    for (int i = 0; i < NACT; i++) y[c][i] = (c == NVAR * ipgs) ? y0[i] : 0.;
  }
  n_bad = 0;
  ndraw = 0;
  nfree = 0;
  BI = BS = TEST;

  double v = g->GB::getSimulate(y, yk, sk, icase, ipgs, ivar, iact, iter); // REAL

  // ---- reference
  int s = sel ? rk[iact] : iact;
  bool hasl = !la[s][icase], hasu = !ua[s][icase];
  double lo = LB[s][icase], up = UB[s][icase];
  double m = yk, sd = sk;
#if VF_KIND == 1
  if (ivar > 0)
  {
    double sqr = sqrt(1. - rho * rho);
    m = yk * sqr + rho * y0[iact];
    sd = sk * sqr;
  }
#endif
  vf_assert_id(n_bad == 0, "bounds read at an existing (sample, item) with role L or U");
  vf_assert_id(ndraw == 1, "exactly one draw");
  vf_assert_id((nfree == 1) == (!hasl && !hasu), "unbounded draw iff the sample has no bound for this variable");
  vf_assert_id(eq(v, yk + sk * G), "value returned = yk + sk * draw");
  if (hasl || hasu)
  {
    vf_assert_id(FFFF(BI) == !hasl, "lower bound handed to the draw iff the sample has one for this variable");
    vf_assert_id(FFFF(BS) == !hasu, "upper bound handed to the draw iff the sample has one for this variable");
    if (hasl) vf_assert_id(eq(BI * sd, lo - m), "lower bound handed to the draw = (stored lower bound of this (sample, variable) - mean) / st.dev.");
    if (hasu) vf_assert_id(eq(BS * sd, up - m), "upper bound handed to the draw = (stored upper bound of this (sample, variable) - mean) / st.dev.");
    bool inb = (FFFF(BI) || G >= BI) && (FFFF(BS) || G <= BS);
    if (inb)
    {
      double z = m + sd * G; // the Gaussian value of the variable itself
      if (hasl) vf_assert_id(ge(z, lo), "draw within the bounds received => gaussian value >= lower bound of its own (sample, variable)");
      if (hasu) vf_assert_id(ge(-z, -up), "draw within the bounds received => gaussian value <= upper bound of its own (sample, variable)");
    }
  }
  vf_witness();
}
extern "C" void k_sim_sel_gs1() { run(true, 1); }
extern "C" void k_sim_nosel_gs0() { run(false, 0); }
