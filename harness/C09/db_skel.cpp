// C09.f2: control skeleton of Db::_deserialize (src/Db/Db.cpp) with the record readers replaced by an arbitrary
// source: _recordRead<int> yields an arbitrary value or fails, _recordReadVec<String> / _recordReadVecInPlace<double>
// succeed or fail arbitrarily, locatorIdentify succeeds or fails arbitrarily.  The Db primitives the loader hands the
// decoded content to (resetDims, _loadData, setNameByUID, setLocatorByUID) are recorders.
//   VF_COUNTS=1  k_db_counts: ncol and nech read from the file are arbitrary ints.  The constructor
//                VectorT<double>(count) (the value buffer "allvalues(nech * ncol)") is a probe: the counts must have
//                been range-checked (both >= 0, product representable) before they size it; the kernel stops there.
//                A path that returns without sizing anything must return false or have dimensioned the Db with
//                non-negative counts.
//   VF_COUNTS=0  k_db_skeleton: the file announces VF_NCOL columns and VF_NECH samples (valid counts); everything
//                else arbitrary.  A true return means: every record was read, every locator was identified, the Db
//                was dimensioned VF_NCOL x VF_NECH, received the VF_NCOL*VF_NECH values read, and every column
//                received its name and its locator.
#include "vf.h"
#include "Db/Db.hpp"
#include "Db/PtrGeos.hpp"
#include "Enum/ELoadBy.hpp"
#ifndef VF_NCOL
#define VF_NCOL 2
#endif
#ifndef VF_NECH
#define VF_NECH 2
#endif
#ifndef VF_COUNTS
#define VF_COUNTS 0
#endif

// ---- arbitrary record source (all drawn up front)
static int src_ncol, src_nech;
static bool src_ok_ncol, src_ok_nech, src_ok_loc, src_ok_names;
static bool src_ok_line[VF_NECH];
static double src_val[VF_NECH][VF_NCOL];
static int src_locerr[VF_NCOL];  // return code of locatorIdentify for the k-th locator
static int src_locnum[VF_NCOL];  // index it reports
static int n_int, n_vec, n_line, n_locid;
static bool src_failed, loc_failed;
// ---- what the Db primitives received
static int rec_resetdims, rec_ncol, rec_nech;
static int rec_load, rec_load_size;
static bool rec_load_vals;
static int rec_names, rec_locs;
static bool rec_names_ok, rec_locs_ok;
static void src_draw()
{
  src_ncol = vf_nondet_int();
  src_nech = vf_nondet_int();
  src_ok_ncol = vf_nondet_bool();
  src_ok_nech = vf_nondet_bool();
  src_ok_loc = vf_nondet_bool();
  src_ok_names = vf_nondet_bool();
  for (int i = 0; i < VF_NECH; i++)
  {
    src_ok_line[i] = vf_nondet_bool();
    for (int j = 0; j < VF_NCOL; j++) src_val[i][j] = vf_nondet_double();
  }
  for (int j = 0; j < VF_NCOL; j++)
  {
    src_locerr[j] = vf_range(0, 1);
    src_locnum[j] = vf_range(0, 3);
  }
  n_int = n_vec = n_line = n_locid = 0;
  src_failed = loc_failed = false;
  rec_resetdims = rec_load = rec_names = rec_locs = 0;
  rec_ncol = rec_nech = rec_load_size = -1;
  rec_load_vals = rec_names_ok = rec_locs_ok = true;
}
template <> bool ASerializable::_recordRead<int>(std::istream&, const String&, int& val)
{
  int k = n_int++;
  bool ok = (k == 0) ? src_ok_ncol : src_ok_nech;
  val = 0;
  if (!ok) { src_failed = true; return false; }
  val = (k == 0) ? src_ncol : src_nech;
  return true;
}
template <> bool ASerializable::_recordReadVec<String>(std::istream&, const String&, VectorT<String>& vec, int nvalues)
{
  int k = n_vec++;
  bool ok = (k == 0) ? src_ok_loc : src_ok_names;
  if (!ok) { src_failed = true; return false; }
#if !VF_COUNTS
  for (int i = 0; i < nvalues; i++) vec.push_back(String()); // content of the strings: outside the kernel
#endif
  return true;
}
template <> bool ASerializable::_recordReadVecInPlace<double>(std::istream&, const String&, VectorDouble::iterator& it, int nvalues)
{
  int k = n_line < VF_NECH ? n_line : VF_NECH - 1;
  n_line++;
  if (!src_ok_line[k]) { src_failed = true; return false; }
#if !VF_COUNTS
  for (int j = 0; j < nvalues && j < VF_NCOL; j++) { *it = src_val[k][j]; it++; }
#endif
  return true;
}
int locatorIdentify(String, ELoc* ret_locatorType, int* ret_locatorIndex, int* ret_mult)
{
  int k = n_locid < VF_NCOL ? n_locid : VF_NCOL - 1;
  n_locid++;
  *ret_locatorIndex = src_locnum[k]; // *ret_locatorType stays as the caller built it (UNKNOWN)
  *ret_mult = 0;
  if (src_locerr[k] != 0) loc_failed = true;
  return src_locerr[k];
}
void Db::resetDims(int ncol, int nech)
{
  rec_resetdims++;
  rec_ncol = ncol;
  rec_nech = nech;
}
void Db::_loadData(const ELoadBy&, bool, const VectorDouble& tab)
{
  rec_load++;
  rec_load_size = (int)tab.size();
#if !VF_COUNTS
  if (tab.size() == (size_t)(VF_NCOL * VF_NECH))
    for (int i = 0; i < VF_NECH; i++)
      for (int j = 0; j < VF_NCOL; j++) rec_load_vals = rec_load_vals && tab[j + VF_NCOL * i] == src_val[i][j];
#endif
}
void Db::setNameByUID(int iuid, const String&)
{
  rec_names_ok = rec_names_ok && iuid == rec_names;
  rec_names++;
}
void Db::setLocatorByUID(int iuid, const ELoc&, int locatorIndex, bool)
{
  int k = rec_locs < VF_NCOL ? rec_locs : VF_NCOL - 1;
  rec_locs_ok = rec_locs_ok && iuid == rec_locs && locatorIndex == src_locnum[k];
  rec_locs++;
}
void messerr(const char*, ...) {}
// the library's default constructor copies the static object ELoc::UNKNOWN, which only static constructors fill
ELoc::ELoc() : AEnum("UNKNOWN", -1, "Unknown locator") {}
void Db::_clear(void) {} // locator tables (ELoc enumeration needs static constructors) are not part of the kernel

#ifdef VF_SOLVER
extern "C" size_t strlen(const char* s) { size_t n = 0; while (s[n] != 0) n++; return n; }
#endif
alignas(16) static char vf_isbuf[sizeof(std::istream)];
#define VF_IS (*(std::istream*)vf_isbuf)

#if VF_COUNTS
struct VfStop { int dummy; };
static bool probe_armed;
template <> VectorT<double>::VectorT(size_type count, const double&) : _v(std::make_shared<Vector>())
{
  if (probe_armed)
  {
    vf_assert_id(src_ncol >= 0 && src_nech >= 0,
                 "ncol and nech read from the file are checked to be non-negative before they size the value buffer");
    long prod = (long)src_ncol * (long)src_nech;
    vf_assert_id(prod < -2147483648L || prod > 2147483647L || count == (size_type)prod || prod < 0,
                 "harness: the probe sees the product of the counts");
    vf_assert_id(prod >= -2147483648L && prod <= 2147483647L,
                 "nech * ncol is checked to be representable before it sizes the value buffer");
    throw VfStop();
  }
}
extern "C" void k_db_counts()
{
  src_draw();
  Db b;
  probe_armed = true;
  bool ok = false, stopped = false;
  try
  {
    ok = b.Db::_deserialize(VF_IS, false);
  }
  catch (const VfStop&)
  {
    stopped = true;
  }
  probe_armed = false;
  if (!stopped && ok)
    vf_assert_id(!src_failed && rec_resetdims == 1 && rec_ncol >= 0 && rec_nech >= 0,
                 "true return without sizing the value buffer: records read, Db dimensioned with non-negative counts");
  vf_witness();
}
#else
extern "C" void k_db_skeleton()
{
  src_draw();
  src_ncol = VF_NCOL; // the file announces valid counts
  src_nech = VF_NECH;
  Db b;
  bool ok = b.Db::_deserialize(VF_IS, false);
  if (ok)
  {
    vf_assert_id(!src_failed, "true return: every record was read");
    vf_assert_id(!loc_failed, "true return: every locator was identified");
    if (!src_failed && !loc_failed)
    {
    vf_assert_id(rec_resetdims == 1 && rec_ncol == VF_NCOL && rec_nech == VF_NECH,
                 "true return: the Db was dimensioned with the announced counts");
    vf_assert_id(rec_load == 1 && rec_load_size == VF_NCOL * VF_NECH && rec_load_vals,
                 "true return: the Db received the ncol*nech values read");
    vf_assert_id(rec_names == VF_NCOL && rec_names_ok && rec_locs == VF_NCOL && rec_locs_ok,
                 "true return: every column received its name and its locator");
    }
  }
  vf_witness();
}
#endif
