// C09.e: the REAL csv_table_read (src/Core/convert.cpp) on an arbitrary CSV file seen as an arbitrary sequence of lines
// of fields: row / column accounting.  Db::resetFromCSV dimensions the Db from (tab.size(), nrow) and loads 'tab' as
// nrow rows of ncol values, so at a successful return tab.size() == ncol * nrow must hold (and the header, when there is
// one, must name ncol columns).
//   VF_NLINES  lines in the file (0..VF_NLINES), VF_NTOK fields per line (0..VF_NTOK; 0 = empty line)
//   VF_RECT=1  the file is rectangular: every non-empty data line holds at least as many fields as the column count
//              (header, else first data line); additionally the values stored are the fields of the file in row order
//   VF_RECT=0  arbitrary (ragged) file
// The function is compiled out of line (-fno-inline) and reached through the wrapper of inst_csv.cpp; its iostream /
// std::string callees are defined below for the SOLVER build over the abstract file.  The NATIVE build writes the same
// file as text (separator ',', numbers with one decimal, "NA", "xyz") and runs the real libstdc++ / gslSafeGetline / toDouble.
#include "vf.h"
#ifdef VF_NATIVE
#include <stdio.h>
#include <unistd.h>
#endif
#ifndef VF_NLINES
#define VF_NLINES 3
#endif
#ifndef VF_NTOK
#define VF_NTOK 3
#endif
#ifndef VF_RECT
#define VF_RECT 0
#endif
#define VF_VMAX 999
#define TEST 1.234e30 // include/geoslib_define.h
#define VF_CAP (VF_NLINES * VF_NTOK)
enum { TK_NUM = 0, TK_NA = 1, TK_GARBAGE = 2 };
static int f_nlines;
static int f_ntok[VF_NLINES];
static int f_cls[VF_NLINES][VF_NTOK];
static double f_val[VF_NLINES][VF_NTOK];
static int a_header, a_nskip, a_ncol_max, a_nrow_max;
static void vf_file_draw()
{
  f_nlines = vf_range(0, VF_NLINES);
  for (int l = 0; l < VF_NLINES; l++)
  {
    f_ntok[l] = vf_range(0, VF_NTOK);
    for (int t = 0; t < VF_NTOK; t++)
    {
      f_cls[l][t] = vf_range(0, 2);
      f_val[l][t] = vf_grid_double(VF_VMAX);
    }
  }
  a_header = vf_range(0, 1);
  a_nskip = vf_range(0, 1);
  a_ncol_max = vf_range(-1, VF_NTOK); // -1 / 0: no limit
  a_nrow_max = vf_range(-1, VF_NLINES);
}
extern "C" int vf_call_csv_table_read(const char* fname, int flag_header, int nskip, int ncol_max, int nrow_max,
                                      int* ncol, int* nrow, int* nnames, int* tabsize, double* out, int cap);

#ifdef VF_NATIVE
static char vf_fname[64];
static const char* vf_file_open()
{
  snprintf(vf_fname, sizeof(vf_fname), "/tmp/vf_csv_%d.csv", (int)getpid());
  FILE* f = fopen(vf_fname, "w");
  for (int l = 0; l < f_nlines; l++)
  {
    for (int t = 0; t < f_ntok[l]; t++)
    {
      if (t > 0) fputc(',', f);
      if (a_header && l == 0) fprintf(f, "c%d", t);
      else switch (f_cls[l][t])
      {
        case TK_NUM: fprintf(f, "%.1f", f_val[l][t]); break;
        case TK_NA: fputs("NA", f); break;
        default: fputs("xyz", f); break;
      }
    }
    fputc('\n', f);
  }
  fclose(f);
  return vf_fname;
}
static void vf_file_close() { remove(vf_fname); }
#else
// ------------------------------------------------------------------ solver: abstract callees
static const char* vf_file_open() { return "f.csv"; }
static void vf_file_close() {}
struct VfAbsStr { long kind; long a; long b; long pad; };                       // overlays a std::string (32 bytes)
struct VfAbsIos { long eof; long fail; long kind; long a; long b; long pos; };  // kept at (stream + 128)
enum { S_EMPTY = 0, S_LINE = 1, S_FIELD = 2, S_LIT = 3, S_FILE = 4 };          // S_LIT: a = 1 for the literal "NA"
#define VF_IOS_OFF 128
static long vf_fake_vtable[4] = {VF_IOS_OFF, 0, 0, 0}; // [-3] of the vptr: offset of the virtual base basic_ios
static VfAbsIos* vf_ios_of(void* stream) { return (VfAbsIos*)((char*)stream + VF_IOS_OFF); }
static int vf_ntok_of(long l)
{
  int n = 0;
  for (int i = 0; i < VF_NLINES; i++) if (i == l) n = f_ntok[i];
  return n;
}
static int vf_cls_of(long l, long t)
{
  int c = TK_GARBAGE;
  for (int i = 0; i < VF_NLINES; i++)
    for (int j = 0; j < VF_NTOK; j++) if (i == l && j == t) c = f_cls[i][j];
  return c;
}
static double vf_val_of(long l, long t)
{
  double v = 0.;
  for (int i = 0; i < VF_NLINES; i++)
    for (int j = 0; j < VF_NTOK; j++) if (i == l && j == t) v = f_val[i][j];
  return v;
}
// models of the two vectors the function fills
static int m_nnames;
static int m_ntab;
static double m_tab[VF_CAP + 1];
#define VF_SYM(name) asm(name)
#define STR "NSt7__cxx1112basic_stringIcSt11char_traitsIcESaIcEE"
#define STRK "St7__cxx1112basic_stringIcSt11char_traitsIcESaIcEE" // after _ZNK (const member functions)
#define VSTR "7VectorTI" STR "EE"
extern "C" {
void vf_alloc_ctor(void*) VF_SYM("_ZNSaIcEC2Ev");
void vf_alloc_ctor(void*) {}
void vf_alloc_dtor(void*) VF_SYM("_ZNSaIcED2Ev");
void vf_alloc_dtor(void*) {}
void vf_str_ctor(VfAbsStr* s) VF_SYM("_Z" STR "C2Ev");
void vf_str_ctor(VfAbsStr* s) { s->kind = S_EMPTY; s->a = 0; s->b = 0; s->pad = 0; }
void vf_str_ctor_lit(VfAbsStr* s, const char* t, const void*) VF_SYM("_Z" STR "C2IS3_EEPKcRKS3_");
void vf_str_ctor_lit(VfAbsStr* s, const char* t, const void*) { s->kind = S_LIT; s->a = (t[0] == 'N' && t[1] == 'A' && t[2] == 0) ? 1 : 0; s->b = 0; s->pad = 0; }
void vf_str_dtor(VfAbsStr*) VF_SYM("_Z" STR "D2Ev");
void vf_str_dtor(VfAbsStr*) {}
VfAbsStr* vf_str_move_assign(VfAbsStr* s, VfAbsStr* o) VF_SYM("_Z" STR "aSEOS4_");
VfAbsStr* vf_str_move_assign(VfAbsStr* s, VfAbsStr* o) { s->kind = o->kind; s->a = o->a; s->b = o->b; return s; }
bool vf_str_empty(const VfAbsStr* s) VF_SYM("_ZNK" STRK "5emptyEv");
bool vf_str_empty(const VfAbsStr* s)
{
  if (s->kind == S_EMPTY) return true;
  if (s->kind == S_LINE) return vf_ntok_of(s->a) <= 0;
  return false; // fields and literals are never empty
}
static char vf_empty_cstr[1];
const char* vf_str_cstr(const VfAbsStr*) VF_SYM("_ZNK" STRK "5c_strEv");
const char* vf_str_cstr(const VfAbsStr*) { return vf_empty_cstr; }
// operator==(const string&, const string&): word == na_string
bool vf_str_eq(const VfAbsStr* s, const VfAbsStr* o) VF_SYM("_ZSteqIcEN9__gnu_cxx11__enable_ifIXsr9__is_charIT_EE7__valueEbE6__typeERKNSt7__cxx1112basic_stringIS2_St11char_traitsIS2_ESaIS2_EEESC_");
bool vf_str_eq(const VfAbsStr* s, const VfAbsStr* o) { return s->kind == S_FIELD && vf_cls_of(s->a, s->b) == TK_NA && o->kind == S_LIT && o->a == 1; }
// String trim(const String&, const String&), trimRight(const String&, const String&): identity (sret)
void vf_trim(VfAbsStr* ret, const VfAbsStr* s, const VfAbsStr*) VF_SYM("_Z4trimRK" STR "ES6_");
void vf_trim(VfAbsStr* ret, const VfAbsStr* s, const VfAbsStr*) { ret->kind = s->kind; ret->a = s->a; ret->b = s->b; ret->pad = 0; }
void vf_trimr(VfAbsStr* ret, const VfAbsStr* s, const VfAbsStr*) VF_SYM("_Z9trimRightRK" STR "ES6_");
void vf_trimr(VfAbsStr* ret, const VfAbsStr* s, const VfAbsStr*) { ret->kind = s->kind; ret->a = s->a; ret->b = s->b; ret->pad = 0; }
// String ASerializable::buildFileName(int, const String&, bool), String CSVformat::getNaString() const (sret)
void vf_buildfn(VfAbsStr* ret, int, const VfAbsStr*, bool) VF_SYM("_ZN13ASerializable13buildFileNameEiRK" STR "Eb");
void vf_buildfn(VfAbsStr* ret, int, const VfAbsStr*, bool) { ret->kind = S_LIT; ret->a = 0; ret->b = 0; ret->pad = 0; }
void vf_getna(VfAbsStr* ret, const void*) VF_SYM("_ZNK9CSVformat11getNaStringB5cxx11Ev");
void vf_getna(VfAbsStr* ret, const void*) { ret->kind = S_LIT; ret->a = 1; ret->b = 0; ret->pad = 0; }
// std::ifstream: default ctor, open, is_open, dtor; skipBOM (the file has no byte-order mark)
void vf_ifs_ctor(void* self) VF_SYM("_ZNSt14basic_ifstreamIcSt11char_traitsIcEEC1Ev");
void vf_ifs_ctor(void* self)
{
  *(long**)self = &vf_fake_vtable[3];
  VfAbsIos* s = vf_ios_of(self);
  s->eof = 0; s->fail = 0; s->kind = S_FILE; s->a = 0; s->b = 0; s->pos = 0; // a = next line
}
void vf_ifs_dtor(void*) VF_SYM("_ZNSt14basic_ifstreamIcSt11char_traitsIcEED1Ev");
void vf_ifs_dtor(void*) {}
void vf_ifs_open(void*, const VfAbsStr*, int) VF_SYM("_ZNSt14basic_ifstreamIcSt11char_traitsIcEE4openERKNSt7__cxx1112basic_stringIcS1_SaIcEEESt13_Ios_Openmode");
void vf_ifs_open(void*, const VfAbsStr*, int) {}
bool vf_ifs_is_open(void*) VF_SYM("_ZNSt14basic_ifstreamIcSt11char_traitsIcEE7is_openEv");
bool vf_ifs_is_open(void*) { return true; }
void vf_skipbom(void*) VF_SYM("_Z7skipBOMRSt14basic_ifstreamIcSt11char_traitsIcEE");
void vf_skipbom(void*) {}
bool vf_ios_eof(const VfAbsIos* s) VF_SYM("_ZNKSt9basic_iosIcSt11char_traitsIcEE3eofEv");
bool vf_ios_eof(const VfAbsIos* s) { return s->eof != 0; }
bool vf_ios_bool(const VfAbsIos* s) VF_SYM("_ZNKSt9basic_iosIcSt11char_traitsIcEEcvbEv");
bool vf_ios_bool(const VfAbsIos* s) { return s->fail == 0; }
// std::istream& gslSafeGetline(std::istream&, String&): next line; after the last line: empty string + eofbit
void* vf_getline(void* is, VfAbsStr* t) VF_SYM("_Z14gslSafeGetlineRSiR" STR "E");
void* vf_getline(void* is, VfAbsStr* t)
{
  VfAbsIos* s = vf_ios_of(is);
  bool have = s->a < f_nlines;
  t->kind = have ? S_LINE : S_EMPTY;
  t->a = have ? s->a : 0;
  t->b = 0;
  s->a = have ? s->a + 1 : s->a;
  s->eof = have ? s->eof : 1;
  return is;
}
// std::istringstream(const string&, openmode) / dtor: cursor over a LINE descriptor
void vf_iss_ctor(void* self, const VfAbsStr* str, int) VF_SYM("_ZNSt7__cxx1119basic_istringstreamIcSt11char_traitsIcESaIcEEC1ERKNS_12basic_stringIcS2_S3_EESt13_Ios_Openmode");
void vf_iss_ctor(void* self, const VfAbsStr* str, int)
{
  *(long**)self = &vf_fake_vtable[3];
  VfAbsIos* s = vf_ios_of(self);
  s->eof = 0; s->fail = 0; s->kind = str->kind; s->a = str->a; s->b = 0; s->pos = 0;
}
void vf_iss_dtor(void*) VF_SYM("_ZNSt7__cxx1119basic_istringstreamIcSt11char_traitsIcESaIcEED1Ev");
void vf_iss_dtor(void*) {}
// std::getline(istream&, string&, char sep) on a line stream: next field.  The last field of a line (no trailing
// separator) sets eofbit; a call on a stream that is not good sets failbit and leaves the string untouched
// (one unconditional store per field, values selected: the optimiser must not merge stores through a selected address)
void* vf_getfield(void* is, VfAbsStr* w, char) VF_SYM("_ZSt7getlineIcSt11char_traitsIcESaIcEERSt13basic_istreamIT_T0_ES7_RNSt7__cxx1112basic_stringIS4_S5_T1_EES4_");
void* vf_getfield(void* is, VfAbsStr* w, char)
{
  VfAbsIos* s = vf_ios_of(is);
  long eof = s->eof, fail = s->fail, kind = s->kind, a = s->a, pos = s->pos;
  bool good = eof == 0 && fail == 0;
  long n = (kind == S_LINE) ? vf_ntok_of(a) : 0;
  bool got = good && kind == S_LINE && pos < n;
  w->kind = got ? S_FIELD : (good ? S_EMPTY : w->kind);
  w->a = got ? a : (good ? 0 : w->a);
  w->b = got ? pos : (good ? 0 : w->b);
  long npos = got ? pos + 1 : pos;
  s->pos = npos;
  s->eof = (good && (!got || npos == n)) ? 1 : eof;
  s->fail = got ? fail : 1;
  return is;
}
// double toDouble(const String&, char): a number gives its value, anything else TEST
double vf_todouble(const VfAbsStr* s, char) VF_SYM("_Z8toDoubleRK" STR "Ec");
double vf_todouble(const VfAbsStr* s, char)
{
  bool num = s->kind == S_FIELD && vf_cls_of(s->a, s->b) == TK_NUM;
  double v = vf_val_of(s->a, s->b);
  return num ? v : TEST;
}
// the two result vectors: VectorT<String>::clear / push_back / size count the names; VectorT<double>::clear /
// push_back(const double&&) / size / operator[] const keep the values in a harness array
void vf_vs_clear(void*) VF_SYM("_ZN" VSTR "5clearEv");
void vf_vs_clear(void*) { m_nnames = 0; }
void vf_vs_push(void*, const VfAbsStr*) VF_SYM("_ZN" VSTR "9push_backERKS5_");
void vf_vs_push(void*, const VfAbsStr*) { m_nnames++; }
unsigned long vf_vs_size(const void*) VF_SYM("_ZNK" VSTR "4sizeEv");
unsigned long vf_vs_size(const void*) { return (unsigned long)m_nnames; }
void vf_vd_clear(void*) VF_SYM("_ZN7VectorTIdE5clearEv");
void vf_vd_clear(void*) { m_ntab = 0; }
void vf_vd_push(void*, const double* v) VF_SYM("_ZN7VectorTIdE9push_backEOKd");
void vf_vd_push(void*, const double* v)
{
  double x = *v;
  for (int i = 0; i < VF_CAP; i++) m_tab[i] = (i == m_ntab) ? x : m_tab[i];
  m_ntab++;
}
unsigned long vf_vd_size(const void*) VF_SYM("_ZNK7VectorTIdE4sizeEv");
unsigned long vf_vd_size(const void*) { return (unsigned long)m_ntab; }
const double* vf_vd_index(const void*, unsigned long i) VF_SYM("_ZNK7VectorTIdEixEm");
const double* vf_vd_index(const void*, unsigned long i) { return &m_tab[i]; }
}
#endif

// ------------------------------------------------------------------ reference reading of the file
static int ref_ncol0;               // column count announced by the header (0: none)
static int ref_first;               // index of the first data line
static void reference_header()
{
  ref_ncol0 = 0;
  ref_first = 0;
  if (a_header)
  {
    if (f_nlines > 0)
    {
      ref_ncol0 = f_ntok[0];
      if (a_ncol_max > 0 && ref_ncol0 > a_ncol_max) ref_ncol0 = a_ncol_max;
    }
    ref_first = 1;
  }
  if (a_nskip > 0) ref_first += a_nskip;
}

extern "C" void k_csv()
{
  vf_file_draw();
  reference_header();
#if VF_RECT
  // rectangular file: every non-empty data line holds at least as many fields as the column count
  // (header, else the first non-empty data line)
  {
    int nc = ref_ncol0;
    for (int l = 0; l < VF_NLINES; l++)
      if (l >= ref_first && l < f_nlines && f_ntok[l] > 0)
      {
        if (nc <= 0) nc = f_ntok[l];
        vf_assume(f_ntok[l] >= nc);
      }
  }
#endif
  const char* fname = vf_file_open();
  int ncol = -7, nrow = -7, nnames = -7, tabsize = -7;
  double out[VF_CAP + 1];
  for (int i = 0; i <= VF_CAP; i++) out[i] = -7777.;
  int err = vf_call_csv_table_read(fname, a_header, a_nskip, a_ncol_max, a_nrow_max, &ncol, &nrow, &nnames, &tabsize, out, VF_CAP);
  vf_file_close();
  vf_assert_id(err == 0, "an existing file is read without error");
  if (err == 0)
  {
    vf_assert_id(ncol >= 0 && nrow >= 0, "counts returned are non-negative");
    vf_assert_id(tabsize == ncol * nrow, "at return tab.size() == ncol * nrow (what Db::resetFromCSV assumes)");
    if (nnames > 0) vf_assert_id(nnames == ncol, "a header names exactly ncol columns");
#if VF_RECT
    // the values stored are the first ncol fields of the non-empty data lines, in order
    if (tabsize == ncol * nrow && ncol > 0)
    {
      int r = 0;
      for (int l = 0; l < VF_NLINES; l++)
        if (l >= ref_first && l < f_nlines && f_ntok[l] > 0 && r < nrow)
        {
          for (int c = 0; c < VF_NTOK; c++)
            if (c < ncol)
            {
              double got = -7777.;
              for (int i = 0; i < VF_CAP; i++) if (i == r * ncol + c) got = out[i];
              double want = (f_cls[l][c] == TK_NUM) ? f_val[l][c] : TEST;
              vf_assert_id(got == want, "values stored are the fields of the file in row order (NA / non-numeric: TEST)");
            }
          r++;
        }
    }
#endif
  }
  vf_out_int(ncol);
  vf_out_int(nrow);
  vf_out_int(tabsize);
  vf_witness();
}
