// C09.h: header checks of the BMP reader, GridBmp::readGridFromFile (src/OutputFormat/GridBmp.cpp:405) up to the end
// of the colour table.  The byte-reading helpers are overridden by an ARBITRARY file content:
//   GridBmp::_compose(nb)  -> the k-th header field is an arbitrary int H[k] (15 fields: 4 of the file header, 11 of
//                             the bitmap information header; field 13 is the colour count)
//   GridBmp::_readIn()     -> an arbitrary byte, calls counted
//   AOF::_fileReadOpen / _fileClose -> success / nothing
// The local palette arrays ir/ig/ib[256] of the real function are filled by the real loop; every store into them carries
// the engine's in-bounds obligation.
// Bound: the compression field is non-zero, so that the reader refuses the file right after the colour table (the image
// part allocates nx*ny values: sizes must be concrete for the engine); colour count <= VF_NCOLMAX (any negative value).
// Asserted: the call returns a null grid; a colour count above 256 is refused BEFORE any palette byte is consumed
// (no _readIn call at all), otherwise exactly 4 bytes per colour are consumed (none for a count <= 0); all 15 header
// fields are read, in order, before the palette; no out-of-bounds access (engine obligations).
#include "vf.h"
#include "OutputFormat/GridBmp.hpp"
#include "Db/DbGrid.hpp"
#ifndef VF_NCOLMAX
#define VF_NCOLMAX 300
#endif
#ifndef VF_MUT
#define VF_MUT 0
#endif
#define NH 15

void messerr(const char*, ...) {}
void message(const char*, ...) {}

static int           H[NH];
static int           n_compose, n_readin, n_readin_at_last_compose, n_bad;
static unsigned char g_byte;
int GridBmp::_compose(int nb)
{
  if (nb != 2 && nb != 4) n_bad++;
  if (n_compose >= NH) { n_bad++; return 0; }
  n_readin_at_last_compose = n_readin;
  return H[n_compose++];
}
unsigned char GridBmp::_readIn()
{
  n_readin++;
  return g_byte;
}
int  AOF::_fileReadOpen() { return 0; }
void AOF::_fileClose() {}

alignas(16) static char gbuf[sizeof(GridBmp)];

extern "C" void k_bmp_header()
{
  // ---- arbitrary file content, drawn up front
  for (int k = 0; k < NH; k++) H[k] = vf_nondet_int();
  g_byte = vf_nondet_uchar();
  int ncol = H[13], compress = H[9];
  vf_assume(ncol <= VF_NCOLMAX); // bound of the kernel (loop length); any negative value allowed
  vf_assume(compress != 0);      // the reader refuses the file after the colour table
  n_compose = n_readin = n_readin_at_last_compose = n_bad = 0;

  GridBmp* g = (GridBmp*)gbuf; // raw storage: the reader only touches the overridden helpers
  g->_file = nullptr;

  DbGrid* res = g->GridBmp::readGridFromFile(); // REAL

  vf_assert_id(res == nullptr, "a compressed or over-coloured file is refused (null grid)");
  vf_assert_id(n_bad == 0 && n_compose == NH && n_readin_at_last_compose == 0, "the 15 header fields are read first, in order");
#if VF_MUT == 1 // self-test of the check only: claiming that the palette is never read must be refuted
  vf_assert_id(n_readin == 0, "MUT: no palette byte consumed");
#endif
  if (ncol > 256)
    vf_assert_id(n_readin == 0, "a colour count above 256 is refused before any palette byte is read (ir/ig/ib[256] untouched)");
  else if (ncol <= 0)
    vf_assert_id(n_readin == 0, "no colour: no palette byte is read");
  else
    vf_assert_id(n_readin == 4 * ncol, "4 bytes are read per colour of the table");
  vf_witness();
}
