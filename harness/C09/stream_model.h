// C09 stream model: an arbitrary text file seen as an arbitrary sequence of lines of tokens.
//
// The readers of ASerializable (include/Basic/ASerializable.hpp) are compiled out of line (-fno-inline) so
// that the REAL reader keeps its counting / indexing logic while every iostream / std::string callee it
// has left is a named function.  Those callees are defined here, for the SOLVER build only, over an
// abstract file:
//     VF_NLINES lines at most (f_nlines in 0..VF_NLINES), each with f_ntok[l] in 0..VF_NTOK tokens,
//     each token of class NUM (integer-valued number) / NA / GARBAGE (not a number) / COMMENT (starts with '#');
//     after the last line the stream is at end of file.  Lines are already trimmed, tokens are separated
//     by single blanks (trim is the identity).
// The NATIVE build (replay, translator validation) materialises the same file as text in a real
// std::istringstream and runs the real libstdc++ / gslSafeGetline / trim: every validation stream checks
// the abstract callees against the real ones.
//
// Abstract callees (mangled names are those left in the IR of the real readers):
//   std::string: default ctor, ctor(const char*), dtor, operator=(string&&), clear, empty, operator[], c_str,
//                operator==(const string&, const char*)          -> descriptors (EMPTY / LINE l / TOKEN l,t / LITERAL)
//   trim(const String&, const String&)                            -> identity on descriptors
//   gslSafeGetline(istream&, String&)                             -> next line, or empty + eofbit after the last
//   std::basic_ios::good / eof                                    -> state bits kept at (stream + 128)
//   std::stringstream ctor(const string&, openmode) / dtor        -> cursor over a LINE or a TOKEN descriptor
//   operator>>(istream&, string&)                                 -> next token (eofbit on the last one), or
//                                                                    nothing + failbit|eofbit; on the FILE stream:
//                                                                    next token of the file across lines
//   istream::operator>>(double&) / (int&)                         -> NUM: value; otherwise 0 + failbit
#pragma once
#include "vf.h"
// The solver build of the harness includes NO C++ library / gstlearn header: an asm-labelled definition of a
// libstdc++ member clashes with any implicit instantiation of that member pending in the same translation unit.
// The real readers are reached through the plain-C wrappers of inst.cpp.
#ifdef VF_NATIVE
#include <sstream>
#include <string>
#include <stdio.h>
#endif
#ifndef VF_NLINES
#define VF_NLINES 2
#endif
#ifndef VF_NTOK
#define VF_NTOK 4
#endif
#ifndef VF_VMAX
#define VF_VMAX 999
#endif
enum { TK_NUM = 0, TK_NA = 1, TK_GARBAGE = 2, TK_COMMENT = 3 };
static int f_nlines;
static int f_ntok[VF_NLINES];
static int f_cls[VF_NLINES][VF_NTOK];
static double f_val[VF_NLINES][VF_NTOK];

// every input is drawn unconditionally, in a fixed order
static void vf_file_draw()
{
  f_nlines = vf_range(0, VF_NLINES);
  for (int l = 0; l < VF_NLINES; l++)
  {
    f_ntok[l] = vf_range(0, VF_NTOK);
    for (int t = 0; t < VF_NTOK; t++)
    {
      f_cls[l][t] = vf_range(0, 3);
      f_val[l][t] = vf_grid_double(VF_VMAX);
    }
  }
}

#ifdef VF_NATIVE
// ------------------------------------------------------------------ native: the file as text
static std::istringstream* vf_native_is;
static void* vf_file_open()
{
  std::string text;
  char buf[64];
  for (int l = 0; l < f_nlines; l++)
  {
    for (int t = 0; t < f_ntok[l]; t++)
    {
      if (t > 0) text += " ";
      switch (f_cls[l][t])
      {
        case TK_NUM: snprintf(buf, sizeof(buf), "%.0f", f_val[l][t]); text += buf; break;
        case TK_NA: text += "NA"; break;
        case TK_GARBAGE: text += "xyz"; break;
        default: text += "#c"; break;
      }
    }
    text += "\n";
  }
  vf_native_is = new std::istringstream(text);
  return (std::istream*)vf_native_is;
}
#else
// ------------------------------------------------------------------ solver: abstract callees
struct VfAbsStr { long kind; long a; long b; long pad; };                 // overlays a std::string (32 bytes)
struct VfAbsIos { long eof; long fail; long kind; long a; long b; long pos; }; // kept at (stream + 128)
enum { S_EMPTY = 0, S_LINE = 1, S_TOKEN = 2, S_LIT = 3, S_FILE = 4 };
// layout facts used: sizeof(std::string) == 32, sizeof(std::stringstream) == 392 >= 128 + sizeof(VfAbsIos)
// (checked by static_asserts in inst.cpp)
#define VF_IOS_OFF 128
static long vf_fake_vtable[4] = {VF_IOS_OFF, 0, 0, 0};                    // [-3] of the vptr: offset of the virtual base
alignas(16) static char vf_isbuf[512];
static VfAbsIos* vf_ios_of(void* stream) { return (VfAbsIos*)((char*)stream + VF_IOS_OFF); }
static void* vf_file_open()
{
  *(long**)vf_isbuf = &vf_fake_vtable[3];
  VfAbsIos* s = vf_ios_of(vf_isbuf);
  s->eof = 0; s->fail = 0; s->kind = S_FILE; s->a = 0; s->b = 0; s->pos = 0; // a = current line, pos = current token in it
  return vf_isbuf;
}
static int vf_ntok_of(long l)
{
  int n = 0;
  for (int i = 0; i < VF_NLINES; i++) if (i == l) n = f_ntok[i];
  return n;
}
static int vf_cls_of(long l, long t)
{
  int c = TK_GARBAGE;
  for (int i = 0; i < VF_NLINES; i++)
    for (int j = 0; j < VF_NTOK; j++) if (i == l && j == t) c = f_cls[i][j];
  return c;
}
static double vf_val_of(long l, long t)
{
  double v = 0.;
  for (int i = 0; i < VF_NLINES; i++)
    for (int j = 0; j < VF_NTOK; j++) if (i == l && j == t) v = f_val[i][j];
  return v;
}
#define VF_SYM(name) asm(name)
#define STR "NSt7__cxx1112basic_stringIcSt11char_traitsIcESaIcEE"
extern "C" {
void vf_alloc_ctor(void*) VF_SYM("_ZNSaIcEC2Ev");   // std::allocator<char> ctor / dtor: nothing
void vf_alloc_ctor(void*) {}
void vf_alloc_dtor(void*) VF_SYM("_ZNSaIcED2Ev");
void vf_alloc_dtor(void*) {}
void vf_str_ctor(VfAbsStr* s) VF_SYM("_Z" STR "C2Ev");
void vf_str_ctor(VfAbsStr* s) { s->kind = S_EMPTY; s->a = 0; s->b = 0; s->pad = 0; }
void vf_str_ctor_lit(VfAbsStr* s, const char*, const void*) VF_SYM("_Z" STR "C2IS3_EEPKcRKS3_");
void vf_str_ctor_lit(VfAbsStr* s, const char*, const void*) { s->kind = S_LIT; s->a = 0; s->b = 0; s->pad = 0; }
void vf_str_clear(VfAbsStr* s) VF_SYM("_Z" STR "5clearEv");
void vf_str_clear(VfAbsStr* s) { s->kind = S_EMPTY; s->a = 0; s->b = 0; }
void vf_str_dtor(VfAbsStr*) VF_SYM("_Z" STR "D2Ev");
void vf_str_dtor(VfAbsStr*) {}
VfAbsStr* vf_str_move_assign(VfAbsStr* s, VfAbsStr* o) VF_SYM("_Z" STR "aSEOS4_");
VfAbsStr* vf_str_move_assign(VfAbsStr* s, VfAbsStr* o) { s->kind = o->kind; s->a = o->a; s->b = o->b; return s; }
bool vf_str_empty(const VfAbsStr* s) VF_SYM("_ZNK" "St7__cxx1112basic_stringIcSt11char_traitsIcESaIcEE" "5emptyEv");
bool vf_str_empty(const VfAbsStr* s)
{
  if (s->kind == S_EMPTY) return true;
  if (s->kind == S_LINE) return s->b >= vf_ntok_of(s->a);
  return false; // tokens and literals are never empty
}
static char vf_char_cell;
char* vf_str_index(VfAbsStr* s, unsigned long) VF_SYM("_Z" STR "ixEm");
char* vf_str_index(VfAbsStr* s, unsigned long)
{
  // only index 0 is ever asked: '#' for a comment token / a line starting with one, another character otherwise
  bool hash = false;
  if (s->kind == S_LINE) hash = vf_cls_of(s->a, s->b) == TK_COMMENT;
  if (s->kind == S_TOKEN) hash = vf_cls_of(s->a, s->b) == TK_COMMENT;
  vf_char_cell = hash ? '#' : 'x';
  return &vf_char_cell;
}
static char vf_empty_cstr[1];
const char* vf_str_cstr(const VfAbsStr*) VF_SYM("_ZNK" "St7__cxx1112basic_stringIcSt11char_traitsIcESaIcEE" "5c_strEv");
const char* vf_str_cstr(const VfAbsStr*) { return vf_empty_cstr; }
// operator==(const string&, const char*): the only literal compared with is STRING_NA
bool vf_str_eq_lit(const VfAbsStr* s, const char*) VF_SYM("_ZSteqIcSt11char_traitsIcESaIcEEbRKNSt7__cxx1112basic_stringIT_T0_T1_EEPKS5_");
bool vf_str_eq_lit(const VfAbsStr* s, const char*) { return s->kind == S_TOKEN && vf_cls_of(s->a, s->b) == TK_NA; }
// String trim(const String&, const String&): sret
void vf_trim(VfAbsStr* ret, const VfAbsStr* s, const VfAbsStr*) VF_SYM("_Z4trimRK" STR "ES6_");
void vf_trim(VfAbsStr* ret, const VfAbsStr* s, const VfAbsStr*) { ret->kind = s->kind; ret->a = s->a; ret->b = s->b; ret->pad = 0; }
// std::istream& gslSafeGetline(std::istream&, String&)
void* vf_getline(void* is, VfAbsStr* t) VF_SYM("_Z14gslSafeGetlineRSiRNSt7__cxx1112basic_stringIcSt11char_traitsIcESaIcEEE");
void* vf_getline(void* is, VfAbsStr* t)
{
  VfAbsIos* s = vf_ios_of(is);
  // the rest of the current line (all of it when no token of it was extracted yet); after the last line:
  // empty string + eofbit
  bool have = s->a < f_nlines;
  t->kind = have ? S_LINE : S_EMPTY;
  t->a = have ? s->a : 0;
  t->b = have ? s->pos : 0;
  s->a = have ? s->a + 1 : s->a;
  s->pos = 0;
  s->eof = have ? s->eof : 1;
  return is;
}
bool vf_ios_good(const VfAbsIos* s) VF_SYM("_ZNKSt9basic_iosIcSt11char_traitsIcEE4goodEv");
bool vf_ios_good(const VfAbsIos* s) { return s->eof == 0 && s->fail == 0; }
bool vf_ios_eof(const VfAbsIos* s) VF_SYM("_ZNKSt9basic_iosIcSt11char_traitsIcEE3eofEv");
bool vf_ios_eof(const VfAbsIos* s) { return s->eof != 0; }
void vf_sstream_ctor(void* self, const VfAbsStr* str, int) VF_SYM("_ZNSt7__cxx1118basic_stringstreamIcSt11char_traitsIcESaIcEEC1ERKNS_12basic_stringIcS2_S3_EESt13_Ios_Openmode");
void vf_sstream_ctor(void* self, const VfAbsStr* str, int)
{
  *(long**)self = &vf_fake_vtable[3];
  VfAbsIos* s = vf_ios_of(self);
  s->eof = 0; s->fail = 0; s->kind = str->kind; s->a = str->a; s->b = str->b;
  s->pos = (str->kind == S_LINE) ? str->b : 0;                            // a LINE descriptor starts at token b
}
void vf_sstream_dtor(void*) VF_SYM("_ZNSt7__cxx1118basic_stringstreamIcSt11char_traitsIcESaIcEED1Ev");
void vf_sstream_dtor(void*) {}
// (written with value selects, one unconditional store per field: the optimiser must not merge stores to
//  different fields into one store through a selected address)
// operator>>(istream&, string&)
void* vf_extract_word(void* is, VfAbsStr* w) VF_SYM("_ZStrsIcSt11char_traitsIcESaIcEERSt13basic_istreamIT_T0_ES7_RNSt7__cxx1112basic_stringIS4_S5_T1_EE");
void* vf_extract_word(void* is, VfAbsStr* w)
{
  VfAbsIos* s = vf_ios_of(is);
  long eof = s->eof, fail = s->fail, kind = s->kind, a = s->a, b = s->b, pos = s->pos;
  bool good = eof == 0 && fail == 0;
  if (kind == S_FILE)
  {
    // skip exhausted / empty lines (white space), then take the next token; tokens end on a blank or a line
    // break, so reading one never touches the end of the file
    for (int i = 0; i <= VF_NLINES; i++)
    {
      bool skip = good && a < f_nlines && pos >= vf_ntok_of(a);
      a = skip ? a + 1 : a;
      pos = skip ? 0 : pos;
    }
  }
  long n = (kind == S_LINE) ? vf_ntok_of(a) : 0;
  bool got = good && ((kind == S_LINE && pos < n) || (kind == S_FILE && a < f_nlines) ||
                      ((kind == S_TOKEN || kind == S_LIT) && pos == 0));
  // the word: untouched when the sentry fails or nothing is extracted
  long wk = (kind == S_LINE || kind == S_FILE) ? S_TOKEN : kind;
  long wb = (kind == S_LINE || kind == S_FILE) ? pos : b;
  w->kind = got ? wk : w->kind;
  w->a = got ? a : w->a;
  w->b = got ? wb : w->b;
  long npos = got ? pos + 1 : pos;
  // end of the underlying string reached: by the last token of a line / the single token, or by finding nothing
  bool hit_end = good && (!got || (kind == S_LINE && npos == n) || kind == S_TOKEN || kind == S_LIT);
  s->a = a;
  s->pos = npos;
  s->eof = hit_end ? 1 : eof;
  s->fail = got ? fail : 1;
  return is;
}
// istream::operator>>(double&), istream::operator>>(int&): only ever applied to a stream over one token
void* vf_extract_double(void* is, double* v) VF_SYM("_ZNSirsERd");
void* vf_extract_double(void* is, double* v)
{
  VfAbsIos* s = vf_ios_of(is);
  bool got = s->eof == 0 && s->fail == 0 && s->kind == S_TOKEN && s->pos == 0 && vf_cls_of(s->a, s->b) == TK_NUM;
  double val = vf_val_of(s->a, s->b);
  // nothing left to read (empty string, or token already consumed): the end is hit as well
  bool nothing = s->eof == 0 && s->fail == 0 && (s->kind == S_EMPTY || s->pos != 0);
  *v = got ? val : 0.;
  s->pos = got ? 1 : s->pos;
  s->eof = (got || nothing) ? 1 : s->eof;
  s->fail = got ? s->fail : 1;
  return is;
}
void* vf_extract_int(void* is, int* v) VF_SYM("_ZNSirsERi");
void* vf_extract_int(void* is, int* v)
{
  VfAbsIos* s = vf_ios_of(is);
  bool got = s->eof == 0 && s->fail == 0 && s->kind == S_TOKEN && s->pos == 0 && vf_cls_of(s->a, s->b) == TK_NUM;
  int val = (int)vf_val_of(s->a, s->b);
  // nothing left to read (empty string, or token already consumed): the end is hit as well
  bool nothing = s->eof == 0 && s->fail == 0 && (s->kind == S_EMPTY || s->pos != 0);
  *v = got ? val : 0;
  s->pos = got ? 1 : s->pos;
  s->eof = (got || nothing) ? 1 : s->eof;
  s->fail = got ? s->fail : 1;
  return is;
}
}
#endif
