// C09.g: locatorIdentify (src/Db/PtrGeos.cpp) on an arbitrary short string.
// The REAL function is executed together with the real libstdc++ std::string code it uses (copy, compare(pos,n,s),
// size, operator[], assignment) and the real toLower (src/Basic/String.cpp).  The string has VF_LEN characters
// (concrete length, one kernel per length), every character an arbitrary byte 1..127.
//   asserted: the call returns 0 or 1; on success the decoded type is UNKNOWN or one of the 29 role types, the index
//   is >= 0, the multiplicity flag is 0/1, a unique role never gets an index > 0, UNKNOWN gets index 0; every access
//   to the DEF_LOCATOR table and to the characters of the string is in bounds (engine obligations).
// Solver-build environment (the native build runs the library's own enumeration, libc tolower / atoi / memcmp):
//   ELoc enumeration (std::map filled by static constructors, which kernels do not run): ELoc::getIterator,
//   ELocIterator::hasNext / operator* / getValue / toNext, ELoc::fromValue walk a harness table of 30 objects with
//   the values -1..28 of include/Enum/ELoc.hpp, in increasing order (the order of the map).
#include "vf.h"
#include "Db/PtrGeos.hpp"
#include "Enum/ELoc.hpp"
#include <stdlib.h>
#ifndef VF_LEN
#define VF_LEN 3
#endif
#define VF_NELOC 29

// raw storage with the layout of an ELoc (AEnum: two string_views around the int value)
struct VfELocRaw { size_t klen; const char* kptr; int value; int pad; size_t dlen; const char* dptr; };
static_assert(sizeof(VfELocRaw) == sizeof(ELoc), "ELoc layout");
#ifdef VF_SOLVER
static VfELocRaw g_elocbuf[VF_NELOC + 2];
static ELoc* eloc_at(long k) { return (ELoc*)g_elocbuf + k; }
// iterator position: only one iterator is alive at a time in locatorIdentify, so the position is a harness cell
static long g_itpos;
static long pos_of(const ELocIterator*) { return g_itpos; }
ELocIterator ELoc::getIterator()
{
  ELocIterator it(_iterator); // bitwise copy of the (zero) static iterator
  g_itpos = 0;
  return it;
}
bool ELocIterator::hasNext() const { return pos_of(this) < VF_NELOC + 1; }
const ELoc& ELocIterator::operator*() const { return *eloc_at(pos_of(this)); }
int ELocIterator::getValue() const { return eloc_at(pos_of(this))->_value; }
const ELoc& ELocIterator::toNext()
{
  long k = pos_of(this);
  g_itpos = k + 1;
  return *eloc_at(k);
}
const ELoc& ELoc::fromValue(int value)
{
  // an object carrying the requested value (unknown value: the default UNKNOWN, as the library); one result cell, so
  // that the caller copies from a concrete address
  ELoc* r = eloc_at(VF_NELOC + 1);
  r->_value = (value >= 0 && value < VF_NELOC) ? value : -1;
  return *r;
}
extern "C" {
size_t strlen(const char* s) { size_t n = 0; while (s[n] != 0) n++; return n; }
int memcmp(const void* a, const void* b, size_t n)
{
  const unsigned char* p = (const unsigned char*)a;
  const unsigned char* q = (const unsigned char*)b;
  for (size_t i = 0; i < n; i++)
    if (p[i] != q[i]) return p[i] < q[i] ? -1 : 1;
  return 0;
}
int tolower(int c) { return (c >= 'A' && c <= 'Z') ? c + 32 : c; }
// glibc's atoi is an extern inline wrapper: strtol(s, NULL, 10)
long vf_strtol(const char* s, char**, int) asm("strtol");
long vf_strtol(const char* s, char**, int)
{
  // C locale: leading white space, optional sign, decimal digits (at most VF_LEN of them: no overflow)
  int i = 0;
  while (s[i] == ' ' || (s[i] >= 9 && s[i] <= 13)) i++;
  bool neg = false;
  if (s[i] == '-' || s[i] == '+') { neg = s[i] == '-'; i++; }
  long v = 0;
  while (s[i] >= '0' && s[i] <= '9') { v = 10 * v + (s[i] - '0'); i++; }
  return neg ? -v : v;
}
int vf_atoi(const char* s) asm("atoi");
int vf_atoi(const char* s) { return (int)vf_strtol(s, 0, 10); }
}
void messerr(const char*, ...) {}
// std::string::operator=(const char*) (reached once: the dead assignment "string = STRING_NA" on the by-value argument
// of the error path).  The real code reads the small-string buffer as an integer to obtain the capacity, which the typed
// memory of the engine refuses; model: characters written through the data pointer (capacity >= 15 always), length set.
struct VfStrRep { char* p; size_t len; char buf[16]; };
extern "C" VfStrRep* vf_str_assign_cstr(VfStrRep* s, const char* t) asm("_ZNSt7__cxx1112basic_stringIcSt11char_traitsIcESaIcEEaSEPKc");
extern "C" VfStrRep* vf_str_assign_cstr(VfStrRep* s, const char* t)
{
  size_t n = 0;
  while (t[n] != 0 && n < 15) { s->p[n] = t[n]; n++; }
  s->p[n] = 0;
  s->len = n;
  return s;
}
#endif

static VfELocRaw g_iloc; // decoded type: raw storage (only its value is read)

extern "C" void k_locid()
{
  char buf[VF_LEN + 1];
  for (int i = 0; i < VF_LEN; i++) buf[i] = (char)vf_range(1, 127);
  buf[VF_LEN] = 0;
#ifdef VF_SOLVER
  for (int v = -1; v < VF_NELOC; v++) eloc_at(v + 1)->_value = v;
  eloc_at(VF_NELOC + 1)->_value = -1; // result cell of fromValue
  const_cast<ELoc&>(ELoc::UNKNOWN)._value = -1;
#endif
  ELoc* iloc = (ELoc*)&g_iloc;
  iloc->_value = -7;
  int inum = -7, mult = -7;
  String s(buf, (size_t)VF_LEN);
  int err = locatorIdentify(s, iloc, &inum, &mult);
  vf_assert_id(err == 0 || err == 1, "error code is 0 or 1");
  if (err == 0)
  {
    int t = iloc->getValue();
    vf_assert_id(t >= -1 && t < VF_NELOC, "success: decoded type is UNKNOWN or one of the 29 role types");
    vf_assert_id(inum >= 0, "success: index >= 0");
    vf_assert_id(mult == 0 || mult == 1, "success: multiplicity flag is 0 or 1");
    // reference facts of the documented table: unique roles are W, C, SEL, DOM, ADIR, ADIP, SIZE, BU, BD, LAYER, DATE
    bool unique = t == 8 || t == 9 || t == 10 || t == 11 || t == 13 || t == 14 || t == 15 || t == 16 || t == 17 || t == 19 || t == 25;
    if (t >= 0) vf_assert_id(!unique || inum == 0, "success: a unique role has index 0");
    if (t < 0) vf_assert_id(inum == 0, "success: an unknown locator has index 0");
    // the first character decides whether some keyword can match at all
    char c0 = buf[0];
    bool letter = (c0 >= 'a' && c0 <= 'z') || (c0 >= 'A' && c0 <= 'Z');
    if (!letter) vf_assert_id(t == -1, "a string that does not start with a letter is not a locator");
  }
  vf_out_int(err);
  vf_out_int(inum);
  vf_witness();
}

// C08.h (registered under C08): the locator names Db::_serialize writes (getLocatorName, src/Db/PtrGeos.cpp: keyword of the
// role, followed by rank+1 for the roles that can be held by several columns) are decoded by locatorIdentify to the same
// role and rank.  The keywords below restate the documented table (DEF_LOCATOR); the rank digit is symbolic (1..9).
static const char vf_kw[VF_NELOC][8] = {"x", "z", "v", "f", "g", "lower", "upper", "p", "w", "code", "sel", "dom", "dblk", "adir", "adip",
                                            "size", "bu", "bd", "time", "layer", "nostat", "tangent", "ncsimu", "facies", "gausfac", "date",
                                            "rklow", "rkup", "sum"};
static const int vf_unique[VF_NELOC] = {0, 0, 0, 0, 0, 0, 0, 0, 1, 1, 1, 1, 0, 1, 1, 1, 1, 1, 0, 1, 0, 0, 0, 0, 0, 1, 0, 0, 0};
extern "C" void k_locname()
{
  int digit = vf_range(1, 9);
#ifdef VF_SOLVER
  for (int v = -1; v < VF_NELOC; v++) eloc_at(v + 1)->_value = v;
  eloc_at(VF_NELOC + 1)->_value = -1;
  const_cast<ELoc&>(ELoc::UNKNOWN)._value = -1;
#endif
  ELoc* iloc = (ELoc*)&g_iloc;
  char buf[12];
  for (int t = 0; t < VF_NELOC; t++)
  {
    int n = 0;
    while (vf_kw[t][n] != 0) { buf[n] = vf_kw[t][n]; n++; }
    if (!vf_unique[t]) { buf[n] = (char)('0' + digit); n++; }
    buf[n] = 0;
    iloc->_value = -7;
    int inum = -7, mult = -7;
    String s(buf, (size_t)n);
    int err = locatorIdentify(s, iloc, &inum, &mult);
    bool same = err == 0 && iloc->getValue() == t && inum == (vf_unique[t] ? 0 : digit - 1);
    if (t == 23 || t == 24)
      vf_assert_id(same, "locator name of a role whose keyword starts with another keyword (facies, gausfac) decodes to the same role and rank");
    else
      vf_assert_id(same, "locator name decodes to the same role and rank");
  }
  vf_witness();
}
