// C09.f: control skeleton of DbGrid::_deserialize (src/Db/DbGrid.cpp) with the record readers replaced by an
// arbitrary source: every _recordRead<int>/<double> yields an arbitrary value or fails, Db::_deserialize
// (the column part) succeeds or fails arbitrarily.
//   VF_COUNTS=1  k_dbgrid_counts: the space dimension read from the file is arbitrary; VectorT::resize is
//                replaced by a probe: the count that sizes a vector must not be a negative number converted
//                to size_t (std::length_error would leave createFromNF uncaught); the kernel stops at the first sizing
//   VF_COUNTS=0  k_dbgrid_skeleton: the file announces VF_NDIM dimensions (a valid count); everything else
//                arbitrary.  A true return means: every record was read, the Db part was loaded, and the grid
//                passes the checks the API applies (gridDefine rejects negative NX / DX).
#include "vf.h"
#include "Db/DbGrid.hpp"
#ifndef VF_NDIM
#define VF_NDIM 2
#endif
#ifndef VF_COUNTS
#define VF_COUNTS 0
#endif
#define VF_NREC (2 + 4 * VF_NDIM + 2)

// ---- arbitrary record source (all drawn up front)
static int src_i[VF_NREC];
static double src_d[VF_NREC];
static bool src_ok[VF_NREC];
static int src_pos;
static bool src_failed; // some consumed record failed
static bool db_ok, db_called;
static void src_draw()
{
  for (int k = 0; k < VF_NREC; k++)
  {
    src_i[k] = vf_nondet_int();
    src_d[k] = vf_nondet_double();
    src_ok[k] = vf_nondet_bool();
  }
  db_ok = vf_nondet_bool();
  src_pos = 0; src_failed = false; db_called = false;
}
template <> bool ASerializable::_recordRead<int>(std::istream&, const String&, int& val)
{
  val = 0;
  int k = src_pos < VF_NREC ? src_pos : VF_NREC - 1;
  src_pos++;
  if (!src_ok[k]) { src_failed = true; return false; }
  val = src_i[k];
  return true;
}
template <> bool ASerializable::_recordRead<double>(std::istream&, const String&, double& val)
{
  val = 0.;
  int k = src_pos < VF_NREC ? src_pos : VF_NREC - 1;
  src_pos++;
  if (!src_ok[k]) { src_failed = true; return false; }
  val = src_d[k];
  return true;
}
bool Db::_deserialize(std::istream&, bool) { db_called = true; return db_ok; }
bool Db::_serialize(std::ostream&, bool) const { return true; }
void messerr(const char*, ...) {} // error printing (variadic, in AStringable.cpp) is not part of the kernel
void Db::_clear(void) {} // locator tables (ELoc enumeration needs static constructors) are not part of the kernel

#ifdef VF_SOLVER
extern "C" size_t strlen(const char* s) { size_t n = 0; while (s[n] != 0) n++; return n; }
#endif
alignas(16) static char vf_isbuf[sizeof(std::istream)];
#define VF_IS (*(std::istream*)vf_isbuf)

#if VF_COUNTS
struct VfStop { int dummy; };
static bool probe_armed;
static void probe(size_t count)
{
  if (!probe_armed) return;
  vf_assert_id(count <= (size_t)2147483647, "a count read from the file is range-checked before it sizes a vector");
  throw VfStop();
}
template <> void VectorT<int>::resize(size_type count) { probe(count); }
template <> void VectorT<double>::resize(size_type count) { probe(count); }
extern "C" void k_dbgrid_counts()
{
  src_draw();
  vf_assume(src_ok[0]); // the dimension record itself is read
  DbGrid b;
  probe_armed = true;
  try
  {
    (void)b.DbGrid::_deserialize(VF_IS, false);
  }
  catch (const VfStop&)
  {
  }
  probe_armed = false;
  vf_witness();
}
#else
extern "C" void k_dbgrid_skeleton()
{
  src_draw();
  src_ok[0] = true;
  src_i[0] = VF_NDIM; // the file announces a valid space dimension
#ifdef VF_EXCLUDE_GRIDCHECK
  // known finding excluded: files whose NX / DX records are negative (record order: NX, X0, DX, ANGLE per dimension)
  for (int i = 0; i < VF_NDIM; i++) vf_assume(src_i[1 + 4 * i] >= 0 && src_d[3 + 4 * i] >= 0.);
#endif
  DbGrid b;
  bool ok = b.DbGrid::_deserialize(VF_IS, false);
  if (ok)
  {
    vf_assert_id(!src_failed, "true return: every header record was read");
#ifndef VF_EXCLUDE_DBPART
    vf_assert_id(db_called && db_ok, "true return: the Db part of the file was loaded");
#endif
#ifndef VF_EXCLUDE_GRIDCHECK
    bool gridok = b.getNDim() == VF_NDIM;
    if (gridok)
      for (int i = 0; i < VF_NDIM; i++) gridok = gridok && b.getNX(i) >= 0 && b.getDX(i) >= 0.;
    vf_assert_id(gridok, "true return: the grid passes the checks of gridDefine (dimension, NX >= 0, DX >= 0)");
#endif
  }
  vf_witness();
}
#endif
