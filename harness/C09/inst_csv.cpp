// Plain-C wrapper around the REAL csv_table_read (src/Core/convert.cpp), compiled as a translation unit of its own:
// the harness csv.cpp (which defines the abstract iostream / std::string callees for the solver build) includes no
// C++ header and reaches the real function only through this wrapper.  The CSV format object is raw storage in which
// the five fields csv_table_read reads are set (separator ',', decimal '.', NA string "NA").
#include "Basic/CSVformat.hpp"
#include "Core/CSV.hpp"
#include "Basic/VectorNumT.hpp"
#include <new>
#include <fstream>
#include <sstream>
static_assert(sizeof(std::string) == 32, "std::string layout assumed by csv.cpp");
static_assert(sizeof(std::istringstream) >= 128 + 6 * sizeof(long), "istringstream layout assumed by csv.cpp");
static_assert(sizeof(std::ifstream) >= 128 + 6 * sizeof(long), "ifstream layout assumed by csv.cpp");
extern "C" int vf_call_csv_table_read(const char* fname, int flag_header, int nskip, int ncol_max, int nrow_max,
                                      int* ncol, int* nrow, int* nnames, int* tabsize, double* out, int cap)
{
  alignas(16) static char fbuf[sizeof(CSVformat)];
  CSVformat* fmt = (CSVformat*)fbuf;
  fmt->_flagHeader = flag_header != 0;
  fmt->_nSkip = nskip;
  fmt->_charSep = ',';
  fmt->_charDec = '.';
  new (&fmt->_naString) String("NA");
  String filename(fname);
  VectorString names;
  VectorDouble tab;
  int err = csv_table_read(filename, *fmt, 0, ncol_max, nrow_max, ncol, nrow, names, tab);
  const VectorString& cnames = names;
  const VectorDouble& ctab = tab;
  *nnames = (int)cnames.size();
  *tabsize = (int)ctab.size();
  for (int i = 0; i < cap && i < (int)ctab.size(); i++) out[i] = ctab[i];
  return err;
}
