// C09.a/b: the REAL ASerializable::_recordReadVec<double>, <int> and _recordReadVecInPlace<double>
// (include/Basic/ASerializable.hpp) on an arbitrary file (stream_model.h): no store outside the vector
// (engine 'ub' obligations, replayed under AddressSanitizer), and a true return means the line read held
// exactly nvalues values, which are the ones stored.
//   VF_NVALUES  number of values the caller expects (vector length)
//   VF_NLINES   lines in the file (0..VF_NLINES), VF_NTOK tokens per line (0..VF_NTOK, default nvalues+2)
#ifndef VF_NVALUES
#define VF_NVALUES 2
#endif
#ifndef VF_NTOK
#define VF_NTOK (VF_NVALUES + 2)
#endif
#include "stream_model.h"
#define TEST 1.234e30   // include/geoslib_define.h
#define ITEST -1234567
extern "C" {
bool vf_call_readvec_double(void* is, int nvalues, double* out, int cap, int* size_after);
bool vf_call_readvec_int(void* is, int nvalues, int* out, int cap, int* size_after);
bool vf_call_readvec_inplace(void* is, int nvalues, double* out, int cap);
}

// reference reading of the file: the data line is the first line that is neither blank nor a comment;
// its values are the tokens before the first comment token
static bool ref_found;
static int ref_line, ref_nvals;
static void reference()
{
  ref_found = false; ref_line = 0; ref_nvals = 0;
  for (int l = 0; l < VF_NLINES; l++)
    if (!ref_found && l < f_nlines && f_ntok[l] > 0 && f_cls[l][0] != TK_COMMENT)
    {
      ref_found = true; ref_line = l;
      bool open = true;
      for (int t = 0; t < VF_NTOK; t++)
      {
        if (t >= f_ntok[l] || f_cls[l][t] == TK_COMMENT) open = false;
        if (open) ref_nvals++;
      }
    }
}
static int ref_cls(int t)
{
  int c = TK_GARBAGE;
  for (int l = 0; l < VF_NLINES; l++) if (l == ref_line) c = f_cls[l][t];
  return c;
}
static double ref_val(int t)
{
  double v = 0.;
  for (int l = 0; l < VF_NLINES; l++) if (l == ref_line) v = f_val[l][t];
  return v;
}

// known findings can be excluded by a define (registry key exclude_define of known_findings.json)
static void exclude_known()
{
#ifdef VF_EXCLUDE_S1
  vf_assume(!(ref_found && ref_nvals > VF_NVALUES)); // S1: a data line with more than nvalues values overflows the vector by one
#endif
}

extern "C" void k_readvec_double()
{
  vf_file_draw();
  reference();
  exclude_known();
  void* is = vf_file_open();
  double vec[VF_NVALUES + 1];
  int size_after = -1;
  bool ok = vf_call_readvec_double(is, VF_NVALUES, vec, VF_NVALUES, &size_after);
  if (ok)
  {
    bool sz = size_after == VF_NVALUES;
    vf_assert_id(sz, "true return: the vector holds exactly nvalues entries");
    vf_assert_id(VF_NVALUES == 0 || (ref_found && ref_nvals == VF_NVALUES), "true return: the line read holds exactly nvalues values");
    if (sz && ref_found && ref_nvals == VF_NVALUES)
      for (int i = 0; i < VF_NVALUES; i++)
      {
        if (ref_cls(i) == TK_NUM) vf_assert_id(vec[i] == ref_val(i), "true return: numbers of the line are the values stored");
        if (ref_cls(i) == TK_NA) vf_assert_id(vec[i] == TEST, "true return: NA is stored as TEST");
      }
  }
  vf_witness();
}

extern "C" void k_readvec_int()
{
  vf_file_draw();
  reference();
  exclude_known();
  void* is = vf_file_open();
  int vec[VF_NVALUES + 1];
  int size_after = -1;
  bool ok = vf_call_readvec_int(is, VF_NVALUES, vec, VF_NVALUES, &size_after);
  if (ok)
  {
    bool sz = size_after == VF_NVALUES;
    vf_assert_id(sz, "true return: the vector holds exactly nvalues entries");
    vf_assert_id(VF_NVALUES == 0 || (ref_found && ref_nvals == VF_NVALUES), "true return: the line read holds exactly nvalues values");
    if (sz && ref_found && ref_nvals == VF_NVALUES)
      for (int i = 0; i < VF_NVALUES; i++)
      {
        if (ref_cls(i) == TK_NUM) vf_assert_id(vec[i] == (int)ref_val(i), "true return: numbers of the line are the values stored");
        if (ref_cls(i) == TK_NA) vf_assert_id(vec[i] == ITEST, "true return: NA is stored as ITEST");
      }
  }
  vf_witness();
}

extern "C" void k_readvec_inplace()
{
  vf_file_draw();
  reference();
  exclude_known();
  void* is = vf_file_open();
  double buf[VF_NVALUES + 1];
  bool ok = vf_call_readvec_inplace(is, VF_NVALUES, buf, VF_NVALUES);
  if (ok)
  {
    vf_assert_id(VF_NVALUES == 0 || (ref_found && ref_nvals == VF_NVALUES), "true return: the line read holds exactly nvalues values");
    if (ref_found && ref_nvals == VF_NVALUES)
      for (int i = 0; i < VF_NVALUES; i++)
      {
        if (ref_cls(i) == TK_NUM) vf_assert_id(buf[i] == ref_val(i), "true return: numbers of the line are the values stored");
        if (ref_cls(i) == TK_NA) vf_assert_id(buf[i] == TEST, "true return: NA is stored as TEST");
      }
  }
  vf_witness();
}

// C09.d: the REAL ASerializable::_tableRead (src/Basic/ASerializable.cpp) over the real _recordReadVec<double>:
// a failing inner read must be propagated (true return => the ntab values of the data line were stored)
extern "C" bool vf_call_tableread(void* is, int ntab, double* tab);
extern "C" void k_tableread()
{
  vf_file_draw();
  reference();
  exclude_known();
  void* is = vf_file_open();
  double tab[VF_NVALUES + 1];
  for (int i = 0; i <= VF_NVALUES; i++) tab[i] = -7777.;
  bool ok = vf_call_tableread(is, VF_NVALUES, tab);
  if (ok)
  {
#ifndef VF_EXCLUDE_S2
    vf_assert_id(VF_NVALUES == 0 || (ref_found && ref_nvals == VF_NVALUES), "true return: the line read holds exactly ntab values");
#endif
    if (ref_found && ref_nvals == VF_NVALUES)
      for (int i = 0; i < VF_NVALUES; i++)
      {
        if (ref_cls(i) == TK_NUM) vf_assert_id(tab[i] == ref_val(i), "true return: numbers of the line are the values stored");
        if (ref_cls(i) == TK_NA) vf_assert_id(tab[i] == TEST, "true return: NA is stored as TEST");
      }
  }
  vf_witness();
}

// C09.c: the REAL ASerializable::_recordRead<double> / <int>: terminates on every file, and a true return leaves
// a defined value: the first word that is not a comment (number -> its value, NA -> TEST / ITEST), or the
// default value when the file ends first; a word that is not a number gives false.
extern "C" bool vf_call_read_double(void* is, double* val);
extern "C" bool vf_call_read_int(void* is, int* val);
// first word of the file that is not (part of) a comment
static bool rw_found;
static int rw_cls;
static double rw_val;
static void reference_word()
{
  rw_found = false; rw_cls = TK_GARBAGE; rw_val = 0.;
  for (int l = 0; l < VF_NLINES; l++)
  {
    bool comment = false; // the rest of the line after a comment word is skipped
    for (int t = 0; t < VF_NTOK; t++)
      if (!rw_found && !comment && l < f_nlines && t < f_ntok[l])
      {
        if (f_cls[l][t] == TK_COMMENT) comment = true;
        else { rw_found = true; rw_cls = f_cls[l][t]; rw_val = f_val[l][t]; }
      }
  }
}
extern "C" void k_read_double()
{
  vf_file_draw();
  reference_word();
  void* is = vf_file_open();
  double val = -7777.;
  bool ok = vf_call_read_double(is, &val);
  if (ok)
  {
    vf_assert_id(!(rw_found && rw_cls == TK_GARBAGE), "true return: the word read is a number or NA");
    if (rw_found && rw_cls == TK_NUM) vf_assert_id(val == rw_val, "true return: the number read is the value stored");
    if (rw_found && rw_cls == TK_NA) vf_assert_id(val == TEST, "true return: NA is stored as TEST");
    if (!rw_found) vf_assert_id(val == 0., "true return at end of file: default value");
  }
  vf_witness();
}
extern "C" void k_read_int()
{
  vf_file_draw();
  reference_word();
  void* is = vf_file_open();
  int val = -7777;
  bool ok = vf_call_read_int(is, &val);
  if (ok)
  {
    vf_assert_id(!(rw_found && rw_cls == TK_GARBAGE), "true return: the word read is a number or NA");
    if (rw_found && rw_cls == TK_NUM) vf_assert_id(val == (int)rw_val, "true return: the number read is the value stored");
    if (rw_found && rw_cls == TK_NA) vf_assert_id(val == ITEST, "true return: NA is stored as ITEST");
    if (!rw_found) vf_assert_id(val == 0, "true return at end of file: default value");
  }
  vf_witness();
}
