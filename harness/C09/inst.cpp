// Out-of-line instantiations of the REAL reader templates of include/Basic/ASerializable.hpp, compiled as
// a translation unit of its own (no override is visible here), behind plain-C wrappers: the harness (which
// defines the abstract iostream callees for the solver build) includes no C++ header and reaches the real
// readers only through these wrappers.  'is' is a std::istream*; the vector the reader fills is a real
// VectorDouble / VectorInt local to the wrapper, its final size and first 'cap' entries are copied out.
#include "Basic/ASerializable.hpp"
#include "Basic/VectorNumT.hpp"
#include <sstream>
static_assert(sizeof(std::string) == 32, "std::string layout assumed by stream_model.h");
static_assert(sizeof(std::stringstream) >= 128 + 6 * sizeof(long), "stringstream layout assumed by stream_model.h");
extern "C" bool vf_call_readvec_double(void* is, int nvalues, double* out, int cap, int* size_after)
{
  VectorDouble vec;
  String title("title");
  bool ok = ASerializable::_recordReadVec<double>(*(std::istream*)is, title, vec, nvalues);
  *size_after = (int)vec.size();
  for (int i = 0; i < cap && i < (int)vec.size(); i++) out[i] = vec[i];
  return ok;
}
extern "C" bool vf_call_readvec_int(void* is, int nvalues, int* out, int cap, int* size_after)
{
  VectorInt vec;
  String title("title");
  bool ok = ASerializable::_recordReadVec<int>(*(std::istream*)is, title, vec, nvalues);
  *size_after = (int)vec.size();
  for (int i = 0; i < cap && i < (int)vec.size(); i++) out[i] = vec[i];
  return ok;
}
extern "C" bool vf_call_readvec_inplace(void* is, int nvalues, double* out, int cap)
{
  VectorDouble buf(nvalues);
  VectorDouble::iterator it = buf.begin();
  String title("title");
  bool ok = ASerializable::_recordReadVecInPlace<double>(*(std::istream*)is, title, it, nvalues);
  for (int i = 0; i < cap && i < (int)buf.size(); i++) out[i] = buf[i];
  return ok;
}
extern "C" bool vf_call_read_double(void* is, double* val)
{
  String title("title");
  return ASerializable::_recordRead<double>(*(std::istream*)is, title, *val);
}
extern "C" bool vf_call_read_int(void* is, int* val)
{
  String title("title");
  return ASerializable::_recordRead<int>(*(std::istream*)is, title, *val);
}
extern "C" bool vf_call_tableread(void* is, int ntab, double* tab)
{
  String title("title");
  return ASerializable::_tableRead(*(std::istream*)is, title, ntab, tab);
}
