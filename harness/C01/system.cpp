// C01.a-d: assembly of the kriging system in src/Estimation/KrigingSystem.cpp against the block
// layout of doc/references/Kriging.md ([Sigma X; Xt 0] [lambda; -mu] = [Sigma0; X0t]).
//   k_flag : _flagDefine (+ _getIdim/_getIvar/_getFext/_setFlag), _isAuthorized     (C01.a, C05.c)
//   k_lhs  : _lhsCalcul (+ _covtab0Calcul, _setLHSF/_addLHSF/_getCOVTAB)             (C01.c)
//   k_iso  : _lhsIsoToHetero, _rhsIsoToHetero                                        (C01.b)
//   k_rhs  : _rhsCalcul for a point target (_rhsCalculPoint, _rhsStore, drift part)  (C01.d)
// Covariance and drift VALUES are abstract: they come from the symbolic tables of ks_common.h.
#include "ks_common.h"

static bool undef(double v) { return v > 1.e30; } // the undefined value TEST = 1.234e30 (no NaN/inf in the real reading)

// ------------------------------------------------------------------ C01.a / C05.c
extern "C" void k_flag()
{
  vf_ks_base();
  KrigingSystem* ks = KS;
  vf_draw_nbgh();
  for (int r = 0; r < VF_NS; r++)
  {
    for (int d = 0; d < VF_NDIM; d++) T_coord[r][d] = vf_maybe_test();
    for (int iv = 0; iv < VF_NVAR; iv++) T_z[r][iv] = vf_maybe_test();
    for (int ib = 0; ib < VF_NFEX; ib++) T_fext[r][ib] = vf_maybe_test();
  }
  for (int ib = 0; ib < VF_NFEQ; ib++) T_driftdef[ib] = vf_nondet_bool();
  // stale content of the flag array (it is resized, not cleared, between neighbourhoods)
  for (int i = 0; i < VF_NEQ; i++) ks->_flag[i] = vf_range(0, 1);

  ks->_flagDefine();

  int nred = 0, ncov = 0, ndrf = 0;
  for (int i = 0; i < VF_NECH; i++)
  {
    int r = ks->_nbgh[i];
    bool sample_ok = true;
#ifdef VF_MUT // self-test only (never defined by the registry): a deliberately wrong oracle must be refuted
    for (int d = 1; d < VF_NDIM; d++)
#else
    for (int d = 0; d < VF_NDIM; d++)
#endif
      if (undef(T_coord[r][d])) sample_ok = false;
    for (int ib = 0; ib < VF_NFEX; ib++)
      if (undef(T_fext[r][ib])) sample_ok = false;
    for (int iv = 0; iv < VF_NVAR; iv++)
    {
      bool usable = sample_ok && !undef(T_z[r][iv]);
      vf_assert_id(ks->_flag[i + iv * VF_NECH] == (usable ? 1 : 0),
                   "flag[i+iv*nech]==1 iff coordinates, Z(i,iv) and external drifts are all defined");
      vf_assert_id(ks->_getFLAG(i, iv) == (usable ? 1 : 0), "_getFLAG(i,iv) reads flag[IND(i,iv)]");
      if (usable) { nred++; ncov++; }
    }
  }
  for (int ib = 0; ib < VF_NFEQ; ib++)
  {
    vf_assert_id(ks->_flag[VF_NVAR * VF_NECH + ib] == (T_driftdef[ib] ? 1 : 0),
                 "drift equation ib kept iff the model reports the drift defined on the neighbourhood");
    if (T_driftdef[ib]) { nred++; ndrf++; }
  }
  vf_assert_id(ks->_nred == nred, "nred == number of surviving equations");
  vf_assert_id(ks->_flagIsotopic == (nred == VF_NEQ), "isotopic iff no equation is dropped");
  bool auth = ks->_isAuthorized();
  vf_assert_id(auth == (VF_NECH * VF_NVAR >= VF_NFEQ && ncov > 0 && ncov >= ndrf),
               "system authorized iff some usable datum and at least as many as retained drift equations");
  vf_assert_id(T_bad == 0, "callbacks reached with the expected arguments only");
  vf_witness();
}

// ------------------------------------------------------------------ C01.c
// draws the covariance / drift / measurement error tables (every input unconditionally)
static void draw_model_tables()
{
  T_stat = vf_nondet_bool();
  double c00[VF_NVAR][VF_NVAR];
  for (int iv = 0; iv < VF_NVAR; iv++)
    for (int jv = 0; jv <= iv; jv++) c00[iv][jv] = c00[jv][iv] = vf_nondet_double();
  for (int iv = 0; iv < VF_NVAR; iv++)
    for (int jv = 0; jv < VF_NVAR; jv++) T_c00[iv][jv] = c00[iv][jv];
  // cov(Z_iv(x_r1), Z_jv(x_r2)) == cov(Z_jv(x_r2), Z_iv(x_r1)); stationary model: value at distance 0 is C(0)
  for (int r1 = 0; r1 < VF_NS; r1++)
    for (int r2 = 0; r2 <= r1; r2++)
      for (int iv = 0; iv < VF_NVAR; iv++)
        for (int jv = 0; jv < VF_NVAR; jv++)
        {
          if (r1 == r2 && jv > iv) continue;
          double v = vf_nondet_double();
          if (r1 == r2 && T_stat) v = c00[iv][jv];
          T_cov[r1][r2][iv][jv] = v;
          T_cov[r2][r1][jv][iv] = v;
        }
  for (int r = 0; r < VF_NS; r++)
    for (int iv = 0; iv < VF_NVAR; iv++)
    {
      T_verr[r][iv] = vf_maybe_test();
      for (int jv = 0; jv < VF_NVAR; jv++) T_covt[r][iv][jv] = vf_nondet_double();
      for (int ib = 0; ib < VF_NFEQ; ib++) T_drift[r][iv][ib] = vf_nondet_double();
    }
  for (int iv = 0; iv < VF_NVAR; iv++)
    for (int ib = 0; ib < VF_NFEQ; ib++) T_drift0[iv][ib] = vf_maybe_test();
}

extern "C" void k_lhs()
{
  vf_ks_base();
  KrigingSystem* ks = KS;
  vf_draw_nbgh();
  draw_model_tables();
  ks->_flagVerr = vf_nondet_bool();
  new (&ks->_lhsf) MatrixSquareSymmetric(VF_NEQ);
  // stale content of a previous neighbourhood of the same size (AMatrix::resize keeps the values);
  // the drift/drift block is never written by anybody and is zero since allocation
  for (int a = 0; a < VF_NEQ; a++)
    for (int b = 0; b <= a; b++)
    {
      double v = vf_nondet_double();
      if (b >= VF_NVAR * VF_NECH) v = 0.;
      ks->_lhsf.setValue(a, b, v, false);
    }

  ks->_lhsCalcul();

  for (int i = 0; i < VF_NECH; i++)
    for (int iv = 0; iv < VF_NVAR; iv++)
    {
      int a = i + iv * VF_NECH;
      int ri = ks->_nbgh[i];
      for (int j = 0; j < VF_NECH; j++)
        for (int jv = 0; jv < VF_NVAR; jv++)
        {
          int b = j + jv * VF_NECH;
          int rj = ks->_nbgh[j];
          double ref = T_cov[ri][rj][iv][jv];
#ifndef VF_MUT // self-test only: oracle without the measurement error term must be refuted
          if (a == b && ks->_flagVerr && !undef(T_verr[ri][iv]) && T_verr[ri][iv] > 0) ref += T_verr[ri][iv];
#endif
          vf_assert_id(ks->_lhsf.getValue(a, b, false) == ref,
                       "LHSF[IND(i,iv),IND(j,jv)] == cov(i,j,iv,jv) (+ measurement error variance on the diagonal when defined and > 0)");
          vf_assert_id(ks->_getLHSF(i, iv, j, jv) == ref, "_getLHSF(i,iv,j,jv) reads LHSF[IND(i,iv),IND(j,jv)]");
        }
      for (int ib = 0; ib < VF_NFEQ; ib++)
      {
        int c = VF_NVAR * VF_NECH + ib;
        vf_assert_id(ks->_lhsf.getValue(a, c, false) == T_drift[ri][iv][ib], "LHSF[IND(i,iv), nvar*nech+ib] == drift(i,iv,ib)");
        vf_assert_id(ks->_lhsf.getValue(c, a, false) == T_drift[ri][iv][ib], "LHSF[nvar*nech+ib, IND(i,iv)] == drift(i,iv,ib)");
      }
    }
  for (int ib = 0; ib < VF_NFEQ; ib++)
    for (int jb = 0; jb < VF_NFEQ; jb++)
      vf_assert_id(ks->_lhsf.getValue(VF_NVAR * VF_NECH + ib, VF_NVAR * VF_NECH + jb, false) == 0., "drift/drift block is zero");
  vf_assert_id(T_bad == 0, "callbacks reached with the expected arguments only");
  vf_witness();
}

// ------------------------------------------------------------------ C01.b
#define VF_SENT 777. // sentinel: cell of a compressed matrix that must not be written
extern "C" void k_iso()
{
  vf_ks_base();
  KrigingSystem* ks = KS;
  double lf[VF_NEQ][VF_NEQ], rf[VF_NEQ][VF_NVAR];
  int nred = 0;
  for (int i = 0; i < VF_NEQ; i++)
  {
    int f = vf_range(0, 1);
    ks->_flag[i] = f;
    nred += f;
  }
  ks->_nred = nred;
  ks->_flagIsotopic = (nred == VF_NEQ);
  new (&ks->_lhsf) MatrixSquareSymmetric(VF_NEQ);
  new (&ks->_rhsf) MatrixRectangular(VF_NEQ, VF_NVAR);
  // the library sizes _lhsc / _rhsc to nred (a symbolic number here): they are allocated at the full size
  // and filled with a sentinel, so that a write outside the leading nred block is detected
  new (&ks->_lhsc) MatrixSquareSymmetric(VF_NEQ);
  new (&ks->_rhsc) MatrixRectangular(VF_NEQ, VF_NVAR);
  for (int a = 0; a < VF_NEQ; a++)
  {
    for (int b = 0; b <= a; b++)
    {
      lf[a][b] = lf[b][a] = vf_nondet_double();
      ks->_lhsf.setValue(a, b, lf[a][b], false);
      ks->_lhsc.setValue(a, b, VF_SENT, false);
    }
    for (int jv = 0; jv < VF_NVAR; jv++)
    {
      rf[a][jv] = vf_nondet_double();
      ks->_rhsf.setValue(a, jv, rf[a][jv], false);
      ks->_rhsc.setValue(a, jv, VF_SENT, false);
    }
  }
  ks->_lhs = &ks->_lhsf;
  ks->_rhs = &ks->_rhsf;

  ks->_lhsIsoToHetero();
  ks->_rhsIsoToHetero();

  if (nred == VF_NEQ)
  {
    vf_assert_id(ks->_lhs == &ks->_lhsf && ks->_rhs == &ks->_rhsf, "isotopic: the full matrices are the system");
  }
  else
  {
    vf_assert_id(ks->_lhs == &ks->_lhsc && ks->_rhs == &ks->_rhsc, "heterotopic: the compressed matrices are the system");
    // position of a kept equation in the compressed system = number of kept equations before it
    int pa = 0;
    for (int a = 0; a < VF_NEQ; a++)
    {
      if (ks->_flag[a] == 0) continue;
      int pb = 0;
      for (int b = 0; b < VF_NEQ; b++)
      {
        if (ks->_flag[b] == 0) continue;
        vf_assert_id(ks->_lhsc.getValue(pa, pb, false) == lf[a][b], "LHSC = rows/cols of LHSF with flag != 0, in order");
        pb++;
      }
      for (int jv = 0; jv < VF_NVAR; jv++)
#ifdef VF_MUT // self-test only: rows taken without compression must be refuted
        vf_assert_id(ks->_rhsc.getValue(a, jv, false) == rf[a][jv], "RHSC = rows of RHSF with flag != 0, in order");
#else
        vf_assert_id(ks->_rhsc.getValue(pa, jv, false) == rf[a][jv], "RHSC = rows of RHSF with flag != 0, in order");
#endif
      pa++;
    }
    for (int a = 0; a < VF_NEQ; a++)
    {
      for (int b = 0; b < VF_NEQ; b++)
        if (a >= nred || b >= nred) vf_assert_id(ks->_lhsc.getValue(a, b, false) == VF_SENT, "no write outside the nred x nred block of LHSC");
      for (int jv = 0; jv < VF_NVAR; jv++)
        if (a >= nred) vf_assert_id(ks->_rhsc.getValue(a, jv, false) == VF_SENT, "no write outside the nred rows of RHSC");
    }
  }
  for (int a = 0; a < VF_NEQ; a++)
    for (int b = 0; b < VF_NEQ; b++) vf_assert_id(ks->_lhsf.getValue(a, b, false) == lf[a][b], "LHSF unchanged by the compression");
  vf_witness();
}

// ------------------------------------------------------------------ C01.d
extern "C" void k_rhs()
{
  vf_ks_base();
  KrigingSystem* ks = KS;
  vf_draw_nbgh();
  draw_model_tables();
  new (&ks->_rhsf) MatrixRectangular(VF_NEQ, VF_NVAR);
  for (int a = 0; a < VF_NEQ; a++) // stale content of the previous target
    for (int jv = 0; jv < VF_NVAR; jv++) ks->_rhsf.setValue(a, jv, vf_nondet_double(), false);

  int err = ks->_rhsCalcul();

  for (int i = 0; i < VF_NECH; i++)
    for (int iv = 0; iv < VF_NVAR; iv++)
      for (int jv = 0; jv < VF_NVAR; jv++)
#ifdef VF_MUT // self-test only: covariance taken at the data base rank i instead of the neighbourhood rank must be refuted
        vf_assert_id(ks->_rhsf.getValue(i + iv * VF_NECH, jv, false) == T_covt[i][iv][jv],
#else
        vf_assert_id(ks->_rhsf.getValue(i + iv * VF_NECH, jv, false) == T_covt[ks->_nbgh[i]][iv][jv],
#endif
                     "RHSF[IND(i,iv), jv] == cov(sample i variable iv, target variable jv)");
  bool drift_undef = false;
  for (int iv = 0; iv < VF_NVAR; iv++)
    for (int ib = 0; ib < VF_NFEQ; ib++)
      if (undef(T_drift0[iv][ib])) drift_undef = true;
  vf_assert_id((err != 0) == drift_undef, "_rhsCalcul fails iff a drift function is undefined at the target");
  if (!drift_undef)
    for (int iv = 0; iv < VF_NVAR; iv++)
      for (int ib = 0; ib < VF_NFEQ; ib++)
        vf_assert_id(ks->_rhsf.getValue(VF_NVAR * VF_NECH + ib, iv, false) == T_drift0[iv][ib],
                     "RHSF[nvar*nech+ib, iv] == drift(target, iv, ib)");
  vf_assert_id(T_bad == 0, "callbacks reached with the expected arguments only");
  vf_witness();
}
