// Shared set-up for the KrigingSystem kernels (C01 / C02): a KrigingSystem in raw storage (its
// constructor is never run), real matrix members built with placement new, and the model / data
// base callbacks replaced by harness tables of symbolic values.
//
// Compile-time sizes: VF_NECH samples in the neighbourhood, VF_NVAR variables, VF_NFEQ drift
// equations, VF_NDIM space dimensions, VF_NFEX external drifts, VF_NS = VF_NECH + 1 samples in
// the input data base (so that the neighbourhood ranks are a genuine, non-identity injection).
#pragma once
#include "vf.h"
#include <new>
#include "Estimation/KrigingSystem.hpp"
#include "Db/Db.hpp"
#include "Model/Model.hpp"
#include "Neigh/ANeigh.hpp"
#include "Covariances/ACov.hpp"
#include "Covariances/ACovAnisoList.hpp"
#include "Covariances/CovContext.hpp"
#include "Space/SpacePoint.hpp"
#include "Enum/ELoc.hpp"
#include "Enum/ECalcMember.hpp"
#include "Enum/EKrigOpt.hpp"
#include "Matrix/MatrixSquareSymmetric.hpp"
#include "Matrix/MatrixSquareGeneral.hpp"
#include "Matrix/MatrixRectangular.hpp"

#ifndef VF_NECH
#define VF_NECH 2
#endif
#ifndef VF_NVAR
#define VF_NVAR 1
#endif
#ifndef VF_NFEQ
#define VF_NFEQ 0
#endif
#ifndef VF_NDIM
#define VF_NDIM 2
#endif
#ifndef VF_NFEX
#define VF_NFEX 0
#endif
#define VF_NS (VF_NECH + 1)
#define VF_NEQ (VF_NECH * VF_NVAR + VF_NFEQ)
#define VF_D(n) ((n) > 0 ? (n) : 1) // array dimension that is never zero
#define VF_NOUT 16

#ifdef VF_SOLVER
// dynamic_cast<const AMatrixDense*>(const AMatrix*) inside AMatrixDense::prodMatMatInPlace: every
// matrix of these kernels is dense and AMatrix is its primary, non-virtual base at offset 0
extern "C" void* __dynamic_cast(const void* src, const void*, const void*, long) { return (void*)src; }
#endif

// ---------------------------------------------------------------- raw objects
alignas(16) static char vf_ks_buf[sizeof(KrigingSystem)];
alignas(16) static char vf_dbin_buf[sizeof(Db)];
alignas(16) static char vf_dbout_buf[sizeof(Db)];
alignas(16) static char vf_model_buf[sizeof(Model)];
alignas(16) static char vf_cova_buf[sizeof(ACovAnisoList)];
alignas(16) static char vf_neigh_buf[sizeof(ANeigh)];
#define KS ((KrigingSystem*)vf_ks_buf)
#define DBIN ((Db*)vf_dbin_buf)
#define DBOUT ((Db*)vf_dbout_buf)

// ---------------------------------------------------------------- symbolic tables
static double T_coord[VF_NS][VF_D(VF_NDIM)];        // Db::getCoordinate(rank, idim)          (may be TEST)
static double T_coord0[VF_D(VF_NDIM)];              // coordinates of the target
static double T_z[VF_NS][VF_NVAR];                  // Db::getZVariable(rank, ivar)           (may be TEST)
static double T_fext[VF_NS][VF_D(VF_NFEX)];         // Db::getLocVariable(ELoc::F, rank, ib)  (may be TEST)
static double T_verr[VF_NS][VF_NVAR];               // Db::getLocVariable(ELoc::V, rank, ivar)(may be TEST)
static bool   T_driftdef[VF_D(VF_NFEQ)];            // Model::isDriftSampleDefined(ib)
static double T_cov[VF_NS][VF_NS][VF_NVAR][VF_NVAR];// cov(Z_iv(x_r1), Z_jv(x_r2))
static double T_covt[VF_NS][VF_NVAR][VF_NVAR];      // cov(Z_iv(x_r), Z_jv(target))
static double T_c00[VF_NVAR][VF_NVAR];              // C(0) of a stationary model
static bool   T_stat;                               // ACovAnisoList::isStationary()
static double T_drift[VF_NS][VF_NVAR][VF_D(VF_NFEQ)];// Model::evalDriftValue(dbin, rank, ivar, ib)
static double T_drift0[VF_NVAR][VF_D(VF_NFEQ)];     // Model::evalDriftValue(dbout, target, ivar, ib) (may be TEST)
static double T_mean[VF_NVAR];                      // Model::getMean(ivar)
static double T_out[VF_NOUT];                       // values written through Db::setArray(target, iuid, .)
static int    T_outn[VF_NOUT];                      // number of writes per iuid
static int    T_bad;                                // a callback was reached with unexpected arguments

static double vf_defined_double() // arbitrary defined value (FFFF() is false)
{
  double v = vf_nondet_double();
  vf_assume(v <= 1.e30);
  return v;
}
static double vf_maybe_test() // arbitrary value or the undefined value TEST; both inputs always drawn
{
  bool u = vf_nondet_bool();
  double v = vf_defined_double();
  return u ? TEST : v;
}

// ---------------------------------------------------------------- overrides of the callbacks
// (a function defined here replaces the library's definition of the same function)
double Db::getZVariable(int iech, int item) const
{
  if (this != DBIN || iech < 0 || iech >= VF_NS || item < 0 || item >= VF_NVAR) { T_bad++; return TEST; }
  return T_z[iech][item];
}
double Db::getLocVariable(const ELoc& loctype, int iech, int item) const
{
  if (this != DBIN || iech < 0 || iech >= VF_NS || item < 0) { T_bad++; return TEST; }
  if (&loctype == &ELoc::F && item < VF_NFEX) return T_fext[iech][item];
  if (&loctype == &ELoc::V && item < VF_NVAR) return T_verr[iech][item];
  T_bad++;
  return TEST;
}
#ifndef VF_KS_OWN_SETARRAY // a harness that defines this macro supplies its own Db::setArray (C04/xvalid.cpp: results go to the input Db)
void Db::setArray(int iech, int iuid, double value)
{
  if (this != DBOUT || iech != KS->_iechOut || iuid < 0 || iuid >= VF_NOUT) { T_bad++; return; }
  T_out[iuid] = value;
  T_outn[iuid]++;
}
#endif
void Db::getSampleAsSPInPlace(SpacePoint& P) const { (void)P; }
bool Model::isDriftSampleDefined(const Db* db, int ib, int nech, const VectorInt& nbgh, const ELoc& loctype) const
{
  (void)nbgh;
  if (db != DBIN || ib < 0 || ib >= VF_NFEQ || nech != VF_NECH || &loctype != &ELoc::Z) { T_bad++; return false; }
  return T_driftdef[ib];
}
double Model::evalDriftValue(const Db* db, int iech, int ivar, int ib, const ECalcMember& member) const
{
  (void)member;
  if (ivar < 0 || ivar >= VF_NVAR || ib < 0 || ib >= VF_NFEQ) { T_bad++; return TEST; }
  if (db == DBOUT)
  {
    if (iech != KS->_iechOut) T_bad++;
    return T_drift0[ivar][ib];
  }
  if (db != DBIN || iech < 0 || iech >= VF_NS) { T_bad++; return TEST; }
  return T_drift[iech][ivar][ib];
}
double CovContext::getMean(int ivar) const
{
  if (ivar < 0 || ivar >= VF_NVAR) { T_bad++; return TEST; }
  return T_mean[ivar];
}
#ifndef VF_KS_OWN_COVCB // a harness that defines this macro supplies its own evalCovKriging / optimizationSetTarget (C04/block.cpp)
void ACov::evalCovKriging(MatrixSquareGeneral& mat, SpacePoint& pwork1, SpacePoint& pout, const CovCalcMode* mode) const
{
  (void)mode;
  int r1 = pwork1.getIech();
  if (pwork1.isTarget() || r1 < 0 || r1 >= VF_NS) { T_bad++; return; }
  if (pout.isTarget())
  {
    for (int iv = 0; iv < VF_NVAR; iv++)
      for (int jv = 0; jv < VF_NVAR; jv++) mat.setValue(iv, jv, T_covt[r1][iv][jv], false);
    return;
  }
  int r2 = pout.getIech();
  if (r2 < 0 || r2 >= VF_NS) { T_bad++; return; }
  for (int iv = 0; iv < VF_NVAR; iv++)
    for (int jv = 0; jv < VF_NVAR; jv++) mat.setValue(iv, jv, T_cov[r1][r2][iv][jv], false);
}
#endif
bool ACovAnisoList::isStationary() const { return T_stat; }
#ifndef VF_KS_OWN_COVCB
void ACov::optimizationSetTarget(const SpacePoint& pt) const { (void)pt; }
#endif

// virtual callbacks: the raw objects get a harness-built virtual table in which only the slots the
// kernels reach are filled (slot number taken from the pointer-to-member value, Itanium C++ ABI)
static double vf_v_getCoordinate(const Db* db, int iech, int idim, bool flag_rotate)
{
  (void)flag_rotate;
  if (idim < 0 || idim >= VF_NDIM) { T_bad++; return TEST; }
  if (db == DBOUT) return T_coord0[idim];
  if (db != DBIN || iech < 0 || iech >= VF_NS) { T_bad++; return TEST; }
  return T_coord[iech][idim];
}
static void vf_v_updateCovByPoints(ACov* c, int icas1, int iech1, int icas2, int iech2)
{
  (void)c; (void)icas1; (void)iech1; (void)icas2; (void)iech2;
}
static void vf_v_eval0(const ACov* c, MatrixSquareGeneral& mat, const CovCalcMode* mode)
{
  (void)c; (void)mode;
  for (int iv = 0; iv < VF_NVAR; iv++)
    for (int jv = 0; jv < VF_NVAR; jv++) mat.setValue(iv, jv, T_c00[iv][jv], false);
}
static bool vf_v_getFlagContinuous(const ANeigh* n) { (void)n; return false; }

#define VF_VTN 128
static void* vf_vt_db[VF_VTN];
static void* vf_vt_cova[VF_VTN];
static void* vf_vt_neigh[VF_VTN];
template <class PMF> static inline long vf_vslot(PMF p)
{
  union { PMF p; long w[2]; } u;
  u.w[0] = 0;
  u.w[1] = 0;
  u.p = p;
  return (u.w[0] - 1) / 8;
}
static void vf_set_slot(void** vt, long slot, void* fn)
{
  if (slot < 0 || slot >= VF_VTN) { T_bad++; return; }
  vt[slot] = fn;
}

// ---------------------------------------------------------------- building the raw system
static void vf_ks_base()
{
  KrigingSystem* ks = KS;
  T_bad = 0;
  for (int i = 0; i < VF_NOUT; i++) { T_out[i] = 0.; T_outn[i] = 0; }
  vf_set_slot(vf_vt_db, vf_vslot(static_cast<double (Db::*)(int, int, bool) const>(&Db::getCoordinate)), (void*)&vf_v_getCoordinate);
  vf_set_slot(vf_vt_cova, vf_vslot(&ACov::updateCovByPoints), (void*)&vf_v_updateCovByPoints);
  vf_set_slot(vf_vt_cova, vf_vslot(&ACov::eval0CovMatBiPointInPlace), (void*)&vf_v_eval0);
  vf_set_slot(vf_vt_neigh, vf_vslot(&ANeigh::getFlagContinuous), (void*)&vf_v_getFlagContinuous);
  *(void***)vf_dbin_buf = vf_vt_db;
  *(void***)vf_dbout_buf = vf_vt_db;
  *(void***)vf_cova_buf = vf_vt_cova;
  *(void***)vf_neigh_buf = vf_vt_neigh;
  ks->_dbin = DBIN;
  ks->_dbout = DBOUT;
  ks->_model = (Model*)vf_model_buf;
  ks->_model->_cova = (ACov*)vf_cova_buf;
  ks->_cova = (ACovAnisoList*)vf_cova_buf;
  ks->_neigh = (ANeigh*)vf_neigh_buf;
  ks->_iechOut = 1;
  ks->_ndim = VF_NDIM;
  ks->_nvar = VF_NVAR;
  ks->_nvarCL = VF_NVAR;
  ks->_nech = VF_NECH;
  ks->_nbfl = VF_NFEQ;
  ks->_nfeq = VF_NFEQ;
  ks->_nfex = VF_NFEX;
  ks->_neq = VF_NEQ;
  ks->_nred = VF_NEQ;
  ks->_flagIsotopic = true;
  ks->_flagNoMatLC = true;
  ks->_flagSimu = false;
  ks->_flagBayes = false;
  ks->_flagCode = false;
  ks->_flagVerr = false;
  ks->_flagNoStat = false;
  ks->_flagPerCell = false;
  ks->_calcul._value = EKrigOpt::E_POINT;
  // every field a kernel writes on some paths only is given a typed initial value here
  ks->_p0._iech = 0; ks->_p0._target = false;
  ks->_p1._iech = 0; ks->_p1._target = false;
  ks->_p2._iech = 0; ks->_p2._target = false;
  ks->_lhs = nullptr;
  ks->_rhs = nullptr;
  new (&ks->_nbgh) VectorInt(VF_NECH, 0);
  new (&ks->_flag) VectorInt(VF_NEQ, 0);
  new (&ks->_rankColCok) VectorInt();
  new (&ks->_covtab) MatrixSquareGeneral(VF_NVAR);
}

// neighbourhood: VF_NECH distinct ranks of the input data base, in arbitrary order
// (first rank arbitrary, the others at distinct non-zero cyclic offsets from it: every injection is reached)
static void vf_draw_nbgh()
{
  int r[VF_NECH], d[VF_NECH];
  r[0] = vf_range(0, VF_NS - 1);
  d[0] = 0;
  for (int i = 1; i < VF_NECH; i++) d[i] = vf_range(1, VF_NS - 1);
  for (int i = 1; i < VF_NECH; i++)
    for (int j = 1; j < i; j++) vf_assume(d[i] != d[j]);
  for (int i = 1; i < VF_NECH; i++)
  {
    r[i] = r[0] + d[i];
    if (r[i] >= VF_NS) r[i] -= VF_NS;
  }
  for (int i = 0; i < VF_NECH; i++) KS->_nbgh[i] = r[i];
}
