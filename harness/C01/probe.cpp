#include "vf.h"
#include "Matrix/MatrixSquareSymmetric.hpp"
#include "Matrix/MatrixRectangular.hpp"
#ifdef VF_SOLVER
extern "C" void* __dynamic_cast(const void* src, const void*, const void*, long) { return (void*)src; }
#endif
extern "C" void k_probe()
{
  MatrixRectangular a(3, 2), b(3, 1), r(2, 1);
  double av[3][2], bv[3];
  for (int i = 0; i < 3; i++)
  {
    bv[i] = vf_nondet_double();
    b.setValue(i, 0, bv[i], false);
    for (int j = 0; j < 2; j++)
    {
      av[i][j] = vf_nondet_double();
      a.setValue(i, j, av[i][j], false);
    }
  }
  r.prodMatMatInPlace(&a, &b, true, false);
  for (int j = 0; j < 2; j++)
    vf_assert_id(r.getValue(j, 0, false) == av[0][j] * bv[0] + av[1][j] * bv[1] + av[2][j] * bv[2], "product");
  VectorDouble c = a.getColumn(1);
  vf_assert_id(c[2] == av[2][1], "getColumn");
  vf_witness();
}
