// C01.f: read-out of the solved kriging system (src/Estimation/KrigingSystem.cpp):
//   _estimateEstim : estimate  = mean + rhs' . zam           (mean = 0 as soon as there are drift equations)
//   _estimateStdv  : stdev     = sqrt(max(0, var0 - rhs' . wgt))
//   _estimateVarZ  : var(Z*)   = sum over the covariance rows of rhs.wgt  -  sum over the drift rows of rhs.wgt
// in exact arithmetic, for a compressed system of VF_NRED equations of which VF_NFEQ are drift equations and
// VF_NVAR right-hand sides.  The matrix products are the real ones (AMatrixDense::prodMatMatInPlace, Eigen code).
#ifndef VF_NRED
#define VF_NRED 2
#endif
#define VF_NECH VF_NRED // only used to size the (unused) full-system members
#include "ks_common.h"

static double rhs[VF_NRED][VF_NVAR], zam[VF_NRED], wgt[VF_NRED][VF_NVAR], var0[VF_NVAR][VF_NVAR];

static void build_solved_system()
{
  vf_ks_base();
  KrigingSystem* ks = KS;
  ks->_nred = VF_NRED;
  new (&ks->_rhsc) MatrixRectangular(VF_NRED, VF_NVAR);
  new (&ks->_zam) MatrixRectangular(VF_NRED, 1);
  new (&ks->_wgt) MatrixRectangular(VF_NRED, VF_NVAR);
  new (&ks->_var0) MatrixSquareGeneral(VF_NVAR);
  new (&ks->_results) MatrixRectangular(VF_NVAR, VF_NVAR); // _resetMemoryGeneral: _results.reset(_nvarCL, _nvarCL)
  ks->_rhs = &ks->_rhsc;
  ks->_iptrEst = 0;
  ks->_iptrStd = VF_NVAR;
  ks->_iptrVarZ = 2 * VF_NVAR;
  for (int k = 0; k < VF_NRED; k++)
  {
    zam[k] = vf_nondet_double();
    ks->_zam.setValue(k, 0, zam[k], false);
    for (int iv = 0; iv < VF_NVAR; iv++)
    {
      rhs[k][iv] = vf_nondet_double();
      wgt[k][iv] = vf_nondet_double();
      ks->_rhsc.setValue(k, iv, rhs[k][iv], false);
      ks->_wgt.setValue(k, iv, wgt[k][iv], false);
    }
  }
  for (int iv = 0; iv < VF_NVAR; iv++)
  {
    T_mean[iv] = vf_nondet_double();
    for (int jv = 0; jv < VF_NVAR; jv++)
    {
      var0[iv][jv] = vf_nondet_double();
      ks->_var0.setValue(iv, jv, var0[iv][jv], false);
    }
  }
}

extern "C" void k_estim()
{
  build_solved_system();
  KrigingSystem* ks = KS;
  int status = vf_range(0, 1); // kriging error code: 0 = system solved
  ks->_estimateEstim(status);
  ks->_estimateStdv(status);
  ks->_estimateVarZ(status);
  for (int iv = 0; iv < VF_NVAR; iv++)
  {
    double est = (VF_NFEQ > 0) ? 0. : T_mean[iv];
    double lr = 0., zc = 0., zd = 0.;
    for (int k = 0; k < VF_NRED; k++)
    {
      est += rhs[k][iv] * zam[k];
      lr += rhs[k][iv] * wgt[k][iv];
      if (k < VF_NRED - VF_NFEQ) zc += rhs[k][iv] * wgt[k][iv];
      else zd += rhs[k][iv] * wgt[k][iv];
    }
    double var = var0[iv][iv] - lr;
#ifdef VF_MUT // self-test only (never defined by the registry): a deliberately wrong oracle must be refuted
    est += rhs[0][iv];
#endif
    double s = T_out[VF_NVAR + iv];
    if (status == 0)
    {
      vf_assert_id(T_out[iv] == est, "estimate == mean + rhs'.zam");
      vf_assert_id(s >= 0., "stdev >= 0");
      if (var > 0)
        // s == sqrt(var): stated as a bracket that also holds for the correctly rounded libm value
        vf_assert_id(s * s <= var * (1 + 1e-12) && s * s >= var * (1 - 1e-12), "stdev^2 == var0 - rhs'.wgt when positive");
      else
        vf_assert_id(s == 0., "stdev == 0 when var0 - rhs'.wgt <= 0 (documented clip)");
      vf_assert_id(T_out[2 * VF_NVAR + iv] == zc - zd, "varZ == sum_cov rhs.wgt - sum_drift rhs.wgt");
    }
    else
    {
      vf_assert_id(T_out[iv] == TEST && s == TEST && T_out[2 * VF_NVAR + iv] == TEST, "failed system: outputs are undefined (TEST)");
    }
    vf_assert_id(T_outn[iv] == 1 && T_outn[VF_NVAR + iv] == 1 && T_outn[2 * VF_NVAR + iv] == 1, "each output written exactly once");
  }
  vf_assert_id(T_bad == 0, "callbacks reached with the expected arguments only");
  vf_witness();
}
