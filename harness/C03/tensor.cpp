// C03.t: the anisotropy tensor follows its ranges and rotation angles.  CovAniso measures the range
// "along the rotated anisotropy axes" through the matrices Tensor::_fillTensors derives from
// (_radius, _rotation); every public setter of Tensor (src/Basic/Tensor.cpp) that changes a range or an
// angle must therefore rebuild them from the FINAL state.  Protocol kernel: _fillTensors is overridden
// by a ghost that snapshots (_radius, angles) at the moment it is called; after each real setter the
// snapshot must equal the state of the object, and the setter must have stored what it was given.
// Tensor is raw storage: only _nDim, _radius, _rotation._nDim, _rotation._angles are initialised.
#include "vf.h"
#include "Basic/Tensor.hpp"
#include "Geometry/Rotation.hpp"
#include <new>
#ifndef VF_ND
#define VF_ND 2
#endif

void messerr(const char*, ...) {}

static int    n_fill;
static double g_rad[VF_ND], g_ang[VF_ND];
// OVERRIDE (ghost): what the matrices are built from
void Tensor::_fillTensors()
{
  n_fill++;
  for (int d = 0; d < VF_ND; d++)
  {
    g_rad[d] = _radius[d];
    g_ang[d] = _rotation._angles[d];
  }
}
// OVERRIDE: the real one also rebuilds the rotation matrices (trigonometry, Eigen); the angle bookkeeping is kept
int Rotation::setAngles(const VectorDouble& angles)
{
  if (!angles.empty())
  {
    _angles = angles;
    _angles.resize(_nDim, 0.);
    if (_nDim == 2) _angles[1] = 0.;
  }
  return 0;
}

alignas(16) static char tbuf[sizeof(Tensor)];
static double R0[VF_ND], A0[VF_ND], R[VF_ND], A[VF_ND];
static int idim;

static Tensor* make()
{
  for (int d = 0; d < VF_ND; d++)
  {
    R0[d] = vf_finite_double();
    A0[d] = vf_finite_double();
    R[d]  = vf_finite_double();
    A[d]  = vf_finite_double();
    vf_assume(R0[d] > 0.001 && R[d] > 0.001); // ranges are strictly positive (a null radius is refused by the setters)
  }
  idim = vf_range(0, VF_ND - 1);
  if (VF_ND == 2)
  {
    A0[1] = 0.; // 2-D: one angle only
    A[1]  = 0.;
  }
  Tensor* t = (Tensor*)tbuf;
  t->_nDim                = VF_ND;
  t->_isotropic           = false;
  t->_flagDefinedBySquare = false;
  new (&t->_radius) VectorDouble(VF_ND);
  t->_rotation._nDim    = VF_ND;
  t->_rotation._flagRot = true;
  new (&t->_rotation._angles) VectorDouble(VF_ND);
  for (int d = 0; d < VF_ND; d++)
  {
    t->_radius[d]           = R0[d];
    t->_rotation._angles[d] = A0[d];
    g_rad[d]                = R0[d]; // consistent pre-state
    g_ang[d]                = A0[d];
  }
  n_fill = 0;
  return t;
}

static void check(Tensor* t, const double* rwant, const double* awant)
{
  vf_assert_id(n_fill >= 1, "the setter rebuilds the tensors");
  for (int d = 0; d < VF_ND; d++)
  {
    vf_assert_id(t->_radius[d] == rwant[d], "ranges stored as requested");
    vf_assert_id(t->_rotation._angles[d] == awant[d], "angles stored as requested");
    vf_assert_id(g_rad[d] == t->_radius[d], "tensors were built from the final ranges");
    vf_assert_id(g_ang[d] == t->_rotation._angles[d], "tensors were built from the final angles");
  }
  vf_witness();
}

extern "C" void k_set_radius_iso()
{
  Tensor* t = make();
  t->setRadiusIsotropic(R[0]); // REAL
  double rw[VF_ND];
  for (int d = 0; d < VF_ND; d++) rw[d] = R[0];
  check(t, rw, A0);
}
extern "C" void k_set_radius_vec()
{
  Tensor* t = make();
  VectorDouble r(VF_ND);
  for (int d = 0; d < VF_ND; d++) r[d] = R[d];
  t->setRadiusVec(r); // REAL
  check(t, R, A0);
}
extern "C" void k_set_radius_dir()
{
  Tensor* t = make();
  t->setRadiusDir(idim, R[0]); // REAL
  double rw[VF_ND];
  for (int d = 0; d < VF_ND; d++) rw[d] = (d == idim) ? R[0] : R0[d];
  check(t, rw, A0);
}
extern "C" void k_set_angles()
{
  Tensor* t = make();
  VectorDouble a(VF_ND);
  for (int d = 0; d < VF_ND; d++) a[d] = A[d];
  t->setRotationAngles(a); // REAL
  check(t, R0, A);
}
extern "C" void k_set_angle()
{
  Tensor* t = make();
  int id = (VF_ND == 2) ? 0 : idim; // 2-D: only the first angle exists
  t->setRotationAngle(id, A[0]);    // REAL
  double aw[VF_ND];
  for (int d = 0; d < VF_ND; d++) aw[d] = (d == id) ? A[0] : A0[d];
  check(t, R0, aw);
}
extern "C" void k_set_angles_and_radius()
{
  Tensor* t = make();
  VectorDouble a(VF_ND), r(VF_ND);
  for (int d = 0; d < VF_ND; d++)
  {
    a[d] = A[d];
    r[d] = R[d];
  }
  t->setRotationAnglesAndRadius(a, r); // REAL
  check(t, R, A);
}
