// C03.a: closed-form polynomial covariance structures, h a free real.
//   VF_COV   class under test, VF_HDR its header, VF_SUPPORT support in reduced distance,
//   VF_NDIM  largest space dimension the structure declares (getMaxNDim, checked below)
// Entries: k_cov_shape  (C(0)=1, |C|<=1, zero beyond the support, continuity at the knots,
//                        agreement with the published closed form VF_REF(h))
//          k_cov_pd     (necessary positive-definiteness conditions on symmetric point sets in
//                        each dimension the structure accepts; eigenvalues are univariate in s)
#include "vf.h"
#include VF_HDR
#include <math.h>
#define VF_EPS 1e-9 // closed form: coefficients such as 28./3. are rounded constants
#ifdef VF_NATIVE
#define VF_SLACK 1e-9 // native runs (validation/replay) compute in rounded arithmetic
#else
#define VF_SLACK 0.   // solver: exact inequalities (a non-zero slack slows nlsat down a lot)
#endif
#ifndef VF_PD_LEVEL
#define VF_PD_LEVEL 2 // 1: conditions without irrational distances; 2: all
#endif
#ifndef VF_SUPPORT
#define VF_SUPPORT 1
#endif
static double C(double h)
{
  alignas(16) static char buf[sizeof(VF_COV)];
  VF_COV* c = (VF_COV*)buf;          // _evaluateCov of these structures does not read *this
  return c->VF_COV::_evaluateCov(h); // qualified: the real function, no virtual dispatch
}
static unsigned maxndim()
{
  alignas(16) static char buf[sizeof(VF_COV)];
  VF_COV* c = (VF_COV*)buf;
  return c->VF_COV::getMaxNDim();
}
extern "C" void k_cov_shape()
{
  double h = vf_nondet_double();
  vf_assume(h >= 0);
  double c = C(h);
  vf_assert_id(C(0.) == 1., "C(0) == 1");
  vf_assert_id(c <= 1. && c >= -1., "|C(h)| <= C(0)");
  if (h >= VF_SUPPORT) vf_assert_id(c == 0., "vanishes beyond the support");
  { double e = c - VF_REF(h); if (e < 0) e = -e; vf_assert_id(e <= VF_EPS, "agrees with the published closed form"); }
  // continuity at the knots 1 and VF_SUPPORT: no jump, through a Lipschitz bound towards the knot (univariate)
  for (int kn = 1; kn <= VF_SUPPORT; kn++)
  {
    double d = h - kn; if (d < 0) d = -d;
    double dc = c - C((double)kn); if (dc < 0) dc = -dc;
    vf_assert_id(dc <= VF_LIP * d + VF_EPS, "Lipschitz towards each knot (jump below 1e-9)");
  }
  vf_witness();
}

// ---- necessary PD conditions.  s = scale (reduced distance between neighbours), free positive real.
static double SQ2, SQ3;
static void roots()
{
  SQ2 = sqrt(2.); // symex: positive algebraic number with SQ2*SQ2 == 2; native: the rounded double
  SQ3 = sqrt(3.);
}
extern "C" void k_cov_pd()
{
  unsigned nd = maxndim();
  vf_assert_id(nd == VF_NDIM, "harness VF_NDIM matches getMaxNDim()");
  double s = vf_nondet_double();
  vf_assume(s > 0);
  roots();
  double c0 = C(0.), c1 = C(s), c2 = C(2 * s), c3 = C(3 * s), c4 = C(4 * s);
  // 1-D: equally spaced points, quadratic forms w'Cw for fixed integer weight vectors
  vf_assert_id(2 * c0 - 2 * c1 >= -VF_SLACK, "1D w=(1,-1)");
  vf_assert_id(6 * c0 - 8 * c1 + 2 * c2 >= -VF_SLACK, "1D w=(1,-2,1)");
  vf_assert_id(3 * c0 + 4 * c1 + 2 * c2 >= -VF_SLACK, "1D w=(1,1,1)");
  vf_assert_id(3 * c0 - 4 * c1 + 2 * c2 >= -VF_SLACK, "1D w=(1,-1,1)");
  vf_assert_id(4 * c0 - 6 * c1 + 4 * c2 - 2 * c3 >= -VF_SLACK, "1D w=(1,-1,1,-1)");
  vf_assert_id(20 * c0 - 30 * c1 + 12 * c2 - 2 * c3 >= -VF_SLACK, "1D w=(1,-3,3,-1)");
  vf_assert_id(5 * c0 - 8 * c1 + 6 * c2 - 4 * c3 + 2 * c4 >= -VF_SLACK, "1D w=(1,-1,1,-1,1)");
  vf_assert_id(5 * c0 + 8 * c1 + 6 * c2 + 4 * c3 + 2 * c4 >= -VF_SLACK, "1D w=(1,1,1,1,1)");
  vf_assert_id(70 * c0 - 112 * c1 + 56 * c2 - 16 * c3 + 2 * c4 >= -VF_SLACK, "1D w=(1,-4,6,-4,1)");
#if VF_NDIM >= 2
  vf_assert_id(c0 + 2 * c1 >= -VF_SLACK, "2D triangle constant"); // equilateral triangle of side s: eigenvalues c0+2c1, c0-c1
  vf_assert_id(c0 - c1 >= -VF_SLACK, "2D triangle contrast");
#endif
#if VF_NDIM >= 3
  vf_assert_id(c0 + 3 * c1 >= -VF_SLACK, "3D tetrahedron constant"); // regular tetrahedron of side s
#endif
#if VF_NDIM >= 2 && VF_PD_LEVEL >= 2
  {
    // square of side s: circulant (c0, c(s), c(sqrt2 s), c(s))
    double cd = C(SQ2 * s);
    vf_assert_id(c0 + 2 * c1 + cd >= -VF_SLACK, "2D square constant");
    vf_assert_id(c0 - 2 * c1 + cd >= -VF_SLACK, "2D square alternating");
    vf_assert_id(c0 - cd >= -VF_SLACK, "2D square dipole");
    // regular hexagon of radius s: circulant (c0, c(s), c(sqrt3 s), c(2s), c(sqrt3 s), c(s))
    double ch = C(SQ3 * s);
    vf_assert_id(c0 + 2 * c1 + 2 * ch + c2 >= -VF_SLACK, "2D hexagon constant");
    vf_assert_id(c0 - 2 * c1 + 2 * ch - c2 >= -VF_SLACK, "2D hexagon alternating");
    vf_assert_id(c0 + c1 - ch - c2 >= -VF_SLACK, "2D hexagon first harmonic");
    vf_assert_id(c0 - c1 - ch + c2 >= -VF_SLACK, "2D hexagon second harmonic");
    // hexagon + centre, weights (w at centre, 1 on the ring): [c0 6c1; 6c1 6*lam0] restricted to (a, b*ones)
    // quadratic form a^2 c0 + 12 a b c1 + 6 b^2 lam0 >= 0  <=>  c0*6*lam0 - 36 c1^2 >= 0 (given c0, lam0 >= 0)
    double lam0 = c0 + 2 * c1 + 2 * ch + c2;
    vf_assert_id(6 * c0 * lam0 - 36 * c1 * c1 >= -VF_SLACK, "2D hexagon+centre 2x2 minor");
  }
#endif
#if VF_NDIM >= 3 && VF_PD_LEVEL >= 2
  {
    // octahedron with vertices at distance s from the centre: neighbours at sqrt2 s (4), opposite at 2s (1)
    double cd = C(SQ2 * s);
    vf_assert_id(c0 + 4 * cd + c2 >= -VF_SLACK, "3D octahedron constant");
    vf_assert_id(c0 - 2 * cd + c2 >= -VF_SLACK, "3D octahedron quadrupole");
    vf_assert_id(c0 - c2 >= -VF_SLACK, "3D octahedron dipole");
    // cube of side s: characters of Z2^3
    double ch = C(SQ3 * s);
    vf_assert_id(c0 + 3 * c1 + 3 * cd + ch >= -VF_SLACK, "3D cube (+++)");
    vf_assert_id(c0 + c1 - cd - ch >= -VF_SLACK, "3D cube (++-)");
    vf_assert_id(c0 - c1 - cd + ch >= -VF_SLACK, "3D cube (+--)");
    vf_assert_id(c0 - 3 * c1 + 3 * cd - ch >= -VF_SLACK, "3D cube (---)");
  }
#endif
  vf_witness();
}
