// C18.d: PCA::_pcaZ2F / _pcaF2Z with _center / _uncenter and _loadData (src/Stats/PCA.cpp), VF_NVAR variables,
// VF_NECH samples, on really constructed MatrixSquareGeneral transition matrices (Eigen storage) with arbitrary
// real entries such that Z2F . F2Z = I (what _pcaFunctions / _mafFunctions must establish: Z2F(i,j) = E(i,j)/sqrt(l_j),
// F2Z(j,k) = E(k,j) sqrt(l_j) with E orthogonal; for square matrices the same as F2Z . Z2F = I).
//   k_roundtrip: variables -> factors (_pcaZ2F) -> variables (_pcaF2Z reading the factors as the Z variables, as
//                dbF2Z arranges): every active sample gets its starting values back, including the centring by the
//                mean; factors are f_j = sum_i Z2F(i,j) (z_i - mean_i) (transposition / indexing of the forward
//                direction stated on its own); samples outside isoFlag are not written.
//   k_center:    _uncenter(_center(v)) == v for the four (flag_center, flag_scale) combinations, sigma > 0.
// Db accessors are overridden by tables (exact real signatures):
//   Db::getLocNumber(const ELoc&) const -> VF_NVAR;  Db::getSampleNumber(bool) const -> VF_NECH
//   Db::getZVariable(iech, item) const  -> current source table;  Db::setArray(iech, iuid, v) -> current target table
#include "vf.h"
#include "geoslib_define.h"
#include "Stats/PCA.hpp"
#include "Db/Db.hpp"
#include "Matrix/MatrixSquareGeneral.hpp"
#include <new>
#ifndef VF_NVAR
#define VF_NVAR 2
#endif
#ifndef VF_NECH
#define VF_NECH 2
#endif
#define NV VF_NVAR
#define NE VF_NECH
#define IPTR 5 // column where the results are written

void messerr(const char*, ...) {}

static double (*SRC)[NV];
static double (*DST)[NV];
static int (*WR)[NV]; // number of writes per target cell
static int n_bad;
// OVERRIDES
int Db::getLocNumber(const ELoc&) const { return NV; }
int Db::getSampleNumber(bool) const { return NE; }
double Db::getZVariable(int iech, int item) const
{
  if (iech < 0 || iech >= NE || item < 0 || item >= NV) { n_bad++; return TEST; }
  return SRC[iech][item];
}
void Db::setArray(int iech, int iuid, double value)
{
  int c = iuid - IPTR;
  if (iech < 0 || iech >= NE || c < 0 || c >= NV) { n_bad++; return; }
  DST[iech][c] = value;
  WR[iech][c]++;
}

alignas(16) static char pbuf[sizeof(PCA)];
alignas(16) static char dbbuf[64];

static bool eq(double got, double want)
{
#ifdef VF_NATIVE
  double d = got - want; if (d < 0) d = -d;
  double s = want < 0 ? -want : want;
  return d <= 1e-6 * (1. + s); // native runs round the products (and the inverse pair is only approximately one)
#else
  return got == want;
#endif
}

extern "C" void k_roundtrip()
{
  // ---- inputs up front
  double A[NV][NV], B[NV][NV]; // A = Z2F, B = F2Z
  for (int i = 0; i < NV; i++)
    for (int j = 0; j < NV; j++) A[i][j] = vf_finite_double();
  for (int i = 0; i < NV; i++)
    for (int j = 0; j < NV; j++) B[i][j] = vf_finite_double();
  double Z[NE][NV], F[NE][NV], Z2[NE][NV], F0[NE][NV], Z20[NE][NV];
  int wf[NE][NV], wz[NE][NV];
  bool iso[NE];
  for (int e = 0; e < NE; e++)
  {
    iso[e] = vf_nondet_bool();
    for (int i = 0; i < NV; i++)
    {
      Z[e][i] = vf_finite_double();
      F0[e][i] = vf_finite_double();
      Z20[e][i] = vf_finite_double();
      F[e][i] = F0[e][i];
      Z2[e][i] = Z20[e][i];
      wf[e][i] = wz[e][i] = 0;
    }
  }
  double mean[NV], sigma[NV];
  for (int i = 0; i < NV; i++)
  {
    mean[i] = vf_finite_double();
    sigma[i] = vf_finite_double();
    vf_assume(sigma[i] > 0.); // standard deviation of a non-constant variable
  }
#if NV == 2
  // the inverse pair of a 2x2 matrix in closed form: A = Z2F arbitrary invertible, B = A^-1 = adj(A)/det (then
  // A.B = B.A = I identically); the drawn B is only the prior content
  {
    double det = A[0][0] * A[1][1] - A[0][1] * A[1][0];
    vf_assume(det != 0.);
    B[0][0] = A[1][1] / det; B[0][1] = -A[0][1] / det; B[1][0] = -A[1][0] / det; B[1][1] = A[0][0] / det;
  }
#else
  // Z2F . F2Z = I
  for (int i = 0; i < NV; i++)
    for (int k = 0; k < NV; k++)
    {
      double s = 0.;
      for (int j = 0; j < NV; j++) s += A[i][j] * B[j][k];
      vf_assume(s == (i == k ? 1. : 0.));
    }
#endif

  PCA* p = (PCA*)pbuf;
  new (&p->_Z2F) MatrixSquareGeneral(NV);
  new (&p->_F2Z) MatrixSquareGeneral(NV);
  for (int i = 0; i < NV; i++)
    for (int j = 0; j < NV; j++)
    {
      p->_Z2F.setValue(i, j, A[i][j]);
      p->_F2Z.setValue(i, j, B[i][j]);
    }
  VectorDouble vmean(NV), vsigma(NV);
  VectorBool viso(NE);
  for (int i = 0; i < NV; i++) { vmean[i] = mean[i]; vsigma[i] = sigma[i]; }
  for (int e = 0; e < NE; e++) viso[e] = iso[e];
  Db* db = (Db*)dbbuf;
  n_bad = 0;

  SRC = Z; DST = F; WR = wf;
  p->_pcaZ2F(IPTR, db, viso, vmean, vsigma); // REAL
  SRC = F; DST = Z2; WR = wz;
  p->_pcaF2Z(IPTR, db, viso, vmean, vsigma); // REAL

  vf_assert_id(n_bad == 0, "Db read / written at existing (sample, variable) cells only");
  for (int e = 0; e < NE; e++)
    for (int i = 0; i < NV; i++)
    {
      if (iso[e])
      {
        double f = 0.;
        for (int k = 0; k < NV; k++) f += A[k][i] * (Z[e][k] - mean[k]);
        vf_assert_id(wf[e][i] == 1 && eq(F[e][i], f), "factor j of an active sample = sum_i Z2F(i,j) (z_i - mean_i)");
        vf_assert_id(wz[e][i] == 1 && eq(Z2[e][i], Z[e][i]), "variables -> factors -> variables gives the starting value back (active sample)");
      }
      else
      {
        vf_assert_id(wf[e][i] == 0 && F[e][i] == F0[e][i], "inactive sample: factor cells not written");
        vf_assert_id(wz[e][i] == 0 && Z2[e][i] == Z20[e][i], "inactive sample: variable cells not written");
      }
    }
  vf_witness();
}

extern "C" void k_center()
{
  double v0[NV], mean[NV], sigma[NV];
  for (int i = 0; i < NV; i++)
  {
    v0[i] = vf_finite_double();
    mean[i] = vf_finite_double();
    sigma[i] = vf_finite_double();
    vf_assume(sigma[i] > 0.);
  }
  bool fc = vf_nondet_bool(), fs = vf_nondet_bool();
  VectorDouble v(NV), vmean(NV), vsigma(NV);
  for (int i = 0; i < NV; i++) { v[i] = v0[i]; vmean[i] = mean[i]; vsigma[i] = sigma[i]; }
  PCA::_center(v, vmean, vsigma, fc, fs); // REAL
  for (int i = 0; i < NV; i++)
  {
    double w = v0[i];
    if (fc) w -= mean[i];
    if (fs) w /= sigma[i];
    vf_assert_id(eq(v[i], w), "_center: (v - mean) / sigma according to the two flags");
  }
  PCA::_uncenter(v, vmean, vsigma, fc, fs); // REAL
  for (int i = 0; i < NV; i++) vf_assert_id(eq(v[i], v0[i]), "_uncenter(_center(v)) == v");
  vf_witness();
}
