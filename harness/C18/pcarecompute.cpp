// C18.g: recomputation of a PCA on the same object.  PCA::pca_compute (src/Stats/PCA.cpp) run TWICE on one really
// constructed PCA object, first on data set A, then on data set B (same number VF_NVAR of variables, VF_NECH samples,
// each run leaving out a fixed subset of the samples, masked or not isotopic; four patterns): PCA::init (resize of the accumulators: a no-op
// the second time, the sizes being unchanged), _getVectorIsotopic, _calculateNormalization, _covariance0, _loadData,
// _center, and the symmetric matrix storage (MatrixSquareSymmetric / AMatrixDense setValue, getValue, fill) are real code.
// The eigen decomposition is cut: MatrixSquareSymmetric::computeEigen is overridden to record the covariance matrix
// it is handed (what the eigen step sees) and to report failure, which makes pca_compute return at once.
// Asserted for BOTH runs (so that the second run gives what a fresh object gives): the matrix handed to the eigen step
// is the covariance matrix of the run's own isotopic samples, c(i,j) = sum_e (z_ei - m_i)(z_ej - m_j) / (n - 1), both
// triangles; the means are m_i = sum_e z_ei / n and the standard deviations satisfy s_i >= 0, s_i^2 = max(c(i,i), 0)
// (n = number of active isotopic samples of the run, n >= 2).  Nothing of the first run survives in the second.
#include "vf.h"
#include "geoslib_define.h"
#include "Stats/PCA.hpp"
#include "Db/Db.hpp"
#include "Matrix/MatrixSquareSymmetric.hpp"
#include <new>
#ifndef VF_NVAR
#define VF_NVAR 2
#endif
#ifndef VF_NECH
#define VF_NECH 3
#endif
#ifndef VF_MUT
#define VF_MUT 0
#endif
#define NV VF_NVAR
#define NE VF_NECH

void messerr(const char*, ...) {}
void message(const char*, ...) {}
void mestitle(int, const char*, ...) {}

static double Z[2][NE][NV];
static bool   ACT[2][NE], ISO[2][NE];
static int    cur; // current run: 0 (data set A) or 1 (data set B)
static int    n_bad;
// OVERRIDES
int Db::getLocNumber(const ELoc&) const { return NV; }
int Db::getSampleNumber(bool) const { return NE; }
bool Db::isActive(int iech) const
{
  if (iech < 0 || iech >= NE) { n_bad++; return false; }
  return ACT[cur][iech];
}
bool Db::isIsotopic(int iech, int nvar_max) const
{
  (void)nvar_max;
  if (iech < 0 || iech >= NE) { n_bad++; return false; }
  return ISO[cur][iech];
}
double Db::getZVariable(int iech, int item) const
{
  if (iech < 0 || iech >= NE || item < 0 || item >= NV) { n_bad++; return TEST; }
  return Z[cur][iech][item];
}
static double SNAP[2][NV][NV];
static int    n_eig[2];
int MatrixSquareSymmetric::computeEigen(bool optionPositive)
{
  (void)optionPositive;
  if (getNRows() != NV || getNCols() != NV) { n_bad++; return 1; }
  for (int i = 0; i < NV; i++)
    for (int j = 0; j < NV; j++) SNAP[cur][i][j] = getValue(i, j);
  n_eig[cur]++;
  return 1; // decomposition "fails": pca_compute returns without building the transfer functions
}

alignas(16) static char dbbuf[64];

static bool eq(double got, double want)
{
#ifdef VF_NATIVE
  double d = got - want; if (d < 0) d = -d;
  double s = want < 0 ? -want : want;
  return d <= 1e-9 * (1. + s);
#else
  return got == want;
#endif
}
static bool near(double got, double want) // same tolerance in every build (square of a square root)
{
  double d = got - want; if (d < 0) d = -d;
  double s = want < 0 ? -want : want;
  return d <= 1e-9 * (1. + s);
}

static void run(int outA, int outB)
{
  const int out[2] = {outA, outB};
  // ---- inputs up front
  for (int r = 0; r < 2; r++)
    for (int e = 0; e < NE; e++)
    {
      // concrete pattern: bit e of out[r] = sample e of run r is left out (masked when e is even, not isotopic when odd)
      bool o    = (out[r] >> e) & 1;
      ACT[r][e] = !(o && (e % 2 == 0));
      ISO[r][e] = !(o && (e % 2 == 1));
      for (int i = 0; i < NV; i++) Z[r][e][i] = vf_finite_double();
    }
  int n[2];
  for (int r = 0; r < 2; r++)
  {
    n[r] = 0;
    for (int e = 0; e < NE; e++)
      if (ACT[r][e] && ISO[r][e]) n[r]++;
    vf_assume(n[r] >= 2); // the (n-1) normalisation needs two samples
  }
  n_bad = 0;
  n_eig[0] = n_eig[1] = 0;

  PCA pca; // REAL constructor
  Db* db = (Db*)dbbuf;
  double mean[2][NV], sigma[2][NV];
  int rc[2];
  for (int r = 0; r < 2; r++)
  {
    cur   = r;
    rc[r] = pca.pca_compute(db, false, false); // REAL code, same object
    for (int i = 0; i < NV; i++)
    {
      mean[r][i]  = pca.getMeans()[i];
      sigma[r][i] = pca.getSigmas()[i];
    }
  }

  vf_assert_id(n_bad == 0, "Db accessors reached with in-range arguments only");
  for (int r = 0; r < 2; r++)
  {
    vf_assert_id(rc[r] == 1 && n_eig[r] == 1, "each run reaches the eigen step exactly once");
    // reference statistics of the run's own isotopic samples
    double m[NV], c[NV][NV];
    for (int i = 0; i < NV; i++)
    {
      double s = 0.;
      for (int e = 0; e < NE; e++)
        if (ACT[r][e] && ISO[r][e]) s += Z[r][e][i];
      m[i] = s / n[r];
    }
    for (int i = 0; i < NV; i++)
      for (int j = 0; j < NV; j++)
      {
        double s = 0.;
        for (int e = 0; e < NE; e++)
          if (ACT[r][e] && ISO[r][e]) s += (Z[r][e][i] - m[i]) * (Z[r][e][j] - m[j]);
        c[i][j] = s / (n[r] - 1.);
      }
    for (int i = 0; i < NV; i++)
    {
      vf_assert_id(eq(mean[r][i], m[i]), r == 0 ? "first run: means of its own samples" : "second run on the same object: means of its own samples only");
      double v = c[i][i] > 0. ? c[i][i] : 0.;
      vf_assert_id(sigma[r][i] >= 0. && near(sigma[r][i] * sigma[r][i], v),
                   r == 0 ? "first run: standard deviations of its own samples" : "second run on the same object: standard deviations of its own samples only");
      for (int j = 0; j < NV; j++)
      {
#if VF_MUT == 1 // self-test of the check only: claiming the accumulated matrix must be refuted
        if (r == 1) vf_assert_id(eq(SNAP[1][i][j], (SNAP[0][i][j] + c[i][j] * (n[1] - 1.)) / (n[1] - 1.)), "MUT: second run accumulates on the first");
#endif
        vf_assert_id(eq(SNAP[r][i][j], c[i][j]),
                     r == 0 ? "first run: the eigen step is handed the covariance matrix of its own samples"
                            : "second run on the same object: the eigen step is handed the covariance matrix of its own samples only");
      }
    }
  }
  vf_witness();
}
// which samples each run leaves out (the sums then run over 3,3 / 3,2 / 2,3 / 2,2 samples when VF_NECH is 3)
extern "C" void k_recompute_all_all() { run(0, 0); }
extern "C" void k_recompute_all_less() { run(0, 1); }
extern "C" void k_recompute_less_all() { run(2, 0); }
extern "C" void k_recompute_less_less() { run(1, 4); }
