// C18.e: VH::normalScore (src/Basic/VectorHelper.cpp), rank part: VF_N values, each defined or undefined (TEST),
// the defined ones pairwise distinct; without weights (k_plain) and with arbitrary positive weights (k_weighted).
// law_invcdf_gaussian is overridden by the identity (a strictly increasing function: the outputs are then the
// frequencies themselves; any strictly increasing inverse c.d.f. applied to them keeps their order).
//   * undefined entries stay undefined, defined entries get a frequency in (0,1);
//   * the output is order-isomorphic to the input on the defined entries: data[i] < data[j] <=> out[i] < out[j];
//   * the frequency of entry j is  sum of the weights of the defined entries <= data[j]  /  (W (n+1)/n),
//     W = total weight, n = number of defined entries  (no weights: k/(n+1), k the 1-based rank).
// VH::orderRanks and libstdc++'s std::stable_sort are real code and are executed (buffer-less path, see the stub).
#include "vf.h"
#include "Basic/VectorHelper.hpp"
#include "Basic/AException.hpp"
#include "Basic/Law.hpp"
#include "Basic/Utilities.hpp"
#include "geoslib_define.h"
#include <new>
#ifndef VF_N
#define VF_N 3
#endif
#define N VF_N
// OVERRIDE: strictly increasing stand-in for the Gaussian inverse c.d.f.
double law_invcdf_gaussian(double value) { return value; }
// stubs shared with harness/C11/vh.cpp
void throw_exp(const std::string&, const std::string&, int) { throw 1; }
void* operator new(std::size_t, const std::nothrow_t&) noexcept { return nullptr; }
void messerr(const char*, ...) {}

static bool eq(double got, double want)
{
#ifdef VF_NATIVE
  double d = got - want; if (d < 0) d = -d;
  return d <= 1e-12 * (1. + (want < 0 ? -want : want));
#else
  return got == want;
#endif
}

static void run(bool weighted)
{
  double d0[N], w0[N];
  bool def[N];
  for (int i = 0; i < N; i++)
  {
    double g = vf_grid_double(1000);
    bool t = vf_nondet_bool();
    double w = vf_grid_double(1000);
    def[i] = !t;
    d0[i] = t ? TEST : g;
    w0[i] = w;
  }
  int ndef = 0;
  for (int i = 0; i < N; i++)
  {
    if (def[i]) ndef++;
    if (weighted) vf_assume(w0[i] > 0.);
    for (int j = 0; j < i; j++)
      if (def[i] && def[j]) vf_assume(d0[i] != d0[j]); // distinct values
  }
  vf_assume(ndef >= 1); // with no defined value the function refuses (returns an empty vector)
  VectorDouble data(N), wt(weighted ? N : 0);
  for (int i = 0; i < N; i++)
  {
    data[i] = d0[i];
    if (weighted) wt[i] = w0[i];
  }

  VectorDouble out = VH::normalScore(data, wt); // REAL

  vf_assert_id((int)out.size() == N, "one output per input");
  if ((int)out.size() != N) { vf_witness(); return; }
  double W = 0.;
  for (int i = 0; i < N; i++)
    if (def[i]) W += weighted ? w0[i] : 1.;
  for (int j = 0; j < N; j++)
  {
    if (!def[j])
    {
      vf_assert_id(out[j] == TEST, "undefined entry stays undefined");
      continue;
    }
    double cum = 0.;
    for (int i = 0; i < N; i++)
      if (def[i] && d0[i] <= d0[j]) cum += weighted ? w0[i] : 1.;
    // cum / (W (n+1)/n) without division
    vf_assert_id(eq(out[j] * W * (double)(ndef + 1), cum * (double)ndef), "frequency = cumulated weight up to the value / (W (n+1)/n)");
    vf_assert_id(out[j] > 0. && out[j] < 1., "defined entry gets a frequency in (0,1)");
    for (int i = 0; i < N; i++)
      if (def[i] && i != j) vf_assert_id((d0[i] < d0[j]) == (out[i] < out[j]), "output order-isomorphic to the input on the defined entries");
  }
  vf_witness();
}
extern "C" void k_plain() { run(false); }
extern "C" void k_weighted() { run(true); }
