// C18.b: AnamHermite::transformToRawValue / rawToTransformValue (src/Anamorphosis/AnamHermite.cpp): bound and
// extrapolation branches (Interval::isOutsideBelow/isOutsideAbove on the absolute intervals _az/_ay and the
// practical intervals _pz/_py, the two linear zones between practical and absolute bounds).
// The Hermite expansion hermiteCondExpElement(y, 0, psi) is overridden by H(y), a strictly increasing uninterpreted
// function (symbol sinh: uninterpreted in the solver with the monotonicity axioms of vf/reg/C18.py, the libm
// function in the native builds).
// Bounds: ay.min < py.min <= py.max < ay.max, pz = H(py) at both ends (what _defineBounds establishes: the practical
// bounds are points of the expansion), az.min < pz.min, pz.max < az.max, gaps between absolute and practical
// bounds at least 2^-20 (isEqual tolerance is 1e-10); inclusion flags: see build().
//   k_raw:    transformToRawValue: value inside [az.min, az.max]; non-decreasing over ALL y (two free points, across
//             every zone boundary); without bounds (_flagBound false) it is H itself.
//   k_gauss:  rawToTransformValue for z outside the practical interval (constant and linear branches):
//             value inside [ay.min, ay.max]; non-decreasing (two free points).
//   k_rt_z:   same z: transformToRaw(rawToTransform(z)) == z clamped to the absolute interval.
//   k_lin_y:  y in a linear zone or beyond: rawToTransform(transformToRaw(y)) == y clamped to the absolute interval.
// The bisection inverse inside the practical interval (up to 10^6 iterations) is outside the claim.
#include "vf.h"
#include "geoslib_define.h"
#include "Anamorphosis/AnamHermite.hpp"
#include "Polynomials/Hermite.hpp"
#include "Basic/Utilities.hpp"
#include <math.h>
#include <new>

// OVERRIDE: the expansion
double hermiteCondExpElement(double krigest, double, const VectorDouble&) { return sinh(krigest); }
static double H(double y) { return sinh(y); }

alignas(16) static char abuf[sizeof(AnamHermite)];
extern "C" char vt_AnamHermite[] asm("_ZTV11AnamHermite");
static double aymin, pymin, pymax, aymax, azmin, pzmin, pzmax, azmax;

static double absd(double x) { return x < 0 ? -x : x; }
static double gap() { return absd(vf_finite_double()) + 0x1p-20; }

static AnamHermite* build(bool flagBound)
{
  // all inputs up front
  aymin = vf_finite_double();
  double d1 = gap(), d2 = absd(vf_finite_double()), d3 = gap(), e1 = gap(), e3 = gap();
  bool f[8];
  for (int i = 0; i < 8; i++) f[i] = vf_nondet_bool();
  vf_assume(aymin >= -1.e6 && aymin <= 1.e6 && d1 <= 1.e6 && d2 <= 1.e6 && d3 <= 1.e6 && e1 <= 1.e6 && e3 <= 1.e6);
#ifdef VF_YFIX
  // Gaussian-side bounds fixed (the products of two symbolic bounds in the linear zones are what the solver cannot
  // take in the inverse direction); the raw-side bounds and H stay arbitrary
  aymin = VF_AYMIN; d1 = VF_PYMIN - VF_AYMIN; d2 = VF_PYMAX - VF_PYMIN; d3 = VF_AYMAX - VF_PYMAX;
#endif
  pymin = aymin + d1;
  pymax = pymin + d2;
  aymax = pymax + d3;
  pzmin = H(pymin);
  pzmax = H(pymax);
  azmin = pzmin - e1;
  azmax = pzmax + e3;
  AnamHermite* a = (AnamHermite*)abuf;
  *(void**)abuf = (void*)(vt_AnamHermite + 16); // getPsiHns() asks the virtual isChangeSupportDefined()
  a->_flagBound = flagBound;
  a->_rCoef = 1.;
  new (&a->_psiHn) VectorDouble(2);
  // inclusion flags: Interval's constructor / init() give (min included or not, max excluded) and setVmin/setVmax
  // leave them alone; VF_MAXINC also makes the four "max included" flags arbitrary
#ifndef VF_MAXINC
  f[1] = f[3] = f[5] = f[7] = false;
#endif
  a->_az._vmin = azmin; a->_az._vmax = azmax; a->_az._minIncluded = f[0]; a->_az._maxIncluded = f[1];
  a->_ay._vmin = aymin; a->_ay._vmax = aymax; a->_ay._minIncluded = f[2]; a->_ay._maxIncluded = f[3];
  a->_pz._vmin = pzmin; a->_pz._vmax = pzmax; a->_pz._minIncluded = f[4]; a->_pz._maxIncluded = f[5];
  a->_py._vmin = pymin; a->_py._vmax = pymax; a->_py._minIncluded = f[6]; a->_py._maxIncluded = f[7];
  return a;
}
static double toRaw(const AnamHermite* a, double y) { return a->AnamHermite::transformToRawValue(y); }   // REAL
static double toGauss(const AnamHermite* a, double z) { return a->AnamHermite::rawToTransformValue(z); } // REAL

static bool eq(double got, double want)
{
#ifdef VF_NATIVE
  double d = got - want; if (d < 0) d = -d;
  double s = want < 0 ? -want : want;
  return d <= 1e-9 * (1. + s); // native runs round the two linear interpolations
#else
  return got == want;
#endif
}
static bool le(double x, double y)
{
#ifdef VF_NATIVE
  return x <= y + 1e-9 * (1. + absd(y));
#else
  return x <= y;
#endif
}
static double clamp(double v, double lo, double hi) { return v < lo ? lo : (v > hi ? hi : v); }

extern "C" void k_raw()
{
  bool fb = vf_nondet_bool();
  AnamHermite* a = build(fb);
  double y1 = vf_finite_double(), y2 = vf_finite_double();
  vf_assume(y1 >= -1.e7 && y1 <= 1.e7 && y2 >= -1.e7 && y2 <= 1.e7);
  vf_assume(y1 <= y2);
  vf_split(y1 < aymin); vf_split(y1 < pymin); vf_split(y1 <= pymax); vf_split(y1 <= aymax);
  vf_split(y2 < aymin); vf_split(y2 < pymin); vf_split(y2 <= pymax); vf_split(y2 <= aymax);
  double z1 = toRaw(a, y1), z2 = toRaw(a, y2);
  if (fb)
  {
    vf_assert_id(z1 >= azmin && z1 <= azmax, "raw value inside the absolute interval");
    vf_assert_id(z2 >= azmin && z2 <= azmax, "raw value inside the absolute interval (second point)");
  }
  else
    vf_assert_id(z1 == H(y1) && z2 == H(y2), "no bounds: the expansion itself");
  vf_assert_id(le(z1, z2), "transformToRawValue is non-decreasing (across all zones)");
  vf_witness();
}

// reference of Interval::isOutsideBelow / isOutsideAbove for defined bounds
static bool below(double v, double vmin, bool inc) { return inc ? v < vmin : v <= vmin; }
static bool above(double v, double vmax, bool inc) { return inc ? v > vmax : v >= vmax; }

extern "C" void k_gauss()
{
  AnamHermite* a = build(true);
  double z1 = vf_finite_double(), z2 = vf_finite_double();
  vf_assume(z1 >= -1.e29 && z1 <= 1.e29 && z2 >= -1.e29 && z2 <= 1.e29);
  vf_assume(z1 <= z2);
  // outside the practical interval: the constant and linear branches (inside it: bisection, outside the claim)
  vf_assume(below(z1, pzmin, a->_pz._minIncluded) || above(z1, pzmax, a->_pz._maxIncluded));
  vf_assume(below(z2, pzmin, a->_pz._minIncluded) || above(z2, pzmax, a->_pz._maxIncluded));
  vf_split(z1 <= azmin); vf_split(z1 <= pzmin); vf_split(z1 < azmax);
  vf_split(z2 <= azmin); vf_split(z2 <= pzmin); vf_split(z2 < azmax);
  double y1 = toGauss(a, z1), y2 = toGauss(a, z2);
  vf_assert_id(y1 >= aymin && y1 <= aymax, "gaussian value inside the absolute interval");
  vf_assert_id(le(y1, y2), "rawToTransformValue is non-decreasing outside the practical interval (both sides)");
  vf_witness();
}

extern "C" void k_rt_z()
{
  AnamHermite* a = build(true);
  double z1 = vf_finite_double();
  vf_assume(z1 >= -1.e29 && z1 <= 1.e29);
  vf_assume(below(z1, pzmin, a->_pz._minIncluded) || above(z1, pzmax, a->_pz._maxIncluded));
  vf_split(z1 <= azmin); vf_split(z1 <= pzmin); vf_split(z1 < azmax);
  double y1 = toGauss(a, z1);
  vf_assert_id(eq(toRaw(a, y1), clamp(z1, azmin, azmax)), "transformToRaw(rawToTransform(z)) == z clamped to the absolute interval (constant and linear zones)");
  vf_witness();
}

extern "C" void k_lin_y()
{
  AnamHermite* a = build(true);
  double y = vf_finite_double();
  vf_assume(y >= -1.e7 && y <= 1.e7);
  vf_assume(y < pymin || y > pymax);
  vf_split(y < aymin); vf_split(y < pymin); vf_split(y <= aymax);
  double z = toRaw(a, y);
  vf_assert_id(z >= azmin && z <= azmax, "raw value inside the absolute interval");
  vf_assert_id(z <= pzmin || z >= pzmax, "raw value of a linear zone outside the open practical interval");
  // z == pz.min / pz.max is only approached: strictly outside for y strictly inside the zone
  vf_assume(below(z, pzmin, a->_pz._minIncluded) || above(z, pzmax, a->_pz._maxIncluded));
  vf_assert_id(eq(toGauss(a, z), clamp(y, aymin, aymax)), "rawToTransform(transformToRaw(y)) == y clamped to the absolute interval (constant and linear zones)");
  vf_witness();
}
