// C18.c: AnamEmpirical::rawToTransformValue / transformToRawValue (src/Anamorphosis/AnamEmpirical.cpp):
// piecewise-linear lookup in the (Z,Y) discretisation table.  For every table with VF_NK knots,
// strictly increasing in Z and in Y (what a fitted empirical anamorphosis holds):
//   * the two functions are mutual inverses on the range of the table,
//   * both are non-decreasing,
//   * outside the range they clamp to the end knots; at a knot they return the partner knot.
// The object lives in raw storage (the constructors build strings / enums); only _nDisc, _ZDisc,
// _YDisc are read by the two functions and they are set through the real setDisc().
#include "vf.h"
#include "Anamorphosis/AnamEmpirical.hpp"
#include <new>
#ifndef VF_NK
#define VF_NK 3
#endif
alignas(16) static char abuf[sizeof(AnamEmpirical)];
static double Z[VF_NK], Y[VF_NK];

static AnamEmpirical* build()
{
  AnamEmpirical* a = (AnamEmpirical*)abuf;
  new (&a->_ZDisc) VectorDouble();
  new (&a->_YDisc) VectorDouble();
  a->_nDisc = 0;
  VectorDouble z(VF_NK), y(VF_NK);
  for (int i = 0; i < VF_NK; i++)
  {
    Z[i] = vf_finite_double();
    Y[i] = vf_finite_double();
    z[i] = Z[i];
    y[i] = Y[i];
  }
  for (int i = 0; i + 1 < VF_NK; i++) vf_assume(Z[i] < Z[i + 1] && Y[i] < Y[i + 1]);
  a->setDisc(z, y); // REAL
  return a;
}
static double toY(const AnamEmpirical* a, double z) { return a->AnamEmpirical::rawToTransformValue(z); } // REAL
static double toZ(const AnamEmpirical* a, double y) { return a->AnamEmpirical::transformToRawValue(y); } // REAL
static bool eq(double got, double want)
{
#ifdef VF_NATIVE
  double d = got - want; if (d < 0) d = -d;
  double s = want < 0 ? -want : want;
  return d <= 1e-9 * (1. + s); // native runs round the two interpolations
#else
  return got == want;
#endif
}

extern "C" void k_roundtrip_z()
{
  AnamEmpirical* a = build();
  double z = vf_finite_double();
  vf_assume(z >= Z[0] && z <= Z[VF_NK - 1]);
  for (int i = 1; i + 1 < VF_NK; i++) vf_split(z <= Z[i]);
  double y = toY(a, z);
  vf_assert_id(y >= Y[0] && y <= Y[VF_NK - 1], "gaussian value inside the table range");
  vf_assert_id(eq(toZ(a, y), z), "transformToRaw(rawToTransform(z)) == z on the table range");
  vf_witness();
}
extern "C" void k_roundtrip_y()
{
  AnamEmpirical* a = build();
  double y = vf_finite_double();
  vf_assume(y >= Y[0] && y <= Y[VF_NK - 1]);
  for (int i = 1; i + 1 < VF_NK; i++) vf_split(y <= Y[i]);
  double z = toZ(a, y);
  vf_assert_id(z >= Z[0] && z <= Z[VF_NK - 1], "raw value inside the table range");
  vf_assert_id(eq(toY(a, z), y), "rawToTransform(transformToRaw(y)) == y on the table range");
  vf_witness();
}
extern "C" void k_monotone_clamp()
{
  AnamEmpirical* a = build();
  double u = vf_finite_double(), v = vf_finite_double();
  vf_assume(u <= v);
  for (int i = 1; i + 1 < VF_NK; i++) { vf_split(u <= Z[i]); vf_split(v <= Z[i]); }
  double yu = toY(a, u), yv = toY(a, v);
#ifdef VF_NATIVE
  vf_assert_id(yu <= yv + 1e-9 * (1. + (yv < 0 ? -yv : yv)), "rawToTransform is non-decreasing");
#else
  vf_assert_id(yu <= yv, "rawToTransform is non-decreasing");
#endif
  if (u <= Z[0]) vf_assert_id(yu == Y[0], "clamped below the first knot");
  if (v >= Z[VF_NK - 1]) vf_assert_id(yv == Y[VF_NK - 1], "clamped above the last knot");
  for (int i = 0; i < VF_NK; i++)
  {
    vf_assert_id(toY(a, Z[i]) == Y[i], "knot maps to knot (raw to gaussian)");
    vf_assert_id(toZ(a, Y[i]) == Z[i], "knot maps to knot (gaussian to raw)");
  }
  vf_witness();
}
extern "C" void k_monotone_clamp_inv()
{
  AnamEmpirical* a = build();
  double u = vf_finite_double(), v = vf_finite_double();
  vf_assume(u <= v);
  for (int i = 1; i + 1 < VF_NK; i++) { vf_split(u <= Y[i]); vf_split(v <= Y[i]); }
  double zu = toZ(a, u), zv = toZ(a, v);
#ifdef VF_NATIVE
  vf_assert_id(zu <= zv + 1e-9 * (1. + (zv < 0 ? -zv : zv)), "transformToRaw is non-decreasing");
#else
  vf_assert_id(zu <= zv, "transformToRaw is non-decreasing");
#endif
  if (u <= Y[0]) vf_assert_id(zu == Z[0], "clamped below the first knot");
  if (v >= Y[VF_NK - 1]) vf_assert_id(zv == Z[VF_NK - 1], "clamped above the last knot");
  vf_witness();
}
