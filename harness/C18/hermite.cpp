// C18.a: hermitePolynomials(y, r, nbpoly) (src/Polynomials/Hermite.cpp) against the orthonormal
// Hermite family of the Gaussian law written from the textbook coefficient table of the
// probabilists' polynomials He_k:
//     poly[k] = (-1)^k * He_k(y) / sqrt(k!) * r^k          k = 0 .. nbpoly-1
// (sign convention of the geostatistical literature, H_k = g^(k)/(g sqrt(k!)), which is what the
// code's start values 1, -y select; orthonormality of He_k/sqrt(k!) is the textbook fact and is not
// re-proved by the solver).  y and r are free reals; sqrt is exact in the engine, so sqrt(k)
// and sqrt(k!) are algebraic numbers.  One kernel per VF_N = nbpoly.
#include "vf.h"
#include "Polynomials/Hermite.hpp"
#include <math.h>
#ifndef VF_N
#define VF_N 7
#endif
#define VF_KMAX 10
// He_k(y) = sum_j HE[k][j] y^j
static const double HE[VF_KMAX][VF_KMAX] = {
  {1},
  {0, 1},
  {-1, 0, 1},
  {0, -3, 0, 1},
  {3, 0, -6, 0, 1},
  {0, 15, 0, -10, 0, 1},
  {-15, 0, 45, 0, -15, 0, 1},
  {0, -105, 0, 105, 0, -21, 0, 1},
  {105, 0, -420, 0, 210, 0, -28, 0, 1},
  {0, 945, 0, -1260, 0, 378, 0, -36, 0, 1}};

extern "C" void k_hermite()
{
  double y = vf_finite_double(), r = vf_finite_double();
  VectorDouble p = hermitePolynomials(y, r, VF_N); // REAL
  vf_assert_id((int)p.size() == VF_N, "one value per polynomial");
  // exact world (solver: sqrt(2)^2 == 2) or rounded world (native runs, concrete validation runs)
  double s2 = sqrt(2.);
  const bool exact = (s2 * s2 == 2.);
  double rk = 1., sf = 1.; // r^k, sqrt(k!) as the product of the sqrt(j)
  for (int k = 0; k < VF_N && k < (int)p.size(); k++)
  {
    if (k >= 2) sf *= sqrt((double)k);
    double he = 0.; // Horner
    for (int j = k; j >= 0; j--) he = he * y + HE[k][j];
    double want = ((k % 2) ? -he : he) * rk; // (-1)^k He_k(y) r^k
    double got = p[k] * sf;
    double d = got - want; if (d < 0) d = -d;
    double a = want < 0 ? -want : want;
    bool ok = exact ? (got == want) : (d <= 1e-9 * (1. + a));
    vf_assert_id(ok, "poly[k]*sqrt(k!) == (-1)^k He_k(y) r^k");
    rk *= r;
  }
  vf_witness();
}
