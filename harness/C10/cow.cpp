// C10.c: copy-on-write of VectorT<T> / VectorNumT<T> (include/Basic/VectorT.hpp, VectorNumT.hpp).
// Two vectors share one buffer (one is a copy of the other, use_count == 2), content arbitrary,
// size VF_N.  Every non-const member is called on one of them (and what it returns is written
// through); the *other* vector must keep its size and its elements.  Both directions are run
// (the member is called on the source, then on the copy).
//   VF_T    element type (double | int), VF_INT 1 if int
//   VF_N    number of elements (compile time)
//   VF_OP   member selected in VF_SET 1 (0 erase(pos), 1 erase(first,last), 2 insert(pos,first,last))
//   VF_SET  0: members called the way a non-const object is normally used
//           1: members that take const_iterator positions, positions taken from cbegin()/cend()
//           2: const members that hand out mutable access (getVector, getVectorPtr)
// The other vector is observed through its std::vector directly (B._v), never through the
// accessors under test.
#include "vf.h"
#include "Basic/VectorNumT.hpp"
#ifndef VF_N
#define VF_N 2
#endif
#ifndef VF_INT
#define VF_INT 0
#endif
#ifndef VF_SET
#define VF_SET 0
#endif
#if VF_INT
typedef int T;
static T nd() { return vf_nondet_int(); }
static T ndsmall() { return vf_range(-1000, 1000); }
#else
typedef double T;
static T nd() { return vf_nondet_double(); }
static T ndsmall() { return vf_grid_double(1000); }
#endif
// override: the real throw_exp formats its message through iostream (not executable symbolically)
void throw_exp(const std::string&, const std::string&, int) { throw 1; }
typedef VectorNumT<T> Vec;
typedef std::vector<T> SV;
#define N VF_N

static void fillnd(Vec& S, T* o, bool small)
{
  for (int i = 0; i < N; i++)
  {
    o[i]        = small ? ndsmall() : nd();
    (*S._v)[i] = o[i];
  }
}
static void unchanged(const Vec& B, const T* o, const char* idsize, const char* idelem)
{
  const SV& b = *B._v;
  vf_assert_(b.size() == (size_t)N, idsize);
  if (b.size() != (size_t)N) return;
  for (int i = 0; i < N; i++) vf_assert_(b[i] == o[i], idelem);
}
// one scenario: S arbitrary, C copy of S; A is the one modified, B the one observed
#define SCEN_(ID, SMALL, ...)                                                                    \
  for (int dir = 0; dir < 2; dir++)                                                              \
  {                                                                                              \
    T   o[N + 1];                                                                                \
    Vec S(N);                                                                                    \
    fillnd(S, o, SMALL);                                                                         \
    Vec  C(S);                                                                                   \
    Vec& A = dir ? C : S;                                                                        \
    Vec& B = dir ? S : C;                                                                        \
    T    w = SMALL ? ndsmall() : nd();                                                           \
    (void)w;                                                                                     \
    __VA_ARGS__ unchanged(B, o, ID ": size of the other vector unchanged",                              \
                   ID ": elements of the other vector unchanged");                               \
  }
#define SCEN(ID, ...) SCEN_(ID, false, __VA_ARGS__)
#define SCENS(ID, ...) SCEN_(ID, true, __VA_ARGS__)
#define WROTE(c, ID) vf_assert_((c), ID ": the modified vector shows the modification")

extern "C" void k_cow()
{
#if VF_SET == 0
  // ---- element access
  for (int i = 0; i < N; i++)
  {
#ifdef VF_MUTANT // self-test of the check: a write that bypasses _detach must be reported (and replay natively)
    SCEN("operator[]", { (*A._v)[i] = w; WROTE((*A._v)[i] == w, "operator[]"); })
#else
    SCEN("operator[]", { A[i] = w; WROTE((*A._v)[i] == w, "operator[]"); })
#endif
    SCEN("at", { A.at(i) = w; WROTE((*A._v)[i] == w, "at"); })
    SCEN("setAt", { A.setAt(i, w); WROTE((*A._v)[i] == w, "setAt"); })
    SCEN("data", { A.data()[i] = w; WROTE((*A._v)[i] == w, "data"); })
    SCEN("subdata", { *A.subdata(i) = w; WROTE((*A._v)[i] == w, "subdata"); })
    SCEN("begin", { *(A.begin() + i) = w; WROTE((*A._v)[i] == w, "begin"); })
    SCEN("end", { *(A.end() - 1 - i) = w; WROTE((*A._v)[N - 1 - i] == w, "end"); })
    SCEN("rbegin", { *(A.rbegin() + i) = w; WROTE((*A._v)[N - 1 - i] == w, "rbegin"); })
    SCEN("rend", { *(A.rend() - 1 - i) = w; WROTE((*A._v)[i] == w, "rend"); })
  }
  if (N > 0)
  {
    SCEN("front", { A.front() = w; WROTE((*A._v)[0] == w, "front"); })
    SCEN("back", { A.back() = w; WROTE((*A._v)[N - 1] == w, "back"); })
    SCEN("range-for", { for (T& x : A) x = w; WROTE((*A._v)[0] == w, "range-for"); })
  }
  // ---- size changing members
  SCEN("clear", { A.clear(); WROTE(A._v->size() == 0, "clear"); })
  SCEN("reserve", { A.reserve(N + 3); })
  SCEN("push_back", { A.push_back(w); WROTE(A._v->size() == N + 1 && (*A._v)[N] == w, "push_back"); })
  SCEN("push_back&&", { A.push_back((const T&&)w); WROTE(A._v->size() == N + 1 && (*A._v)[N] == w, "push_back&&"); })
  SCEN("push_front", { A.push_front(w); WROTE(A._v->size() == N + 1 && (*A._v)[0] == w, "push_front"); })
  SCEN("push_front&&", { A.push_front((const T&&)w); WROTE(A._v->size() == N + 1 && (*A._v)[0] == w, "push_front&&"); })
  SCEN("operator<<(T)", { A << w; WROTE(A._v->size() == N + 1 && (*A._v)[N] == w, "operator<<(T)"); })
  SCEN("operator<<(VectorT)", {
    Vec D(2);
    (*D._v)[0] = w;
    (*D._v)[1] = w;
    A << D;
    WROTE(A._v->size() == N + 2 && (*A._v)[N + 1] == w, "operator<<(VectorT)");
  })
  SCEN("operator<<(self)", { A << A; WROTE(A._v->size() == 2 * N, "operator<<(self)"); })
  SCEN("operator<<(other)", { A << B; WROTE(A._v->size() == 2 * N, "operator<<(other)"); })
  for (int i = 0; i <= N; i++)
  {
    SCEN("insert(i,value)", { A.insert((size_t)i, w); WROTE(A._v->size() == N + 1 && (*A._v)[i] == w, "insert(i,value)"); })
    SCEN("insert(i,count,value)", { A.insert((size_t)i, (size_t)2, w); WROTE(A._v->size() == N + 2 && (*A._v)[i + 1] == w, "insert(i,count,value)"); })
    SCEN("insert(pos,first,last)", {
      SV d(2, w);
      A.insert(A.begin() + i, d.cbegin(), d.cend());
      WROTE(A._v->size() == N + 2 && (*A._v)[i + 1] == w, "insert(pos,first,last)");
    })
    SCEN("insert(pos,other.begin,other.end)", {
      const Vec& Bc = B;
      A.insert(A.begin() + i, Bc.begin(), Bc.end());
      WROTE(A._v->size() == 2 * N, "insert(pos,other.begin,other.end)");
    })
  }
  for (int i = 0; i < N; i++)
  {
    SCEN("remove(i)", { A.remove((size_t)i); WROTE(A._v->size() == N - 1, "remove(i)"); })
    SCEN("erase(pos)", { A.erase(A.begin() + i); WROTE(A._v->size() == N - 1, "erase(pos)"); })
    for (int c = 0; i + c <= N; c++)
    {
      SCEN("remove(i,count)", { A.remove((size_t)i, (size_t)c); WROTE(A._v->size() == (size_t)(N - c), "remove(i,count)"); })
      SCEN("erase(first,last)", { A.erase(A.begin() + i, A.begin() + i + c); WROTE(A._v->size() == (size_t)(N - c), "erase(first,last)"); })
    }
  }
  for (int m = 0; m <= N + 2; m++)
  {
    SCEN("resize(count)", { A.resize((size_t)m); WROTE(A._v->size() == (size_t)m, "resize(count)"); })
    SCEN("resize(count,value)", { A.resize((size_t)m, w); WROTE(A._v->size() == (size_t)m && (m <= N || (*A._v)[m - 1] == w), "resize(count,value)"); })
    SCEN("fill(value,size)", { A.fill(w, (size_t)m); WROTE(A._v->size() == (size_t)(m > 0 ? m : N) && (A._v->size() == 0 || (*A._v)[0] == w), "fill(value,size)"); })
  }
  SCEN("fill(value)", { A.fill(w); WROTE(N == 0 || (*A._v)[N - 1] == w, "fill(value)"); })
  SCEN("assign", {
    SV d(N + 1, w);
    A.assign(d.begin(), d.end());
    WROTE(A._v->size() == N + 1 && (*A._v)[N] == w, "assign");
  })
  SCEN("assign(other)", {
    const Vec& Bc = B;
    A.assign(Bc.begin(), Bc.end());
    if (N > 0) A[0] = w;
    WROTE(A._v->size() == N, "assign(other)");
  })
  // ---- assignment, swap
  SCEN("operator=(std::vector)", {
    SV d(N + 1, w);
    A = d;
    WROTE(A._v->size() == N + 1 && (*A._v)[N] == w, "operator=(std::vector)");
  })
  SCEN("operator=(VectorT)", {
    Vec D(N + 1, w);
    A = D;
    WROTE(A._v->size() == N + 1 && (*A._v)[N] == w, "operator=(VectorT)");
    A[0] = w; // A now shares with D: D must be protected too
    vf_assert_id(D._v->size() == N + 1, "operator=(VectorT): assigned-from vector independent afterwards");
  })
  SCEN("operator=(other) then write", {
    A = B; // shares again
    if (N > 0) A[0] = w;
    WROTE(N == 0 || (*A._v)[0] == w, "operator=(other) then write");
  })
  SCEN("operator=(self)", {
    A = A;
    if (N > 0) A[0] = w;
    WROTE(N == 0 || (*A._v)[0] == w, "operator=(self)");
  })
  SCEN("operator=(VectorT&&)", {
    Vec D(N + 1, w);
    A = std::move(D);
    A[0] = w;
    WROTE(A._v->size() == N + 1 && (*A._v)[N] == w, "operator=(VectorT&&)");
  })
  SCEN("operator=(initializer_list)", {
    A = {w, w};
    WROTE(A._v->size() == 2 && (*A._v)[1] == w, "operator=(initializer_list)");
  })
  SCEN("swap", {
    Vec D(N + 1, w);
    A.swap(D); // D now shares with B
    A[0] = w;
    WROTE(A._v->size() == N + 1, "swap");
    if (N > 0) D[0] = w; // and writing through the swapped-out handle must not reach B either
  })
  SCEN("swap(other)", {
    A.swap(B);
    if (N > 0) A[0] = w;
    WROTE(N == 0 || (*A._v)[0] == w, "swap(other)");
  })
  // ---- VectorNumT arithmetic in place (small integer-valued content: no overflow)
  SCENS("add(T)", { A.add(w); WROTE(N == 0 || (*A._v)[0] == o[0] + w, "add(T)"); })
  SCENS("subtract(T)", { A.subtract(w); WROTE(N == 0 || (*A._v)[0] == o[0] - w, "subtract(T)"); })
  SCENS("multiply(T)", { A.multiply(w); WROTE(N == 0 || (*A._v)[0] == o[0] * w, "multiply(T)"); })
  SCENS("add(Vector)", { A.add(B); WROTE(N == 0 || (*A._v)[0] == o[0] + o[0], "add(Vector)"); })
  SCENS("subtract(Vector)", { A.subtract(B); WROTE(N == 0 || (*A._v)[0] == 0, "subtract(Vector)"); })
  SCENS("multiply(Vector)", { A.multiply(A); WROTE(N == 0 || (*A._v)[0] == o[0] * o[0], "multiply(Vector)"); })
  // divide(): calls the C library abs() (unmodelled external); its write path is the same for_each as multiply(T)
#endif

#if VF_SET == 1
  // positions given as const_iterator obtained from the const accessors (cbegin/cend): legal
  // arguments of erase/insert as declared; the vector is shared when the member is entered.
  // One member per kernel (VF_OP): an execution ends at the first undefined operation.
#if VF_OP == 0
  for (int i = 0; i < N; i++)
    SCEN("erase(cbegin+i)", { A.erase(A.cbegin() + i); WROTE(A._v->size() == N - 1, "erase(cbegin+i)"); })
#elif VF_OP == 1
  for (int i = 0; i < N; i++)
    SCEN("erase(cbegin+i,cend)", { A.erase(A.cbegin() + i, A.cend()); WROTE(A._v->size() == (size_t)i, "erase(cbegin+i,cend)"); })
#else
  for (int i = 0; i <= N; i++)
  {
    SCEN("insert(cbegin+i,first,last)", {
      SV d(2, w);
      A.insert(A.cbegin() + i, d.cbegin(), d.cend());
      WROTE(A._v->size() == N + 2 && (*A._v)[i] == w, "insert(cbegin+i,first,last)");
    })
  }
#endif
#endif

#if VF_SET == 2
  for (int i = 0; i < N; i++)
  {
    SCEN("getVector", { A.getVector()[i] = w; WROTE((*A._v)[i] == w, "getVector"); })
    SCEN("getVectorPtr", { (*A.getVectorPtr())[i] = w; WROTE((*A._v)[i] == w, "getVectorPtr"); })
  }
#endif
  vf_witness();
}
