// C10.a / C04.b: memo invalidation of KrigingCalcul (src/Estimation/KrigingCalcul.cpp).
// Inductive step: arbitrary null / non-null pre-state of every memo field, arbitrary flags and
// dimensions, one public setter (or resetLinkedTo*) with arbitrary null / non-null arguments;
// afterwards every memo that (transitively) depends on an input the call has replaced is null
// (vectors: empty).  "Replaced" is observed on the object: the input field differs from its
// pre-state value.
//
// Dependency oracle = table DEPS below, read from the _needXXX functions (X is computed from the
// inputs / memos that _needX reads on any of its branches, incl. _patchColCokVarianceZstar):
//   InvSigma        <- Sigma
//   InvPriorCov     <- PriorCov
//   XtInvSigma      <- X, InvSigma
//   Sigmac          <- X, XtInvSigma, InvPriorCov, flagBayes
//   Beta            <- Z, Sigmac, XtInvSigma, PriorMean, InvPriorCov, flagBayes
//   InvSigmaSigma0  <- Sigma0, InvSigma
//   Y0              <- X0, X, InvSigmaSigma0
//   Sigma0p         <- Sigma0, rankColCok
//   Sigma00p        <- Sigma00, rankColCok
//   Sigma00pp       <- Sigma00, rankColCok
//   X0p             <- X0, rankColCok
//   Z0p             <- Zp, rankColCok
//   Y0p             <- X0p, Sigma0p, XtInvSigma
//   Lambda0         <- Sigma00, Sigma0, Sigma0p, Sigma00p, Sigma00pp, InvSigma, Sigmac, Y0p, Y0, ncck
//   LambdaSK        <- Sigma0, InvSigma, Sigma0p, Lambda0, InvSigmaSigma0, ncck
//   MuUK            <- Sigmac, Y0, Y0p, Lambda0, flagSK, ncck
//   LambdaUK        <- XtInvSigma, LambdaSK, MuUK
//   VarZSK          <- Sigma0, LambdaSK, Lambda0, Sigma0p, Sigma00pp, LambdaUK, ncck, flagSK
//   VarZUK          <- Sigma0, Sigma, LambdaUK, Lambda0, Sigma0p, Sigma00pp, LambdaSK, ncck, flagSK
//   Stdv            <- Sigma00, Sigma0, X0, VarZSK, LambdaUK, MuUK, Sigma00p, Lambda0, ncck, flagSK
//   Zstar           <- Z, Means, Sigma0, X0, LambdaSK, LambdaUK, Y0, Beta, Z0p, Lambda0, ncck, flagSK, flagBayes,
//                      and (dual form, _bDual/_cDual are recomputed on every request, not memos) InvSigma, Sigmac, XtInvSigma
// Not in the table (outside the claim): _C_RHS/_X_RHS (eager patches of setXvalidUnique, not computed by a
// _need function: only "null after resetLinkedToXvalid" is checked); the formal edge rankXvalidVars -> Zstar
// (the branch only runs when *_Means is empty, where the sampling is vacuous).
#include "vf.h"
#include "Estimation/KrigingCalcul.hpp"
#include "Matrix/MatrixRectangular.hpp"
#include "Matrix/MatrixSquareSymmetric.hpp"
#include "Matrix/MatrixFactory.hpp"
#include <new>
// override: error printing (variadic, iostream) is not part of the property
void messerr(const char*, ...) {}
void message(const char*, ...) {}
#ifdef VF_SOLVER
// libc strlen (std::string temporaries "Z", "Sigma", ... built at the call sites of _checkDimension*): plain loop for the executor
extern "C" size_t strlen(const char* s)
{
  size_t n = 0;
  while (s[n] != 0) n++;
  return n;
}
#endif

// ---- memo fields
#define PMEMOS(X, S)                                                                                          \
  X(LambdaSK, S) X(LambdaUK, S) X(MuUK, S) X(Stdv, S) X(VarZSK, S) X(VarZUK, S) X(XtInvSigma, S) X(Y0, S)       \
  X(InvSigmaSigma0, S) X(InvSigma, S) X(Sigmac, S) X(InvPriorCov, S) X(Sigma00pp, S) X(Sigma00p, S)           \
  X(Sigma0p, S) X(X0p, S) X(Y0p, S) X(Lambda0, S)
#define VMEMOS(X, S) X(Zstar, S) X(Beta, S) X(Z0p, S)
#define ENUM_(n, S) M_##n,
enum Memo { PMEMOS(ENUM_, 0) VMEMOS(ENUM_, 0) NM };
// ---- inputs (setter arguments and the parameters the setters derive from them)
enum Input { I_Z, I_Means, I_Sigma, I_X, I_Sigma0, I_X0, I_Sigma00, I_PriorMean, I_PriorCov, I_Zp, I_rankColCok,
             I_ncck, I_flagSK, I_flagBayes, NI };

// direct dependencies: memo <- inputs, memo <- memos (-1 terminated)
struct Dep { int memo; int inputs[8]; int memos[12]; };
static const Dep DEPS[] = {
  {M_InvSigma, {I_Sigma, -1}, {-1}},
#ifdef VF_MUTANT // self-test of the check: a dependency the code does not have (must give a replayed violation in k_setData)
  {M_InvPriorCov, {I_PriorCov, I_Z, -1}, {-1}},
#else
  {M_InvPriorCov, {I_PriorCov, -1}, {-1}},
#endif
  {M_XtInvSigma, {I_X, -1}, {M_InvSigma, -1}},
  {M_Sigmac, {I_X, I_flagBayes, -1}, {M_XtInvSigma, M_InvPriorCov, -1}},
  {M_Beta, {I_Z, I_PriorMean, I_flagBayes, -1}, {M_Sigmac, M_XtInvSigma, M_InvPriorCov, -1}},
  {M_InvSigmaSigma0, {I_Sigma0, -1}, {M_InvSigma, -1}},
  {M_Y0, {I_X0, I_X, -1}, {M_InvSigmaSigma0, -1}},
  {M_Sigma0p, {I_Sigma0, I_rankColCok, -1}, {-1}},
  {M_Sigma00p, {I_Sigma00, I_rankColCok, -1}, {-1}},
  {M_Sigma00pp, {I_Sigma00, I_rankColCok, -1}, {-1}},
  {M_X0p, {I_X0, I_rankColCok, -1}, {-1}},
  {M_Z0p, {I_Zp, I_rankColCok, -1}, {-1}},
  {M_Y0p, {-1}, {M_X0p, M_Sigma0p, M_XtInvSigma, -1}},
  {M_Lambda0, {I_Sigma00, I_Sigma0, I_ncck, -1}, {M_Sigma0p, M_Sigma00p, M_Sigma00pp, M_InvSigma, M_Sigmac, M_Y0p, M_Y0, -1}},
  {M_LambdaSK, {I_Sigma0, I_ncck, -1}, {M_InvSigma, M_Sigma0p, M_Lambda0, M_InvSigmaSigma0, -1}},
  {M_MuUK, {I_flagSK, I_ncck, -1}, {M_Sigmac, M_Y0, M_Y0p, M_Lambda0, -1}},
  {M_LambdaUK, {-1}, {M_XtInvSigma, M_LambdaSK, M_MuUK, -1}},
  {M_VarZSK, {I_Sigma0, I_ncck, I_flagSK, -1}, {M_LambdaSK, M_Lambda0, M_Sigma0p, M_Sigma00pp, M_LambdaUK, -1}},
  {M_VarZUK, {I_Sigma0, I_Sigma, I_ncck, I_flagSK, -1}, {M_LambdaUK, M_Lambda0, M_Sigma0p, M_Sigma00pp, M_LambdaSK, -1}},
  {M_Stdv, {I_Sigma00, I_Sigma0, I_X0, I_ncck, I_flagSK, -1}, {M_VarZSK, M_LambdaUK, M_MuUK, M_Sigma00p, M_Lambda0, -1}},
  {M_Zstar, {I_Z, I_Means, I_Sigma0, I_X0, I_ncck, I_flagSK, I_flagBayes, -1},
   {M_LambdaSK, M_LambdaUK, M_Y0, M_Beta, M_Z0p, M_Lambda0, M_InvSigma, M_Sigmac, M_XtInvSigma, -1}},
};
static const int NDEPS = sizeof(DEPS) / sizeof(DEPS[0]);

// clo[i][m]: memo m transitively depends on input i (concrete fixpoint over the table)
static bool clo[NI][NM];
static void closure()
{
  for (int i = 0; i < NI; i++)
  {
    for (int m = 0; m < NM; m++) clo[i][m] = false;
    for (int d = 0; d < NDEPS; d++)
      for (int k = 0; DEPS[d].inputs[k] >= 0; k++)
        if (DEPS[d].inputs[k] == i) clo[i][DEPS[d].memo] = true;
    bool changed = true;
    while (changed)
    {
      changed = false;
      for (int d = 0; d < NDEPS; d++)
        for (int k = 0; DEPS[d].memos[k] >= 0; k++)
          if (clo[i][DEPS[d].memos[k]] && !clo[i][DEPS[d].memo])
          {
            clo[i][DEPS[d].memo] = true;
            changed              = true;
          }
    }
  }
}

// ---- the object: built by its real constructor (all inputs absent), then every field is overwritten by prestate()
static KrigingCalcul* kc;
// pre-state values of the input fields
static const MatrixSquareSymmetric *pSigma00, *pSigma, *pPriorCov;
static const MatrixRectangular *pSigma0, *pX, *pX0;
static const VectorDouble *pZ, *pPriorMean, *pMeans, *pZp;
static const VectorInt* pRankColCok;
static int  pNcck;
static int  pFlagSK, pFlagBayes; // 0/1

static void vec_state(VectorDouble* v)
{
  // one allocated element, logical size 0 or 1 (arbitrary)
  v->_v->resize(1);
  bool nonempty = vf_nondet_bool();
  v->_v->_M_impl._M_finish = v->_v->_M_impl._M_start + (nonempty ? 1 : 0);
}
static bool vec_empty(const VectorDouble& v) { return v._v->_M_impl._M_finish == v._v->_M_impl._M_start; }

template <class M> static const M* pick(const M* obj) { return vf_nondet_bool() ? obj : (const M*)nullptr; }

template <class M> static const M* pick2(const M* a, const M* b)
{
  const M* r = vf_nondet_bool() ? a : b;
  return vf_nondet_bool() ? r : (const M*)nullptr;
}

static void prestate(int nbfl_fixed = -1)
{
  closure();
  kc = new KrigingCalcul();
  // old inputs: present or absent
  pSigma00    = kc->_Sigma00 = pick(new MatrixSquareSymmetric(2));
  pSigma      = kc->_Sigma = pick(new MatrixSquareSymmetric(2));
  pSigma0     = kc->_Sigma0 = pick(new MatrixRectangular(2, 2));
  pX          = kc->_X = pick(new MatrixRectangular(2, 1));
  pX0         = kc->_X0 = pick(new MatrixRectangular(2, 1));
  pPriorCov   = kc->_PriorCov = pick(new MatrixSquareSymmetric(1));
  pZ          = kc->_Z = pick(new VectorDouble(2));
  pPriorMean  = kc->_PriorMean = pick(new VectorDouble(1));
  pMeans      = kc->_Means = pick(new VectorDouble(1));
  pZp         = kc->_Zp = pick(new VectorDouble(2));
  pRankColCok = kc->_rankColCok = pick(new VectorInt(1));
  kc->_rankXvalidEqs            = pick(new VectorInt(1));
  kc->_rankXvalidVars           = pick(new VectorInt(1));
  // memo matrices: arbitrary null / non-null (owned objects of the real classes: 'delete' runs the real destructors)
#define PRE_R(n) kc->_##n = (MatrixRectangular*)pick(new MatrixRectangular(1, 1));
#define PRE_S(n) kc->_##n = (MatrixSquareSymmetric*)pick(new MatrixSquareSymmetric(1));
  PRE_R(LambdaSK) PRE_R(LambdaUK) PRE_R(MuUK) PRE_S(Stdv) PRE_S(VarZSK) PRE_S(VarZUK) PRE_R(XtInvSigma) PRE_R(Y0)
  PRE_R(InvSigmaSigma0) PRE_S(InvSigma) PRE_S(Sigmac) PRE_S(InvPriorCov) PRE_S(Sigma00pp) PRE_R(Sigma00p)
  PRE_R(Sigma0p) PRE_R(X0p) PRE_R(Y0p) PRE_R(Lambda0) PRE_R(C_RHS) PRE_R(X_RHS)
  // memo vectors: arbitrary empty / non-empty
  vec_state(&kc->_Zstar);
  vec_state(&kc->_Beta);
  vec_state(&kc->_Z0p);
  vec_state(&kc->_bDual);
  vec_state(&kc->_cDual);
  // parameters: arbitrary
  kc->_neq     = vf_range(0, 3);
  kc->_nbfl    = vf_range(0, 3);
  if (nbfl_fixed >= 0) kc->_nbfl = nbfl_fixed; // k_setXvalidUnique sizes local matrices with it
  kc->_nrhs    = vf_range(0, 3);
  pNcck = kc->_ncck = vf_range(0, 3);
  kc->_nxvalid      = vf_range(0, 3);
  kc->_flagSK    = vf_nondet_bool();
  pFlagSK        = kc->_flagSK ? 1 : 0;
  kc->_flagBayes = vf_nondet_bool();
  pFlagBayes     = kc->_flagBayes ? 1 : 0;
  kc->_flagDual               = vf_nondet_bool();
}

// every memo in the closure of a replaced input must be null
#define CHK_P(n, S) if (clo[i][M_##n]) vf_assert_id(!r || kc->_##n == nullptr, S ": _" #n " is null when an input it depends on was replaced");
#define CHK_V(n, S) if (clo[i][M_##n]) vf_assert_id(!r || vec_empty(kc->_##n), S ": _" #n " is empty when an input it depends on was replaced");
#define CHECK(S)                                                      \
  {                                                                   \
    bool repl[NI];                                                    \
    repl[I_Z]          = kc->_Z != pZ;                                \
    repl[I_Means]      = kc->_Means != pMeans;                        \
    repl[I_Sigma]      = kc->_Sigma != pSigma;                        \
    repl[I_X]          = kc->_X != pX;                                \
    repl[I_Sigma0]     = kc->_Sigma0 != pSigma0;                      \
    repl[I_X0]         = kc->_X0 != pX0;                              \
    repl[I_Sigma00]    = kc->_Sigma00 != pSigma00;                    \
    repl[I_PriorMean]  = kc->_PriorMean != pPriorMean;                \
    repl[I_PriorCov]   = kc->_PriorCov != pPriorCov;                  \
    repl[I_Zp]         = kc->_Zp != pZp;                              \
    repl[I_rankColCok] = kc->_rankColCok != pRankColCok;              \
    repl[I_ncck]       = kc->_ncck != pNcck;                          \
    repl[I_flagSK]     = (kc->_flagSK ? 1 : 0) != pFlagSK;                     \
    repl[I_flagBayes]  = (kc->_flagBayes ? 1 : 0) != pFlagBayes;               \
    for (int i = 0; i < NI; i++)                                      \
    {                                                                 \
      bool r = repl[i];                                               \
      PMEMOS(CHK_P, S) VMEMOS(CHK_V, S)                               \
    }                                                                 \
  }

extern "C" void k_setData()
{
  prestate();
  const VectorDouble* Z     = pick(new VectorDouble(2));
  const VectorDouble* Means = pick(new VectorDouble(1));
  (void)kc->setData(Z, Means);
  CHECK("setData")
  vf_witness();
}
extern "C" void k_setLHS()
{
  prestate();
  const MatrixSquareSymmetric* Sigma = pick(new MatrixSquareSymmetric(2));
  const MatrixRectangular*     X     = pick2(new MatrixRectangular(2, 1), new MatrixRectangular(2, 0)); // X with no column: SK
  (void)kc->setLHS(Sigma, X);
  CHECK("setLHS")
  vf_witness();
}
extern "C" void k_setRHS()
{
  prestate();
  const MatrixRectangular* Sigma0 = pick(new MatrixRectangular(2, 2));
  const MatrixRectangular* X0     = pick2(new MatrixRectangular(2, 1), new MatrixRectangular(2, 0));
  (void)kc->setRHS(Sigma0, X0);
  CHECK("setRHS")
  vf_witness();
}
extern "C" void k_setVar()
{
  prestate();
  const MatrixSquareSymmetric* Sigma00 = pick(new MatrixSquareSymmetric(2));
  (void)kc->setVar(Sigma00);
  CHECK("setVar")
  vf_witness();
}
extern "C" void k_setColCokUnique()
{
  prestate();
  const VectorDouble* Zp   = pick(new VectorDouble(2));
  const VectorInt*    rank = pick(new VectorInt(1));
  (void)kc->setColCokUnique(Zp, rank);
  CHECK("setColCokUnique")
  vf_witness();
}
extern "C" void k_setBayes()
{
  prestate();
  const VectorDouble*          PriorMean = pick(new VectorDouble(1));
  const MatrixSquareSymmetric* PriorCov  = pick(new MatrixSquareSymmetric(1));
  (void)kc->setBayes(PriorMean, PriorCov);
  CHECK("setBayes")
  vf_witness();
}

// ---- setXvalidUnique: the matrix algebra of _patchRHSForXvalidUnique is overridden (results are dummy 1x1 objects,
// inversions succeed or fail arbitrarily); what is checked is the bookkeeping: the call installs a new Sigma0 / X0 /
// Sigma00, so everything that depends on them must be null afterwards.
static bool g_invert_fails[4];
static int  c_invert;
int AMatrix::invert() { return g_invert_fails[c_invert++ & 3] ? 1 : 0; }
void AMatrix::linearCombination(double, const AMatrix*, double, const AMatrix*, double, const AMatrix*) {}
void AMatrix::prodMatMatInPlace(const AMatrix*, const AMatrix*, bool, bool) {}
void AMatrixDense::prodMatMatInPlace(const AMatrix*, const AMatrix*, bool, bool) {}
void AMatrix::prodNormMatMatInPlace(const AMatrix*, const AMatrix*, bool) {}
AMatrix* MatrixFactory::prodMatMat(const AMatrix*, const AMatrix*, bool, bool) { return new MatrixRectangular(1, 1); }
MatrixRectangular* MatrixRectangular::sample(const AMatrix*, const VectorInt&, const VectorInt&, bool, bool) { return new MatrixRectangular(1, 1); }
void MatrixRectangular::unsample(const AMatrix*, const VectorInt&, const VectorInt&, bool, bool) {}
MatrixSquareSymmetric* MatrixSquareSymmetric::sample(const MatrixSquareSymmetric*, const VectorInt&, bool) { return new MatrixSquareSymmetric(1); }

extern "C" void k_setXvalidUnique()
{
  for (int nbfl = 0; nbfl <= 1; nbfl++)
  {
    prestate(nbfl);
    for (int i = 0; i < 4; i++) g_invert_fails[i] = vf_nondet_bool();
    c_invert = 0;
    const VectorInt* eqs  = pick(new VectorInt(1)); // one cross-validated equation, or absent (sizes of the local matrices)
    const VectorInt* vars = pick(new VectorInt(1));
    (void)kc->setXvalidUnique(eqs, vars);
    CHECK("setXvalidUnique")
  }
  vf_witness();
}

// resetLinkedTo*: the inputs named by the function count as replaced
#define RCHK_P(n, S) if (dep[M_##n]) vf_assert_id(kc->_##n == nullptr, S ": _" #n " is null");
#define RCHK_V(n, S) if (dep[M_##n]) vf_assert_id(vec_empty(kc->_##n), S ": _" #n " is empty");
#define RESET(FN, S, I1, I2)                                          \
  {                                                                   \
    prestate();                                                       \
    kc->FN();                                                         \
    bool dep[NM];                                                     \
    for (int m = 0; m < NM; m++) dep[m] = clo[I1][m] || clo[I2][m];   \
    PMEMOS(RCHK_P, S) VMEMOS(RCHK_V, S)                               \
  }
extern "C" void k_reset()
{
  RESET(resetLinkedToZ, "resetLinkedToZ", I_Z, I_Means)
  RESET(resetLinkedToLHS, "resetLinkedToLHS", I_Sigma, I_X)
  RESET(resetLinkedToRHS, "resetLinkedToRHS", I_Sigma0, I_X0)
  RESET(resetLinkedtoVar0, "resetLinkedtoVar0", I_Sigma00, I_Sigma00)
  RESET(resetLinkedToBayes, "resetLinkedToBayes", I_PriorMean, I_PriorCov)
  RESET(resetLinkedToColCok, "resetLinkedToColCok", I_Zp, I_rankColCok)
  {
    prestate();
    kc->resetLinkedToXvalid();
    vf_assert_id(kc->_C_RHS == nullptr, "resetLinkedToXvalid: _C_RHS is null");
    vf_assert_id(kc->_X_RHS == nullptr, "resetLinkedToXvalid: _X_RHS is null");
  }
  vf_witness();
}
