// C10.b: pre/post-process pairing of the covariance optimisation cache in
// ACovAnisoList::evalCovMatrixOptim and ACovAnisoList::evalCovMatrixSymmetricOptim
// (src/Covariances/ACovAnisoList.cpp).  The two functions are the real code; every callee is
// overridden below.  optimizationPreProcess / optimizationPostProcess only count their calls;
// _getActiveVariables and Db::getMultipleRanksActive return lists whose lengths are the scenario
// (every combination of 0..VF_NV variables and 0..VF_NE samples per variable, contents arbitrary).
// Property (typestate): on every return path  #PostProcess == #PreProcess  (the projected-sample
// cache filled for this request is released before the function returns).
#include "vf.h"
#include "Covariances/ACovAnisoList.hpp"
#include "Covariances/CovAniso.hpp"
#include "Db/Db.hpp"
#include "Space/SpacePoint.hpp"
#include "Matrix/MatrixRectangular.hpp"
#include "Matrix/MatrixSquareSymmetric.hpp"
#ifndef VF_NV
#define VF_NV 2
#endif
#ifndef VF_NE
#define VF_NE 2
#endif

// ---- scenario (concrete sizes) and call counters
static int g_nvars[2];  // lengths returned by the 1st / 2nd call of _getActiveVariables
static int g_nech[2];   // samples per variable returned by the 1st / 2nd call of getMultipleRanksActive
static int c_active, c_ranks, npre, npost, ntarget, neval;

// ---- overrides (all callees of the two functions)
void ACov::optimizationPreProcess(const Db*) const { npre++; }
void ACov::optimizationPostProcess() const { npost++; }
void ACov::optimizationSetTarget(const SpacePoint&) const { ntarget++; }
void ACovAnisoList::optimizationSetTargetByIndex(int) const { ntarget++; }
VectorInt ACov::_getActiveVariables(int) const
{
  int       n = g_nvars[c_active++ & 1];
  VectorInt v(n);
  for (int i = 0; i < n; i++) v[i] = vf_nondet_int();
  return v;
}
VectorVectorInt Db::getMultipleRanksActive(const VectorInt& ivars, const VectorInt&, bool, bool) const
{
  int             n = g_nech[c_ranks++ & 1];
  VectorVectorInt r((int)ivars.size());
  for (int iv = 0; iv < (int)ivars.size(); iv++)
  {
    VectorInt v(n);
    for (int i = 0; i < n; i++) v[i] = vf_nondet_int();
    r[iv] = v;
  }
  return r;
}
void Db::getSampleAsSPInPlace(SpacePoint&) const {}
void CovAniso::evalOptimInPlace(MatrixRectangular&, const VectorInt&, const VectorVectorInt&, int, int, const CovCalcMode*, bool) const { neval++; }
void ACov::_updateCovMatrixSymmetricVerr(const Db*, AMatrix*, const VectorInt&, const VectorVectorInt&) {}
void AMatrix::resize(int, int) {}
void messerr(const char*, ...) {}
// SpacePoint local of the function: no default-space machinery
ASpaceObject::ASpaceObject(const ASpace* space) : AStringable(), _space(space) {}
ASpaceObject::~ASpaceObject() {}
SpacePoint::SpacePoint(const ASpace* space) : ASpaceObject(space), _coord(), _iech(-1), _target(false) {}
SpacePoint::~SpacePoint() {}

extern "C" void* _ZTV13ACovAnisoList[]; // vtable of the real class (raw-storage object needs its vptr)
alignas(16) static char covbuf[sizeof(ACovAnisoList)];
alignas(16) static char dbbuf[sizeof(Db)];
alignas(16) static char cabuf[sizeof(CovAniso)];

static ACovAnisoList* setup(int ncov)
{
  ACovAnisoList* L = (ACovAnisoList*)covbuf;
  *(void***)L      = &_ZTV13ACovAnisoList[2];
  new (&L->_covs) std::vector<CovAniso*>();
  for (int i = 0; i < ncov; i++) L->_covs.push_back((CovAniso*)cabuf); // evalOptimInPlace is overridden: never dereferenced
  c_active = c_ranks = npre = npost = ntarget = neval = 0;
  return L;
}

extern "C" void k_optim_rect()
{
  const Db* db1 = (const Db*)dbbuf;
  VectorInt nbgh;
  for (int niv = 0; niv <= VF_NV; niv++)
    for (int njv = 0; njv <= VF_NV; njv++)
      for (int ne1 = 0; ne1 <= VF_NE; ne1++)
        for (int ne2 = 0; ne2 <= VF_NE; ne2++)
        {
          ACovAnisoList* L = setup(1);
          g_nvars[0] = niv; g_nvars[1] = njv;
          g_nech[0] = ne1; g_nech[1] = ne2;
          int ivar0 = vf_nondet_int(), jvar0 = vf_nondet_int();
          {
            MatrixRectangular m = L->evalCovMatrixOptim(db1, vf_nondet_bool() ? db1 : nullptr, ivar0, jvar0, nbgh, nbgh, nullptr);
          }
          // same property, id names the return path (reference reading of the scenario)
          if (niv == 0 || njv == 0)
            vf_assert_id(npost == npre, "evalCovMatrixOptim: #PostProcess == #PreProcess on the 'no active variable' return");
          else if (niv * ne1 <= 0 || njv * ne2 <= 0)
            vf_assert_id(npost == npre, "evalCovMatrixOptim: #PostProcess == #PreProcess on the 'no valid sample' return (neq <= 0)");
          else
            vf_assert_id(npost == npre, "evalCovMatrixOptim: #PostProcess == #PreProcess on the normal return");
        }
  vf_witness();
}

extern "C" void k_optim_sym()
{
  const Db* db1 = (const Db*)dbbuf;
  VectorInt nbgh;
  for (int niv = 0; niv <= VF_NV; niv++)
    for (int ne1 = 0; ne1 <= VF_NE; ne1++)
    {
      ACovAnisoList* L = setup(1);
      g_nvars[0] = g_nvars[1] = niv;
      g_nech[0] = g_nech[1] = ne1;
      int ivar0 = vf_nondet_int();
      {
        MatrixSquareSymmetric m = L->evalCovMatrixSymmetricOptim(db1, ivar0, nbgh, nullptr);
      }
      if (niv == 0)
        vf_assert_id(npost == npre, "evalCovMatrixSymmetricOptim: #PostProcess == #PreProcess on the 'no active variable' return");
      else if (niv * ne1 <= 0)
        vf_assert_id(npost == npre, "evalCovMatrixSymmetricOptim: #PostProcess == #PreProcess on the 'no valid sample' return (neq <= 0)");
      else
        vf_assert_id(npost == npre, "evalCovMatrixSymmetricOptim: #PostProcess == #PreProcess on the normal return");
    }
  vf_witness();
}
