// C10.f: the result of KrigingSystem::estimate for a target does not depend on the previous target
// (src/Estimation/KrigingSystem.cpp, estimate(); src/Neigh/ANeigh.cpp, the neighbourhood memo).
// estimate() keeps the inverted left-hand side of the previous target and skips its preparation stage
// (_prepar) when the neighbourhood reports "unchanged".  That is only sound when the kept system was built
// and solved successfully for the same neighbours: when a target fails (status != 0 at label_store) the
// memo must be invalidated (_neigh->setIsChanged()).
// Real code: KrigingSystem::estimate, _setInternalShortCutVariablesNeigh, getNech, getNeq; ANeigh::select,
// _isSameTarget, _checkUnchanged, _updateColCok, setIsChanged, isUnchanged (test subclass of ANeigh whose
// getNeigh returns the rank list of the scenario).  Every stage of estimate() is overridden by a recorder; the
// preparation stage and the right-hand side fail under symbolic bits.
// Two consecutive targets A, B from an arbitrary memo pre-state.  Everything that decides the LENGTH of a rank vector
// is enumerated (the executor needs concrete vector lengths): which path select takes (same target as memorised /
// other target with hasChanged true / false), whether the returned ranks are the memorised set, the lengths, the
// failure bits, the kind of neighbourhood, the "continuous" flag; rank values, target ranks and all other flags
// are symbolic.  Asserted:
//   P1  A failed (empty neighbourhood or failed preparation) and B reaches the preparation test
//       ==> B executes _prepar (and the data pre-calculation _dualCalcul)
//   P2  B skips _prepar ==> A did not fail and the neighbours handed to B's later stages are, as a set, those of A
//   P3  (separate entry) a failed right-hand side stage is reported to the read-out stage (status != 0), so
//       that the target gets undefined results instead of values computed from a partly updated right-hand side
#include "../C01/ks_common.h"
#include "Enum/ENeigh.hpp"
#include "Basic/OptDbg.hpp"
#include "Tree/Ball.hpp"
#include "geoslib_old_f.h"

#ifndef VF_MUT
#  define VF_MUT 0
#endif
#define NL 2 // length of a non-empty rank list

// ---------------------------------------------------------------- scenario and records
static int  g_n;          // length of the list getNeigh returns for the current target
static int  g_R[NL];      // its content
static bool g_changed;    // answer of hasChanged when the memo is not empty
static bool g_cont;       // getFlagContinuous
static int  g_type;       // 0 moving, 1 unique
static bool g_prepfail, g_rhsfail;
struct Rec
{
  int nselect_getneigh, nprepar, ndual, nrhs, niso, nwgt, nread, readstatus, nsetlocal, nbayes;
};
static Rec g_rec;

class TNeigh : public ANeigh
{
public:
  TNeigh() : ANeigh(nullptr) {}
  void getNeigh(int, VectorInt& ranks) override
  {
    g_rec.nselect_getneigh++;
    VectorInt r(g_n);
    for (int i = 0; i < g_n; i++) r[i] = g_R[i];
    ranks = r;
  }
  int  getMaxSampleNumber(const Db*) const override { return 0; }
  // contract of the concrete neighbourhoods (NeighMoving/Unique/Bench/Cell/Image::hasChanged): true when nothing is memorised
  bool hasChanged(int) const override { return (_iechMemo < 0 || _isNbghMemoEmpty()) ? true : g_changed; }
  ENeigh getType() const override { return g_type == 1 ? ENeigh::UNIQUE : ENeigh::MOVING; }
  bool   getFlagContinuous() const override { return g_cont; }
};

// ---------------------------------------------------------------- overrides: environment
bool Db::isSampleIndexValid(int) const { return true; }
bool Db::isActive(int) const { return true; }
ASpaceObject::ASpaceObject(const ASpace* space) : AStringable(), _space(space) {}
ASpaceObject::~ASpaceObject() {}
Ball::Ball(const double**, int, int, double (*)(const double*, const double*, int), int, int) : _tree(nullptr) {}
void messageAbort(const char*, ...) {}
void messerr(const char*, ...) {}
void message(const char*, ...) {}
void mestitle(int, const char*, ...) {}
void db_sample_print(Db*, int, int, int, int, int) {}
bool OptDbg::query(const EDbg&, bool) { return false; } // no debug option set (documented global option)
bool OptDbg::force() { return false; }
#ifdef VF_SOLVER
extern "C" int memcmp(const void* a, const void* b, size_t n) // operator== of std::vector<int>: only == 0 is consumed
{
  const int* x = (const int*)a;
  const int* y = (const int*)b;
  for (size_t i = 0; i < n / sizeof(int); i++)
    if (x[i] != y[i]) return x[i] < y[i] ? -1 : 1;
  return 0;
}
#endif

// ---------------------------------------------------------------- overrides: the stages of estimate()
int KrigingSystem::_prepar()
{
  g_rec.nprepar++;
  return g_prepfail ? 1 : 0;
}
void KrigingSystem::_dualCalcul() { g_rec.ndual++; }
int  KrigingSystem::_rhsCalcul()
{
  g_rec.nrhs++;
  return g_rhsfail ? 1 : 0;
}
void KrigingSystem::_rhsIsoToHetero() { g_rec.niso++; }
void KrigingSystem::_rhsDump() {}
void KrigingSystem::_wgtCalcul() { g_rec.nwgt++; }
void KrigingSystem::_wgtDump(int) {}
void KrigingSystem::_saveWeights(int) {}
void KrigingSystem::_bayesCorrectVariance() { g_rec.nbayes++; }
void KrigingSystem::_setLocalModel(Model*) { g_rec.nsetlocal++; }
void KrigingSystem::_estimateCalcul(int status) { g_rec.nread++; g_rec.readstatus = status; }
void KrigingSystem::_estimateCalculImage(int status) { g_rec.nread++; g_rec.readstatus = status; }
void KrigingSystem::_estimateCalculXvalidUnique(int status) { g_rec.nread++; g_rec.readstatus = status; }
void KrigingSystem::_simulateCalcul(int status) { g_rec.nread++; g_rec.readstatus = status; }
void KrigingSystem::_neighCalcul(int status, const VectorDouble&) { g_rec.nread++; g_rec.readstatus = status; }
void KrigingSystem::_transformGaussianToRaw() {}
void KrigingSystem::_krigingDump(int) {}
void KrigingSystem::_simulateDump(int) {}

// ---------------------------------------------------------------- set-up
alignas(16) static char nbuf[sizeof(TNeigh)];

static void net_sort(int* a, int n) // reference sorting network
{
  for (int i = 0; i < n; i++)
    for (int j = 0; j + 1 < n - i; j++)
    {
      int x = a[j], y = a[j + 1];
      a[j]     = x < y ? x : y;
      a[j + 1] = x < y ? y : x;
    }
}

static TNeigh* g_nb;
static void set_enum(AEnum& e, int value) // every field written: the items are copied by value (ANeigh::getType)
{
  e._key   = std::string_view();
  e._value = value;
  ((int*)&e._value)[1] = 0; // padding: the executor copies an object only when every byte of it is typed
  e._descr = std::string_view();
}

// typ: 0 moving, 1 unique, 2 unique with cross-validation; m: length of the memo pre-state
static void build(int m, int typ, bool cont, int clsA)
{
  vf_ks_base();
  KrigingSystem* ks = KS;
#ifdef VF_SOLVER // static constructors are not run in the solver build: values of the ENeigh items
  set_enum((AEnum&)ENeigh::UNKNOWN, -1);
  set_enum((AEnum&)ENeigh::UNIQUE, 0);
  set_enum((AEnum&)ENeigh::BENCH, 1);
  set_enum((AEnum&)ENeigh::MOVING, 2);
  set_enum((AEnum&)ENeigh::CELL, 3);
  set_enum((AEnum&)ENeigh::IMAGE, 4);
#endif
  TNeigh* nb = new (nbuf) TNeigh();
  g_nb       = nb;
  nb->_dbin  = DBIN;
  nb->_dbout = DBOUT;
  // arbitrary memo pre-state (representation invariant: sorted; empty or of length NL)
  int       M[NL];
  VectorInt memo(m);
  for (int i = 0; i < NL; i++) M[i] = vf_nondet_int();
  net_sort(M, NL);
  for (int i = 0; i < m; i++) memo[i] = M[i];
  nb->_nbghMemo        = memo;
  nb->_iechMemo        = vf_range(clsA == 1 ? -1 : 0, 1000); // "same target" / "hasChanged false" need a memorised target
  nb->_flagIsUnchanged = vf_nondet_bool();
  bool xv              = vf_nondet_bool();
  nb->_flagXvalid      = (typ == 2) ? true : (typ == 1 ? false : xv);
  ks->_neigh           = nb;
  g_type               = (typ == 0) ? 0 : 1;
  g_cont               = cont;
  ks->_isReady            = true;
  ks->_flagNeighOnly      = false;
  ks->_flagBayes          = vf_nondet_bool();
  ks->_flagDataChanged    = vf_nondet_bool();
  ks->_flagStd            = vf_nondet_bool();
  ks->_flagVarZ           = vf_nondet_bool();
  ks->_flagSimu           = vf_nondet_bool();
  ks->_flagWeights        = vf_nondet_bool();
  ks->_flagKeypairWeights = vf_nondet_bool();
  ks->_flagGlobal         = vf_nondet_bool();
  ks->_flagAnam           = false;
  ks->_flagFactorKriging  = false;
  ks->_modelSimple        = nullptr;
  ks->_modelInit          = nullptr;
  ks->_nbgh               = VectorInt();
}

struct Outcome
{
  Rec  rec;
  int  nech;
  int  ranks[NL]; // neighbours left in _nbgh (sorted by the reference network)
  bool prepfail, rhsfail;
};

// One target.  cls: 0 = the memorised target again, 1 = other target and hasChanged() true, 2 = other target and
// hasChanged() false; n: length of the list getNeigh returns; eq: that list is the memorised set (in another order)
static Outcome one_target(int cls, int n, bool eq, bool prepfail, bool rhsfail)
{
  KrigingSystem* ks = KS;
  Outcome        o;
  g_n = n;
  for (int i = 0; i < NL; i++) g_R[i] = vf_range(-1000000, 1000000);
  int d     = vf_range(1, 1000);
  int msize = (int)g_nb->_nbghMemo.size();
  if (msize == NL && n == NL)
  {
    int m0 = g_nb->_nbghMemo[0], m1 = g_nb->_nbghMemo[1];
    if (eq)
    {
      g_R[0] = m1; // same set, other order
      g_R[1] = m0;
    }
    else
    {
      // any list that is not the memorised set: an arbitrary list, its second rank moved by one when it is the memorised set
      bool coincide = (g_R[0] == m0 && g_R[1] == m1) || (g_R[0] == m1 && g_R[1] == m0);
      g_R[1]        = coincide ? g_R[1] + 1 : g_R[1];
    }
  }
  // target rank: the memorised one (cls 0; the pre-state memorises a target then) or any other rank of [0,1000]
  int memo = g_nb->_iechMemo;
  int iech = memo;
  if (cls != 0)
  {
    iech = (memo < 0 ? -1 : memo) + d;
    if (iech > 1000) iech -= 1001;
  }
  g_changed  = (cls == 1);
  g_prepfail = prepfail;
  g_rhsfail  = rhsfail;
  g_rec.nselect_getneigh = g_rec.nprepar = g_rec.ndual = g_rec.nrhs = g_rec.niso = g_rec.nwgt = g_rec.nread = g_rec.nsetlocal = g_rec.nbayes = 0;
  g_rec.readstatus = -1;
  ks->estimate(iech);
  o.rec      = g_rec;
  o.prepfail = prepfail;
  o.rhsfail  = rhsfail;
  o.nech     = (int)ks->_nbgh.size();
  for (int i = 0; i < NL; i++) o.ranks[i] = 0;
  for (int i = 0; i < NL && i < o.nech; i++) o.ranks[i] = ks->_nbgh[i];
  net_sort(o.ranks, NL);
  return o;
}

// variants of the first target: memo length, path class, list length, list == memorised set
static const int AV[7][4] = {{0, 1, 0, 0}, {0, 1, NL, 0}, {NL, 0, NL, 0}, {NL, 2, NL, 0}, {NL, 1, 0, 0}, {NL, 1, NL, 1}, {NL, 1, NL, 0}};
// variants of the second target: path class, list length, list == memorised set
static const int BV[5][3] = {{0, NL, 0}, {2, NL, 0}, {1, NL, 1}, {1, NL, 0}, {1, 0, 0}};

// fail: 0 = the stages of A succeed, 1 = the preparation of A fails, 2 = the right-hand side of A fails
static void pair_case(int typ, int av, int fail)
{
  for (int cont = 0; cont < 2; cont++)
    for (int bv = 0; bv < 5; bv++)
    {
      if (cont == 1 && bv != 2) continue; // continuous neighbourhood (preparation at every target): only with B's neighbours unchanged
      build(AV[av][0], typ, cont == 1, AV[av][1]);
      Outcome A    = one_target(AV[av][1], AV[av][2], AV[av][3] == 1, fail == 1, fail == 2);
      bool    pfB  = vf_nondet_bool(); // B's own failures do not change the length of a vector before the end of B
      bool    rfB  = vf_nondet_bool();
      Outcome B    = one_target(BV[bv][0], BV[bv][1], BV[bv][2] == 1, pfB, rfB);
      // reference reading of "A failed": no neighbour, or its preparation stage ran and failed
      bool failA  = (A.nech <= 0) || (A.rec.nprepar > 0 && A.prepfail);
      bool reachB = B.nech > 0; // B reaches the test that decides about the preparation stage
      if (failA && reachB)
      {
        vf_assert_id(B.rec.nprepar == 1, "P1: after a failed target the next target executes the preparation stage (_prepar) again");
        if (!B.prepfail) vf_assert_id(B.rec.ndual == 1, "P1: after a failed target the next target executes the data pre-calculation (_dualCalcul) again");
      }
      if (reachB && B.rec.nprepar == 0)
      {
        vf_assert_id(!failA, "P2: the preparation stage is skipped only after a target that did not fail");
        bool same = A.nech == B.nech;
        for (int i = 0; i < NL; i++) same = same && A.ranks[i] == B.ranks[i];
        vf_assert_id(same, "P2: the preparation stage is skipped only when the neighbours are those of the previous target");
      }
      vf_assert_id(T_bad == 0, "callbacks reached with expected arguments only");
    }
  vf_witness();
}
static void rhs_case(int typ, int av)
{
  for (int cont = 0; cont < 2; cont++)
    for (int pf = 0; pf < 2; pf++)
    {
      build(AV[av][0], typ, cont == 1, AV[av][1]);
      Outcome A = one_target(AV[av][1], AV[av][2], AV[av][3] == 1, pf == 1, true);
      if (A.rec.nrhs > 0)
        vf_assert_id(A.rec.nread == 0 || A.rec.readstatus != 0,
                     "P3: a failed right-hand side stage (_rhsCalcul != 0) is reported to the read-out stage (status != 0)");
      vf_assert_id(T_bad == 0, "callbacks reached with expected arguments only");
    }
  vf_witness();
}

#define PAIR(T, A, F) extern "C" void k_pair_t##T##_a##A##_f##F() { pair_case(T, A, F); }
#define PAIRA(T, A) PAIR(T, A, 0) PAIR(T, A, 1) PAIR(T, A, 2)
#define PAIRT(T) PAIRA(T, 0) PAIRA(T, 1) PAIRA(T, 2) PAIRA(T, 3) PAIRA(T, 4) PAIRA(T, 5) PAIRA(T, 6)
PAIRT(0) PAIRT(1) PAIRT(2)
#define RHS(T, A) extern "C" void k_rhs_t##T##_a##A() { rhs_case(T, A); }
RHS(0, 1) RHS(0, 5) RHS(1, 1) RHS(1, 5)
