// C10.a3 (DESIGN suspect S5): no half-built memo survives a failed request of KrigingCalcul
// (src/Estimation/KrigingCalcul.cpp, the _needXXX functions, lines 740-1460).
//
// Schedule: a KrigingCalcul built by its real constructor, inputs given through the REAL setters
// (setData, setLHS, setRHS, setVar, setColCokUnique, setBayes), each argument present or absent
// arbitrarily; then ONE request _needX() on that fresh object (all memo fields null).  Every matrix
// algebra callee is overridden; the inversions may FAIL under a nondet bit that depends only on WHICH
// matrix is inverted (so that a repeated inversion of the same matrix fails again: the failure is a
// property of the data, not of the call count).
//
// Asserted, per _needX:
//   (1) _needX() != 0  =>  the memo field X is null (vectors: empty) afterwards;
//   (2) the same request repeated at once (public getter of X where one exists, else _needX itself;
//       no input was changed in between) reports the failure again - i.e. the half-built field is not
//       handed out as if it had been computed.
#include "vf.h"
#include "Estimation/KrigingCalcul.hpp"
#include "Matrix/MatrixRectangular.hpp"
#include "Matrix/MatrixSquareSymmetric.hpp"
#include "Matrix/MatrixFactory.hpp"
#include "Basic/VectorHelper.hpp"
#include <new>

#ifndef VF_MUTANT
#  define VF_MUTANT 0
#endif

// override: error printing (variadic, iostream) is not part of the property
void messerr(const char*, ...) {}
void message(const char*, ...) {}
#ifdef VF_SOLVER
// libc strlen (std::string temporaries "Z", "Sigma", ... built at the call sites of _isPresent* / _checkDimension*)
extern "C" size_t strlen(const char* s)
{
  size_t n = 0;
  while (s[n] != 0) n++;
  return n;
}
#endif

static KrigingCalcul* kc;

// ---- overridden matrix algebra: no values, inversions fail by role
static bool g_fail[4]; // 0: _InvSigma, 1: _InvPriorCov, 2: _Sigmac, 3: any local matrix (bot of _needLambda0)
int AMatrix::invert()
{
  const AMatrix* me = this;
  if (me == kc->_InvSigma) return g_fail[0] ? 1 : 0;
  if (me == kc->_InvPriorCov) return g_fail[1] ? 1 : 0;
  if (me == kc->_Sigmac) return g_fail[2] ? 1 : 0;
  return g_fail[3] ? 1 : 0;
}
void AMatrix::linearCombination(double, const AMatrix*, double, const AMatrix*, double, const AMatrix*) {}
void AMatrix::prodMatMatInPlace(const AMatrix*, const AMatrix*, bool, bool) {}
void AMatrixDense::prodMatMatInPlace(const AMatrix*, const AMatrix*, bool, bool) {}
void AMatrix::prodNormMatMatInPlace(const AMatrix*, const AMatrix*, bool) {}
void AMatrixDense::prodNormMatMatInPlace(const AMatrixDense*, const AMatrixDense*, bool) {}
VectorDouble AMatrix::prodMatVec(const VectorDouble&, bool) const { return VectorDouble(1); }
VectorDouble AMatrixDense::prodMatVec(const VectorDouble&, bool) const { return VectorDouble(1); }
MatrixRectangular* MatrixRectangular::sample(const AMatrix*, const VectorInt&, const VectorInt&, bool, bool) { return new MatrixRectangular(1, 1); }
MatrixSquareSymmetric* MatrixSquareSymmetric::sample(const MatrixSquareSymmetric*, const VectorInt&, bool) { return new MatrixSquareSymmetric(1); }
VectorDouble VectorHelper::sample(const VectorDouble&, const VectorInt&) { return VectorDouble(1); }
void VectorHelper::linearCombinationInPlace(double, const VectorDouble&, double, const VectorDouble&, VectorDouble&) {}

template <class M> static const M* pick(const M* obj) { return vf_nondet_bool() ? obj : (const M*)nullptr; }

// shape constants: 2 data equations, 2 right-hand sides, NBFL drift functions, NCCK collocated variables
#define NEQ 2
#define NRHS 2

// one fresh calculator with arbitrary inputs.  nbfl / ncck are concrete (they size the matrices the code allocates).
static void setup(int nbfl, int ncck)
{
  for (int i = 0; i < 4; i++) g_fail[i] = vf_nondet_bool();
  bool dual = vf_nondet_bool();
  if (ncck > 0) dual = false; // setColCokUnique refuses the dual form (it would leave _ncck == 0)
  kc = new KrigingCalcul(dual);

  // Means always given (size 1): _needZstar dereferences _Means without a presence test (outside this property)
  const VectorDouble* Z     = pick(new VectorDouble(NEQ));
  const VectorDouble* Means = new VectorDouble(1);
  (void)kc->setData(Z, Means);

  const MatrixSquareSymmetric* Sigma = pick(new MatrixSquareSymmetric(NEQ));
  const MatrixRectangular*     X     = pick(new MatrixRectangular(NEQ, 1));
  if (nbfl == 0) X = nullptr;
  (void)kc->setLHS(Sigma, X);

  const MatrixRectangular* Sigma0 = pick(new MatrixRectangular(NEQ, NRHS));
  const MatrixRectangular* X0     = pick(new MatrixRectangular(NRHS, 1));
  if (nbfl == 0) X0 = nullptr;
  (void)kc->setRHS(Sigma0, X0);

  const MatrixSquareSymmetric* Sigma00 = pick(new MatrixSquareSymmetric(NRHS));
  (void)kc->setVar(Sigma00);

  if (ncck > 0)
    (void)kc->setColCokUnique(new VectorDouble(NRHS), new VectorInt(1)); // both given: _ncck = 1
  else
    (void)kc->setColCokUnique(nullptr, nullptr);

  const VectorDouble*          PriorMean = pick(new VectorDouble(1));
  const MatrixSquareSymmetric* PriorCov  = pick(new MatrixSquareSymmetric(1));
  if (nbfl == 0) PriorMean = nullptr; // Bayesian option only with drift functions
  (void)kc->setBayes(PriorMean, PriorCov);

  // dimension counters: the setters derive them from whichever inputs are present (symbolic here); they only size
  // the matrices allocated by the _need functions, so they are forced to the shape constants (what they are as soon
  // as one input defining them is present)
  kc->_neq  = NEQ;
  kc->_nrhs = NRHS;
  kc->_nbfl = nbfl;
  vf_assume(kc->_ncck == ncck); // ncck == 1: setColCokUnique succeeded (it fails when no input has defined _nrhs yet)
  kc->_ncck = ncck;
}

static bool vempty(const VectorDouble& v) { return v.empty(); }

#define CONFIGS(BODY)                      \
  for (int nbfl = 0; nbfl <= 1; nbfl++)    \
    for (int ncck = 0; ncck <= 1; ncck++)  \
    {                                      \
      setup(nbfl, ncck);                   \
      BODY                                 \
    }

// memo matrix X with a public getter returning the pointer
#define ENTRY_PG(X, GETTER) ENTRY_PGC(X, GETTER, true)
#define ENTRY_PGC(X, GETTER, COND)                                                                                      \
  extern "C" void k_need_##X()                                                                                      \
  {                                                                                                                 \
    CONFIGS({                                                                                                       \
      int r1 = kc->_need##X();                                                                                      \
      vf_assert_id(r1 == 0 || kc->_##X == nullptr, "_need" #X ": returns non-zero => _" #X " is null");             \
      const void* g = (const void*)kc->GETTER();                                                                    \
      vf_assert_id(r1 == 0 || !(COND) || g == nullptr, "_need" #X " failed => " #GETTER "() called next returns nullptr"); \
    })                                                                                                              \
    vf_witness();                                                                                                   \
  }
// memo matrix X without public getter: the request itself is repeated
#define ENTRY_P(X)                                                                                                  \
  extern "C" void k_need_##X()                                                                                      \
  {                                                                                                                 \
    CONFIGS({                                                                                                       \
      int r1 = kc->_need##X();                                                                                      \
      vf_assert_id(r1 == 0 || kc->_##X == nullptr, "_need" #X ": returns non-zero => _" #X " is null");             \
      int r2 = kc->_need##X();                                                                                      \
      vf_assert_id(r1 == 0 || r2 != 0, "_need" #X " failed => the same request repeated fails again");              \
    })                                                                                                              \
    vf_witness();                                                                                                   \
  }
// memo vector X with a public getter returning a VectorDouble (empty = failure)
#define ENTRY_VG(X, GETTER)                                                                                         \
  extern "C" void k_need_##X()                                                                                      \
  {                                                                                                                 \
    CONFIGS({                                                                                                       \
      int r1 = kc->_need##X();                                                                                      \
      vf_assert_id(r1 == 0 || vempty(kc->_##X), "_need" #X ": returns non-zero => _" #X " is empty");               \
      VectorDouble g = kc->GETTER();                                                                                \
      vf_assert_id(r1 == 0 || vempty(g), "_need" #X " failed => " #GETTER "() called next returns an empty vector"); \
    })                                                                                                              \
    vf_witness();                                                                                                   \
  }
#define ENTRY_V(X)                                                                                                  \
  extern "C" void k_need_##X()                                                                                      \
  {                                                                                                                 \
    CONFIGS({                                                                                                       \
      int r1 = kc->_need##X();                                                                                      \
      vf_assert_id(r1 == 0 || vempty(kc->_##X), "_need" #X ": returns non-zero => _" #X " is empty");               \
      int r2 = kc->_need##X();                                                                                      \
      vf_assert_id(r1 == 0 || r2 != 0, "_need" #X " failed => the same request repeated fails again");              \
    })                                                                                                              \
    vf_witness();                                                                                                   \
  }

ENTRY_P(InvSigma)
ENTRY_P(InvPriorCov)
ENTRY_P(XtInvSigma)
ENTRY_PG(Sigmac, getPostCov)
ENTRY_VG(Beta, getPostMean)
ENTRY_P(InvSigmaSigma0)
ENTRY_PG(Y0, getY0)
ENTRY_PG(Sigma0p, getSigma0p)
ENTRY_P(Sigma00p)
ENTRY_P(Sigma00pp)
ENTRY_PG(X0p, getX0p)
ENTRY_V(Z0p)
ENTRY_PG(Y0p, getY0p)
ENTRY_PG(Lambda0, getLambda0)
ENTRY_P(LambdaSK)  // getLambda() returns nullptr whenever the dual form is off: no usable public getter
ENTRY_PG(MuUK, getMu)
ENTRY_P(LambdaUK)
ENTRY_PGC(VarZSK, getVarianceZstarMat, kc->_flagSK)   // the getter reads _VarZSK only in the SK case
ENTRY_PGC(VarZUK, getVarianceZstarMat, !kc->_flagSK)
ENTRY_PG(Stdv, getStdvMat)
ENTRY_VG(Zstar, getEstimation)
