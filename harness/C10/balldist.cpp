// C10.g: the metric of a ball tree depends only on the arguments of ITS btree_init call
// (src/Tree/ball_algorithm.cpp: define_dist_function, btree_init, init_node, min_dist, query_depth_first; the metric
// is kept in the file-static pointer st_distance_function).
// Two consecutive btree_init calls, each with one of the three ways of choosing the metric
//   E: dist_function == nullptr, default_distance_function == 1  (Euclidean, the documented default)
//   M: dist_function == nullptr, default_distance_function == 2  (Manhattan)
//   C: dist_function == a caller's function (here the Chebyshev distance), default 1
// on two points (0,0), (6,8): centroid (3,4); the three metrics give different numbers on this data
//   (Euclidean 5, Manhattan 7, Chebyshev 4 from the centroid to each point).
// k_second : whatever the first call was, the second tree is built (node radius) and queried (min_dist, k nearest
//            neighbours through nheap_load) with the metric of the second call
// k_first  : (separate kernel) the first tree, queried after the second one was built, still answers with its own metric
#include "vf.h"
#include "Tree/ball_algorithm.h"
#include <math.h>

// exact Euclidean distance on the data of this kernel (the library's euclidean_distance goes through SpacePoint / ASpace
// and the default space; integer perfect squares only: the square root is found by search, sqrt otherwise)
double euclidean_distance(const double* x1, const double* x2, int size)
{
  double s = 0.;
  for (int i = 0; i < size; i++) s += (x1[i] - x2[i]) * (x1[i] - x2[i]);
  for (int k = 0; k <= 64; k++)
    if ((double)(k * k) == 4. * s) return k / 2.;
  return sqrt(s);
}
static double chebyshev(const double* x1, const double* x2, int size)
{
  double m = 0.;
  for (int i = 0; i < size; i++)
  {
    double d = fabs(x1[i] - x2[i]);
    if (d > m) m = d;
  }
  return m;
}

typedef double (*dist_t)(const double*, const double*, int);
static dist_t   fn_arg(int kind) { return kind == 2 ? chebyshev : nullptr; }
static int      def_arg(int kind) { return kind == 1 ? 2 : 1; }
// reference: the metric the arguments select (documentation of Ball / btree_init)
static double ref_dist(int kind, const double* a, const double* b)
{
  double dx = fabs(a[0] - b[0]), dy = fabs(a[1] - b[1]);
  if (kind == 1) return dx + dy;
  if (kind == 2) return dx > dy ? dx : dy;
  return euclidean_distance(a, b, 2);
}

static double       P[2][2] = {{0., 0.}, {6., 8.}};
static const double C[2]    = {3., 4.};   // centroid
static const double Q[2]    = {9., 12.};  // query point

static t_btree* build(int kind)
{
  static const double* rows[2];
  rows[0] = P[0];
  rows[1] = P[1];
  return btree_init(rows, 2, 2, fn_arg(kind), 1, def_arg(kind)); // REAL code
}

// the tree answers with the metric 'kind': radius of the root, lower bound min_dist, distances of the 2 nearest neighbours
static void check_tree(t_btree* b, int kind, const char* idr, const char* idm, const char* idq)
{
  double radius = ref_dist(kind, C, P[0]);
  double r1     = ref_dist(kind, C, P[1]);
  if (r1 > radius) radius = r1;
  vf_assert_id(b->node_data[0].radius == radius, idr);
  double lower = ref_dist(kind, Q, C) - radius;
  if (lower < 0.) lower = 0.;
  vf_assert_id(min_dist(b, 0, Q) == lower, idm);
  // 2 nearest neighbours of Q
  const double big = 1000.;
  double       hd[1][2] = {{big, big}};
  int          hi[1][2] = {{0, 0}};
  double*      drows[1] = {hd[0]};
  int*         irows[1] = {hi[0]};
  const double* xs[1]   = {Q};
  t_nheap      h;
  h.distances = drows;
  h.indices   = irows;
  h.n_pts     = 1;
  h.n_nbrs    = 2;
  nheap_load(&h, b, xs);
  double d0 = ref_dist(kind, Q, P[0]), d1 = ref_dist(kind, Q, P[1]);
  bool   ok = (hi[0][0] == 0 && hi[0][1] == 1 && hd[0][0] == d0 && hd[0][1] == d1) ||
              (hi[0][0] == 1 && hi[0][1] == 0 && hd[0][0] == d1 && hd[0][1] == d0);
  vf_assert_id(ok, idq);
}

extern "C" void k_second()
{
  for (int first = 0; first < 3; first++)
    for (int second = 0; second < 3; second++)
    {
      t_btree* b1 = build(first);
      t_btree* b2 = build(second);
      vf_assert_id(b1 != nullptr && b2 != nullptr, "trees are built");
      if (b1 == nullptr || b2 == nullptr) continue;
      check_tree(b2, second, "second tree: node radius computed with the metric of its own btree_init arguments",
                 "second tree: min_dist uses the metric of its own btree_init arguments",
                 "second tree: nearest-neighbour distances use the metric of its own btree_init arguments");
      free_tree(b1);
      free_tree(b2);
    }
  vf_witness();
}

extern "C" void k_first()
{
  for (int first = 0; first < 3; first++)
    for (int second = 0; second < 3; second++)
    {
      t_btree* b1 = build(first);
      t_btree* b2 = build(second);
      vf_assert_id(b1 != nullptr && b2 != nullptr, "trees are built");
      if (b1 == nullptr || b2 == nullptr) continue;
      check_tree(b1, first, "first tree: node radius computed with the metric of its own btree_init arguments",
                 "first tree, queried after another tree was built: min_dist uses the metric of its own btree_init arguments",
                 "first tree, queried after another tree was built: nearest-neighbour distances use the metric of its own btree_init arguments");
      free_tree(b1);
      free_tree(b2);
    }
  vf_witness();
}
