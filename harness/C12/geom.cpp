// C12.d: BiTargetCheckGeometry::isOK (src/Geometry/BiTargetCheckGeometry.cpp) reached through the real
// Vario::keepPair (src/Variogram/Vario.cpp), in 2-D on integer-grid inputs: direction / angular
// tolerance test, cylinder radius, bench height, oriented distance.  Real code: keepPair, isOK,
// SpacePoint::getDistance / getIncrement, ASpace / SpaceRN distance and increment, SpaceTarget /
// SpacePoint / SpaceRN / BiTargetCheckGeometry constructors, VectorT.
//
// Reference (polynomial form, no square root, no division):
//   d = p2 - p1, D2 = |d|^2, C2 = |codir|^2, P = d.codir
//   D2 == 0                                     -> accepted, distance 0
//   angle    : P^2 >= psmin^2 * D2 * C2         (|cos(d, codir)| >= psmin = cos(tolang))
//   cylinder : D2*C2 - P^2 <= cylrad^2 * C2     (orthogonal distance <= cylrad), when cylrad is defined and > 0
//   bench    : |d[last]| <= bench               when bench is defined and > 0
//   distance : |dist| == sqrt(D2), dist < 0 iff the calculation is asymmetric and P < 0
#include "vf.h"
#include "Variogram/Vario.hpp"
#include "Geometry/BiTargetCheckGeometry.hpp"
#include "Geometry/ABiTargetCheck.hpp"
#include "Space/SpaceRN.hpp"
#include "Space/SpaceTarget.hpp"
#include "Space/SpacePoint.hpp"
#include "Space/ASpaceObject.hpp"
#include "Basic/Utilities.hpp"
#include <new>
#include <math.h>


// ---- overrides
// space objects keep the pointer they are given instead of a clone (the clone goes through an
// ICloneable -> ASpace cross cast, i.e. RTTI), and therefore never delete it
ASpaceObject::ASpaceObject(const ASpace* space) : AStringable(), _space(space) {}
ASpaceObject::~ASpaceObject() {}
#ifdef VF_SOLVER
// keepPair's dynamic_cast<const BiTargetCheckGeometry*>(bipts): the only checker of this kernel IS a
// BiTargetCheckGeometry (single inheritance, offset 0), so the cast is the identity.  Native build: real RTTI.
extern "C" void* __dynamic_cast(const void* sub, const void* src, const void* dst, long hint)
{
  (void)src; (void)dst; (void)hint;
  return (void*)sub;
}
#endif

static double limit_value() // TEST (undefined) or an arbitrary grid value (<= 0 means "not used", as documented)
{
  double g = vf_finite_double();
  bool absent = vf_nondet_bool();
  return absent ? TEST : g;
}
static bool limit_used(double v) { return v <= 1.e30 && v > 0.; }
static double abs_d(double a) { return a < 0. ? -a : a; }

alignas(16) static char g_vbuf[sizeof(Vario)];

// which inputs are symbolic is fixed per entry (concrete flags: the draws below do not depend on symbolic data)
static void run(bool symdir, bool sympsmin, bool symcyl, bool symbench)
{
  // ---- inputs
  double x1 = vf_finite_double(), y1 = vf_finite_double();
  double x2 = vf_finite_double(), y2 = vf_finite_double();
  double c0 = 1., c1 = 0.;
  if (symdir)
  {
    c0 = vf_finite_double();
    c1 = vf_finite_double();
    vf_assume(c0 != 0. || c1 != 0.); // a direction
  }
  double psmin = 0.; // tolang = 90 degrees
  if (sympsmin)
  {
    // any real of [0,1], built without vf_assume (clamping) so that validation streams are usable
    double t = vf_nondet_double();
    psmin = (t < 0.) ? 0. : (t > 1.) ? 1. : t;
  }
  double cylrad = 0., bench = 0.; // documented default: not used
  if (symcyl) cylrad = limit_value();
  if (symbench) bench = limit_value();
  bool flagAsym = vf_nondet_bool();

  // ---- objects, really constructed
  SpaceRN sp(2);
  SpaceTarget T1(&sp, false, false, false);
  SpaceTarget T2(&sp, false, false, false);
  T1.setCoord(0, x1); T1.setCoord(1, y1);
  T2.setCoord(0, x2); T2.setCoord(1, y2);
  VectorDouble codir(2);
  codir[0] = c0; codir[1] = c1;
  BiTargetCheckGeometry chk(2, codir, 90., bench, cylrad, flagAsym);
  chk._psmin = psmin; // = cos(tolang); the cosine itself is outside the claim
  Vario* v = (Vario*)g_vbuf;
  v->_biPtsPerDirection = 1;
  new (&v->_bipts) std::vector<ABiTargetCheck*>();
  v->_bipts.push_back(&chk);

  // ---- real code
  double dist = -77.;
  bool got = v->keepPair(0, T1, T2, &dist);

  // ---- reference
  double dx = x2 - x1, dy = y2 - y1;
  double D2 = dx * dx + dy * dy;
  double C2 = c0 * c0 + c1 * c1;
  double P = dx * c0 + dy * c1;
  bool expected;
  if (D2 == 0.)
    expected = true;
  else
  {
    bool angle = P * P >= psmin * psmin * D2 * C2;
    bool cyl = !limit_used(cylrad) || (D2 * C2 - P * P <= cylrad * cylrad * C2);
    bool bnc = !limit_used(bench) || abs_d(dy) <= bench;
    expected = angle && cyl && bnc;
  }
  vf_assert_id(got == expected, "pair accepted iff angular tolerance, cylinder radius and bench height hold (polynomial form)");
  if (got)
  {
    vf_assert_id(abs_d(dist) == sqrt(D2), "returned distance is the Euclidean distance up to sign");
    bool neg = flagAsym && P < 0. && D2 > 0.;
    vf_assert_id((dist < 0.) == neg, "distance is negative iff the calculation is asymmetric and the pair points against the direction");
  }
  vf_witness();
}
// angular tolerance alone: any direction, any psmin; cylinder and bench not used
extern "C" void k_geom_angle() { run(true, true, false, false); }
// cylinder alone: any direction, tolang = 90 (psmin = 0)
extern "C" void k_geom_cylinder() { run(true, false, true, false); }
// bench alone: any direction, tolang = 90
extern "C" void k_geom_bench() { run(true, false, false, true); }
// all three tests together, direction along the first axis
extern "C" void k_geom_all_axis() { run(false, true, true, true); }
