// C12.a: DirParam::getLagRank (src/Variogram/DirParam.cpp), the lag a pair distance falls in.
//   k_lag_regular   : regular lags (no breaks): nlag >= 1, dpas > 0, tol >= 0 symbolic, d any real with
//                     |d|/dpas below the int range.  Result is ITEST or in [0,nlag); a returned k
//                     satisfies | |d| - k*dpas | <= tol*dpas; for tol <= 1/2 (bands do not overlap) a
//                     distance strictly inside the tolerance band of lag k < nlag gets k, and a distance
//                     outside every closed band gets ITEST
//   k_lag_irregular : VF_NLAG lags given by VF_NLAG+1 non-decreasing breaks: result k <=> breaks[k] < |d|
//                     <= breaks[k+1]; ITEST <=> no interval contains |d|
// Exact (real) arithmetic reading of the code.
#include "vf.h"
#include "Variogram/DirParam.hpp"
#include "geoslib_define.h"
#include <new>
#include <math.h>
#ifndef VF_NLAG
#define VF_NLAG 3
#endif
#ifndef VF_NLAGMAX
#define VF_NLAGMAX 1000000
#endif
#ifndef VF_RATIOMAX
#define VF_RATIOMAX 2147483000. // |d|/dpas + 1/2 must be convertible to int (larger ratios: C++ UB in the cast)
#endif

// DirParam as raw storage: getLagRank reads _nPas, _dPas, _tolDist and _breaks only
alignas(16) static char dbuf[sizeof(DirParam)];

extern "C" void k_lag_regular()
{
  DirParam* dp = (DirParam*)dbuf;
  int nlag = vf_range(1, VF_NLAGMAX);
  double dpas = vf_nondet_double();
  double tol = vf_nondet_double();
  double d = vf_nondet_double();
  int k = vf_nondet_int(); // candidate lag for the converse direction
  vf_assume(dpas > 0);
  vf_assume(tol >= 0);
  double ad = d < 0 ? -d : d;
  vf_assume(ad <= VF_RATIOMAX * dpas);
  vf_assume(k >= 0 && k < nlag);
  dp->_nPas = nlag;
  dp->_dPas = dpas;
  dp->_tolDist = tol;
  new (&dp->_breaks) VectorDouble(); // regular

  int r = dp->getLagRank(d);

  vf_assert_id(r == ITEST || (r >= 0 && r < nlag), "result is ITEST or a lag rank in [0,nlag)");
  if (r != ITEST)
  {
    double e = ad - (double)r * dpas;
    if (e < 0) e = -e;
    vf_assert_id(e <= tol * dpas, "returned lag k: | |d| - k*dpas | <= tol*dpas");
  }
  {
    // solver hint only (vf_split = exhaustive case analysis): position of the candidate lag with respect
    // to the rounded ratio; each case is a small nonlinear problem z3 decides reliably
    int m = (int)floor(ad / dpas + 0.5);
    vf_split(m == k);
    vf_split(m > k);
  }
  if (tol + tol <= 1.)
  {
    // non-overlapping bands: membership decides the lag
    double e = ad - (double)k * dpas;
    if (e < 0) e = -e;
    if (e < tol * dpas) vf_assert_id(r == k, "distance strictly inside the band of lag k gets k");
    if (r == ITEST) vf_assert_id(e > tol * dpas || e == tol * dpas, "ITEST only if strictly inside no band");
  }
  vf_witness();
}

extern "C" void k_lag_irregular()
{
  DirParam* dp = (DirParam*)dbuf;
  double b[VF_NLAG + 1];
  for (int i = 0; i <= VF_NLAG; i++) b[i] = vf_nondet_double();
  double d = vf_nondet_double();
  for (int i = 0; i < VF_NLAG; i++) vf_assume(b[i] <= b[i + 1]); // a series of intervals
  dp->_nPas = VF_NLAG;
  dp->_dPas = 1.;
  dp->_tolDist = 0.5;
  new (&dp->_breaks) VectorDouble(VF_NLAG + 1);
  for (int i = 0; i <= VF_NLAG; i++) dp->_breaks[i] = b[i];
  double ad = d < 0 ? -d : d;

  int r = dp->getLagRank(d);

  vf_assert_id(r == ITEST || (r >= 0 && r < VF_NLAG), "result is ITEST or a lag rank in [0,nlag)");
  int nin = 0;
  for (int i = 0; i < VF_NLAG; i++)
  {
    bool in = b[i] < ad && ad <= b[i + 1];
    if (in) nin++;
    if (in) vf_assert_id(r == i, "distance in ]breaks[k], breaks[k+1]] gets lag k");
    if (r == i) vf_assert_id(in, "returned lag k: breaks[k] < |d| <= breaks[k+1]");
  }
  vf_assert_id((r == ITEST) == (nin == 0), "ITEST <=> no interval contains the distance");
  vf_witness();
}
