// C12.b / C05.e: the pair enumeration of Vario::_calculateGeneralSolution1 / _calculateGeneralSolution2
// (src/Variogram/Vario.cpp): outer/inner loop over the samples sorted along the first axis, the
// early `break` on Db::getDistance1D(iech, jech) > maxdist, the selection / weight filters, the
// keepPair / getLagRank rejections and the call of the estimator through the member-function
// pointer `_evaluate`.  Only the loop logic (and the real Db::getDistance1D, FFFF, IFFFF) is
// library code: every other callee is overridden below and answers from symbolic tables.
//
//   x[i]           first coordinate of sample i (integer grid)
//   rindex         arbitrary permutation with x[rindex[k]] <= x[rindex[k+1]] (what Db::getSortArray gives)
//   sel[i], w[i]   selection flag, weight (TEST = undefined), used only when the Db "has" them
//   keep{i,j}      answer of Vario::keepPair for the unordered pair, dist{i,j} >= |x_i - x_j| the
//                  distance it returns (what a Euclidean distance satisfies)
//   lag{i,j}       answer of DirParam::getLagRank (ITEST = no lag)
//
// VF_DATE=1 builds the variant in which VarioParam::isDateUsed answers true (inner loop from 0).
#include "vf.h"
#include "Variogram/Vario.hpp"
#include "Variogram/VarioParam.hpp"
#include "Variogram/DirParam.hpp"
#include "Db/Db.hpp"
#include "Space/SpaceTarget.hpp"
#include "Space/SpacePoint.hpp"
#include "Space/ASpaceObject.hpp"
#include "Basic/Utilities.hpp"
#include "Enum/ELoc.hpp"
#include <new>

#ifndef VF_NECH
#define VF_NECH 3
#endif
#ifndef VF_DATE
#define VF_DATE 0
#endif
#define N VF_NECH
#define GRID (1 << 20)
#define VF_SIZE 2 // Solution2: number of accumulator slots of the direction

// ---------------------------------------------------------------- symbolic tables
static double g_x[N];
static bool g_sel[N];
static double g_w[N];
static bool g_hasSel, g_hasW;
static double g_maxdist;
static bool g_keep[N * N];
static double g_dist[N * N];
static int g_lag[N * N];
static double g_sw[VF_SIZE], g_gg[VF_SIZE], g_hh[VF_SIZE];

// ---------------------------------------------------------------- recording
static int g_cnt[N * N];         // calls of the estimator per ordered pair
static const SpaceTarget* g_tA;  // the two SpaceTarget objects of the function under test
static const SpaceTarget* g_tB;
static int g_idA, g_idB;         // sample currently loaded in each
static int g_li, g_lj;           // pair of the last keepPair call
static Db* g_db;

static int loaded(const SpaceTarget* t) { return (t == g_tA) ? g_idA : g_idB; }

// ---------------------------------------------------------------- overrides: Db
class PairDb: public Db
{
public:
  virtual double getCoordinate(int iech, int idim, bool flag_rotate = true) const override;
};
// first coordinate of a sample (the only one Db::getDistance1D(iech, jech) reads)
double PairDb::getCoordinate(int iech, int idim, bool flag_rotate) const
{
  (void)flag_rotate;
  if (idim != 0) return 0.;
  return g_x[iech];
}
extern "C" char vt_PairDb[] asm("_ZTV6PairDb");

int Db::getSampleNumber(bool useSel) const { (void)useSel; return N; }
bool Db::hasLocVariable(const ELoc& loctype) const
{
  if (&loctype == &ELoc::SEL) return g_hasSel;
  if (&loctype == &ELoc::W) return g_hasW;
  return false;
}
bool Db::isActive(int iech) const { return g_sel[iech]; }
double Db::getWeight(int iech) const { return g_w[iech]; }
// loads nothing: only remembers which sample sits in which target
void Db::getSampleAsSTInPlace(int iech, SpaceTarget& P) const
{
  if (g_tA == nullptr || g_tA == &P) { g_tA = &P; g_idA = iech; }
  else { g_tB = &P; g_idB = iech; }
}

// ---------------------------------------------------------------- overrides: space objects (no space is ever read)
ASpaceObject::ASpaceObject(const ASpace* space) : AStringable(), _space(nullptr) { (void)space; }
ASpaceObject::ASpaceObject(const ASpaceObject& r) : AStringable(r), _space(nullptr) {}
SpacePoint::SpacePoint(const ASpace* space) : ASpaceObject(space), _coord(), _iech(-1), _target(false) {}
SpaceTarget::SpaceTarget(const ASpace* space, bool checkExtend, bool checkCode, bool checkDate)
  : SpacePoint(space), _checkExtend(checkExtend), _checkCode(checkCode), _checkDate(checkDate), _extend(), _code(TEST), _date(TEST)
{
}

// ---------------------------------------------------------------- overrides: DirParam / VarioParam
DirParam::DirParam(const DirParam& r)
  : ASpaceObject(r), _nPas(0), _optionCode(0), _idate(0), _dPas(0.), _bench(TEST), _cylRad(TEST), _tolDist(0.), _tolAngle(0.),
    _tolCode(0.), _breaks(), _codir(), _grincr()
{
}
double DirParam::getMaximumDistance() const { return g_maxdist; }
int DirParam::getLagRank(double dist) const
{
  vf_assert_id(dist == g_dist[g_li * N + g_lj], "getLagRank receives the distance keepPair returned for the pair");
  return g_lag[g_li * N + g_lj];
}
bool VarioParam::isDateUsed(const Db* db1, const Db* db2) const { (void)db1; (void)db2; return VF_DATE != 0; }

// ---------------------------------------------------------------- overrides: Vario
bool Vario::keepPair(int idir, SpaceTarget& T1, SpaceTarget& T2, double* dist) const
{
  (void)idir;
  g_li = loaded(&T1);
  g_lj = loaded(&T2);
  *dist = g_dist[g_li * N + g_lj];
  return g_keep[g_li * N + g_lj];
}
void Vario::_rescale(int idir) { (void)idir; }
void Vario::_centerCovariance(Db* db, int idir) { (void)db; (void)idir; }
void Vario::_patchC00(Db* db, int idir) { (void)db; (void)idir; }
int Vario::getDirSize(int idir) const { (void)idir; return VF_SIZE; }
double Vario::getSwByIndex(int idir, int i) const { (void)idir; return g_sw[i]; }
double Vario::getGgByIndex(int idir, int i) const { (void)idir; return g_gg[i]; }
double Vario::getHhByIndex(int idir, int i) const { (void)idir; return g_hh[i]; }
void Vario::setSwByIndex(int idir, int i, double v, bool flagCheck) { (void)idir; (void)flagCheck; g_sw[i] = v; }
void Vario::setGgByIndex(int idir, int i, double v, bool flagCheck) { (void)idir; (void)flagCheck; g_gg[i] = v; }
void Vario::setHhByIndex(int idir, int i, double v, bool flagCheck) { (void)idir; (void)flagCheck; g_hh[i] = v; }

static bool usable(int i)
{
  if (g_hasSel && !g_sel[i]) return false;
  if (g_hasW && g_w[i] > 1.e30) return false;
  return true;
}

// (noinline: keeps clang from fusing the two range tests into a bitwise or of symbolic ranks)
static bool __attribute__((noinline)) in_range(int i) { return i >= 0 && i < N; }

// the target of the member-function pointer `_evaluate`: records the call
void AVario::_evaluateVariogram(Db* db, int nvar, int iech1, int iech2, int ipas, double dist, bool do_asym)
{
  (void)nvar; (void)do_asym;
  bool valid = in_range(iech1) && in_range(iech2) && iech1 != iech2 && db == g_db;
  vf_assert_id(valid, "evaluated pair consists of two distinct valid sample ranks");
  if (!valid) return;
  vf_assert_id(!g_hasSel || (g_sel[iech1] && g_sel[iech2]), "no masked sample reaches the estimator");
  vf_assert_id(!g_hasW || (!(g_w[iech1] > 1.e30) && !(g_w[iech2] > 1.e30)), "no sample with an undefined weight reaches the estimator");
#ifndef VF_C05
  vf_assert_id(ipas == g_lag[iech1 * N + iech2], "estimator receives the lag of its pair");
  vf_assert_id(dist == g_dist[iech1 * N + iech2], "estimator receives the distance of its pair");
#else
  (void)ipas; (void)dist;
#endif
  g_cnt[iech1 * N + iech2]++;
}

// ---------------------------------------------------------------- set-up
alignas(16) static char g_dbbuf[sizeof(PairDb)];
alignas(16) static char g_vbuf[sizeof(Vario)];
alignas(16) static char g_dpbuf[sizeof(DirParam)];
static int g_rindex[N];

static double abs_d(double a) { return a < 0. ? -a : a; }

static Vario* setup()
{
  // ---- all symbolic inputs, drawn unconditionally; the constrained ones are built constructively
  // (no vf_assume), so that every input stream of the translator validation is usable
  // rindex: arbitrary permutation (Lehmer code)
  int pool[N];
  for (int i = 0; i < N; i++) pool[i] = i;
  for (int k = 0; k < N; k++)
  {
    int c = vf_range(0, N - 1 - k);
    g_rindex[k] = pool[c];
    for (int m = 0; m + 1 < N - k; m++) pool[m] = (m >= c) ? pool[m + 1] : pool[m];
  }
  // first coordinates: arbitrary ascending values (ties allowed) placed so that rindex sorts them
  double xs = vf_grid_double(GRID);
  for (int k = 0; k < N; k++)
  {
    double inc = vf_grid_double(GRID);
    if (k > 0) xs += abs_d(inc);
    g_x[g_rindex[k]] = xs;
  }
  for (int i = 0; i < N; i++)
  {
    g_sel[i] = vf_nondet_bool();
    double wv = vf_grid_double(GRID);
    bool wundef = vf_nondet_bool();
    g_w[i] = wundef ? TEST : wv;
  }
  g_hasSel = vf_nondet_bool();
  g_hasW = vf_nondet_bool();
  g_maxdist = vf_grid_double(GRID);
  for (int i = 0; i < N; i++)
    for (int j = i; j < N; j++)
    {
      bool kp = vf_nondet_bool();
      double extra = vf_grid_double(GRID);
      int lg = vf_range(0, 2);
      bool lundef = vf_nondet_bool();
      // a distance is at least the separation along the first axis
      double d = abs_d(g_x[i] - g_x[j]) + abs_d(extra);
      g_keep[i * N + j] = g_keep[j * N + i] = kp;
#if VF_DATE
      bool kp2 = vf_nondet_bool(); // the date test of keepPair is oriented: one answer per ordered pair
      g_keep[j * N + i] = (i == j) ? kp : kp2;
#endif
      g_dist[i * N + j] = g_dist[j * N + i] = d;
      g_lag[i * N + j] = g_lag[j * N + i] = lundef ? ITEST : lg;
    }
  for (int s = 0; s < VF_SIZE; s++)
  {
    g_sw[s] = vf_grid_double(GRID);
    g_gg[s] = vf_grid_double(GRID);
    g_hh[s] = vf_grid_double(GRID);
  }

  for (int p = 0; p < N * N; p++) g_cnt[p] = 0;
  g_tA = g_tB = nullptr;
  g_idA = g_idB = 0;
  g_li = g_lj = 0;

  // ---- objects: raw storage, only what the loops read
  *(void**)g_dbbuf = (void*)(vt_PairDb + 16);
  g_db = (Db*)g_dbbuf;
  DirParam* dp = (DirParam*)g_dpbuf;
  dp->_space = nullptr;
  Vario* v = (Vario*)g_vbuf;
  v->_nVar = 1;
  v->_evaluate = &AVario::_evaluateVariogram;
  v->_varioparam._dirparams._M_impl._M_start = dp;
  v->_varioparam._dirparams._M_impl._M_finish = dp + 1;
  v->_varioparam._dirparams._M_impl._M_end_of_storage = dp + 1;
  return v;
}

// ---------------------------------------------------------------- oracle
static void oracle()
{
  for (int i = 0; i < N; i++)
    for (int j = i + 1; j < N; j++)
    {
      int n = g_cnt[i * N + j] + g_cnt[j * N + i];
      bool masked = !usable(i) || !usable(j);
#if VF_DATE == 0
#ifndef VF_C05
      bool eligible = !masked && g_keep[i * N + j] && g_lag[i * N + j] != ITEST;
      bool within = abs_d(g_x[i] - g_x[j]) <= g_maxdist;
      if (eligible && within)
        vf_assert_id(n == 1, "every usable accepted pair with a lag whose first-axis separation is within maxdist is evaluated exactly once");
      if (!eligible) vf_assert_id(n == 0, "no masked, rejected or lag-less pair is evaluated");
      vf_assert_id(n <= 1, "no pair is evaluated twice");
#else
      if (masked) vf_assert_id(n == 0, "a pair with a masked or weight-undefined end is never evaluated");
#endif
#else
      // dates in use: the date test of keepPair is oriented, so each ordered pair is a candidate
      bool within = abs_d(g_x[i] - g_x[j]) <= g_maxdist;
      for (int o = 0; o < 2; o++)
      {
        int a = o ? j : i, b = o ? i : j;
        bool eligible = !masked && g_keep[a * N + b] && g_lag[a * N + b] != ITEST;
        if (eligible && within)
          vf_assert_id(g_cnt[a * N + b] == 1, "dates: every usable accepted ordered pair with a lag whose first-axis separation is within maxdist is evaluated exactly once");
        if (!eligible) vf_assert_id(g_cnt[a * N + b] == 0, "dates: no masked, rejected or lag-less ordered pair is evaluated");
        vf_assert_id(g_cnt[a * N + b] <= 1, "dates: no ordered pair is evaluated twice");
      }
      (void)n;
#endif
    }
  vf_witness();
}

extern "C" void k_pairs1()
{
  Vario* v = setup();
  (void)v->_calculateGeneralSolution1(g_db, 0, g_rindex, (Vario_Order*)nullptr);
  oracle();
}
extern "C" void k_pairs2()
{
  Vario* v = setup();
  (void)v->_calculateGeneralSolution2(g_db, 0, g_rindex);
  oracle();
}
