// C12.e: the pair enumeration of Vario::_calculateOnGridSolution (src/Variogram/Vario.cpp): for every
// grid node n the nodes n + k*grincr, k = 1 .. npas-1 (lag rank k, lag 0 is the zero distance),
// computed through the real DbGrid::rankToIndice / indiceToRank (Grid.cpp), the selection / weight
// filters, keepPair and the call of the estimator through the member-function pointer `_evaluate`.
// Only the loop logic, the Grid index functions, DirParam::getGrincr / getLagNumber / getDPas and
// FFFF are library code: every other callee is overridden below and answers from symbolic tables.
//
// Concrete VF_NX x VF_NY grid (first index fastest), VF_NPAS lags; one entry point per grid increment
// grincr of [-2,2]^2 (not null; the registry lists those of [-1,1]^2 or all); symbolic selection,
// weights, keepPair answer per ordered pair.
// Reference: the ordered pair (i, j) reaches the estimator exactly once, with lag k and distance
// k*dpas, iff both nodes are usable, keepPair accepts it and ind(j) - ind(i) == k*grincr for a
// k in [1, npas); no other pair does.
#include "vf.h"
#include "Variogram/Vario.hpp"
#include "Variogram/VarioParam.hpp"
#include "Variogram/DirParam.hpp"
#include "Db/Db.hpp"
#include "Db/DbGrid.hpp"
#include "Basic/Grid.hpp"
#include "Space/SpaceTarget.hpp"
#include "Space/SpacePoint.hpp"
#include "Space/ASpaceObject.hpp"
#include "Space/SpaceRN.hpp"
#include "Basic/Utilities.hpp"
#include "Enum/ELoc.hpp"
#include <new>

#ifndef VF_NX
#define VF_NX 3
#endif
#ifndef VF_NY
#define VF_NY 3
#endif
#ifndef VF_NPAS
#define VF_NPAS 3
#endif
#define N (VF_NX * VF_NY)
#define GRID (1 << 20)

// ---------------------------------------------------------------- symbolic tables
static int g_incr[2];
static bool g_sel[N];
static double g_w[N];
static bool g_hasSel, g_hasW;
static bool g_keep[N * N];
static double g_kdist;        // what keepPair writes into *dist (must not reach the estimator)
static double g_dpas;

// ---------------------------------------------------------------- recording
static int g_cnt[N * N];     // calls of the estimator per ordered pair
static int g_lag[N * N];     // lag / distance of the last call
static double g_dist[N * N];
static const SpaceTarget* g_tA;
static const SpaceTarget* g_tB;
static int g_idA, g_idB;
static Db* g_db;

static int loaded(const SpaceTarget* t) { return (t == g_tA) ? g_idA : g_idB; }

// ---------------------------------------------------------------- overrides: Db
int Db::getSampleNumber(bool useSel) const { (void)useSel; return N; }
bool Db::hasLocVariable(const ELoc& loctype) const
{
  if (&loctype == &ELoc::SEL) return g_hasSel;
  if (&loctype == &ELoc::W) return g_hasW;
  return false;
}
bool Db::isActive(int iech) const { return g_sel[iech]; }
double Db::getWeight(int iech) const { return g_w[iech]; }
void Db::getSampleAsSTInPlace(int iech, SpaceTarget& P) const
{
  if (g_tA == nullptr || g_tA == &P) { g_tA = &P; g_idA = iech; }
  else { g_tB = &P; g_idB = iech; }
}

// ---------------------------------------------------------------- overrides: space objects (as C12.d)
// space objects keep the pointer they are given instead of a clone (the clone goes through an
// ICloneable -> ASpace cross cast, i.e. RTTI), and therefore never delete it
ASpaceObject::ASpaceObject(const ASpace* space) : AStringable(), _space(space) {}
ASpaceObject::~ASpaceObject() {}

// ---------------------------------------------------------------- overrides: Vario
bool Vario::keepPair(int idir, SpaceTarget& T1, SpaceTarget& T2, double* dist) const
{
  (void)idir;
  int i = loaded(&T1), j = loaded(&T2);
  *dist = g_kdist;
  return g_keep[i * N + j];
}
void Vario::_rescale(int idir) { (void)idir; }
void Vario::_centerCovariance(Db* db, int idir) { (void)db; (void)idir; }
void Vario::_patchC00(Db* db, int idir) { (void)db; (void)idir; }

// (noinline: keeps clang from fusing the two range tests into a bitwise or of symbolic ranks)
static bool __attribute__((noinline)) in_range(int i) { return i >= 0 && i < N; }

// the target of the member-function pointer `_evaluate`: records the call
void AVario::_evaluateVariogram(Db* db, int nvar, int iech1, int iech2, int ipas, double dist, bool do_asym)
{
  (void)nvar; (void)do_asym;
  bool valid = in_range(iech1) && in_range(iech2) && db == g_db;
  vf_assert_id(valid, "evaluated pair consists of two valid node ranks of the grid");
  if (!valid) return;
  g_cnt[iech1 * N + iech2]++;
  g_lag[iech1 * N + iech2] = ipas;
  g_dist[iech1 * N + iech2] = dist;
}

// ---------------------------------------------------------------- set-up
extern "C" char vt_DbGrid[] asm("_ZTV6DbGrid");
alignas(16) static char g_dbbuf[sizeof(DbGrid)];
alignas(16) static char g_vbuf[sizeof(Vario)];
alignas(16) static char g_dpbuf[sizeof(DirParam)];

static bool usable(int i)
{
  if (g_hasSel && !g_sel[i]) return false;
  if (g_hasW && g_w[i] > 1.e30) return false;
  return true;
}

// one run of the real function for the grid increment (ax, ay), followed by the reference
static void run_increment(int ax, int ay)
{
  g_incr[0] = ax;
  g_incr[1] = ay;
  for (int p = 0; p < N * N; p++) { g_cnt[p] = 0; g_lag[p] = -7; g_dist[p] = -7.; }
  g_tA = g_tB = nullptr;
  g_idA = g_idB = 0;

  // ---- objects: raw storage, only what the loop reads
  DbGrid* db = (DbGrid*)g_dbbuf;
  *(void**)g_dbbuf = (void*)(vt_DbGrid + 16); // the real DbGrid vtable (virtual getNDim)
  db->_grid._nDim = 2;
  new (&db->_grid._nx) VectorInt(2);
  db->_grid._nx[0] = VF_NX;
  db->_grid._nx[1] = VF_NY;
  g_db = db;

  SpaceRN sp(2); // really constructed: DirParam::getGrincr validates the dimension against its space
  DirParam* dir = (DirParam*)g_dpbuf;
  dir->_space = &sp;
  dir->_nPas = VF_NPAS;
  dir->_dPas = g_dpas;
  new (&dir->_grincr) VectorInt(2);
  dir->_grincr[0] = g_incr[0];
  dir->_grincr[1] = g_incr[1];

  Vario* v = (Vario*)g_vbuf;
  v->_nVar = 1;
  v->_evaluate = &AVario::_evaluateVariogram;
  v->_varioparam._dirparams._M_impl._M_start = dir;
  v->_varioparam._dirparams._M_impl._M_finish = dir + 1;
  v->_varioparam._dirparams._M_impl._M_end_of_storage = dir + 1;

  // ---- real code
  int err = v->_calculateOnGridSolution(db, 0);
  vf_assert_id(err == 0, "grid calculation reports success");

  // ---- reference: node i = (ix, iy), rank = ix + NX * iy (first index fastest: C16.a)
  for (int i = 0; i < N; i++)
    for (int j = 0; j < N; j++)
    {
      int dx = (j % VF_NX) - (i % VF_NX);
      int dy = (j / VF_NX) - (i / VF_NX);
      int kref = 0; // lag of the pair: k in [1, npas) with (dx, dy) == k * grincr, 0 if none
      for (int k = 1; k < VF_NPAS; k++)
        if (dx == k * g_incr[0] && dy == k * g_incr[1]) kref = k;
      bool expected = kref > 0 && usable(i) && usable(j) && g_keep[i * N + j];
      int n = g_cnt[i * N + j];
      if (expected)
      {
        vf_assert_id(n == 1, "every usable accepted pair (n, n + k*grincr), 1 <= k < npas, inside the grid is evaluated exactly once");
        vf_assert_id(n != 1 || g_lag[i * N + j] == kref, "estimator receives the lag k of the pair");
        vf_assert_id(n != 1 || g_dist[i * N + j] == kref * g_dpas, "estimator receives the distance k*dpas");
      }
      else
        vf_assert_id(n == 0, "no other pair (not aligned with the grid direction, beyond the last lag, masked, weight-undefined or rejected) is evaluated");
    }
  dir->_grincr.~VectorInt();
  db->_grid._nx.~VectorInt();
}

static void draw_inputs()
{
  // ---- symbolic inputs, drawn unconditionally
  for (int i = 0; i < N; i++)
  {
    g_sel[i] = vf_nondet_bool();
    double wv = vf_grid_double(GRID);
    bool wundef = vf_nondet_bool();
    g_w[i] = wundef ? TEST : wv;
  }
  g_hasSel = vf_nondet_bool();
  g_hasW = vf_nondet_bool();
  for (int p = 0; p < N * N; p++) g_keep[p] = vf_nondet_bool();
  g_kdist = vf_grid_double(GRID);
  double dp = vf_grid_double(GRID);
  g_dpas = 1. + (dp < 0. ? -dp : dp); // lag size > 0
}

// one entry per grid increment (concrete: the node ranks are then concrete and only the filters are
// symbolic; separate entries keep the symbolic state of each run small)
#define GP(name, ax, ay) extern "C" void name() { draw_inputs(); run_increment(ax, ay); vf_witness(); }
#define M1 (-1)
#define M2 (-2)
GP(k_gp_m1_m1, M1, M1) GP(k_gp_m1_0, M1, 0) GP(k_gp_m1_1, M1, 1)
GP(k_gp_0_m1, 0, M1)                        GP(k_gp_0_1, 0, 1)
GP(k_gp_1_m1, 1, M1)   GP(k_gp_1_0, 1, 0)   GP(k_gp_1_1, 1, 1)
GP(k_gp_m2_m2, M2, M2) GP(k_gp_m2_m1, M2, M1) GP(k_gp_m2_0, M2, 0) GP(k_gp_m2_1, M2, 1) GP(k_gp_m2_2, M2, 2)
GP(k_gp_m1_m2, M1, M2) GP(k_gp_m1_2, M1, 2)
GP(k_gp_0_m2, 0, M2)   GP(k_gp_0_2, 0, 2)
GP(k_gp_1_m2, 1, M2)   GP(k_gp_1_2, 1, 2)
GP(k_gp_2_m2, 2, M2)   GP(k_gp_2_m1, 2, M1) GP(k_gp_2_0, 2, 0) GP(k_gp_2_1, 2, 1) GP(k_gp_2_2, 2, 2)
