// C12.c: Vario::getDirAddress (src/Variogram/Vario.cpp), the slot of (variable pair, lag) inside the per-direction
// accumulators _sw/_hh/_gg/_utilize, with Vario::getDirSize / getLagTotalNumber / getLagNumber.
// VF_NVAR variables (all pairs enumerated), one direction with a symbolic number of lags npas in [1, VF_NPASMAX],
// symmetric (variogram-like) or asymmetric (covariance-like: lags -npas..npas) storage.
//   k_addr : every valid (ivar, jvar, lag) gets a slot in [0, getDirSize); the slot is symmetric in (ivar, jvar);
//            asymmetric storage: relative addressing (sens = +1/-1/0, ipas) and absolute addressing agree, the signed
//            lag h sitting at absolute index npas + h; two different (unordered pair, absolute lag index) never share
//            a slot, and getDirSize is exactly the number of such combinations (so the map is a bijection)
// Internal calling mode flagCheck = false (the mode every accumulator access uses after validating its arguments).
#include "vf.h"
#include "Variogram/Vario.hpp"
#include "Variogram/VarioParam.hpp"
#include "Variogram/DirParam.hpp"
#include "geoslib_define.h"
#ifndef VF_NVAR
#define VF_NVAR 2
#endif
#ifndef VF_NPASMAX
#define VF_NPASMAX 1000
#endif
#define NPAIR (VF_NVAR * (VF_NVAR + 1) / 2)

// Vario / DirParam as raw storage: the functions read _nVar, _flagAsym, _varioparam._dirparams[0]._nPas
alignas(16) static char g_vbuf[sizeof(Vario)];
alignas(16) static char g_dpbuf[sizeof(DirParam)];

extern "C" void k_addr()
{
  DirParam* dp = (DirParam*)g_dpbuf;
  Vario* v = (Vario*)g_vbuf;
  int npas = vf_range(1, VF_NPASMAX);
  bool asym = vf_nondet_bool();
  int ipas = vf_nondet_int();  // relative lag rank
  int sens = vf_range(-1, 1);  // side of the lag (asymmetric storage)
  int s1 = vf_nondet_int();    // two absolute lag indices
  int s2 = vf_nondet_int();
  dp->_nPas = npas;
  v->_nVar = VF_NVAR;
  v->_flagAsym = asym;
  v->_varioparam._dirparams._M_impl._M_start = dp;
  v->_varioparam._dirparams._M_impl._M_finish = dp + 1;
  v->_varioparam._dirparams._M_impl._M_end_of_storage = dp + 1;

  int ltot = asym ? 2 * npas + 1 : npas; // lags stored per variable pair: -npas..npas or 0..npas-1
  int size = v->getDirSize(0);
  vf_assert_id(v->getLagTotalNumber(0) == ltot, "lags stored per pair: npas (symmetric) or 2*npas+1 (asymmetric)");
  vf_assert_id(size == ltot * NPAIR, "getDirSize == stored lags x unordered variable pairs");
  vf_assume(ipas >= 0 && ipas < npas);
  vf_assume(s1 >= 0 && s1 < ltot && s2 >= 0 && s2 < ltot);

  // relative addressing of a signed lag and its absolute index
  int h = (sens == 0) ? 0 : sens * (ipas + 1); // signed lag of (sens, ipas)
  for (int i = 0; i < VF_NVAR; i++)
    for (int j = 0; j < VF_NVAR; j++)
    {
      int a1 = v->getDirAddress(0, i, j, s1, true, 0, false);
      vf_assert_id(a1 >= 0 && a1 < size, "absolute addressing: slot in [0, getDirSize)");
      vf_assert_id(a1 == v->getDirAddress(0, j, i, s1, true, 0, false), "slot symmetric in (ivar, jvar)");
      if (asym)
      {
        int ar = v->getDirAddress(0, i, j, ipas, false, sens, false);
        int aa = v->getDirAddress(0, i, j, npas + h, true, 0, false);
        vf_assert_id(ar == aa, "asymmetric: signed lag h addressed relatively sits at absolute index npas + h");
        vf_assert_id(ar >= 0 && ar < size, "relative addressing: slot in [0, getDirSize)");
      }
      else
      {
        // symmetric storage: the lag rank is the index, whatever the addressing mode
        vf_assert_id(v->getDirAddress(0, i, j, ipas, false, sens, false) == v->getDirAddress(0, i, j, ipas, true, 0, false),
                     "symmetric: relative and absolute addressing coincide");
      }
    }
  // injectivity over (unordered pair, absolute lag index)
  for (int i = 0; i < VF_NVAR; i++)
    for (int j = 0; j <= i; j++)
      for (int i2 = 0; i2 < VF_NVAR; i2++)
        for (int j2 = 0; j2 <= i2; j2++)
        {
          int a1 = v->getDirAddress(0, i, j, s1, true, 0, false);
          int a2 = v->getDirAddress(0, i2, j2, s2, true, 0, false);
          bool same = (i == i2 && j == j2 && s1 == s2);
          vf_assert_id(same || a1 != a2, "different (variable pair, lag) never share a slot");
        }
  vf_witness();
}
