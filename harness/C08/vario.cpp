// C08.f: Vario::_serialize -> Vario::_deserialize (src/Variogram/Vario.cpp, with VarioParam / DirParam) through the
// line-structured tape (tape2.h): numeric block of an experimental variogram.
//   VF_NDIM space dimension, VF_NVAR variables, VF_NDIR directions, VF_NPAS lags per direction
//   VF_ASYM 0: symmetric calculation (variogram: npas entries per direction and pair of variables)
//           1: asymmetric calculation (covariance: 2*npas+1 entries)
//   VF_GRID 1: directions defined by grid increments (DirParam::setGrincr) instead of a tolerance on the angle
// The original is built by the real constructors (DirParam, VarioParam::addDir, Vario(varioparam), setVars,
// internalDirectionResize, setSw/Hh/GgByIndex); the object loaded into is a fresh Vario(VarioParam()) as createFromNF builds.
#include "tape2.h"
#include "Variogram/Vario.hpp"
#include "Variogram/VarioParam.hpp"
#include "Variogram/DirParam.hpp"
#include "Space/SpaceRN.hpp"
#include "Space/ASpaceObject.hpp"
#include "Basic/Utilities.hpp"
#ifndef VF_NDIM
#define VF_NDIM 2
#endif
#ifndef VF_NVAR
#define VF_NVAR 1
#endif
#ifndef VF_NDIR
#define VF_NDIR 1
#endif
#ifndef VF_NPAS
#define VF_NPAS 2
#endif
#ifndef VF_ASYM
#define VF_ASYM 0
#endif
#ifndef VF_GRID
#define VF_GRID 0
#endif
#define VF_NLAGTOT (VF_ASYM ? 2 * VF_NPAS + 1 : VF_NPAS)
#define VF_DIRSIZE (VF_NLAGTOT * VF_NVAR * (VF_NVAR + 1) / 2)

void messerr(const char*, ...) {}
void mesArg(const char*, int, int) {}
// ---- space context of an ASpaceObject: one integer cell (the real code clones a SpaceRN through clone() + dynamic_cast)
struct VfSpace { int ndim; };
static VfSpace* vf_space_new(int ndim) { VfSpace* s = new VfSpace; s->ndim = ndim; return s; }
ASpaceObject::ASpaceObject(const ASpace* space) : AStringable(), _space(nullptr)
{
  _space = (const ASpace*)vf_space_new(space == nullptr ? 2 : (int)space->getNDim());
}
ASpaceObject::ASpaceObject(const ASpaceObject& r) : AStringable(r), _space(nullptr)
{
  _space = (const ASpace*)vf_space_new(((const VfSpace*)r._space)->ndim);
}
ASpaceObject& ASpaceObject::operator=(const ASpaceObject& r)
{
  if (this != &r) ((VfSpace*)_space)->ndim = ((const VfSpace*)r._space)->ndim;
  return *this;
}
ASpaceObject::~ASpaceObject() { delete (VfSpace*)_space; }
unsigned int ASpaceObject::getNDim(int) const { return (unsigned int)((const VfSpace*)_space)->ndim; }
// ---- calculation type: the ECalcVario objects are filled by static constructors, which kernels do not run
ECalcVario::ECalcVario() : AEnum("UNDEFINED", -1, "Undefined") {}
AVario::AVario() : AStringable(), _calcul() {}
void AVario::setCalculByName(const String&) { _calcul._value = 0; } // the reader only ever asks for "vg" (VARIOGRAM = 0)
// (a reader that restores the stored type goes through these two)
void AVario::setCalcul(const ECalcVario& calcul) { _calcul._value = calcul._value; }
struct VfEnumRaw { size_t klen; const char* kptr; int value; int pad; size_t dlen; const char* dptr; };
static_assert(sizeof(VfEnumRaw) == sizeof(ECalcVario), "ECalcVario layout");
static VfEnumRaw vf_calc_cell;
const ECalcVario& ECalcVario::fromValue(int value)
{
  vf_calc_cell.value = (value >= 0 && value <= 13) ? value : -1; // unknown value: the default (UNDEFINED), as the library
  return *(const ECalcVario*)&vf_calc_cell;
}

extern "C" void k_vario()
{
  // ---- every input, up front
  double scale = vf_nondet_double();
  double vars[VF_NVAR * VF_NVAR];
  for (int i = 0; i < VF_NVAR * VF_NVAR; i++) vars[i] = vf_nondet_double();
  for (int i = 0; i < VF_NVAR; i++) // a variance-covariance matrix is symmetric
    for (int j = 0; j < i; j++) vf_assume(vars[i * VF_NVAR + j] == vars[j * VF_NVAR + i]);
  int optcode[VF_NDIR], grincr[VF_NDIR][VF_NDIM];
  double dpas[VF_NDIR], toldis[VF_NDIR], tolang[VF_NDIR], tolcode[VF_NDIR], codir[VF_NDIR][VF_NDIM];
  double sw[VF_NDIR][VF_DIRSIZE], hh[VF_NDIR][VF_DIRSIZE], gg[VF_NDIR][VF_DIRSIZE];
  for (int d = 0; d < VF_NDIR; d++)
  {
    optcode[d] = vf_nondet_int();
    dpas[d] = vf_nondet_double(); toldis[d] = vf_nondet_double(); tolcode[d] = vf_nondet_double();
    { double r = vf_nondet_double(); tolang[d] = (r > 90.) ? 90. : r; } // the constructor caps the tolerance at 90
    for (int k = 0; k < VF_NDIM; k++) { codir[d][k] = vf_nondet_double(); grincr[d][k] = vf_range(-1000, 1000); }
    for (int i = 0; i < VF_DIRSIZE; i++)
    {
      sw[d][i] = vf_nondet_double(); hh[d][i] = vf_nondet_double(); gg[d][i] = vf_nondet_double();
      // defined values; undefined results (TEST, e.g. the distance and value of a lag without pairs) are the subject of
      // the kernel built with VF_WITH_UNDEFINED: there each entry is either a defined value or exactly TEST
      vf_assume(!FFFF(sw[d][i]) && !FFFF(hh[d][i]) && !FFFF(gg[d][i]));
      bool u1 = vf_nondet_bool(), u2 = vf_nondet_bool(), u3 = vf_nondet_bool();
#ifdef VF_WITH_UNDEFINED
      if (u1) sw[d][i] = TEST;
      if (u2) hh[d][i] = TEST;
      if (u3) gg[d][i] = TEST;
#endif
    }
  }
  // ---- original
  SpaceRN space(VF_NDIM);
  VarioParam vp(scale);
  for (int d = 0; d < VF_NDIR; d++)
  {
    VectorDouble cd(VF_NDIM);
    for (int k = 0; k < VF_NDIM; k++) cd[k] = codir[d][k];
#if VF_GRID
    DirParam dp(VF_NPAS, dpas[d], toldis[d], 0., optcode[d], 0, TEST, TEST, tolcode[d], VectorDouble(), cd, TEST, &space);
    VectorInt gi(VF_NDIM);
    for (int k = 0; k < VF_NDIM; k++) gi[k] = grincr[d][k];
    dp.setGrincr(gi);
#else
    DirParam dp(VF_NPAS, dpas[d], toldis[d], tolang[d], optcode[d], 0, TEST, TEST, tolcode[d], VectorDouble(), cd, TEST, &space);
#endif
    vp.addDir(dp);
  }
  Vario a(vp);
  a._nVar = VF_NVAR;
  a._calcul._value = VF_ASYM ? 1 : 0; // what setCalcul(ECalcVario::COVARIANCE / VARIOGRAM) stores
  a._flagAsym = VF_ASYM != 0;
  {
    VectorDouble v(VF_NVAR * VF_NVAR);
    for (int i = 0; i < VF_NVAR * VF_NVAR; i++) v[i] = vars[i];
    a.setVars(v);
  }
  a.internalDirectionResize(VF_NDIR, true);
  bool sized = true;
  for (int d = 0; d < VF_NDIR; d++) sized = sized && a.getDirSize(d) == VF_DIRSIZE;
  vf_assert_id(sized, "harness: original variogram holds the expected number of entries per direction");
  for (int d = 0; d < VF_NDIR; d++)
    for (int i = 0; i < VF_DIRSIZE; i++)
    {
      a.setSwByIndex(d, i, sw[d][i]); a.setHhByIndex(d, i, hh[d][i]); a.setGgByIndex(d, i, gg[d][i]);
    }
  // ---- object to load into
  VarioParam vp0;
  Vario b(vp0);

  vf_tape_reset(&vf_tapeA);
  vf_tape_reset(&vf_tapeB);
  vf_tp = &vf_tapeA;
  bool okw = a.Vario::_serialize(VF_OS, false);
  vf_assert_id(okw, "_serialize returns true");
  bool okr = b.Vario::_deserialize(VF_IS, false);
  vf_assert_id(okr, "_deserialize returns true");
  vf_tape_check_consumed(&vf_tapeA);
  if (okr)
  {
    bool shape = b.getVariableNumber() == VF_NVAR && b.getDirectionNumber() == VF_NDIR && b.getDimensionNumber() == VF_NDIM;
    vf_assert_id(shape, "numbers of variables, directions and space dimension agree");
    if (shape)
    {
      vf_assert_id(b.getVarioParam().getScale() == scale, "scale agrees");
      for (int i = 0; i < VF_NVAR; i++)
        for (int j = 0; j < VF_NVAR; j++) vf_assert_id(b.getVar(i, j) == vars[i * VF_NVAR + j], "variances agree");
      for (int d = 0; d < VF_NDIR; d++)
      {
        const DirParam& p = b.getDirParam(d);
        vf_assert_id(p.getLagNumber() == VF_NPAS && p.getOptionCode() == optcode[d] && p.getDPas() == dpas[d] &&
                     p.getTolDist() == toldis[d] && p.getTolCode() == tolcode[d], "lag definition agrees");
        bool cok = (int)p.getCodirs().size() == VF_NDIM;
        vf_assert_id(cok, "direction vector has the space dimension");
        if (cok)
          for (int k = 0; k < VF_NDIM; k++) vf_assert_id(p.getCodir(k) == codir[d][k], "direction vector agrees");
#if VF_GRID
        bool gok = p.isDefinedForGrid() && (int)p.getGrincrs().size() == VF_NDIM;
        vf_assert_id(gok, "grid definition agrees");
        if (gok)
          for (int k = 0; k < VF_NDIM; k++) vf_assert_id(p.getGrincr(k) == grincr[d][k], "grid increments agree");
#else
        vf_assert_id(!p.isDefinedForGrid() && p.getTolAngle() == tolang[d], "tolerance on the angle agrees");
#endif
        bool sok = b.getDirSize(d) == VF_DIRSIZE;
        vf_assert_id(sok, "number of entries of the direction agrees");
        if (sok)
          for (int i = 0; i < VF_DIRSIZE; i++)
            vf_assert_id(b.getSwByIndex(d, i) == sw[d][i] && b.getHhByIndex(d, i) == hh[d][i] && b.getGgByIndex(d, i) == gg[d][i],
                         "weights, distances and values agree");
      }
    }
    vf_tp = &vf_tapeB;
    bool okw2 = b.Vario::_serialize(VF_OS, false);
    vf_assert_id(okw2, "_serialize of the reloaded object returns true");
    vf_tape_check_same(&vf_tapeA, &vf_tapeB);
  }
  vf_witness();
}
