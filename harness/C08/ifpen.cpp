// C08.g: geometry round trip of the IFPEN grid exchange format, GridIfpEn::writeInFile -> GridIfpEn::readGridFromFile
// (src/OutputFormat/GridIfpEn.cpp), through a TYPED TAPE of lines: the class's own line helpers are overridden,
//   GridIfpEn::_writeLine(mode, label, int, real, unit) -> one cell (mode, label, int value, real value)
//   GridIfpEn::_readLine(mode, label, &int, &real)      <- next cell; as the real one it refuses a line that compares below
//                                                          the expected label (strcmp); a value is decoded only from a
//                                                          line written with the same label and a compatible mode
//                                                          (anything else counts as a mismatch, asserted absent)
// so that the text layer (stringstream formatting with 6 significant digits, sscanf) and the FILE are outside the kernel.
// Source grid: a really constructed 2-D DbGrid (gridDefine) of VF_NX0 x VF_NX1 nodes with symbolic origin, meshes
// dx != dy allowed, rotation angle; no attribute column is exported (FACIES_COUNT 0: the value section is empty).
// DbGrid::reset, which readGridFromFile calls on a new DbGrid, is overridden to record its arguments.
// Asserted: every header line is consumed in order; the grid handed to DbGrid::reset has COLUMN_COUNT / COLUMN_DISTANCE /
// X_ORIGIN back in dimension 0, ROW_COUNT / ROW_DISTANCE / Y_ORIGIN back in dimension 1, one layer of unit thickness
// at 0 in dimension 2, the same first rotation angle (0 for the two others), no value and no name.
#include "vf.h"
#include "OutputFormat/GridIfpEn.hpp"
#include "Db/DbGrid.hpp"
#include "Basic/String.hpp"
#include <new>
#ifndef VF_NX0
#define VF_NX0 3
#endif
#ifndef VF_NX1
#define VF_NX1 2
#endif
#ifndef VF_MUT
#define VF_MUT 0
#endif
#define CAP 32

void messerr(const char*, ...) {}
void message(const char*, ...) {}
#ifdef VF_SOLVER
// libc piece reached through String("IfpEn") (inlined libstdc++ code): a plain byte loop
extern "C" size_t strlen(const char* s)
{
  size_t n = 0;
  while (s[n] != 0) n++;
  return n;
}
#endif
void Db::_clear(void) {} // locator tables (ELoc enumeration needs static constructors) are not part of the kernel

// ---------------------------------------------------------------- typed tape of lines
struct Line { int mode; const char* label; int iv; double dv; };
static Line T_line[CAP];
static int  T_n, T_r, T_overflow, T_mismatch;
static int  s_cmp(const char* a, const char* b) // strcmp on the (concrete) labels
{
  int i = 0;
  while (a[i] != 0 && a[i] == b[i]) i++;
  return (int)(unsigned char)a[i] - (int)(unsigned char)b[i];
}
void GridIfpEn::_writeLine(int mode, const char* comment, int valint, double valrel, const char* combis)
{
  (void)combis;
  if (T_n >= CAP) { T_overflow = 1; return; }
  T_line[T_n].mode  = mode;
  T_line[T_n].label = comment;
  T_line[T_n].iv    = valint;
  T_line[T_n].dv    = valrel;
  T_n++;
}
int GridIfpEn::_readLine(int mode, const char* comment, int* valint, double* valrel)
{
  if (T_r >= T_n) return 1; // end of file
  const Line& l = T_line[T_r++];
  // the line starts with the label it was written with
  if (comment != NULL)
  {
    if (l.label == NULL) { T_mismatch++; return 1; }
    if (s_cmp(l.label, comment) < 0) return 1; // as the real one: strcmp(line, comment) < 0
  }
  if (mode == 1 || mode == 2)
  {
    // the number is decoded just after the expected label: defined only for a line written with that label
    if (comment == NULL || s_cmp(l.label, comment) != 0) { T_mismatch++; return 1; }
    if (mode == 1)
    {
      if (l.mode != 1) { T_mismatch++; return 1; }
      *valint = l.iv;
    }
    else
    {
      if (l.mode == 2) *valrel = l.dv;
      else if (l.mode == 1) *valrel = (double)l.iv; // an integer token parses as a real
      else { T_mismatch++; return 1; }
    }
  }
  return 0;
}
int  AOF::_fileWriteOpen() { return 0; }
int  AOF::_fileReadOpen() { return 0; }
void AOF::_fileClose() {}
VectorString generateMultipleNames(const String& radix, int number, const String& delim)
{
  (void)radix; (void)delim;
  return VectorString(number);
}

// ---------------------------------------------------------------- DbGrid::reset recorded
static int    R_calls, R_nnx, R_ndx, R_nx0, R_nang, R_ntab, R_nnames;
static int    R_nx[3];
static double R_dx[3], R_x0[3], R_ang[3];
static const DbGrid* R_this;
int DbGrid::reset(const VectorInt& nx, const VectorDouble& dx, const VectorDouble& x0, const VectorDouble& angles, const ELoadBy& order,
                  const VectorDouble& tab, const VectorString& names, const VectorString& locatorNames, bool flagAddSampleRank, bool flagAddCoordinates)
{
  (void)order; (void)locatorNames; (void)flagAddSampleRank; (void)flagAddCoordinates;
  R_calls++;
  R_this = this;
  R_nnx = (int)nx.size(); R_ndx = (int)dx.size(); R_nx0 = (int)x0.size(); R_nang = (int)angles.size();
  R_ntab = (int)tab.size(); R_nnames = (int)names.size();
  for (int i = 0; i < 3; i++)
  {
    R_nx[i]  = i < R_nnx ? nx[i] : -1;
    R_dx[i]  = i < R_ndx ? dx[i] : -1.;
    R_x0[i]  = i < R_nx0 ? x0[i] : -1.;
    R_ang[i] = i < R_nang ? angles[i] : -1.;
  }
  return 0;
}

alignas(16) static char gbuf[sizeof(GridIfpEn)];

extern "C" void k_ifpen_geometry()
{
  // ---- inputs up front
  double x0[2], dx[2];
  for (int i = 0; i < 2; i++)
  {
    x0[i] = vf_nondet_double();
    double r = vf_nondet_double();
    dx[i] = r > 0. ? r : (r < 0. ? -r : 1.); // arbitrary mesh > 0
  }
  double angle = vf_nondet_double();
  VectorInt vnx(2);
  VectorDouble vx0(2), vdx(2), van(2);
  vnx[0] = VF_NX0; vnx[1] = VF_NX1;
  for (int i = 0; i < 2; i++) { vx0[i] = x0[i]; vdx[i] = dx[i]; }
  van[0] = angle; van[1] = 0.;

  DbGrid a; // REAL default constructor + gridDefine
  int err = a.gridDefine(vnx, vdx, vx0, van);
  vf_assert_id(err == 0, "harness: original grid accepted by gridDefine");

  GridIfpEn* g = (GridIfpEn*)gbuf; // raw storage: only what the two functions read
  g->_db     = &a;
  g->_dbgrid = &a;
  g->_file   = nullptr;
  new (&g->_cols) VectorInt(); // no attribute column
  T_n = T_r = T_overflow = T_mismatch = 0;
  R_calls = 0;

  int rcw = g->GridIfpEn::writeInFile(); // REAL
  vf_assert_id(rcw == 0 && T_overflow == 0, "writeInFile succeeds");
  DbGrid* b = g->GridIfpEn::readGridFromFile(); // REAL
  vf_assert_id(b != nullptr && R_calls == 1 && R_this == b, "readGridFromFile returns a grid built by one call of DbGrid::reset");
  vf_assert_id(T_mismatch == 0, "no value is decoded from a line written under another label or type");
  vf_assert_id(T_r == T_n, "every line written is consumed by the reader");
  if (R_calls == 1)
  {
    vf_assert_id(R_nnx == 3 && R_ndx == 3 && R_nx0 == 3 && R_nang == 3, "the grid is handed over with 3 dimensions");
#if VF_MUT == 1 // self-test of the check only: claiming swapped dimensions must be refuted
    vf_assert_id(R_nx[0] == VF_NX1 && R_dx[0] == dx[1], "MUT: dimensions swapped");
#endif
    vf_assert_id(R_nx[0] == VF_NX0 && R_nx[1] == VF_NX1, "node counts come back in the dimension they were written from (COLUMN = first, ROW = second)");
    vf_assert_id(R_dx[0] == dx[0] && R_dx[1] == dx[1], "meshes come back in the dimension they were written from");
    vf_assert_id(R_x0[0] == x0[0] && R_x0[1] == x0[1], "origin comes back in the dimension it was written from");
    vf_assert_id(R_nx[2] == 1 && R_dx[2] == 1. && R_x0[2] == 0., "a 2-D grid comes back with one layer (unit thickness, origin 0)");
    vf_assert_id(R_ang[0] == angle && R_ang[1] == 0. && R_ang[2] == 0., "rotation angle comes back (the two other angles are 0)");
    vf_assert_id(R_ntab == 0 && R_nnames == 0, "no attribute exported: no value and no name come back");
  }
  vf_witness();
}
