// C08.d (grid part of DbGrid): DbGrid::_serialize -> DbGrid::_deserialize (src/Db/DbGrid.cpp) restricted to the
// grid header (NX, X0, DX, ANGLE per dimension); the Db part (columns, names, locators, values) is cut:
// Db::_serialize / Db::_deserialize are overridden by empty successes.  Grid, Rotation, GH::rotationMatrixInPlace
// and the matrix classes are the real code; cos/sin are uninterpreted.
//   VF_NDIM space dimension
#include "tape.h"
#include "Db/DbGrid.hpp"
#ifndef VF_NDIM
#define VF_NDIM 2
#endif
bool Db::_serialize(std::ostream&, bool) const { return true; }
bool Db::_deserialize(std::istream&, bool) { return true; }
void Db::_clear(void) {} // locator tables (ELoc enumeration needs static constructors) are not part of the kernel

extern "C" void k_dbgrid_header()
{
  int nx[VF_NDIM];
  double x0[VF_NDIM], dx[VF_NDIM], an[VF_NDIM];
  VectorInt vnx(VF_NDIM);
  VectorDouble vx0(VF_NDIM), vdx(VF_NDIM), van(VF_NDIM);
  for (int i = 0; i < VF_NDIM; i++)
  {
    nx[i] = vf_range(1, 1 << 20);
    x0[i] = vf_nondet_double();
    { double r = vf_nondet_double(); dx[i] = r > 0. ? r : (r < 0. ? -r : 1.); } // arbitrary mesh > 0
    an[i] = (VF_NDIM == 2 && i == 1) ? 0. : vf_nondet_double(); // a 2-D rotation has one angle (Rotation::setAngles zeroes the second)
    vnx[i] = nx[i]; vx0[i] = x0[i]; vdx[i] = dx[i]; van[i] = an[i];
  }
  DbGrid a;
  int err = a.gridDefine(vnx, vdx, vx0, van);
  vf_assert_id(err == 0, "harness: original grid accepted by gridDefine");
  DbGrid b;

  vf_tape_reset(&vf_tapeA);
  vf_tape_reset(&vf_tapeB);
  vf_tp = &vf_tapeA;
  bool okw = a.DbGrid::_serialize(VF_OS, false);
  vf_assert_id(okw, "_serialize returns true");
  bool okr = b.DbGrid::_deserialize(VF_IS, false);
  vf_assert_id(okr, "_deserialize returns true");
  vf_tape_check_consumed(&vf_tapeA);
  if (okr)
  {
    bool dok = b.getNDim() == VF_NDIM;
    vf_assert_id(dok, "space dimension agrees");
    if (dok)
      for (int i = 0; i < VF_NDIM; i++)
      {
        vf_assert_id(b.getNX(i) == nx[i], "number of nodes agrees");
        vf_assert_id(b.getX0(i) == x0[i], "origin agrees");
        vf_assert_id(b.getDX(i) == dx[i], "mesh agrees");
        vf_assert_id(b.getAngle(i) == a.getAngle(i) && b.getAngle(i) == an[i], "rotation angle agrees");
      }
#if VF_NDIM == 2
    // (3-D: the flag is a function of products of cos/sin of the angles, which already agree; the nonlinear
    //  query is not decided by the solver and is left out)
    vf_assert_id(b.getGrid().isRotated() == a.getGrid().isRotated(), "rotation flag agrees");
#endif
    vf_tp = &vf_tapeB;
    bool okw2 = b.DbGrid::_serialize(VF_OS, false);
    vf_assert_id(okw2, "_serialize of the reloaded object returns true");
    vf_tape_check_same(&vf_tapeA, &vf_tapeB);
  }
  vf_witness();
}
