// C08 LINE-STRUCTURED TAPE model of the record layer of ASerializable (include/Basic/ASerializable.hpp,
// src/Basic/ASerializable.cpp).  Like tape.h the text layer (15 digits, "NA") is not encoded, but the tape keeps the one
// piece of layout the readers depend on: line breaks.  A neutral file is a sequence of cells
//        INT v | DBL v | STR | EOL
// following what the real writers emit:
//   _recordWrite<T>(title, v)    "v " on the current line; with a non-empty title: "v # title\n"  -> cell [+ EOL]
//   _recordWriteVec<T>(title, v) ["# title\n"] "v0 v1 ... \n"                                     -> [EOL] cells EOL
//   _commentWrite(c)             "# c\n" (or "\n")                                                 -> EOL
// and what the real readers accept:
//   _recordRead<T>               next word, comments skipped to the end of their line: skips EOLs, pops one cell
//                                (<int>: INT; <double>: DBL or INT; <String>: STR), the rest of the line stays
//   _recordReadVec<T>(n)         next line holding at least one value (the rest of the current line counts as a line);
//                                it must hold exactly n values of a compatible type; consumed with its EOL
// so that a writer emitting n scalars without title followed by a comment is read back by _recordReadVec(n), as in the
// text format.  Streams are opaque, titles are only tested for emptiness.
#pragma once
#include "vf.h"
#include "Basic/ASerializable.hpp"
#include "Basic/VectorNumT.hpp"
#ifndef VF_TAPE_CAP
#define VF_TAPE_CAP 96
#endif
enum { TP_INT = 1, TP_DBL = 2, TP_STR = 3, TP_EOL = 4 };
struct VfTape
{
  int n;        // cells written
  int r;        // cells consumed
  int overflow; // harness capacity exceeded (infrastructure, asserted by the kernels)
  int tag[VF_TAPE_CAP];
  int iv[VF_TAPE_CAP];
  double dv[VF_TAPE_CAP];
};
static VfTape vf_tapeA, vf_tapeB;
static VfTape* vf_tp = &vf_tapeA;
static void vf_tape_reset(VfTape* t)
{
  t->n = 0; t->r = 0; t->overflow = 0;
  for (int i = 0; i < VF_TAPE_CAP; i++) { t->tag[i] = 0; t->iv[i] = 0; t->dv[i] = 0.; }
}
static void vf_tape_push(int tag, int iv, double dv)
{
  VfTape* t = vf_tp;
  if (t->n >= VF_TAPE_CAP) { t->overflow = 1; return; }
  t->tag[t->n] = tag; t->iv[t->n] = iv; t->dv[t->n] = dv;
  t->n++;
}
#ifdef VF_SOLVER
extern "C" size_t strlen(const char* s)
{
  size_t n = 0;
  while (s[n] != 0) n++;
  return n;
}
#endif
alignas(16) static char vf_osbuf[sizeof(std::ostream)];
alignas(16) static char vf_isbuf[sizeof(std::istream)];
#define VF_OS (*(std::ostream*)vf_osbuf)
#define VF_IS (*(std::istream*)vf_isbuf)

// ---------------------------------------------------------------- writers
template <> bool ASerializable::_recordWrite<int>(std::ostream&, const String& title, const int& val)
{
  vf_tape_push(TP_INT, val, 0.);
  if (!title.empty()) vf_tape_push(TP_EOL, 0, 0.);
  return true;
}
template <> bool ASerializable::_recordWrite<double>(std::ostream&, const String& title, const double& val)
{
  vf_tape_push(TP_DBL, 0, val);
  if (!title.empty()) vf_tape_push(TP_EOL, 0, 0.);
  return true;
}
template <> bool ASerializable::_recordWrite<String>(std::ostream&, const String& title, const String&)
{
  vf_tape_push(TP_STR, 0, 0.);
  if (!title.empty()) vf_tape_push(TP_EOL, 0, 0.);
  return true;
}
template <> bool ASerializable::_recordWriteVec<int>(std::ostream&, const String& title, const std::vector<int>& vec)
{
  if (!title.empty()) vf_tape_push(TP_EOL, 0, 0.);
  for (int i = 0, n = (int)vec.size(); i < n; i++) vf_tape_push(TP_INT, vec[i], 0.);
  vf_tape_push(TP_EOL, 0, 0.);
  return true;
}
template <> bool ASerializable::_recordWriteVec<double>(std::ostream&, const String& title, const std::vector<double>& vec)
{
  if (!title.empty()) vf_tape_push(TP_EOL, 0, 0.);
  for (int i = 0, n = (int)vec.size(); i < n; i++) vf_tape_push(TP_DBL, 0, vec[i]);
  vf_tape_push(TP_EOL, 0, 0.);
  return true;
}
bool ASerializable::_commentWrite(std::ostream&, const String&)
{
  vf_tape_push(TP_EOL, 0, 0.);
  return true;
}

// ---------------------------------------------------------------- readers
static void vf_skip_eol(VfTape* t)
{
  while (t->r < t->n && t->tag[t->r] == TP_EOL) t->r++;
}
template <> bool ASerializable::_recordRead<int>(std::istream&, const String&, int& val)
{
  VfTape* t = vf_tp;
  val = 0;
  vf_skip_eol(t);
  bool ok = t->r < t->n && t->tag[t->r] == TP_INT;
  vf_assert_id(ok, "reader consumes what writer produced");
  if (!ok) return false;
  val = t->iv[t->r];
  t->r++;
  return true;
}
template <> bool ASerializable::_recordRead<double>(std::istream&, const String&, double& val)
{
  VfTape* t = vf_tp;
  val = 0.;
  vf_skip_eol(t);
  bool ok = t->r < t->n && (t->tag[t->r] == TP_DBL || t->tag[t->r] == TP_INT);
  vf_assert_id(ok, "reader consumes what writer produced");
  if (!ok) return false;
  val = (t->tag[t->r] == TP_DBL) ? t->dv[t->r] : (double)t->iv[t->r];
  t->r++;
  return true;
}
template <> bool ASerializable::_recordRead<String>(std::istream&, const String&, String&)
{
  VfTape* t = vf_tp;
  vf_skip_eol(t);
  bool ok = t->r < t->n && t->tag[t->r] == TP_STR;
  vf_assert_id(ok, "reader consumes what writer produced");
  if (!ok) return false;
  t->r++; // the text itself is not modelled
  return true;
}
// number of value cells of the next line that holds at least one (blank / comment lines skipped); -1 at end of tape
static int vf_next_line(VfTape* t)
{
  vf_skip_eol(t);
  if (t->r >= t->n) return -1;
  int m = 0;
  while (t->r + m < t->n && t->tag[t->r + m] != TP_EOL) m++;
  return m;
}
template <> bool ASerializable::_recordReadVec<int>(std::istream&, const String&, VectorT<int>& vec, int nvalues)
{
  VfTape* t = vf_tp;
  vec.resize(nvalues);
  int m = vf_next_line(t);
  bool ok = m == nvalues;
  // an integer-valued real is printed without a decimal part and parses as an int
  for (int i = 0; ok && i < m; i++)
    ok = t->tag[t->r + i] == TP_INT || (t->tag[t->r + i] == TP_DBL && t->dv[t->r + i] == (double)(int)t->dv[t->r + i]);
  vf_assert_id(ok, "vector record: the line read holds exactly the values the reader expects");
  if (!ok) return false;
  for (int i = 0; i < nvalues; i++) { vec[i] = (t->tag[t->r] == TP_INT) ? t->iv[t->r] : (int)t->dv[t->r]; t->r++; }
  if (t->r < t->n) t->r++; // the line break
  return true;
}
template <> bool ASerializable::_recordReadVec<double>(std::istream&, const String&, VectorT<double>& vec, int nvalues)
{
  VfTape* t = vf_tp;
  vec.resize(nvalues);
  int m = vf_next_line(t);
  bool ok = m == nvalues;
  for (int i = 0; ok && i < m; i++) ok = t->tag[t->r + i] == TP_DBL || t->tag[t->r + i] == TP_INT;
  vf_assert_id(ok, "vector record: the line read holds exactly the values the reader expects");
  if (!ok) return false;
  for (int i = 0; i < nvalues; i++)
  {
    vec[i] = (t->tag[t->r] == TP_DBL) ? t->dv[t->r] : (double)t->iv[t->r];
    t->r++;
  }
  if (t->r < t->n) t->r++; // the line break
  return true;
}

// ---------------------------------------------------------------- oracles shared by the kernels
static void vf_tape_check_consumed(VfTape* t)
{
  vf_assert_id(t->overflow == 0, "harness: tape capacity sufficient");
  vf_skip_eol(t);
  vf_assert_id(t->r == t->n, "tape fully consumed by _deserialize");
}
static void vf_tape_check_same(VfTape* a, VfTape* b)
{
  vf_assert_id(b->overflow == 0, "harness: tape capacity sufficient");
  bool same = a->n == b->n;
  for (int i = 0; i < VF_TAPE_CAP; i++)
    if (i < a->n && i < b->n)
      same = same && a->tag[i] == b->tag[i] && a->iv[i] == b->iv[i] && a->dv[i] == b->dv[i];
  vf_assert_id(same, "serialising the reloaded object reproduces the same records");
}
