// C08.b: NeighUnique / NeighBench / NeighCell / NeighImage  _serialize -> _deserialize round trip
// (src/Neigh/Neigh{Unique,Bench,Cell,Image}.cpp + ANeigh part) through the typed tape (tape.h).
// The object loaded into is in the state of a default-constructed one, as createFromNF uses.
#include "tape.h"
#include "Neigh/NeighUnique.hpp"
#include "Neigh/NeighBench.hpp"
#include "Neigh/NeighCell.hpp"
#include "Neigh/NeighImage.hpp"
#include "Geometry/BiTargetCheckBench.hpp"
#include <new>
#ifndef VF_NDIM
#define VF_NDIM 2
#endif

// ---- space context of an ASpaceObject modelled as one integer cell (SpaceRN construction not executed)
struct VfSpace { int ndim; };
unsigned int ASpaceObject::getNDim(int) const { return (unsigned int)((const VfSpace*)_space)->ndim; }
void ASpaceObject::setNDim(int ndim) { ((VfSpace*)_space)->ndim = ndim; }
static VfSpace spA, spB;
#define VF_DEFAULT_NDIM 2 // default space of the library

// -------------------------------------------------------------------------------- NeighUnique
extern "C" void k_unique()
{
  alignas(16) static char bufA[sizeof(NeighUnique)], bufB[sizeof(NeighUnique)];
  NeighUnique* a = (NeighUnique*)bufA;
  NeighUnique* b = (NeighUnique*)bufB;
  int nd = vf_range(1, 5);
  spA.ndim = nd;
  a->_space = (const ASpace*)&spA;
  spB.ndim = VF_DEFAULT_NDIM;
  b->_space = (const ASpace*)&spB;
  vf_tape_reset(&vf_tapeA);
  vf_tape_reset(&vf_tapeB);
  vf_tp = &vf_tapeA;
  bool okw = a->NeighUnique::_serialize(VF_OS, false);
  vf_assert_id(okw, "_serialize returns true");
  bool okr = b->NeighUnique::_deserialize(VF_IS, false);
  vf_assert_id(okr, "_deserialize returns true");
  vf_tape_check_consumed(&vf_tapeA);
  if (okr)
  {
    vf_assert_id(b->getNDim() == (unsigned)nd, "space dimension agrees");
    vf_tp = &vf_tapeB;
    bool okw2 = b->NeighUnique::_serialize(VF_OS, false);
    vf_assert_id(okw2, "_serialize of the reloaded object returns true");
    vf_tape_check_same(&vf_tapeA, &vf_tapeB);
  }
  vf_witness();
}

// -------------------------------------------------------------------------------- NeighBench
extern "C" void k_bench()
{
  alignas(16) static char bufA[sizeof(NeighBench)], bufB[sizeof(NeighBench)];
  NeighBench* a = (NeighBench*)bufA;
  NeighBench* b = (NeighBench*)bufB;
  int nd = vf_range(1, 5);
  double width = vf_nondet_double();
  vf_assume(width >= 0.);
  // original: what NeighBench(flag_xvalid, width, space) stores
  spA.ndim = nd;
  a->_space = (const ASpace*)&spA;
  a->_width = width;
  a->_biPtBench = BiTargetCheckBench::create(-1, a->_width);
  // fresh: NeighBench() (width 0)
  spB.ndim = VF_DEFAULT_NDIM;
  b->_space = (const ASpace*)&spB;
  b->_width = 0.;
  b->_biPtBench = BiTargetCheckBench::create(-1, b->_width);

  vf_tape_reset(&vf_tapeA);
  vf_tape_reset(&vf_tapeB);
  vf_tp = &vf_tapeA;
  bool okw = a->NeighBench::_serialize(VF_OS, false);
  vf_assert_id(okw, "_serialize returns true");
  bool okr = b->NeighBench::_deserialize(VF_IS, false);
  vf_assert_id(okr, "_deserialize returns true");
  vf_tape_check_consumed(&vf_tapeA);
  if (okr)
  {
    vf_assert_id(b->getNDim() == (unsigned)nd, "space dimension agrees");
    vf_assert_id(b->_biPtBench->getWidth() == width, "bench checker width agrees");
#ifndef VF_EXCLUDE_BENCH_WIDTH
    vf_assert_id(b->getWidth() == a->getWidth(), "NeighBench::getWidth agrees");
#endif
    vf_tp = &vf_tapeB;
    bool okw2 = b->NeighBench::_serialize(VF_OS, false);
    vf_assert_id(okw2, "_serialize of the reloaded object returns true");
    vf_tape_check_same(&vf_tapeA, &vf_tapeB);
  }
  vf_witness();
}

// -------------------------------------------------------------------------------- NeighCell
extern "C" void k_cell()
{
  alignas(16) static char bufA[sizeof(NeighCell)], bufB[sizeof(NeighCell)];
  NeighCell* a = (NeighCell*)bufA;
  NeighCell* b = (NeighCell*)bufB;
  int nd = vf_range(1, 5);
  int nmini = vf_nondet_int();
  spA.ndim = nd;
  a->_space = (const ASpace*)&spA;
  a->_nMini = nmini;
  spB.ndim = VF_DEFAULT_NDIM;
  b->_space = (const ASpace*)&spB;
  b->_nMini = 1;

  vf_tape_reset(&vf_tapeA);
  vf_tape_reset(&vf_tapeB);
  vf_tp = &vf_tapeA;
  bool okw = a->NeighCell::_serialize(VF_OS, false);
  vf_assert_id(okw, "_serialize returns true");
  bool okr = b->NeighCell::_deserialize(VF_IS, false);
  vf_assert_id(okr, "_deserialize returns true");
  vf_tape_check_consumed(&vf_tapeA);
  if (okr)
  {
    vf_assert_id(b->getNDim() == (unsigned)nd, "space dimension agrees");
    vf_assert_id(b->getNMini() == nmini, "nmini agrees");
    vf_tp = &vf_tapeB;
    bool okw2 = b->NeighCell::_serialize(VF_OS, false);
    vf_assert_id(okw2, "_serialize of the reloaded object returns true");
    vf_tape_check_same(&vf_tapeA, &vf_tapeB);
  }
  vf_witness();
}

// -------------------------------------------------------------------------------- NeighImage
// VF_IMAGE_PRESIZED=1: the object loaded into already holds VF_NDIM radii (not what createFromNF does;
// used to decide the rest of the round trip independently of the sizing of _imageRadius)
#ifndef VF_IMAGE_PRESIZED
#define VF_IMAGE_PRESIZED 0
#endif
extern "C" void k_image()
{
  alignas(16) static char bufA[sizeof(NeighImage)], bufB[sizeof(NeighImage)];
  NeighImage* a = (NeighImage*)bufA;
  NeighImage* b = (NeighImage*)bufB;
  int skip = vf_nondet_int();
  int rad[VF_NDIM];
  for (int i = 0; i < VF_NDIM; i++) rad[i] = vf_range(0, 1 << 20);
  // original: what NeighImage(radius, skip, space) stores, radius holding one entry per space dimension
  spA.ndim = VF_NDIM;
  a->_space = (const ASpace*)&spA;
  a->_skip = skip;
  new (&a->_imageRadius) VectorInt(VF_NDIM);
  for (int i = 0; i < VF_NDIM; i++) a->_imageRadius[i] = rad[i];
  // fresh: NeighImage() (no radius, skip 0)
  spB.ndim = VF_DEFAULT_NDIM;
  b->_space = (const ASpace*)&spB;
  b->_skip = 0;
#if VF_IMAGE_PRESIZED
  new (&b->_imageRadius) VectorInt(VF_NDIM);
#else
  new (&b->_imageRadius) VectorInt();
#endif

  vf_tape_reset(&vf_tapeA);
  vf_tape_reset(&vf_tapeB);
  vf_tp = &vf_tapeA;
  bool okw = a->NeighImage::_serialize(VF_OS, false);
  vf_assert_id(okw, "_serialize returns true");
  bool okr = b->NeighImage::_deserialize(VF_IS, false);
  vf_assert_id(okr, "_deserialize returns true");
  vf_tape_check_consumed(&vf_tapeA);
  if (okr)
  {
    vf_assert_id(b->getNDim() == (unsigned)VF_NDIM, "space dimension agrees");
    vf_assert_id(b->getSkip() == skip, "skip agrees");
    bool szok = (int)b->getImageRadius().size() == VF_NDIM;
    vf_assert_id(szok, "image radius has one entry per dimension");
    if (szok)
    {
      for (int i = 0; i < VF_NDIM; i++)
        vf_assert_id(b->getImageRadius(i) == rad[i], "image radius agrees");
      vf_tp = &vf_tapeB;
      bool okw2 = b->NeighImage::_serialize(VF_OS, false);
      vf_assert_id(okw2, "_serialize of the reloaded object returns true");
      vf_tape_check_same(&vf_tapeA, &vf_tapeB);
    }
  }
  vf_witness();
}
