// C08 TAPE model of the record layer of ASerializable (include/Basic/ASerializable.hpp,
// src/Basic/ASerializable.cpp).  The text layer (15 digits, "NA", '#' comments, line breaks) is
// iostream formatting and is NOT encoded: a neutral file is the sequence of typed records the
// writers produced.  Writers push (tag, value) cells, readers pop and check the tag.
//   _recordWrite<int/double>      -> one INT / DBL cell
//   _recordWriteVec<int/double>   -> one VINT / VDBL header cell carrying the length, then the elements
//   _commentWrite                 -> counted only (readers skip comments)
//   _recordRead<int>              <- INT cell                    (anything else: mismatch)
//   _recordRead<double>           <- DBL or INT cell             (an integer token parses as a double)
//   _recordReadVec<T>(n)          <- V* header with length == n, then the n elements
// _tableWrite / _tableRead are the REAL functions (they only wrap the Vec primitives).
// The std::ostream / std::istream arguments are opaque (never dereferenced), titles are ignored.
#pragma once
#include "vf.h"
#include "Basic/ASerializable.hpp"
#include "Basic/VectorNumT.hpp"
#ifndef VF_TAPE_CAP
#define VF_TAPE_CAP 48
#endif
enum { TP_INT = 1, TP_DBL = 2, TP_VINT = 3, TP_VDBL = 4, TP_EINT = 5, TP_EDBL = 6 };
struct VfTape
{
  int n;        // cells written
  int r;        // cells consumed
  int ncomment; // comments written
  int overflow; // harness capacity exceeded (infrastructure, asserted by the kernels)
  int tag[VF_TAPE_CAP];
  int iv[VF_TAPE_CAP];
  double dv[VF_TAPE_CAP];
};
static VfTape vf_tapeA, vf_tapeB;
static VfTape* vf_tp = &vf_tapeA;
static void vf_tape_reset(VfTape* t)
{
  t->n = 0; t->r = 0; t->ncomment = 0; t->overflow = 0;
  for (int i = 0; i < VF_TAPE_CAP; i++) { t->tag[i] = 0; t->iv[i] = 0; t->dv[i] = 0.; }
}
static void vf_tape_push(int tag, int iv, double dv)
{
  VfTape* t = vf_tp;
  if (t->n >= VF_TAPE_CAP) { t->overflow = 1; return; }
  t->tag[t->n] = tag; t->iv[t->n] = iv; t->dv[t->n] = dv;
  t->n++;
}
#ifdef VF_SOLVER
// the String temporaries built from title literals are executed (inlined libstdc++ code); strlen is a plain byte loop
extern "C" size_t strlen(const char* s)
{
  size_t n = 0;
  while (s[n] != 0) n++;
  return n;
}
#endif
// opaque stream arguments
alignas(16) static char vf_osbuf[sizeof(std::ostream)];
alignas(16) static char vf_isbuf[sizeof(std::istream)];
#define VF_OS (*(std::ostream*)vf_osbuf)
#define VF_IS (*(std::istream*)vf_isbuf)

// ---------------------------------------------------------------- writers
template <> bool ASerializable::_recordWrite<int>(std::ostream&, const String&, const int& val)
{
  vf_tape_push(TP_INT, val, 0.);
  return true;
}
template <> bool ASerializable::_recordWrite<double>(std::ostream&, const String&, const double& val)
{
  vf_tape_push(TP_DBL, 0, val);
  return true;
}
template <> bool ASerializable::_recordWriteVec<int>(std::ostream&, const String&, const std::vector<int>& vec)
{
  int n = (int)vec.size();
  vf_tape_push(TP_VINT, n, 0.);
  for (int i = 0; i < n; i++) vf_tape_push(TP_EINT, vec[i], 0.);
  return true;
}
template <> bool ASerializable::_recordWriteVec<double>(std::ostream&, const String&, const std::vector<double>& vec)
{
  int n = (int)vec.size();
  vf_tape_push(TP_VDBL, n, 0.);
  for (int i = 0; i < n; i++) vf_tape_push(TP_EDBL, 0, vec[i]);
  return true;
}
bool ASerializable::_commentWrite(std::ostream&, const String&)
{
  vf_tp->ncomment++;
  return true;
}

// ---------------------------------------------------------------- readers
template <> bool ASerializable::_recordRead<int>(std::istream&, const String&, int& val)
{
  VfTape* t = vf_tp;
  val = 0;
  bool ok = t->r < t->n && t->tag[t->r] == TP_INT;
  vf_assert_id(ok, "reader consumes what writer produced");
  if (!ok) return false;
  val = t->iv[t->r];
  t->r++;
  return true;
}
template <> bool ASerializable::_recordRead<double>(std::istream&, const String&, double& val)
{
  VfTape* t = vf_tp;
  val = 0.;
  bool ok = t->r < t->n && (t->tag[t->r] == TP_DBL || t->tag[t->r] == TP_INT);
  vf_assert_id(ok, "reader consumes what writer produced");
  if (!ok) return false;
  val = (t->tag[t->r] == TP_DBL) ? t->dv[t->r] : (double)t->iv[t->r];
  t->r++;
  return true;
}
template <> bool ASerializable::_recordReadVec<int>(std::istream&, const String&, VectorT<int>& vec, int nvalues)
{
  VfTape* t = vf_tp;
  bool ok = t->r < t->n && t->tag[t->r] == TP_VINT;
  vf_assert_id(ok, "reader consumes what writer produced");
  if (!ok) return false;
  bool okn = t->iv[t->r] == nvalues;
  vf_assert_id(okn, "vector record: length expected by the reader equals length written");
  if (!okn) return false;
  t->r++;
  vec.resize(nvalues);
  for (int i = 0; i < nvalues; i++) { vec[i] = t->iv[t->r]; t->r++; }
  return true;
}
template <> bool ASerializable::_recordReadVec<double>(std::istream&, const String&, VectorT<double>& vec, int nvalues)
{
  VfTape* t = vf_tp;
  bool ok = t->r < t->n && (t->tag[t->r] == TP_VDBL || t->tag[t->r] == TP_VINT);
  vf_assert_id(ok, "reader consumes what writer produced");
  if (!ok) return false;
  bool okn = t->iv[t->r] == nvalues;
  vf_assert_id(okn, "vector record: length expected by the reader equals length written");
  if (!okn) return false;
  bool isd = t->tag[t->r] == TP_VDBL;
  t->r++;
  vec.resize(nvalues);
  for (int i = 0; i < nvalues; i++) { vec[i] = isd ? t->dv[t->r] : (double)t->iv[t->r]; t->r++; }
  return true;
}

// ---------------------------------------------------------------- oracles shared by the kernels
static void vf_tape_check_consumed(VfTape* t)
{
  vf_assert_id(t->overflow == 0, "harness: tape capacity sufficient");
  vf_assert_id(t->r == t->n, "tape fully consumed by _deserialize");
}
static void vf_tape_check_same(VfTape* a, VfTape* b)
{
  vf_assert_id(b->overflow == 0, "harness: tape capacity sufficient");
  bool same = a->n == b->n;
  for (int i = 0; i < VF_TAPE_CAP; i++)
    if (i < a->n && i < b->n)
      same = same && a->tag[i] == b->tag[i] && a->iv[i] == b->iv[i] && a->dv[i] == b->dv[i];
  vf_assert_id(same, "serialising the reloaded object reproduces the same records");
  vf_assert_id(a->ncomment == b->ncomment, "serialising the reloaded object reproduces the same comments");
}
