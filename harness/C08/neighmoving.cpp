// C08.a: NeighMoving::_serialize / _deserialize (+ ANeigh part), src/Neigh/NeighMoving.cpp, src/Neigh/ANeigh.cpp
// round trip through the typed tape (tape.h).
//   VF_NDIM  space dimension (= number of anisotropy coefficients)
//   VF_MODE  0: isotropic (no coefficients)   1: anisotropic, no angles   2: anisotropic with rotation angles (first angle non-zero)
// The distance checker of the original object is built by the REAL BiTargetCheckDistance::create(radius,
// coeffs, angles), exactly as the NeighMoving constructor does.
#include "tape.h"
#include "Neigh/NeighMoving.hpp"
#include "Geometry/BiTargetCheckDistance.hpp"
#ifndef VF_NDIM
#define VF_NDIM 2
#endif
#ifndef VF_MODE
#define VF_MODE 2
#endif

// ---- space context of an ASpaceObject modelled as one integer cell (SpaceRN construction not executed)
struct VfSpace { int ndim; };
unsigned int ASpaceObject::getNDim(int) const { return (unsigned int)((const VfSpace*)_space)->ndim; }
void ASpaceObject::setNDim(int ndim) { ((VfSpace*)_space)->ndim = ndim; }

// arbitrary strictly positive real (every positive value is produced)
static double vf_positive()
{
  double r = vf_nondet_double();
  return r > 0. ? r : (r < 0. ? -r : 1.);
}

alignas(16) static char bufA[sizeof(NeighMoving)];
alignas(16) static char bufB[sizeof(NeighMoving)];
static VfSpace spA, spB;

extern "C" void k_neighmoving_roundtrip()
{
  NeighMoving* a = (NeighMoving*)bufA;
  NeighMoving* b = (NeighMoving*)bufB;
  // ---- original: what NeighMoving(flag_xvalid, nmaxi, radius, nmini, nsect, nsmax, coeffs, angles, space) stores
  spA.ndim = VF_NDIM;
  a->_space = (const ASpace*)&spA;
  a->_nMini = vf_nondet_int();
  a->_nMaxi = vf_nondet_int();
  a->_nSect = vf_range(1, 2147483647); // number of angular sectors (default 1)
  a->_nSMax = vf_nondet_int();
  double radius = vf_positive(); // maximum isotropic distance
#ifdef VF_EXCLUDE_S16
  // known finding S16 excluded: reload is only claimed for radius 1 without rotation
  vf_assume(radius == 1.);
#endif
  VectorDouble coeffs, angles;
#if VF_MODE >= 1
  coeffs.resize(VF_NDIM);
  for (int i = 0; i < VF_NDIM; i++)
  {
    coeffs[i] = vf_positive(); // anisotropy ratios
  }
#endif
#if VF_MODE >= 2 && !defined(VF_EXCLUDE_S16)
  angles.resize(VF_NDIM);
  for (int i = 0; i < VF_NDIM; i++) angles[i] = vf_nondet_double();
  vf_assume(angles[0] != 0.); // a rotation is present (all-zero angles behave as VF_MODE 1)
#endif
  a->_biPtDist = BiTargetCheckDistance::create(radius, coeffs, angles);

  // ---- fresh object to load into (as a default-constructed one: isotropic checker)
  spB.ndim = vf_nondet_int();
  b->_space = (const ASpace*)&spB;
  b->_nMini = vf_nondet_int();
  b->_nMaxi = vf_nondet_int();
  b->_nSect = vf_nondet_int();
  b->_nSMax = vf_nondet_int();
  b->_biPtDist = BiTargetCheckDistance::create();

  // ---- (1) save, reload
  vf_tape_reset(&vf_tapeA);
  vf_tape_reset(&vf_tapeB);
  vf_tp = &vf_tapeA;
  bool okw = a->NeighMoving::_serialize(VF_OS, false);
  vf_assert_id(okw, "_serialize returns true");
  bool okr = b->NeighMoving::_deserialize(VF_IS, false);
  vf_assert_id(okr, "_deserialize returns true");
  vf_tape_check_consumed(&vf_tapeA);

  // ---- (2) defining getters
  if (okr)
  {
    vf_assert_id(b->getNDim() == a->getNDim(), "space dimension agrees");
    vf_assert_id(b->getNMini() == a->getNMini(), "nmini agrees");
    vf_assert_id(b->getNMaxi() == a->getNMaxi(), "nmaxi agrees");
    vf_assert_id(b->getNSect() == a->getNSect(), "nsect agrees");
    vf_assert_id(b->getNSMax() == a->getNSMax(), "nsmax agrees");
    vf_assert_id(b->getFlagSector() == a->getFlagSector(), "sector flag agrees");
    vf_assert_id(b->getRadius() == a->getRadius(), "radius agrees");
    vf_assert_id(b->getFlagAniso() == a->getFlagAniso(), "anisotropy flag agrees");
    vf_assert_id(b->getFlagRotation() == a->getFlagRotation(), "rotation flag agrees");
    int nda = a->getBiPtDist()->getNDim();
    int ndb = b->getBiPtDist()->getNDim();
    vf_assert_id(nda == ndb, "checker dimension agrees");
    if (nda == ndb && (int)b->getAnisoCoeffs().size() == nda && (int)b->getAnisoRotMats().size() == nda * nda)
    {
      for (int i = 0; i < nda; i++)
        vf_assert_id(b->getAnisoCoeff(i) == a->getAnisoCoeff(i), "anisotropy coefficients agree");
      for (int i = 0; i < nda * nda; i++)
        vf_assert_id(b->getAnisoRotMats()[i] == a->getAnisoRotMats()[i], "anisotropy rotation matrix agrees");
    }
    else
      vf_assert_id(false, "anisotropy arrays have the checker dimension");

    // ---- (3) writing it again reproduces the same file
    vf_tp = &vf_tapeB;
    bool okw2 = b->NeighMoving::_serialize(VF_OS, false);
    vf_assert_id(okw2, "_serialize of the reloaded object returns true");
    vf_tape_check_same(&vf_tapeA, &vf_tapeB);
  }
  vf_witness();
}
