// C08.e / C08.d: further _serialize -> _deserialize round trips through the typed tape (tape.h).
//   k_faults     Faults (src/Faults/Faults.cpp) = a count + VF_NF PolyLine2D records of VF_NV vertices each
//   k_meshturbo  MeshETurbo header (src/Mesh/MeshETurbo.cpp): space dimension, NX / DX / X0 / rotation matrix of the
//                internal grid, polarisation flag, storing mode of the indirections, active counts; no mask on meshes
//                or nodes.  The original is built by the real initFromGridByMatrix (unrotated grid: identity matrix).
// Objects are built by their real constructors; the object loaded into is default-constructed, as createFromNF does.
#include "tape.h"
#include "Faults/Faults.hpp"
#include "Basic/PolyLine2D.hpp"
#include "Mesh/MeshETurbo.hpp"
#ifndef VF_NV
#define VF_NV 2
#endif
#ifndef VF_NF
#define VF_NF 2
#endif
#ifndef VF_NDIM
#define VF_NDIM 2
#endif
#ifndef VF_NXMAX
#define VF_NXMAX 1024
#endif
void messerr(const char*, ...) {}

extern "C" void k_faults()
{
  double xs[VF_NF][VF_NV], ys[VF_NF][VF_NV];
  Faults a;
  for (int k = 0; k < VF_NF; k++)
  {
    VectorDouble x(VF_NV), y(VF_NV);
    for (int i = 0; i < VF_NV; i++)
    {
      xs[k][i] = vf_nondet_double(); ys[k][i] = vf_nondet_double();
      x[i] = xs[k][i]; y[i] = ys[k][i];
    }
    PolyLine2D line(x, y);
    a.addFault(line);
  }
  Faults b;
  vf_tape_reset(&vf_tapeA);
  vf_tape_reset(&vf_tapeB);
  vf_tp = &vf_tapeA;
  bool okw = a.Faults::_serialize(VF_OS, false);
  vf_assert_id(okw, "_serialize returns true");
  bool okr = b.Faults::_deserialize(VF_IS, false);
  vf_assert_id(okr, "_deserialize returns true");
  vf_tape_check_consumed(&vf_tapeA);
  if (okr)
  {
    bool nok = b.getNFaults() == VF_NF;
    vf_assert_id(nok, "number of faults agrees");
    if (nok)
      for (int k = 0; k < VF_NF; k++)
      {
        const PolyLine2D& e = b.getFault(k);
        bool pok = e.getNPoints() == VF_NV;
        vf_assert_id(pok, "number of points agrees");
        if (pok)
          for (int i = 0; i < VF_NV; i++)
            vf_assert_id(e.getX(i) == xs[k][i] && e.getY(i) == ys[k][i], "vertex coordinates agree");
      }
    vf_tp = &vf_tapeB;
    bool okw2 = b.Faults::_serialize(VF_OS, false);
    vf_assert_id(okw2, "_serialize of the reloaded object returns true");
    vf_tape_check_same(&vf_tapeA, &vf_tapeB);
  }
  vf_witness();
}

extern "C" void k_meshturbo()
{
  int nx[VF_NDIM];
  double x0[VF_NDIM], dx[VF_NDIM];
  VectorInt vnx(VF_NDIM);
  VectorDouble vx0(VF_NDIM), vdx(VF_NDIM), rot(VF_NDIM * VF_NDIM);
  for (int i = 0; i < VF_NDIM; i++)
  {
    nx[i] = vf_range(2, VF_NXMAX); // the number of meshes (simplices per cell x cells) must fit an int
    x0[i] = vf_nondet_double();
    { double r = vf_nondet_double(); dx[i] = r > 0. ? r : (r < 0. ? -r : 1.); } // arbitrary mesh > 0
    vnx[i] = nx[i]; vx0[i] = x0[i]; vdx[i] = dx[i];
    for (int j = 0; j < VF_NDIM; j++) rot[i * VF_NDIM + j] = (i == j) ? 1. : 0.;
  }
  bool pol = vf_nondet_bool();
  int mode = vf_range(0, 1);
  MeshETurbo a(mode);
  int err = a.initFromGridByMatrix(vnx, vdx, vx0, rot, VectorDouble(), pol, false);
  vf_assert_id(err == 0, "harness: original mesh accepted by initFromGridByMatrix");
  MeshETurbo b;

  vf_tape_reset(&vf_tapeA);
  vf_tape_reset(&vf_tapeB);
  vf_tp = &vf_tapeA;
  bool okw = a.MeshETurbo::_serialize(VF_OS, false);
  vf_assert_id(okw, "_serialize returns true");
  bool okr = b.MeshETurbo::_deserialize(VF_IS, false);
  vf_assert_id(okr, "_deserialize returns true");
  vf_tape_check_consumed(&vf_tapeA);
  if (okr)
  {
    bool dok = b.getNDim() == VF_NDIM && b.getGrid().getNDim() == VF_NDIM;
    vf_assert_id(dok, "space dimension agrees");
    if (dok)
      for (int i = 0; i < VF_NDIM; i++)
      {
        vf_assert_id(b.getGrid().getNX(i) == nx[i], "number of nodes agrees");
        vf_assert_id(b.getGrid().getX0(i) == x0[i], "origin agrees");
        vf_assert_id(b.getGrid().getDX(i) == dx[i], "mesh agrees");
        vf_assert_id(b.getExtendMin(i) == a.getExtendMin(i) && b.getExtendMax(i) == a.getExtendMax(i), "extension agrees");
      }
    vf_assert_id(b.getGrid().isRotated() == a.getGrid().isRotated(), "rotation flag agrees");
    vf_assert_id(b._isPolarized == pol, "polarisation flag agrees");
    vf_assert_id(b._meshIndirect.getMode() == mode && b._gridIndirect.getMode() == mode, "storing mode agrees");
    vf_assert_id(b.getNMeshes() == a.getNMeshes() && b.getNApices() == a.getNApices(), "numbers of meshes and of apices agree");
    vf_assert_id(b.getNApexPerMesh() == a.getNApexPerMesh(), "number of apices per mesh agrees");
    vf_tp = &vf_tapeB;
    bool okw2 = b.MeshETurbo::_serialize(VF_OS, false);
    vf_assert_id(okw2, "_serialize of the reloaded object returns true");
    vf_tape_check_same(&vf_tapeA, &vf_tapeB);
  }
  vf_witness();
}
