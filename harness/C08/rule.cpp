// C08.e: Rule::_serialize -> Rule::_deserialize (src/LithoRule/Rule.cpp with Node, src/LithoRule/Node.cpp): the lithotype
// rule is a binary tree of threshold nodes (along Y1 / Y2) with facies leaves, written as 6 integers per node by the
// recursive _ruleDefine and rebuilt by setMainNodeFromNodNames(VectorInt).  Typed tape of tape.h.
//   VF_SHAPE 0: S(F,F)   1: S(F,T(F,F))   2: S(T(F,F),F)   3: S(T(F,F),T(F,F))      (S: threshold on Y1, T: on Y2)
// The facies numbers are a symbolic permutation of 1..nfac, rho an arbitrary real.  Rule objects are raw storage holding
// the four fields of the class (the constructor copies the static object ERule::STD, which only static constructors fill);
// nodes are built by the real Node(name, orient, facies) constructor.
#include "tape.h"
#include "LithoRule/Rule.hpp"
#include "LithoRule/Node.hpp"
#include "Enum/ERule.hpp"
#ifndef VF_SHAPE
#define VF_SHAPE 1
#endif
#define VF_NFAC (VF_SHAPE == 0 ? 2 : VF_SHAPE == 3 ? 4 : 3)
#define T_IDLE 0
#define T_Y1 1
#define T_Y2 2
void messerr(const char*, ...) {}
void message(const char*, ...) {}

// ---- environment of the reader (solver build): node names are composed through a std::stringstream from the static
// table 'symbol' (a VectorString filled by a static constructor); names are not part of the file format
struct VfEnumRaw { size_t klen; const char* kptr; int value; int pad; size_t dlen; const char* dptr; };
static_assert(sizeof(VfEnumRaw) == sizeof(ERule), "ERule layout");
static VfEnumRaw vf_rule_cell;
const ERule& ERule::fromValue(int value)
{
  vf_rule_cell.value = value; // (the library returns the default for an unknown value; the writer only produces known ones)
  return *(const ERule*)&vf_rule_cell;
}
#ifdef VF_SOLVER
struct VfStrRep { char* p; size_t len; char buf[16]; };
static VfStrRep vf_empty_name;
template <> const String& VectorT<String>::operator[](size_type) const
{
  vf_empty_name.p = vf_empty_name.buf; vf_empty_name.len = 0; vf_empty_name.buf[0] = 0;
  return *(const String*)&vf_empty_name;
}
extern "C" {
void vf_ss_ctor(void*) asm("_ZNSt7__cxx1118basic_stringstreamIcSt11char_traitsIcESaIcEEC1Ev");
void vf_ss_ctor(void*) {}
void vf_ss_dtor(void*) asm("_ZNSt7__cxx1118basic_stringstreamIcSt11char_traitsIcESaIcEED1Ev");
void vf_ss_dtor(void*) {}
void* vf_os_str(void* os, const void*) asm("_ZStlsIcSt11char_traitsIcESaIcEERSt13basic_ostreamIT_T0_ES7_RKNSt7__cxx1112basic_stringIS4_S5_T1_EE");
void* vf_os_str(void* os, const void*) { return os; }
void* vf_os_int(void* os, int) asm("_ZNSolsEi");
void* vf_os_int(void* os, int) { return os; }
// (C++20: str() const& of the stream forwards to str() const& of its buffer)
void vf_ss_str(VfStrRep* ret, const void*) asm("_ZNKRSt7__cxx1118basic_stringstreamIcSt11char_traitsIcESaIcEE3strEv");
void vf_ss_str(VfStrRep* ret, const void*) { ret->p = ret->buf; ret->len = 0; ret->buf[0] = 0; }
void vf_sb_str(VfStrRep* ret, const void*) asm("_ZNKRSt7__cxx1115basic_stringbufIcSt11char_traitsIcESaIcEE3strEv");
void vf_sb_str(VfStrRep* ret, const void*) { ret->p = ret->buf; ret->len = 0; ret->buf[0] = 0; }
}
#endif

alignas(16) static char bufA[sizeof(Rule)];
alignas(16) static char bufB[sizeof(Rule)];
static int fac[4];

static Node* leaf(int k) { return new Node("F", T_IDLE, fac[k]); }
static Node* thr(const char* name, int orient, Node* r1, Node* r2)
{
  Node* n = new Node(name, orient, 0);
  n->setR1(r1);
  n->setR2(r2);
  return n;
}
// structural comparison of the reloaded tree with the expected shape
static bool same_leaf(const Node* n, int k)
{
  return n != nullptr && n->getOrient() == T_IDLE && n->getFacies() == fac[k] && n->getR1() == nullptr && n->getR2() == nullptr;
}

extern "C" void k_rule()
{
  double rho = vf_nondet_double();
  int mode = vf_range(0, 2); // ERule STD / SHIFT / SHADOW: only the value travels
  for (int k = 0; k < 4; k++) fac[k] = vf_range(1, VF_NFAC);
  for (int k = 0; k < VF_NFAC; k++)
    for (int l = 0; l < k; l++) vf_assume(fac[k] != fac[l]); // the facies are numbered 1..nfac, each used once

  Rule* a = (Rule*)bufA;
  Rule* b = (Rule*)bufB;
  a->_modeRule._value = mode; a->_flagProp = 0; a->_rho = rho;
  b->_modeRule._value = -7;   b->_flagProp = 0; b->_rho = 0.; b->_mainNode = nullptr;
#if VF_SHAPE == 0
  a->_mainNode = thr("S", T_Y1, leaf(0), leaf(1));
#elif VF_SHAPE == 1
  a->_mainNode = thr("S", T_Y1, leaf(0), thr("T", T_Y2, leaf(1), leaf(2)));
#elif VF_SHAPE == 2
  a->_mainNode = thr("S", T_Y1, thr("T", T_Y2, leaf(0), leaf(1)), leaf(2));
#else
  a->_mainNode = thr("S", T_Y1, thr("T", T_Y2, leaf(0), leaf(1)), thr("T", T_Y2, leaf(2), leaf(3)));
#endif

  vf_tape_reset(&vf_tapeA);
  vf_tape_reset(&vf_tapeB);
  vf_tp = &vf_tapeA;
  bool okw = a->Rule::_serialize(VF_OS, false);
  vf_assert_id(okw, "_serialize returns true");
  bool okr = b->Rule::_deserialize(VF_IS, false);
  vf_assert_id(okr, "_deserialize returns true");
  vf_tape_check_consumed(&vf_tapeA);
  if (okr)
  {
    vf_assert_id(b->getModeRule().getValue() == mode && b->getRho() == rho, "rule type and correlation agree");
    const Node* m = b->getMainNode();
    bool root = m != nullptr && m->getOrient() == T_Y1 && m->getR1() != nullptr && m->getR2() != nullptr;
    vf_assert_id(root, "main node is a threshold on Y1 with two children");
    if (root)
    {
      const Node* l = m->getR1();
      const Node* r = m->getR2();
#if VF_SHAPE == 0
      vf_assert_id(same_leaf(l, 0) && same_leaf(r, 1), "tree of the reloaded rule agrees");
#elif VF_SHAPE == 1
      vf_assert_id(same_leaf(l, 0) && r->getOrient() == T_Y2 && same_leaf(r->getR1(), 1) && same_leaf(r->getR2(), 2),
                   "tree of the reloaded rule agrees");
#elif VF_SHAPE == 2
      vf_assert_id(l->getOrient() == T_Y2 && same_leaf(l->getR1(), 0) && same_leaf(l->getR2(), 1) && same_leaf(r, 2),
                   "tree of the reloaded rule agrees");
#else
      vf_assert_id(l->getOrient() == T_Y2 && same_leaf(l->getR1(), 0) && same_leaf(l->getR2(), 1) &&
                   r->getOrient() == T_Y2 && same_leaf(r->getR1(), 2) && same_leaf(r->getR2(), 3),
                   "tree of the reloaded rule agrees");
#endif
    }
    if (m != nullptr)
    {
      vf_tp = &vf_tapeB;
      bool okw2 = b->Rule::_serialize(VF_OS, false);
      vf_assert_id(okw2, "_serialize of the reloaded object returns true");
      vf_tape_check_same(&vf_tapeA, &vf_tapeB);
    }
  }
  vf_witness();
}
