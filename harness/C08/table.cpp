// C08.d (Table): Table::_serialize -> Table::_deserialize round trip through the typed tape (src/Matrix/Table.cpp).
// The table is built by its real constructor (MatrixRectangular storage) and filled through setValue; the object
// loaded into is default-constructed, as createFromNF does.   VF_NR x VF_NC values.
#include "tape.h"
#include "Matrix/Table.hpp"
#ifndef VF_NR
#define VF_NR 2
#endif
#ifndef VF_NC
#define VF_NC 3
#endif
extern "C" void k_table()
{
  double v[VF_NR][VF_NC];
  Table a(VF_NR, VF_NC);
  for (int i = 0; i < VF_NR; i++)
    for (int j = 0; j < VF_NC; j++)
    {
      v[i][j] = vf_nondet_double();
      a.setValue(i, j, v[i][j]);
    }
  Table b;
  vf_tape_reset(&vf_tapeA);
  vf_tape_reset(&vf_tapeB);
  vf_tp = &vf_tapeA;
  bool okw = a.Table::_serialize(VF_OS, false);
  vf_assert_id(okw, "_serialize returns true");
  bool okr = b.Table::_deserialize(VF_IS, false);
  vf_assert_id(okr, "_deserialize returns true");
  vf_tape_check_consumed(&vf_tapeA);
  if (okr)
  {
    bool sok = b.getNRows() == VF_NR && b.getNCols() == VF_NC;
    vf_assert_id(sok, "table shape agrees");
    if (sok)
      for (int i = 0; i < VF_NR; i++)
        for (int j = 0; j < VF_NC; j++)
          vf_assert_id(b.getValue(i, j) == v[i][j], "table values agree");
    vf_tp = &vf_tapeB;
    bool okw2 = b.Table::_serialize(VF_OS, false);
    vf_assert_id(okw2, "_serialize of the reloaded object returns true");
    vf_tape_check_same(&vf_tapeA, &vf_tapeB);
  }
  vf_witness();
}
