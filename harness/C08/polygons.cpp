// C08.c: PolyLine2D / PolyElem / Polygons  _serialize -> _deserialize round trip through the typed tape
// (src/Basic/PolyLine2D.cpp, src/Polygon/PolyElem.cpp, src/Polygon/Polygons.cpp).  Objects are built by their
// real constructors; the object loaded into is default-constructed, as createFromNF does.
//   VF_NV    vertices per line / element (>= 3: Polygons::addPolyElem drops shorter elements)
//   VF_NPOL  elements of the polygon set
#include "tape.h"
#include "Basic/PolyLine2D.hpp"
#include "Polygon/PolyElem.hpp"
#include "Polygon/Polygons.hpp"
#ifndef VF_NV
#define VF_NV 3
#endif
#ifndef VF_NPOL
#define VF_NPOL 2
#endif

extern "C" void k_polyline()
{
  double xs[VF_NV], ys[VF_NV];
  VectorDouble x(VF_NV), y(VF_NV);
  for (int i = 0; i < VF_NV; i++)
  {
    xs[i] = vf_nondet_double(); ys[i] = vf_nondet_double();
    x[i] = xs[i]; y[i] = ys[i];
  }
  PolyLine2D a(x, y);
  PolyLine2D b;
  vf_tape_reset(&vf_tapeA);
  vf_tape_reset(&vf_tapeB);
  vf_tp = &vf_tapeA;
  bool okw = a.PolyLine2D::_serialize(VF_OS, false);
  vf_assert_id(okw, "_serialize returns true");
  bool okr = b.PolyLine2D::_deserialize(VF_IS, false);
  vf_assert_id(okr, "_deserialize returns true");
  vf_tape_check_consumed(&vf_tapeA);
  if (okr)
  {
    bool nok = b.getNPoints() == VF_NV;
    vf_assert_id(nok, "number of points agrees");
    if (nok)
      for (int i = 0; i < VF_NV; i++)
        vf_assert_id(b.getX(i) == xs[i] && b.getY(i) == ys[i], "vertex coordinates agree");
    vf_tp = &vf_tapeB;
    bool okw2 = b.PolyLine2D::_serialize(VF_OS, false);
    vf_assert_id(okw2, "_serialize of the reloaded object returns true");
    vf_tape_check_same(&vf_tapeA, &vf_tapeB);
  }
  vf_witness();
}

extern "C" void k_polyelem()
{
  double xs[VF_NV], ys[VF_NV];
  VectorDouble x(VF_NV), y(VF_NV);
  for (int i = 0; i < VF_NV; i++)
  {
    xs[i] = vf_nondet_double(); ys[i] = vf_nondet_double();
    x[i] = xs[i]; y[i] = ys[i];
  }
  double zmin = vf_nondet_double(), zmax = vf_nondet_double(); // TEST (absent limit) is one of the values
  PolyElem a(x, y, zmin, zmax);
  PolyElem b;
  vf_tape_reset(&vf_tapeA);
  vf_tape_reset(&vf_tapeB);
  vf_tp = &vf_tapeA;
  bool okw = a.PolyElem::_serialize(VF_OS, false);
  vf_assert_id(okw, "_serialize returns true");
  bool okr = b.PolyElem::_deserialize(VF_IS, false);
  vf_assert_id(okr, "_deserialize returns true");
  vf_tape_check_consumed(&vf_tapeA);
  if (okr)
  {
    vf_assert_id(b.getZmin() == zmin && b.getZmax() == zmax, "vertical limits agree");
    bool nok = b.getNPoints() == VF_NV;
    vf_assert_id(nok, "number of points agrees");
    if (nok)
      for (int i = 0; i < VF_NV; i++)
        vf_assert_id(b.getX(i) == xs[i] && b.getY(i) == ys[i], "vertex coordinates agree");
    vf_tp = &vf_tapeB;
    bool okw2 = b.PolyElem::_serialize(VF_OS, false);
    vf_assert_id(okw2, "_serialize of the reloaded object returns true");
    vf_tape_check_same(&vf_tapeA, &vf_tapeB);
  }
  vf_witness();
}

extern "C" void k_polygons()
{
  double xs[VF_NPOL][VF_NV], ys[VF_NPOL][VF_NV], zmin[VF_NPOL], zmax[VF_NPOL];
  Polygons a;
  for (int k = 0; k < VF_NPOL; k++)
  {
    VectorDouble x(VF_NV), y(VF_NV);
    for (int i = 0; i < VF_NV; i++)
    {
      xs[k][i] = vf_nondet_double(); ys[k][i] = vf_nondet_double();
      x[i] = xs[k][i]; y[i] = ys[k][i];
    }
    zmin[k] = vf_nondet_double(); zmax[k] = vf_nondet_double();
    PolyElem e(x, y, zmin[k], zmax[k]);
    a.addPolyElem(e);
  }
  Polygons b;
  vf_tape_reset(&vf_tapeA);
  vf_tape_reset(&vf_tapeB);
  vf_tp = &vf_tapeA;
  bool okw = a.Polygons::_serialize(VF_OS, false);
  vf_assert_id(okw, "_serialize returns true");
  bool okr = b.Polygons::_deserialize(VF_IS, false);
  vf_assert_id(okr, "_deserialize returns true");
  vf_tape_check_consumed(&vf_tapeA);
  if (okr)
  {
    bool nok = b.getPolyElemNumber() == VF_NPOL;
    vf_assert_id(nok, "number of elements agrees");
    if (nok)
      for (int k = 0; k < VF_NPOL; k++)
      {
        const PolyElem& e = b.getPolyElems()[k];
        vf_assert_id(e.getZmin() == zmin[k] && e.getZmax() == zmax[k], "vertical limits agree");
        bool pok = e.getNPoints() == VF_NV;
        vf_assert_id(pok, "number of points agrees");
        if (pok)
          for (int i = 0; i < VF_NV; i++)
            vf_assert_id(e.getX(i) == xs[k][i] && e.getY(i) == ys[k][i], "vertex coordinates agree");
      }
    vf_tp = &vf_tapeB;
    bool okw2 = b.Polygons::_serialize(VF_OS, false);
    vf_assert_id(okw2, "_serialize of the reloaded object returns true");
    vf_tape_check_same(&vf_tapeA, &vf_tapeB);
  }
  vf_witness();
}
