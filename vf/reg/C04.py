from kernels import K

# ---------------------------------------------------------------- C04
# C04.c  neighbourhood memo: the condition under which KrigingSystem reuses the LHS inverse (shared with C10.e)
_NEIGH_TUS = ['src/Neigh/ANeigh.cpp', 'src/Space/ASpaceObject.cpp', 'src/Basic/ASerializable.cpp', 'src/Basic/AStringable.cpp', 'src/Tree/Ball.cpp']
_NEIGH_STUBS = ['TNeigh::getNeigh (test subclass of ANeigh): returns the arbitrary rank list of the scenario', 'TNeigh::hasChanged: arbitrary answer',
                'TNeigh::getMaxSampleNumber: 0 (not called)', 'Db::isSampleIndexValid: arbitrary answer (asserts only on valid targets)',
                'ASpaceObject(const ASpace*), ~ASpaceObject: no default-space cloning', 'Ball::Ball(data,...): no tree built', 'messageAbort: empty (not reached)',
                'memcmp (solver build): int-wise loop, only its zero/non-zero outcome is used (std::equal in operator== of std::vector<int>)']
_NEIGH_ASSUME = ['pre-state memo is sorted (representation invariant: _checkUnchanged stores a sorted copy, reset/setIsChanged the empty vector)',
                 '_rankColCok empty (no collocated target appended to the returned ranks)', 'Db objects are raw storage, never dereferenced (isSampleIndexValid overridden)']
K('C04.c', property='C04', engine='symex', harness='C04/neigh.cpp', entries=['k_select', 'k_reset'], tus=_NEIGH_TUS,
  defines={'quick': {'VF_M': 3, 'VF_N': 3}, 'thorough': {'VF_M': 4, 'VF_N': 4}},
  bounds={'quick': 'memo length 0..3 and getNeigh result length 0..3 (all 16 combinations), rank values / target rank / previous target arbitrary ints, hasChanged and previous flag arbitrary',
          'thorough': 'lengths 0..4'},
  timeout_ms={'quick': 60000, 'thorough': 600000}, validate={'quick': 10, 'thorough': 30},
  what='ANeigh::select, _isSameTarget, _checkUnchanged, reset, setIsChanged: isUnchanged() after select only if the returned ranks equal the previous memo as a set; '
       'the memo after select is the returned set (sorted); reset/setIsChanged empty the memo and clear the flag',
  out='collocated option (_updateColCok appends -1); attach() (dynamic_cast, ball tree); what getNeigh of the concrete neighbourhoods returns (C06); invalid target ranks',
  assumptions=_NEIGH_ASSUME, stubs=_NEIGH_STUBS)

# C04.b  KrigingCalcul lazy cache (same harness and oracle as C10.a, constants in _kcalc_common.py): after a setter the lazy
# calculator recomputes exactly what the plain one would
import importlib.util as _ilu, os as _os
_sp = _ilu.spec_from_file_location('reg_kcalc_common', _os.path.join(_os.path.dirname(_os.path.abspath(__file__)), '_kcalc_common.py'))
_kc = _ilu.module_from_spec(_sp)
_sp.loader.exec_module(_kc)
K('C04.b', property='C04', engine='symex', harness='C10/kcalc.cpp', entries=_kc._KC_ENTRIES, tus=_kc._KC_TUS,
  bounds=_kc._KC_BOUNDS, timeout_ms={'quick': 60000, 'thorough': 600000}, validate={'quick': 4, 'thorough': 20},
  what=_kc._KC_WHAT, out=_kc._KC_OUT, assumptions=_kc._KC_ASSUME, stubs=_kc._KC_STUBS)
