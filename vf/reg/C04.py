from kernels import K

# ---------------------------------------------------------------- C04
# C04.c  neighbourhood memo: the condition under which KrigingSystem reuses the LHS inverse (shared with C10.e)
_NEIGH_TUS = ['src/Neigh/ANeigh.cpp', 'src/Space/ASpaceObject.cpp', 'src/Basic/ASerializable.cpp', 'src/Basic/AStringable.cpp', 'src/Tree/Ball.cpp']
_NEIGH_STUBS = ['TNeigh::getNeigh (test subclass of ANeigh): returns the arbitrary rank list of the scenario', 'TNeigh::hasChanged: arbitrary answer',
                'TNeigh::getMaxSampleNumber: 0 (not called)', 'Db::isSampleIndexValid: arbitrary answer (asserts only on valid targets)',
                'ASpaceObject(const ASpace*), ~ASpaceObject: no default-space cloning', 'Ball::Ball(data,...): no tree built', 'messageAbort: empty (not reached)',
                'memcmp (solver build): int-wise loop, only its zero/non-zero outcome is used (std::equal in operator== of std::vector<int>)']
_NEIGH_ASSUME = ['pre-state memo is sorted (representation invariant: _checkUnchanged stores a sorted copy, reset/setIsChanged the empty vector)',
                 '_rankColCok empty (no collocated target appended to the returned ranks)', 'Db objects are raw storage, never dereferenced (isSampleIndexValid overridden)']
K('C04.c', property='C04', engine='symex', harness='C04/neigh.cpp', entries=['k_select', 'k_reset'], tus=_NEIGH_TUS,
  defines={'quick': {'VF_M': 3, 'VF_N': 3}, 'thorough': {'VF_M': 4, 'VF_N': 4}},
  bounds={'quick': 'memo length 0..3 and getNeigh result length 0..3 (all 16 combinations), rank values / target rank / previous target arbitrary ints, hasChanged and previous flag arbitrary',
          'thorough': 'lengths 0..4'},
  timeout_ms={'quick': 60000, 'thorough': 600000}, validate={'quick': 10, 'thorough': 30},
  what='ANeigh::select, _isSameTarget, _checkUnchanged, reset, setIsChanged: isUnchanged() after select only if the returned ranks equal the previous memo as a set; '
       'the memo after select is the returned set (sorted); reset/setIsChanged empty the memo and clear the flag',
  out='collocated option (_updateColCok appends -1); attach() (dynamic_cast, ball tree); what getNeigh of the concrete neighbourhoods returns (C06); invalid target ranks',
  assumptions=_NEIGH_ASSUME, stubs=_NEIGH_STUBS)

# C04.b  KrigingCalcul lazy cache (same harness and oracle as C10.a, constants in _kcalc_common.py): after a setter the lazy
# calculator recomputes exactly what the plain one would
import importlib.util as _ilu, os as _os
_sp = _ilu.spec_from_file_location('reg_kcalc_common', _os.path.join(_os.path.dirname(_os.path.abspath(__file__)), '_kcalc_common.py'))
_kc = _ilu.module_from_spec(_sp)
_sp.loader.exec_module(_kc)
K('C04.b', property='C04', engine='symex', harness='C10/kcalc.cpp', entries=_kc._KC_ENTRIES, tus=_kc._KC_TUS,
  bounds=_kc._KC_BOUNDS, timeout_ms={'quick': 60000, 'thorough': 600000}, validate={'quick': 4, 'thorough': 20},
  what=_kc._KC_WHAT, out=_kc._KC_OUT, assumptions=_kc._KC_ASSUME, stubs=_kc._KC_STUBS)

# C04.d  block kriging with one discretisation point (zero shift) vs point kriging: covariance part of the right-hand side
# (raw KrigingSystem set-up and callback tables of harness/C01/ks_common.h; the covariance callbacks are this harness's own)
_KS_TUS = ['src/Estimation/KrigingSystem.cpp', 'src/Basic/Utilities.cpp', 'src/Basic/VectorHelper.cpp', 'src/Enum/Enums.cpp',
           'src/Matrix/AMatrix.cpp', 'src/Matrix/AMatrixDense.cpp', 'src/Matrix/AMatrixSquare.cpp', 'src/Matrix/MatrixSquareSymmetric.cpp',
           'src/Matrix/MatrixRectangular.cpp', 'src/Matrix/MatrixSquareGeneral.cpp', 'src/Basic/AStringable.cpp', 'src/Basic/ASerializable.cpp']
_SP_TUS = ['src/Space/SpacePoint.cpp', 'src/Space/ASpaceObject.cpp', 'src/Space/ASpace.cpp', 'src/Space/SpaceRN.cpp']
for _ne, _nv, _nf, _tiers in ((2, 1, 0, ('quick', 'thorough')), (2, 2, 1, ('quick', 'thorough')), (3, 1, 1, ('quick', 'thorough')), (3, 2, 2, ('thorough',))):
    K('C04.d.%d%d%d' % (_ne, _nv, _nf), property='C04', engine='symex', harness='C04/block.cpp', entry='k_block_point', tus=_KS_TUS + _SP_TUS, tiers=_tiers,
      defines={'all': {'VF_NECH': _ne, 'VF_NVAR': _nv, 'VF_NFEQ': _nf, 'VF_NDIM': 2, 'VF_NFEX': 0}},
      bounds={'quick': 'exactly nech=%d neighbourhood samples (arbitrary distinct ranks among %d), nvar=%d variables, nfeq=%d drift equations, ndim=2; target coordinates, covariance tables, '
                       'target drift values (possibly undefined) and stale contents of the right-hand side arbitrary reals; one discretisation point with shift exactly 0' % (_ne, _ne + 1, _nv, _nf)},
      timeout_ms={'quick': 120000, 'thorough': 900000}, validate={'quick': 20, 'thorough': 40},
      what='KrigingSystem::_rhsCalcul with EKrigOpt::BLOCK (_rhsCalculBlock with _getNDisc()==1 and _disc1[0]==0: _getDISC1Vec, SpacePoint::operator=, SpacePoint::move -> ASpace::move -> '
           'SpaceRN::_move, MatrixSquareGeneral copy / fill / addMatInPlace / copyElements, _rhsStore) against the same call with EKrigOpt::POINT (_rhsCalculPoint, _rhsStore): the covariance '
           'callback receives identical arguments on both paths (sample rank nbgh[i], flags, target rank, target coordinates, calculation mode, last optimisation target), the right-hand sides '
           'are equal cell by cell (covariance and drift rows) and equal to cov(sample, target) of the model table; same error code',
      out='ndisc > 1 and non-zero shifts (a different estimator); the variance term var0 of a block (_variance0: uses the second, randomised discretisation); per-cell discretisation '
          '(_flagPerCell); matLC; what the covariance callback computes from its arguments (model hierarchy); -0.0 / rounding of x + 0.0 (real reading; IEEE gives x + 0.0 == x for every finite x)',
      assumptions=['KrigingSystem, Db, Model, ACovAnisoList, ANeigh are raw storage with only the fields read initialised (harness/C01/ks_common.h); _p0/_p1/_p0_memo get a real coordinate vector and '
                   'share one real SpaceRN(2); _disc1 is a real VectorVectorDouble of one zero vector; _flagPerCell=false, _flagNoMatLC=true',
                   'covariance value is abstract: one symbolic table for a target point located at the target coordinates, an unrelated symbolic table for any other location',
                   'the target point is loaded with the target coordinates before the call (Db::getSampleAsSPInPlace is a no-op override)'],
      stubs=['ACov::evalCovKriging(mat, p1, p0, mode): logs its arguments, writes the symbolic covariance table (target table iff p0 has the target coordinates)',
             'ACov::optimizationSetTarget(pt): logs the coordinates of pt',
             'ASpaceObject::operator=: shares the space pointer (the real one deletes and clones an equal space through dynamic_cast)',
             'ACov::updateCovByPoints (virtual slot of the raw covariance object): no-op', 'Db::getSampleAsSPInPlace: no-op', 'Model::evalDriftValue -> symbolic table T_drift0 (may be TEST)',
             '__dynamic_cast (solver build only): identity on dense matrices', 'other callbacks of harness/C01/ks_common.h: not reached'])

# C04.e  cross-validation in a unique neighbourhood: read-out of the inverse vs the closed form of the reference note and vs explicit leave-one-out
_XV_STUBS = ['Db::getSampleNumber: the constant N', 'Db::isActive(rank): symbolic boolean table', 'Db::isIsotopic(rank): Z(rank, 0) is defined (symbolic table T_z, value or TEST)',
             'Db::getZVariable(rank, 0): symbolic table T_z', 'Db::setArray(target, iuid, value) on the INPUT Db: recorded with a write counter',
             'CovContext::getMean(0) (behind Model::getMean): symbolic mean', 'other callbacks of harness/C01/ks_common.h: not reached']
_XV_ASSUME = ['KrigingSystem, Db, Model are raw storage with only the fields read initialised (harness/C01/ks_common.h); _lhsinv is a real MatrixSquareSymmetric(N)',
              'one variable, no drift (_nfeq=0: simple kriging with a known mean), no Bayesian drift, _flagNoMatLC=true',
              'exact (real) arithmetic reading of the divisions and of sqrt (r>=0, r*r==x; sqrt of a structurally identical argument is the same number); the native build compares the separately computed quotients up to 1e-9 relative']
for _n, _tiers in ((2, ('quick', 'thorough')), (3, ('quick', 'thorough'))):  # n = 4: the standardised-error obligations need minutes each (324 runs), not registered
    K('C04.e.formula.%d' % _n, property='C04', engine='symex', harness='C04/xvalid.cpp', entry='k_xv_formula', tus=_KS_TUS, tiers=_tiers,
      defines={'all': {'VF_NECH': _n - 1, 'VF_NVAR': 1, 'VF_NFEQ': 0, 'VF_NDIM': 2, 'VF_NFEX': 0}},
      bounds={'quick': 'data base of exactly %d samples, every mask pattern, every pattern of undefined values, every target rank; inverse matrix = arbitrary symmetric real matrix with positive diagonal; '
                       'data, mean arbitrary reals; every combination of the output requests (estimate / error, stdev / standardised error, varZ)' % _n},
      timeout_ms={'quick': 120000, 'thorough': 900000}, validate={'quick': 30, 'thorough': 60}, validate_doubles='int', symex={'sqrt_memo_sym': True},
      what='KrigingSystem::_estimateCalculXvalidUnique (+ _getFlagAddress, _getLHSINV, _getMean) against the closed form of doc/references/Kriging_XValid_Unique.md in the simple kriging case: '
           'Z*_i - Z_i == -(B zc)_i / B_ii and variance == 1 / B_ii, where B is indexed by the position of each sample among the active, defined ones; nothing written for a masked / undefined target; '
           'each requested output written once; varZ is TEST',
      out='that _lhsinv is the inverse of the covariance matrix of exactly those samples (assembly: C01; inversion: Eigen); several variables (the code handles variable 0 only); drift (nfeq > 0)',
      assumptions=_XV_ASSUME, stubs=_XV_STUBS)
for _n, _tiers in ((2, ('quick', 'thorough')), (3, ('quick', 'thorough'))):
    K('C04.e.loo.%d' % _n, property='C04', engine='symex', harness='C04/xvalid.cpp', entry='k_xv_loo', tus=_KS_TUS, tiers=_tiers,
      defines={'all': {'VF_NECH': _n - 1, 'VF_NVAR': 1, 'VF_NFEQ': 0, 'VF_NDIM': 2, 'VF_NFEX': 0}},
      bounds={'quick': 'exactly %d samples, all active and defined; covariance matrix = arbitrary symmetric real matrix with positive determinant and positive diagonal cofactors (covers every positive '
                       'definite matrix); data and mean arbitrary reals; every target' % _n},
      timeout_ms={'quick': 120000, 'thorough': 900000}, validate={'quick': 30, 'thorough': 60}, validate_doubles='int', symex={'sqrt_memo_sym': True},
      what='KrigingSystem::_estimateCalculXvalidUnique fed with the exact inverse (adjugate / determinant) of a symbolic covariance matrix C, against the definition: leave-one-out simple kriging of '
           'sample i from the other samples (weights solve C_{-i} lambda = c_{-i,i} by Cramer; Z* = mean + lambda.(z - mean); variance = C_ii - lambda.c_{-i,i}): estimate and squared stdev equal as '
           'rational functions of the entries of C, the data and the mean',
      out='as C04.e.formula; masked / undefined samples (C04.e.formula); n > 3; floating-point rounding of the inverse',
      assumptions=_XV_ASSUME, stubs=_XV_STUBS)

# C04.a2  optimised vs plain covariance matrix: same request of the active ranks (Db, variables, neighbourhood ranks, flags), same shape,
# same cells (incl. the variance of measurement error on the diagonal)
_CM_TUS = ['src/Covariances/ACovAnisoList.cpp', 'src/Covariances/ACov.cpp', 'src/Covariances/CovAniso.cpp', 'src/Basic/VectorHelper.cpp',
           'src/Basic/Utilities.cpp', 'src/Enum/Enums.cpp', 'src/Space/SpacePoint.cpp', 'src/Space/ASpaceObject.cpp', 'src/Matrix/AMatrix.cpp',
           'src/Matrix/AMatrixDense.cpp', 'src/Matrix/MatrixRectangular.cpp', 'src/Matrix/AMatrixSquare.cpp', 'src/Matrix/MatrixSquareSymmetric.cpp',
           'src/Matrix/MatrixSquareGeneral.cpp', 'src/Basic/AStringable.cpp', 'src/Basic/ASerializable.cpp']
_CM_STUBS = ['Db::getMultipleRanksActive(ivars, nbgh, useSel, useVerr): records this, ivars, nbgh and the flags; returns one list per variable: the first '
             'base(side, position) + !useSel + !useVerr entries of a symbolic table of sample ranks (side recognised by the length of nbgh)',
             'ACov::_getActiveVariables(token): the first niv entries of {2,0} for the ivar0 token, the first njv entries of {1,2} for the jvar0 token',
             'Db::hasLocVariable(ELoc::V): symbolic bit; Db::getColIdxByLocator(ELoc::V, ivar): symbolic table in [-1, 2]; Db::getValueByColIdx(iech, icol): symbolic table (integer values)',
             'CovAniso::evalCor(p1, p2, ...) (plain side): weight(structure) x code(rank of p1, rank of p2)',
             'SpacePoint::getDistance(pt) -> code(rank of pt, rank of this); CovAniso::_evalCorFromH(h) -> weight(structure) x h (optimised side: same value for the same pair)',
             'CovAniso::_optimizationSetTarget(pt), CovAniso::optimizationSetTargetByIndex(iech): the projected target of THIS structure takes the rank of pt / iech',
             'ACov::optimizationPreProcess(const Db*), optimizationPostProcess: empty (pairing: C10.b)', 'ACovAnisoList::_manage, updateCovByPoints: empty (no non-stationarity)',
             'Db::getSampleAsSPInPlace: empty (the rank is set by the caller)', 'messerr: empty',
             'ASpaceObject(const ASpace*), ~ASpaceObject, SpacePoint(const ASpace*), ~SpacePoint: no default-space cloning',
             '__dynamic_cast (solver build only): identity on dense matrices']
_CM_ASSUME = ['ACovAnisoList, CovAniso (2 structures), Db, CovCalcMode are raw storage with the real virtual tables; per structure: real 3x3 sill matrix with fixed distinct integer values, '
              '_p1As = 4 raw points of rank 0..3, _isOptimPreProcessed = true',
              'variable ranks are concrete ({2,0} / {1,2}); sample ranks symbolic in [0,3]; neighbourhood rank vectors arbitrary ints (forwarded only)',
              'EOperator items get their enum values in the solver build (static constructors are not run)',
              'covariance code is integer valued: every sum and product is exact in IEEE as well']
_SYM_SC = ['000', '100', '110', '120', '200', '201', '202', '210', '211', '212', '220', '221', '222']
_RECT_SC = ['0200', '2000'] + ['%d%d%s' % (_a, _b, _c) for _a in (1, 2) for _b in (1, 2) for _c in ('00', '02', '11', '12', '20', '21', '22')]
K('C04.a2.sym', property='C04', engine='symex', harness='C04/covmat.cpp', entries=['k_sym_m%d_%s' % (_m, _s) for _m in (0, 1, 4) for _s in _SYM_SC], tus=_CM_TUS,
  bounds={'quick': '0..2 active variables, 0..2 valid samples per variable independently (heterotopy), one more sample per unset flag; 2 basic structures; mode null, all-active, or all-active and unitary; '
                   'measurement-error column present / absent per variable, arbitrary integer variances in [-50,50]; one entry per (mode kind, number of variables, numbers of samples)'},
  timeout_ms={'quick': 60000, 'thorough': 600000}, validate={'quick': 2, 'thorough': 10}, validate_doubles='int',
  what='ACovAnisoList::evalCovMatrixSymmetricOptim (+ CovAniso::evalOptimInPlace, ACovAnisoList::optimizationSetTargetByIndex) against ACov::evalCovMatrixSymmetric (+ ACovAnisoList::eval, '
       'CovAniso::eval, getSill), both followed by ACov::_updateCovMatrixSymmetricVerr, on the same inputs: same request Db::getMultipleRanksActive(ivars, nbgh, useSel, useVerr), same shape, '
       'same cells: the variance of measurement error lands on the same diagonal cells',
  out='covariance values themselves (projection of the points, Tensor products, _evalCorFromH); what getMultipleRanksActive selects (C05); non-stationary models; mode selecting structures (C04.a2.sel)',
  assumptions=_CM_ASSUME, stubs=_CM_STUBS)
_RECT_Q = ['0200', '2000', '1111', '1211', '1222', '2112', '2200', '2202', '2220', '2212', '2221', '2222']
for _kid, _sc, _tiers, _val in (('C04.a2.rect', _RECT_Q, ('quick', 'thorough'), 2), ('C04.a2.rect.full', _RECT_SC, ('thorough',), 4)):
    K(_kid, property='C04', engine='symex', harness='C04/covmat.cpp', entries=['k_rect_m%d_%s' % (_m, _s) for _m in (0, 1, 4) for _s in _sc], tus=_CM_TUS, tiers=_tiers,
      bounds={'quick': '0..2 active variables on each side, 0..2 valid samples (second variable one less on side 1, first variable one less on side 2), one more per unset flag; db2 null or a second Db; '
                       '2 basic structures; mode null, all-active, or all-active and unitary; one entry per (mode kind, numbers of variables, numbers of samples): %d of the 30 combinations' % len(_sc)},
      timeout_ms={'quick': 60000, 'thorough': 600000}, validate={'quick': _val, 'thorough': _val}, validate_doubles='int',
      what='ACovAnisoList::evalCovMatrixOptim (+ CovAniso::evalOptimInPlace, ACov::optimizationSetTarget, ACovAnisoList::_optimizationSetTarget) against ACov::evalCovMatrix (+ ACovAnisoList::eval, '
           'CovAniso::eval, getSill) on the same inputs: same requests Db::getMultipleRanksActive on both sides (Db, variables, neighbourhood ranks, flags), same shape, same cells',
      out='as C04.a2.sym', assumptions=_CM_ASSUME, stubs=_CM_STUBS)
K('C04.a2.sel', property='C04', engine='symex', harness='C04/covmat.cpp',
  entries=['k_sym_m%d_%s' % (_m, _s) for _m in (2, 3) for _s in ('110', '211')] + ['k_rect_m%d_%s' % (_m, _s) for _m in (2, 3) for _s in ('1111', '2212')], tus=_CM_TUS,
  bounds={'quick': 'four scenarios of C04.a2.sym / C04.a2.rect; mode = CovCalcMode with allActiveCov false and the active list {0} or {1} (what setActiveCovListFromOne builds)'},
  timeout_ms={'quick': 60000, 'thorough': 600000}, validate={'quick': 4, 'thorough': 20}, validate_doubles='int',
  what='same pairs of functions under a CovCalcMode that selects one basic structure: the optimised matrix must be the sum over the selected structures only, as ACovAnisoList::eval computes',
  out='as C04.a2.sym', assumptions=_CM_ASSUME, stubs=_CM_STUBS)

# ---- C04.m glue after the ball-tree query in point -> point migration (added after seeded change r5_ball_dmax_swap)
for _dt in (1, 2):
    K('C04.m.%d' % _dt, property='C04', engine='symex', harness='C04/migball.cpp', entry='k_migrate_ball',
      tus=['src/Calculators/CalcMigrate.cpp', 'src/Db/Db.cpp', 'src/Tree/Ball.cpp', 'src/Basic/Utilities.cpp', 'src/Basic/AStringable.cpp'],
      defines={'all': {'VF_DT': _dt, 'VF_ND': 2}, 'quick': {'VF_NS': 3, 'VF_NT': 2}, 'thorough': ({'VF_NS': 4, 'VF_NT': 3} if _dt == 1 else {'VF_NS': 3, 'VF_NT': 2})},  # L2 at 4 x 3: no verdict within 9 min (division by symbolic dmax), not claimed
      bounds={'quick': '3 sources, 2 targets (thorough: 4 and 3 for distance type 1, unchanged for type 2) in 2-D on the integer grid |x| <= 1024, every mask pattern of the targets, dmax > 0 per direction, distance type %d, '
                       'every answer of the tree (any source rank per distinct target position)' % _dt},
      timeout_ms={'quick': 100000, 'thorough': 600000}, validate={'quick': 50, 'thorough': 100}, validate_doubles='int',
      what='CalcMigrate::_expandPointToPointBall + st_larger_than_dmax with the real Db::hasSameDimension: an active target receives the value of the source the tree returns for its own coordinates '
           'iff the vector between the target and THAT source passes the maximum-distance test (as the exhaustive path tests it); otherwise it is left alone',
      out='the ball tree itself (C06.c, C10.g); the exhaustive path restricting the search to sources within dmax before taking the nearest (the two paths differ by design when the nearest '
          'source is beyond dmax and a farther one is within the box); empty dmax; masked sources (the tree is built with useSel = false)',
      assumptions=['coordinates, values and dmax on the integer grid (exact in IEEE double)'],
      stubs=['Ball::Ball(const Db*, ...), ~Ball, Ball::queryClosest -> black box: an arbitrary source rank, a function of the query coordinates',
             'distance_inter -> its definition: difference of the coordinates of sample iech1 of db1 and sample iech2 of db2 (return value 0: discarded by the caller)',
             'Db objects are raw storage with the real vtable; Db::getNDim, getSampleNumber, isActive, getCoordinatesPerSampleInPlace, getArray -> the symbolic tables'])
