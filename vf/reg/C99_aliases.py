from kernels import K

# ---------------------------------------------------------------- C05.e3: masking clause of the grid variogram algorithm
# same harness and kernel as C12.e.22.2.i1 (registered there for the pair/lag definition): a masked or weight-undefined
# node never takes part in an evaluated pair of Vario::_calculateOnGridSolution
import kernels as _k
_src = _k.KERNELS.get('C12.e.22.2.i1')
if _src is not None:
    _d = dict(_src)
    _d.pop('id', None)
    _d['property'] = 'C05'
    _d['tiers'] = ('quick', 'thorough')
    _d['what'] = 'masking clause (C05) of ' + _src.get('what', '')
    K('C05.e3.22', **_d)

# ---------------------------------------------------------------- C05.x: masking clause of unique-neighbourhood cross-validation
# same harness and kernel as C04.e.formula.2 (every mask / undefined-value pattern): a masked sample takes no part in
# the ranking of the rows of the inverse kriging matrix (KrigingSystem::_getFlagAddress, _estimateCalculXvalidUnique)
_src = _k.KERNELS.get('C04.e.formula.2')
if _src is not None:
    _d = dict(_src)
    _d.pop('id', None)
    _d['property'] = 'C05'
    _d['tiers'] = ('quick', 'thorough')
    _d['what'] = 'masking clause (C05) of ' + _src.get('what', '')
    K('C05.x.2', **_d)
