from kernels import K

# ---------------------------------------------------------------- C08  save / reload through the typed tape
_TAPE_STUBS = [
    'ASerializable::_recordWrite<int>, _recordWrite<double>: push one typed cell on the harness tape (title, stream ignored)',
    'ASerializable::_recordWriteVec<int>, _recordWriteVec<double>: push a header cell carrying the length, then the elements',
    'ASerializable::_commentWrite: counted only',
    'ASerializable::_recordRead<int>: pops an INT cell; _recordRead<double>: pops a DBL or INT cell; anything else (or end of tape) is a mismatch (asserted) and returns false',
    'ASerializable::_recordReadVec<int>, _recordReadVec<double>(n): pop a vector header whose length must equal n (asserted), then the n elements',
    'std::ostream / std::istream arguments: references to raw storage, never dereferenced',
    'strlen (solver build only): byte loop, so that the String temporaries built from title literals are executed',
]
_TAPE_ASSUME = [
    'a neutral file is modelled as the sequence of typed records (text layer: 15 digits, NA token, comments, line breaks not encoded)',
    'values are moved as exact reals / ints: TEST and ITEST travel as ordinary values',
]
# objects are raw storage without a vptr: the sanitizer replay must not stop on its vptr check before reaching the real code
_RAWFLAGS = ['-fno-sanitize=vptr']


def _cos_native(x):
    # concrete arguments (translator validation runs): the value the native libm returns
    import math
    from fractions import Fraction
    return Fraction(math.cos(float(x)))


def _sin_native(x):
    import math
    from fractions import Fraction
    return Fraction(math.sin(float(x)))


_TRIG = {'libm_exact': {'cos': _cos_native, 'sin': _sin_native}}
_SPACE_STUB = 'ASpaceObject::getNDim / setNDim: the space context is one integer cell (SpaceRN construction, ESpaceType check not executed)'

_NEIGH_TUS = ['src/Neigh/NeighMoving.cpp', 'src/Neigh/ANeigh.cpp', 'src/Geometry/BiTargetCheckDistance.cpp',
              'src/Geometry/ABiTargetCheck.cpp', 'src/Geometry/GeometryHelper.cpp', 'src/Basic/VectorHelper.cpp',
              'src/Basic/Utilities.cpp', 'src/Basic/AStringable.cpp']
for _name, _mode, _nd, _tiers in (('iso', 0, 2, ('quick', 'thorough')), ('aniso', 1, 2, ('quick', 'thorough')),
                                  ('rot', 2, 2, ('quick', 'thorough')), ('rot3', 2, 3, ('thorough',))):
    K('C08.a.' + _name, property='C08', engine='symex', harness='C08/neighmoving.cpp', entry='k_neighmoving_roundtrip',
      tus=_NEIGH_TUS, defines={'all': {'VF_NDIM': _nd, 'VF_MODE': _mode}}, tiers=_tiers,
      bounds={'quick': 'space dimension %d; %s; nmini, nmaxi, nsmax arbitrary ints, nsect >= 1, radius and coefficients/angles arbitrary reals'
                       % (_nd, ('isotropic', 'anisotropic without rotation', 'anisotropic with rotation angles')[_mode])},
      timeout_ms={'quick': 60000, 'thorough': 300000}, validate={'quick': 20, 'thorough': 40}, validate_doubles='dyadic',
      what='NeighMoving::_serialize -> NeighMoving::_deserialize (with ANeigh::_serialize/_deserialize, BiTargetCheckDistance constructor, '
           'GH::rotationMatrix*InPlace): records consumed in order and type, both return true, getters of the reloaded object agree, '
           're-serialising gives the same records',
      out='fields absent from the file format (flagXvalid, flagKFold, ball-search options, distCont, additional bi-target checkers), '
          'search buffers, the text layer, file open / class tag check',
      assumptions=_TAPE_ASSUME + ['original object: the fields the NeighMoving constructor stores; checker built by the real '
                                  'BiTargetCheckDistance::create(radius, coeffs, angles); number of coefficients == space dimension; '
                                  'radius > 0, coefficients > 0; mode rot: first angle non-zero (rotation present)',
                                  'cos/sin of the rotation angles are uninterpreted (values only moved)'],
      symex=_TRIG, cxxflags=_RAWFLAGS, stubs=_TAPE_STUBS + [_SPACE_STUB])

_NEIGHB_TUS = ['src/Neigh/NeighUnique.cpp', 'src/Neigh/NeighBench.cpp', 'src/Neigh/NeighCell.cpp', 'src/Neigh/NeighImage.cpp',
               'src/Neigh/ANeigh.cpp', 'src/Geometry/BiTargetCheckBench.cpp', 'src/Geometry/ABiTargetCheck.cpp', 'src/Basic/AStringable.cpp']
for _name, _entry, _defs, _bound, _what in (
        ('unique', 'k_unique', {}, 'space dimension 1..5', 'NeighUnique'),
        ('bench', 'k_bench', {}, 'space dimension 1..5, width an arbitrary real >= 0', 'NeighBench (checker built by the real BiTargetCheckBench::create)'),
        ('cell', 'k_cell', {}, 'space dimension 1..5, nmini an arbitrary int', 'NeighCell'),
        ('image', 'k_image', {'VF_NDIM': 2}, 'space dimension 2, skip an arbitrary int, radii in [0, 2^20]; loaded into a default-constructed object (as createFromNF)', 'NeighImage'),
        ('image.presized', 'k_image', {'VF_NDIM': 2, 'VF_IMAGE_PRESIZED': 1}, 'space dimension 2, skip an arbitrary int, radii in [0, 2^20]; loaded into an object that already holds 2 radii', 'NeighImage'),
):
    K('C08.b.' + _name, property='C08', engine='symex', harness='C08/neighothers.cpp', entry=_entry, tus=_NEIGHB_TUS,
      defines={'all': _defs}, bounds={'quick': _bound},
      timeout_ms={'quick': 60000, 'thorough': 300000}, validate={'quick': 20, 'thorough': 40}, validate_doubles='dyadic',
      what=_what + '::_serialize -> ::_deserialize (with the ANeigh part): records consumed in order and type, both return true, '
                   'getters of the reloaded object agree, re-serialising gives the same records; memory safety of the loader',
      out='fields absent from the file format (flagXvalid, flagKFold, ball-search options), the text layer, file open / class tag check',
      assumptions=_TAPE_ASSUME + ['objects are raw storage holding the fields the constructors store; the object loaded into is in the default-constructed state'],
      cxxflags=_RAWFLAGS, stubs=_TAPE_STUBS + [_SPACE_STUB])

_POLY_TUS = ['src/Polygon/Polygons.cpp', 'src/Polygon/PolyElem.cpp', 'src/Basic/PolyLine2D.cpp', 'src/Basic/AStringable.cpp',
             'src/Basic/ASerializable.cpp', 'src/Basic/Utilities.cpp']
for _name, _entry, _what in (('polyline', 'k_polyline', 'PolyLine2D'), ('polyelem', 'k_polyelem', 'PolyElem (+ PolyLine2D part)'),
                             ('polygons', 'k_polygons', 'Polygons (+ PolyElem, PolyLine2D parts, virtual dispatch, addPolyElem)')):
    K('C08.c.' + _name, property='C08', engine='symex', harness='C08/polygons.cpp', entry=_entry, tus=_POLY_TUS,
      defines={'quick': {'VF_NV': 3, 'VF_NPOL': 2}, 'thorough': {'VF_NV': 5, 'VF_NPOL': 3, 'VF_TAPE_CAP': 80}},
      bounds={'quick': '3 vertices per line/element, 2 elements per set; coordinates and vertical limits arbitrary reals (TEST included)',
              'thorough': '5 vertices per line/element, 3 elements per set'},
      timeout_ms={'quick': 60000, 'thorough': 300000}, validate={'quick': 20, 'thorough': 40}, validate_doubles='dyadic',
      what=_what + '::_serialize -> ::_deserialize: records consumed in order and type, both return true, getters of the reloaded '
                   'object agree, re-serialising gives the same records',
      out='the text layer (15 digits), file open / class tag check; elements with fewer than 3 vertices (dropped by addPolyElem)',
      assumptions=_TAPE_ASSUME + ['objects built by their real constructors; loaded into a default-constructed object'],
      stubs=_TAPE_STUBS)

_MAT_TUS = ['src/Matrix/Table.cpp', 'src/Matrix/MatrixRectangular.cpp', 'src/Matrix/AMatrixDense.cpp', 'src/Matrix/AMatrix.cpp',
            'src/Basic/AStringable.cpp', 'src/Basic/ASerializable.cpp', 'src/Basic/Utilities.cpp', 'src/Basic/VectorHelper.cpp']
K('C08.d.table', property='C08', engine='symex', harness='C08/table.cpp', entry='k_table', tus=_MAT_TUS,
  defines={'quick': {'VF_NR': 2, 'VF_NC': 3}, 'thorough': {'VF_NR': 4, 'VF_NC': 4}},
  bounds={'quick': '2 rows x 3 columns, arbitrary real values (TEST included)', 'thorough': '4 rows x 4 columns'},
  timeout_ms={'quick': 60000, 'thorough': 300000}, validate={'quick': 20, 'thorough': 40}, validate_doubles='dyadic',
  what='Table::_serialize -> Table::_deserialize (with Table::reset, AMatrixDense get/setValue): records consumed in order and type, '
       'both return true, shape and values of the reloaded table agree, re-serialising gives the same records',
  out='title, row and column names (not part of the file format); the text layer; file open / class tag check',
  assumptions=_TAPE_ASSUME + ['table built by its real constructor; loaded into a default-constructed table'],
  stubs=_TAPE_STUBS)

_GRID_TUS = ['src/Db/DbGrid.cpp', 'src/Db/Db.cpp', 'src/Basic/Grid.cpp', 'src/Basic/Rotation.cpp', 'src/Geometry/GeometryHelper.cpp',
             'src/Matrix/MatrixSquareGeneral.cpp', 'src/Matrix/AMatrixSquare.cpp', 'src/Matrix/MatrixRectangular.cpp',
             'src/Matrix/AMatrixDense.cpp', 'src/Matrix/AMatrix.cpp', 'src/Basic/AStringable.cpp', 'src/Basic/ASerializable.cpp',
             'src/Basic/Utilities.cpp', 'src/Basic/VectorHelper.cpp']
for _nd, _tiers in ((2, ('quick', 'thorough')), (3, ('thorough',))):
    K('C08.d.dbgrid.%d' % _nd, property='C08', engine='symex', harness='C08/dbgrid.cpp', entry='k_dbgrid_header', tus=_GRID_TUS,
      defines={'all': {'VF_NDIM': _nd}}, tiers=_tiers,
      bounds={'quick': 'space dimension %d; nx in [1, 2^20], dx > 0, x0 and angles arbitrary reals' % _nd},
      timeout_ms={'quick': 60000, 'thorough': 300000}, validate={'quick': 20, 'thorough': 40}, validate_doubles='dyadic',
      what='DbGrid::_serialize -> DbGrid::_deserialize, grid header only (with DbGrid::gridDefine, Grid::resetFromVector, Rotation::setAngles): '
           'records consumed in order and type, both return true, NX/X0/DX/angles of the reloaded grid agree, re-serialising gives the same records',
      out='the Db part of the file (columns, names, locators, values): Db::_serialize/_deserialize are cut; the text layer; file open / class tag check',
      symex=_TRIG,
      assumptions=_TAPE_ASSUME + ['DbGrid objects built by the real default constructor + gridDefine; cos/sin uninterpreted'],
      stubs=_TAPE_STUBS + ['Db::_serialize, Db::_deserialize: return true without reading or writing (Db part outside the kernel)',
                         'Db::_clear: empty (locator tables not built: the ELoc enumeration needs static constructors)'])

# ---- C08.e Faults, C08.d MeshETurbo header (harness/C08/faults_mesh.cpp)
K('C08.e.faults', property='C08', engine='symex', harness='C08/faults_mesh.cpp', entry='k_faults',
  tus=['src/Faults/Faults.cpp', 'src/Basic/PolyLine2D.cpp', 'src/Basic/AStringable.cpp', 'src/Basic/ASerializable.cpp', 'src/Basic/Utilities.cpp'],
  defines={'quick': {'VF_NV': 2, 'VF_NF': 2}, 'thorough': {'VF_NV': 4, 'VF_NF': 3, 'VF_TAPE_CAP': 80}},
  bounds={'quick': '2 faults of 2 vertices each; coordinates arbitrary reals (TEST included)', 'thorough': '3 faults of 4 vertices each'},
  timeout_ms={'quick': 60000, 'thorough': 300000}, validate={'quick': 20, 'thorough': 40}, validate_doubles='dyadic',
  what='Faults::_serialize -> Faults::_deserialize (with PolyLine2D::_serialize/_deserialize through the virtual serialize/deserialize, addFault): '
       'records consumed in order and type, both return true, number of faults and every vertex of the reloaded object agree, re-serialising gives the same records',
  out='the text layer (15 digits), file open / class tag check',
  assumptions=_TAPE_ASSUME + ['faults built by the real PolyLine2D constructor and addFault; loaded into a default-constructed object'],
  stubs=_TAPE_STUBS + ['messerr: empty'])
_MESH_TUS = ['src/Mesh/MeshETurbo.cpp', 'src/Mesh/AMesh.cpp', 'src/Mesh/Delaunay.cpp', 'src/Basic/Grid.cpp', 'src/Basic/Indirection.cpp', 'src/Basic/Rotation.cpp',
             'src/Geometry/GeometryHelper.cpp', 'src/Matrix/MatrixSquareGeneral.cpp', 'src/Matrix/AMatrixSquare.cpp', 'src/Matrix/MatrixRectangular.cpp',
             'src/Matrix/AMatrixDense.cpp', 'src/Matrix/AMatrix.cpp', 'src/Basic/AStringable.cpp', 'src/Basic/ASerializable.cpp',
             'src/Basic/Utilities.cpp', 'src/Basic/VectorHelper.cpp']
for _nd, _tiers in ((2, ('quick', 'thorough')), (3, ('thorough',))):
    K('C08.d.meshturbo.%d' % _nd, property='C08', engine='symex', harness='C08/faults_mesh.cpp', entry='k_meshturbo', tus=_MESH_TUS,
      defines={'all': {'VF_NDIM': _nd, 'VF_NXMAX': 1024 if _nd == 2 else 64}}, tiers=_tiers,
      bounds={'quick': 'space dimension %d; nx in [2, %d] (the number of meshes fits an int), dx > 0, x0 arbitrary reals, unrotated grid, polarisation flag and '
                       'storing mode arbitrary, no mask' % (_nd, 1024 if _nd == 2 else 64)},
      timeout_ms={'quick': 60000, 'thorough': 300000}, validate={'quick': 20, 'thorough': 40}, validate_doubles='dyadic',
      what='MeshETurbo::_serialize -> MeshETurbo::_deserialize (with initFromGridByMatrix, Grid::resetFromVector, Grid::setRotationByVector, '
           'Rotation::setMatrixDirectVec, Indirection::setMode): records consumed in order and type, both return true, grid geometry, extension, '
           'polarisation, storing mode and mesh / apex counts of the reloaded mesh agree, re-serialising gives the same records',
      out='masks on meshes / nodes (Indirection tables), rotated grids, the text layer, file open / class tag check',
      symex=_TRIG,
      assumptions=_TAPE_ASSUME + ['mesh built by the real MeshETurbo(mode) constructor + initFromGridByMatrix with the identity rotation matrix; loaded into a default-constructed mesh'],
      stubs=_TAPE_STUBS + ['messerr: empty'])

# ---- C08.f Vario numeric block through the line-structured tape (harness/C08/tape2.h, harness/C08/vario.cpp)
_TAPE2_STUBS = [
    'ASerializable::_recordWrite<int>, <double>, <String>: push one typed cell (String: a cell without content) and, when the title is not empty, a line break',
    'ASerializable::_recordWriteVec<int>, <double>: [line break when the title is not empty], the elements, a line break; _commentWrite: a line break',
    'ASerializable::_recordRead<int> / <double> / <String>: skip line breaks, pop one cell of a compatible type (the rest of the line stays); anything else is a mismatch (asserted)',
    'ASerializable::_recordReadVec<int>, <double>(n): the next line holding at least one value (the rest of the current line counts) must hold exactly n values of a '
    'compatible type (asserted); consumed with its line break',
    'std::ostream / std::istream arguments: references to raw storage, never dereferenced',
    'strlen (solver build only): byte loop, so that the String temporaries built from title literals are executed',
]
_VARIO_TUS = ['src/Variogram/Vario.cpp', 'src/Variogram/AVario.cpp', 'src/Variogram/VarioParam.cpp', 'src/Variogram/DirParam.cpp', 'src/Space/SpaceRN.cpp',
              'src/Space/ASpace.cpp', 'src/Space/ASpaceObject.cpp', 'src/Enum/Enums.cpp', 'src/Matrix/MatrixSquareGeneral.cpp', 'src/Matrix/AMatrixSquare.cpp',
              'src/Matrix/MatrixRectangular.cpp', 'src/Matrix/AMatrixDense.cpp', 'src/Matrix/AMatrix.cpp', 'src/Basic/AStringable.cpp', 'src/Basic/ASerializable.cpp',
              'src/Basic/Utilities.cpp', 'src/Basic/VectorHelper.cpp']
_VARIO_STUBS = _TAPE2_STUBS + [
    'ASpaceObject constructors / assignment / destructor / getNDim: the space context is one integer cell (the real code clones a SpaceRN through clone() + dynamic_cast)',
    'ECalcVario::ECalcVario(), AVario::AVario(): the UNDEFINED value is written directly (the static ECalcVario objects are filled by static constructors, which kernels do not run); '
    'AVario::setCalculByName: stores VARIOGRAM (the reader only ever asks for "vg"); AVario::setCalcul: stores the value; ECalcVario::fromValue: a harness object carrying the value',
    'messerr, mesArg: empty',
]
for _name, _defs, _tiers, _b in (
        ('sym', {'VF_ASYM': 0, 'VF_GRID': 0, 'VF_NDIR': 2}, ('quick', 'thorough'), 'symmetric calculation, 2 directions with a tolerance on the angle'),
        ('grid', {'VF_ASYM': 0, 'VF_GRID': 1, 'VF_NDIR': 1}, ('quick', 'thorough'), 'symmetric calculation, 1 direction defined by grid increments in [-1000, 1000]'),
        ('asym', {'VF_ASYM': 1, 'VF_GRID': 0, 'VF_NDIR': 1}, ('quick', 'thorough'), 'asymmetric calculation (covariance: 2*npas+1 entries), 1 direction'),
        ('undef', {'VF_ASYM': 0, 'VF_GRID': 0, 'VF_NDIR': 1, 'VF_WITH_UNDEFINED': 1}, ('quick', 'thorough'), 'symmetric calculation, 1 direction, weights / distances / values may be undefined (TEST)'),
        ('sym.2var', {'VF_ASYM': 0, 'VF_GRID': 0, 'VF_NDIR': 1, 'VF_NVAR': 2}, ('thorough',), 'symmetric calculation, 2 variables, 1 direction')):
    K('C08.f.vario.' + _name, property='C08', engine='symex', harness='C08/vario.cpp', entry='k_vario', tus=_VARIO_TUS,
      defines={'all': dict({'VF_NDIM': 2, 'VF_NVAR': 1, 'VF_NPAS': 2}, **_defs)}, tiers=_tiers,
      bounds={'quick': 'space dimension 2, %d variable(s), 2 lags; %s; every parameter and result an arbitrary real / int' % (_defs.get('VF_NVAR', 1), _b)},
      timeout_ms={'quick': 60000, 'thorough': 300000}, validate={'quick': 20, 'thorough': 40}, validate_doubles='dyadic',
      what='Vario::_serialize -> Vario::_deserialize (with the DirParam constructor, VarioParam::addDir, internalDirectionResize, _directionResize, setVars, '
           'set/getSw/Hh/GgByIndex): records consumed line by line as the text readers do, both return true, scale, variances, lag definitions, direction vectors / '
           'grid increments, and the weights, distances and values of every lag of the reloaded variogram agree, re-serialising gives the same records',
      out='fields absent from the file format (dates, faults, breaks, bench / cylinder radius, date index, means, variable names content); the text layer; file open / class tag check',
      assumptions=['a neutral file is modelled as the sequence of typed records and line breaks (15 digits, NA token not encoded)',
                   'original built by the real constructors; calculation type set as setCalcul does (value + asymmetry flag); loaded into Vario(VarioParam())'],
      stubs=_VARIO_STUBS)

# ---- C08.e Rule + Node (harness/C08/rule.cpp)
for _sh, _txt, _tiers in ((0, 'S(F,F)', ('quick', 'thorough')), (1, 'S(F,T(F,F))', ('quick', 'thorough')), (2, 'S(T(F,F),F)', ('quick', 'thorough')),
                          (3, 'S(T(F,F),T(F,F))', ('thorough',))):
    K('C08.e.rule.%d' % _sh, property='C08', engine='symex', harness='C08/rule.cpp', entry='k_rule',
      tus=['src/LithoRule/Rule.cpp', 'src/LithoRule/Node.cpp', 'src/Basic/AStringable.cpp', 'src/Basic/ASerializable.cpp', 'src/Basic/Utilities.cpp'],
      defines={'all': {'VF_SHAPE': _sh}}, tiers=_tiers, cxxflags=_RAWFLAGS,
      bounds={'quick': 'tree %s (S: threshold on the first gaussian, T: on the second, F: facies leaf); facies numbers any permutation of 1..nfac, '
                       'rho an arbitrary real, rule type 0..2' % _txt},
      timeout_ms={'quick': 60000, 'thorough': 300000}, validate={'quick': 60, 'thorough': 120}, validate_doubles='dyadic',
      what='Rule::_serialize (with statistics, Node::getStatistics / isValid, the recursive _ruleDefine) -> Rule::_deserialize (with '
           'setMainNodeFromNodNames(VectorInt), the Node constructor): records consumed in order and type, both return true, rule type, correlation and the '
           'whole tree (orientation, facies, children of every node) of the reloaded rule agree, re-serialising gives the same records',
      out='node names (not part of the file format), proportions / thresholds (not part of the file format), RuleShift / RuleShadow parameters, the text layer',
      assumptions=_TAPE_ASSUME + ['Rule objects are raw storage holding the four fields of the class; nodes built by the real Node(name, orient, facies) constructor'],
      stubs=_TAPE_STUBS + [
          'ERule::fromValue: a harness object carrying the value (the library keeps the objects in a std::map filled by static constructors)',
          'solver build only: std::stringstream default ctor / dtor / str() (empty string), operator<<(ostream&, const string&), ostream::operator<<(int): '
          'node names composed by the reader are empty; VectorT<String>::operator[] const (the static table of name prefixes): an empty string',
          'messerr, message: empty'])

# ---- C08.h locator names written by Db::_serialize are decoded to the same role (harness/C09/locid.cpp, entry k_locname)
K('C08.h.locname', property='C08', engine='symex', harness='C09/locid.cpp', entry='k_locname',
  tus=['src/Db/PtrGeos.cpp', 'src/Basic/String.cpp', 'src/Enum/Enums.cpp'], defines={'all': {'VF_LEN': 3}},
  passes='function(sroa,early-cse,simplifycfg),cgscc(inline),function(sroa,early-cse,simplifycfg,adce),globaldce', cxxflags=['-fno-inline'],
  bounds={'quick': 'every one of the 29 roles; rank 0..8 for the roles that several columns can hold (name = keyword + rank+1), keyword alone for the unique roles'},
  timeout_ms={'quick': 60000, 'thorough': 300000}, validate={'quick': 9, 'thorough': 9},
  what='REAL locatorIdentify (with the real std::string code and toLower) on the name getLocatorName writes for (role, rank): the decoded role and rank are the ones written, '
       'so that a Db reloaded from its neutral file keeps its roles',
  out='ranks beyond 9; the writer itself (getLocatorName formats through a stringstream: its format is restated in the harness from the documented keyword table)',
  assumptions=['the name of (role, rank) is the keyword of the role followed by rank+1, or the keyword alone for a unique role (getLocatorName, src/Db/PtrGeos.cpp)'],
  stubs=['solver build only (the native build runs the library enumeration and libc):',
         'ELoc::getIterator, ELocIterator::hasNext / operator* / getValue / toNext, ELoc::fromValue: walk a harness table of 30 ELoc objects with the values -1..28 in increasing order',
         'static object ELoc::UNKNOWN: field _value written by the harness (-1)',
         'strlen, memcmp: byte loops; tolower: ASCII; strtol / atoi: C-locale model',
         'std::string::operator=(const char*): characters written through the data pointer, length set', 'messerr: empty'])


# ---- C08.g (builder3): IFPEN grid exchange format, geometry round trip through a typed tape of lines
_IFP_TUS = ['src/OutputFormat/GridIfpEn.cpp', 'src/OutputFormat/AOF.cpp'] + _GRID_TUS
for _nx0, _nx1, _tiers in ((3, 2, ('quick', 'thorough')), (1, 4, ('thorough',))):
    K('C08.g.ifpen.%d%d' % (_nx0, _nx1), property='C08', engine='symex', harness='C08/ifpen.cpp', entry='k_ifpen_geometry', tus=_IFP_TUS,
      defines={'all': {'VF_NX0': _nx0, 'VF_NX1': _nx1}}, tiers=_tiers, symex=_TRIG,
      bounds={'quick': '2-D grid of %d x %d nodes; origin, meshes dx, dy > 0 (dx != dy allowed) and rotation angle arbitrary reals; no attribute column exported' % (_nx0, _nx1)},
      timeout_ms={'quick': 60000, 'thorough': 300000}, validate={'quick': 20, 'thorough': 40}, validate_doubles='dyadic',
      what='GridIfpEn::writeInFile -> GridIfpEn::readGridFromFile (with DbGrid::gridDefine, getNXsExt, getDX, getX0, getAngles on a really constructed source grid): every header line is consumed in order, '
           'no value is decoded from a line of another label / type; the grid handed to DbGrid::reset has COLUMN_COUNT / COLUMN_DISTANCE / X_ORIGIN in dimension 0, ROW_COUNT / ROW_DISTANCE / Y_ORIGIN in '
           'dimension 1, one unit layer at 0 in dimension 2, the first rotation angle, no value and no name',
      out='the text layer (stringstream formatting: 6 significant digits; sscanf; the weak label test strcmp(line, label) < 0 is kept as it is); the FILE; the value section (attributes, FLOAT_NULL_VALUE '
          'convention, ordering of several attributes); the construction of the reloaded DbGrid from the recorded arguments (DbGrid::reset: C16.f, C07); 3-D source grids (LAYER distance / Z origin are not in the format)',
      assumptions=['DbGrid source built by the real default constructor + gridDefine; cos/sin uninterpreted; GridIfpEn object is raw storage (_db, _dbgrid, _cols = empty, _file = null)',
                   'a file is the sequence of lines written: (mode, label, integer value, real value) cells'],
      stubs=['GridIfpEn::_writeLine -> pushes one typed line; GridIfpEn::_readLine -> pops one: refuses a line whose label compares below the expected one (as the real strcmp test), decodes a value only '
             'from a line written with the same label and a compatible mode (integer line read as real allowed), anything else is a counted mismatch',
             'AOF::_fileWriteOpen / _fileReadOpen -> 0, AOF::_fileClose -> nothing', 'DbGrid::reset -> records its arguments, returns 0', 'generateMultipleNames -> vector of empty names',
             'Db::_clear: empty (locator tables not built: the ELoc enumeration needs static constructors)', 'messerr / message -> empty'])
