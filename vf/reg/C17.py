from kernels import K

# ---------------------------------------------------------------- C17
K('C17.a', property='C17', engine='symex', harness='C17/parid.cpp', entries=['k_parid_roundtrip', 'k_parid_injective'],
  tus=[],
  bounds={'quick': 'every (imod, icov, ivar, jvar) in [0, CONGRUENCY=50)^4 and every EConsElem value 0..9'},
  timeout_ms={'quick': 100000, 'thorough': 600000}, validate={'quick': 30, 'thorough': 60},
  what='st_parid_encode, st_parid_decode (model_auto.cpp, included as a translation unit): decode(encode(x)) == x, injectivity, no signed overflow',
  out='indices >= CONGRUENCY (more than 50 models/structures/variables): not rejected by the code, outside the claim',
  assumptions=['CONGRUENCY keeps its initial value 50 (never written in model_auto.cpp)'],
  stubs=['EConsElem::fromValue -> item with _value = value for 0..9, default item (0) otherwise; key/description not modelled (static-constructor map not available)'])

_EIGTUS = ['src/Matrix/AMatrixDense.cpp', 'src/Matrix/AMatrix.cpp', 'src/Matrix/AMatrixSquare.cpp',
           'src/Matrix/MatrixSquareSymmetric.cpp', 'src/Matrix/MatrixSquareGeneral.cpp', 'src/Matrix/MatrixRectangular.cpp',
           'src/Basic/VectorHelper.cpp', 'src/Basic/AStringable.cpp']
for _n, _tiers in ((2, ('quick', 'thorough')), (3, ('quick', 'thorough'))):
    K('C17.c.%d' % _n, property='C17', engine='symex', harness='C17/eigen.cpp', entries=['k_truncate', 'k_truncate_inplace'],
      tus=_EIGTUS, defines={'all': {'VF_NVAR': _n}}, tiers=_tiers,
      bounds={'quick': 'nvar = %d; arbitrary real symmetric input, arbitrary real eigenvalues and eigenvector components returned by the stub; output distinct from or identical to the input vector' % _n},
      timeout_ms={'quick': 100000, 'thorough': 1200000}, validate={'quick': 20, 'thorough': 40},
      what='st_truncate_negative_eigen (model_auto.cpp, included as a translation unit) on really constructed MatrixSquareSymmetric objects: return flag, symmetry, principal minors >= 0 of the rebuilt matrix, identity when all eigenvalues are positive',
      out='the eigen decomposition itself (Eigen::SelfAdjointEigenSolver); rounding of the sums of products; Goulard iteration around this step',
      assumptions=['real-arithmetic reading of sum_k max(l_k,0) v_ik v_jk'],
      stubs=['MatrixSquareSymmetric::computeEigen -> stores arbitrary eigenvalues / eigenvectors (no orthogonality, no ordering), returns 0'])
