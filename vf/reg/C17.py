from kernels import K

# ---------------------------------------------------------------- C17
K('C17.a', property='C17', engine='symex', harness='C17/parid.cpp', entries=['k_parid_roundtrip', 'k_parid_injective'],
  tus=[],
  bounds={'quick': 'every (imod, icov, ivar, jvar) in [0, CONGRUENCY=50)^4 and every EConsElem value 0..9'},
  timeout_ms={'quick': 100000, 'thorough': 600000}, validate={'quick': 30, 'thorough': 60},
  what='st_parid_encode, st_parid_decode (model_auto.cpp, included as a translation unit): decode(encode(x)) == x, injectivity, no signed overflow',
  out='indices >= CONGRUENCY (more than 50 models/structures/variables): not rejected by the code, outside the claim',
  assumptions=['CONGRUENCY keeps its initial value 50 (never written in model_auto.cpp)'],
  stubs=['EConsElem::fromValue -> item with _value = value for 0..9, default item (0) otherwise; key/description not modelled (static-constructor map not available)'])

_EIGTUS = ['src/Matrix/AMatrixDense.cpp', 'src/Matrix/AMatrix.cpp', 'src/Matrix/AMatrixSquare.cpp',
           'src/Matrix/MatrixSquareSymmetric.cpp', 'src/Matrix/MatrixSquareGeneral.cpp', 'src/Matrix/MatrixRectangular.cpp',
           'src/Basic/VectorHelper.cpp', 'src/Basic/AStringable.cpp']
for _n, _tiers in ((2, ('quick', 'thorough')), (3, ('quick', 'thorough'))):
    K('C17.c.%d' % _n, property='C17', engine='symex', harness='C17/eigen.cpp', entries=['k_truncate', 'k_truncate_inplace'],
      tus=_EIGTUS, defines={'all': {'VF_NVAR': _n}}, tiers=_tiers,
      bounds={'quick': 'nvar = %d; arbitrary real symmetric input, arbitrary real eigenvalues and eigenvector components returned by the stub; output distinct from or identical to the input vector' % _n},
      timeout_ms={'quick': 100000, 'thorough': 1200000}, validate={'quick': 20, 'thorough': 40},
      what='st_truncate_negative_eigen (model_auto.cpp, included as a translation unit) on really constructed MatrixSquareSymmetric objects: return flag, symmetry, principal minors >= 0 of the rebuilt matrix, identity when all eigenvalues are positive',
      out='the eigen decomposition itself (Eigen::SelfAdjointEigenSolver); rounding of the sums of products; Goulard iteration around this step',
      assumptions=['real-arithmetic reading of sum_k max(l_k,0) v_ik v_jk'],
      stubs=['MatrixSquareSymmetric::computeEigen -> stores arbitrary eigenvalues / eigenvectors (no orthogonality, no ordering), returns 0'])


# ---------------------------------------------------------------- C17.b (builder2: user constraints -> bounds / initial values of the optimiser)
_CONSTUS = ['src/Enum/Enums.cpp', 'src/Model/Constraints.cpp', 'src/Model/ConsItem.cpp', 'src/Model/CovParamId.cpp', 'src/Model/Option_VarioFit.cpp',
            'src/Basic/AStringable.cpp', 'src/Basic/Utilities.cpp']
# (number of items, number of parameters, tiers): two parameters exercise the rank glue of the param / lower / upper arrays
for _ni, _npar, _tiers in ((0, 2, ('quick', 'thorough')), (1, 2, ('quick', 'thorough')), (2, 1, ('quick', 'thorough')), (2, 2, ('thorough',)), (3, 2, ('thorough',))):
    K(('C17.b.%d' % _ni) if (_ni, _npar) != (2, 1) else 'C17.b.2.p1', property='C17', engine='symex', harness='C17/cons.cpp', entries=['k_fresh', 'k_defaults'], tus=_CONSTUS,
      defines={'all': {'VF_NITEM': _ni, 'VF_NPAR': _npar}}, tiers=_tiers,
      bounds={'quick': 'constraint list of exactly %d item(s), each with igrf in [0,1], icov in [0,2], any of the 10 element types, iv1, iv2 in [0,2], any constraint type '
                       '(LOWER, DEFAULT, UPPER, EQUAL), any integer value |v| <= 2^20; %d parameter(s) with any (imod in [0,1], icov in [0,2], element type, ivar, jvar in [0,2]); '
                       'pre-state: (fresh) param/lower/upper undefined, (defaults) param any integer, lower/upper undefined or any integers with lower <= param <= upper' % (_ni, _npar)},
      timeout_ms={'quick': 120000, 'thorough': 600000}, validate={'quick': 30, 'thorough': 60}, validate_doubles='int',
      what='st_model_auto_constraints_apply, st_parid_decode, st_affect (model_auto.cpp, included as a translation unit), constraints_get, Constraints::addItem, ConsItem / CovParamId '
           'constructors and clone: per parameter, the lower (upper) bound after the call is the value of a LOWER/EQUAL (UPPER/EQUAL) item concerning the parameter, intersected with a '
           'built-in bound when one exists, and is unchanged when no item concerns it; an EQUAL item alone on its parameter gives lower == upper == value; the initial value is defined and '
           'lies in [lower, upper] whenever lower <= upper; from a fresh state the initial value is that of a DEFAULT item when it respects the bounds',
      out='the optimiser itself; which of several items on the same parameter and side wins (any of them is accepted); DEFAULT items when a built-in default already exists '
          '(st_affect keeps the existing initial value); constraint values that are TEST; st_model_auto_pardef / st_model_auto_scldef; Goulard sill constraints (constantSills)',
      assumptions=['CONGRUENCY keeps its initial value 50', 'real-arithmetic reading of (lower+upper)/2, upper/2, lower+1, upper-1 (exact on the integer inputs used)',
                   'undefined is TEST = 1.234e30 (FFFF(x) is x > 1e30 in the NaN-free reading)'],
      stubs=['EConsElem::fromValue -> item with _value = value for 0..9, default item (0) otherwise; key/description not modelled (static-constructor map not available)',
             'EConsElem::fromKey (solver build only) -> EConsElem::UNKNOWN: the only key asked for is "UNKNOWN" (default argument of CovParamId() inside the ConsItem constructor); strlen -> byte loop',
             'getDefaultSpaceType() -> ESpaceType::RN (the default space the library defines when none was set)',
             'static enum items EConsElem::{UNKNOWN,RANGE,ANGLE,PARAM,SILL}, EConsType::{LOWER,DEFAULT,UPPER,EQUAL}, ESpaceType::{COMPOSITE,RN,SN}: _value written by hand in the solver build '
             '(static constructors are not executed); the native build aborts if the library values differ'])


# ---------------------------------------------------------------- C17.f (builder2: option flags -> list of parameters the optimiser may move)
_OPTTUS = ['src/Enum/Enums.cpp', 'src/Model/Option_VarioFit.cpp', 'src/Covariances/CovAniso.cpp', 'src/Basic/AStringable.cpp', 'src/Basic/Utilities.cpp']
for _nc, _nd, _nv, _tiers in ((2, 2, 1, ('quick', 'thorough')), (2, 3, 1, ('quick', 'thorough')), (2, 3, 2, ('quick', 'thorough')), (3, 3, 2, ('thorough',)), (3, 2, 1, ('thorough',))):
    K('C17.f.%d%d%d' % (_nc, _nd, _nv), property='C17', engine='symex', harness='C17/optvar.cpp', entry='k_parid_options', tus=_OPTTUS,
      defines={'all': {'VF_NCOV': _nc, 'VF_NDIM': _nd, 'VF_NVAR': _nv}}, tiers=_tiers,
      bounds={'quick': 'one model, %d basic structures, space dimension %d, %d variable(s); per structure flag_range in {-1,0,+1} and flag_param in {0,1}; every combination of '
                       'flag_goulard_used, auth_aniso, auth_rotation, lock_samerot, lock_rot2d, lock_no3d, lock_iso2d; tapering on or off' % (_nc, _nd, _nv)},
      timeout_ms={'quick': 120000, 'thorough': 600000}, validate={'quick': 30, 'thorough': 60},
      what='st_parid_alloc (model_auto.cpp, included as a translation unit; builds strmod->parid) with the real st_parid_encode, Option_VarioFit copy / accessors, '
           'Model::getDimensionNumber / getVariableNumber, CovAniso::getNVariables: every identifier of the list names a structure of the model and an element type of the fitting; '
           'no SILL identifier when Goulard is used; auth_aniso = false => no RANGE identifier with ivar >= 1 and no ANGLE identifier; auth_rotation = false => no ANGLE identifier; '
           'lock_samerot => ANGLE identifiers for one structure only; 3-D: lock_iso2d => no RANGE ivar 1, lock_no3d => no RANGE ivar 2, lock_rot2d => ANGLE ivar 0 only; '
           'no RANGE / ANGLE for a structure without range, no PARAM without third parameter, T_RANGE only with tapering',
      out='lock_iso2d in 2-D (st_parid_alloc does not consult it when ndim == 2: the second range stays a free parameter unless auth_aniso is false); the "clever setting" of the options '
          '(st_alter_model_optvar, which overwrites lock_no3d / lock_iso2d in 3-D from the variogram directions); st_model_auto_strmod_define (copy of the locked rotation to the other '
          'structures: CovAniso setters, Eigen); two simultaneous models; that the count of st_model_auto_count equals the length of the list; the optimiser',
      assumptions=['CONGRUENCY keeps its initial value 50', 'Model and CovAniso objects are raw storage: Model::_cova -> raw CovAniso with the real vtable and _ctxt._nVar; StrMod really constructed'],
      stubs=['ASpaceObject::getNDim -> the space dimension of the kernel (behind the inline Model::getDimensionNumber -> CovContext)',
             'Model::getCovaNumber -> number of structures of the kernel; Model::getCovaType -> an ECov object whose value is the rank of the structure',
             'Model::getCovMode -> EModelProperty::TAPE or NONE (symbolic)',
             'model_cova_characteristics -> symbolic flag_range in {-1,0,1} and flag_param in {0,1} per structure; the other outputs are fixed values not read by st_parid_alloc',
             'static enum items EConsElem::{RANGE,ANGLE,PARAM,SILL,T_RANGE}, EModelProperty::{NONE,TAPE}: _value written by hand in the solver build; the native build aborts if the library values differ'])


# ---------------------------------------------------------------- C17.g (builder3: user bounds on sills when the sills are fitted in AIC form)
_SILLTUS = ['src/Enum/Enums.cpp', 'src/Model/Constraints.cpp', 'src/Model/ConsItem.cpp', 'src/Model/CovParamId.cpp', 'src/Model/Option_VarioFit.cpp',
            'src/Covariances/CovAniso.cpp', 'src/Basic/AStringable.cpp', 'src/Basic/Utilities.cpp']
for _tag, _ni, _vario, _tiers in (('vmap.1', 1, 0, ('quick', 'thorough')), ('vmap.2', 2, 0, ('quick', 'thorough')), ('vario.2', 2, 1, ('quick', 'thorough'))):   # 3 items: the engine refuses a copy through merged (symbolic) vector pointers inside ConsItem::clone
    K('C17.g.' + _tag, property='C17', engine='symex', harness='C17/sillbounds.cpp', entry='k_sill_bounds', tus=_SILLTUS,
      defines={'all': dict({'VF_NITEM': _ni}, **({'VF_VARIO': 1} if _vario else {}))}, tiers=_tiers,
      bounds={'quick': '%s; constraint list of exactly %d item(s), each with igrf in [0,1], icov in [0,2], any of the 10 element types, iv1, iv2 in [0,1], any constraint type (LOWER, DEFAULT, UPPER, EQUAL), '
                       'any real value in [0, 2^20] or [-2^20 - 1, -1]; Goulard flag on or off at entry; model of 1 or 2 variables; space dimension 1..3; any structure (igrf, icov) and any real '
                       'coefficient for the semantic check' % ('st_alter_model_optvar (variogram fit, 2 directions, each horizontal or not)' if _vario else 'st_alter_vmap_optvar (variogram-map fit)', _ni)},
      timeout_ms={'quick': 120000, 'thorough': 600000}, validate={'quick': 60, 'thorough': 120}, validate_doubles='int',
      what=('st_alter_model_optvar' if _vario else 'st_alter_vmap_optvar') + ' (model_auto.cpp, included as a translation unit), Constraints::isDefinedForSill, modify_constraints_on_sill, Constraints::setValue / addItem, '
           'ConsItem copy / clone, constraints_get: when the list holds a sill item and Goulard is on at entry, success leaves Goulard off AND every sill item transformed (value v\' >= 0, v\'^2 == user value, '
           'identifier and type unchanged, other items unchanged, one LOWER item -v\' appended per UPPER item on the sill (0,0)); a coefficient a within the LOWER / UPPER values constraints_get then reports '
           'gives a sill a^2 within the user\'s bounds and the DEFAULT value squares to the user\'s default; a negative sill bound makes the call fail; otherwise flag and items are unchanged; '
           'success with several variables only with Goulard on',
      out='Goulard already off at entry (user option, or anamorphosis properties: st_modify_optvar_for_anam) with sill items present: the code does NOT transform them there although the sills are then in AIC form '
          '(nothing is documented for that case; the kernel only asserts that nothing changes); the other option flags set by the function; several items of the same side on one parameter '
          '(first one wins in both the reference and constraints_get); the optimiser; sills of several variables (Goulard is mandatory there)',
      assumptions=['real-arithmetic reading of sqrt (r >= 0, r*r == x); validation / replay use perfect squares (integer g, bound g^2)', 'undefined is TEST = 1.234e30 (FFFF(x) is x > 1e30 in the NaN-free reading)',
                   'Model and CovAniso are raw storage (_cova -> raw CovAniso with the real vtable and _ctxt._nVar); the grid Db is raw storage whose virtual getNDim returns the symbolic dimension'
                   + ('; Vario is raw storage whose VarioParam::_dirparams has length 2' if _vario else '')],
      stubs=['Model::getCovAnisoList -> nullptr (no anamorphosis properties: the dynamic_cast of st_modify_optvar_for_anam gives nullptr)',
             'EConsElem::fromValue / fromKey, getDefaultSpaceType, static enum items written by hand: as C17.b', 'messerr / message: empty']
            + (['Vario::getCodir -> third component 0 or 1 per direction (symbolic); ASpaceObject::getNDim -> the symbolic space dimension (behind Model::getDimensionNumber)'] if _vario else []))

# ---- C17.h compression of the parameter arrays after a structure is suppressed (added after seeded change r5_compress_lower)
for _n, _tiers in ((3, ('quick', 'thorough')), (5, ('thorough',))):
    K('C17.h.%d' % _n, property='C17', engine='symex', harness='C17/compress.cpp', entry='k_compress', tus=['src/Basic/Utilities.cpp'], defines={'all': {'VF_N': _n}}, tiers=_tiers,
      bounds={'quick': '%d parameters, each alive or suppressed (param = TEST), arbitrary identifiers in [0, 2^20], arbitrary real values, each bound present (any real) or absent (TEST)' % _n},
      timeout_ms={'quick': 100000, 'thorough': 600000}, validate={'quick': 50, 'thorough': 100}, validate_doubles='int',
      what='st_compress_parid (model_auto.cpp, included as a translation unit): the k-th surviving parameter keeps its own identifier, value, lower bound and upper bound; '
           'the count returned is the number of survivors',
      out='st_model_auto_strmod_reduce around it (which structures are suppressed: st_structure_reduce, model surgery); the optimiser',
      assumptions=['a live parameter value is a defined value (below TEST_COMP = 1e30), finite'],
      stubs=[])
