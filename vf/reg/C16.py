from kernels import K

# ---------------------------------------------------------------- C16
_GRIDTUS = ['src/Basic/Grid.cpp']

# C16.a rank <-> indices
for _nd in (1, 2, 3):
    K('C16.a.%d' % _nd, property='C16', engine='symex', harness='C16/rank.cpp', entries=['k_rank_to_ind', 'k_ind_to_rank', 'k_ind_outside'],
      tus=_GRIDTUS, defines={'all': {'VF_ND': _nd, 'VF_NXMAX': 1024}},
      bounds={'quick': 'ndim = %d, every nx[d] an arbitrary int in [1, 1024]; every rank in [0, N); every int index vector (in or out of range)' % _nd},
      timeout_ms={'quick': 120000, 'thorough': 600000}, validate={'quick': 30, 'thorough': 60},
      what='Grid::rankToIndice, Grid::indiceToRank: indices in range and equal to the mixed-radix digits of the rank (first dimension '
           'fastest); indiceToRank(rankToIndice(r)) == r; rankToIndice(indiceToRank(i)) == i; out-of-range index => -1; '
           'no signed overflow / division by zero inside the two functions',
      out='node counts above 1024 per direction (product must stay below 2^31 anyway); ndim > 3',
      assumptions=['Grid object is raw storage with _nDim and _nx initialised (the two functions read nothing else)'],
      stubs=[])
    K('C16.a.%d.minus' % _nd, property='C16', engine='symex', harness='C16/rank.cpp', entries=['k_rank_to_ind'],
      tus=_GRIDTUS, defines={'all': {'VF_ND': _nd, 'VF_NXMAX': 1024, 'VF_MINUS': 1}},
      tiers=('quick', 'thorough') if _nd < 3 else ('thorough',),
      bounds={'quick': 'ndim = %d, every nx[d] an arbitrary int in [2, 1024]; every cell rank in [0, prod(nx[d]-1))' % _nd},
      timeout_ms={'quick': 120000, 'thorough': 600000}, validate={'quick': 30, 'thorough': 60},
      what='Grid::rankToIndice(minusOne=true): indices in [0, nx[d]-1) and equal to the mixed-radix digits of the rank in the '
           'radices nx[d]-1; no signed overflow / division by zero',
      out='nx[d] == 1 with minusOne (zero cells in a direction: division by zero in the real code, documented use is on cells so nx>=2)',
      assumptions=['Grid object is raw storage with _nDim and _nx initialised'],
      stubs=[])

# C16.b indices <-> coordinates, unrotated
_COORDTUS = ['src/Basic/Grid.cpp', 'src/Basic/Rotation.cpp', 'src/Basic/Utilities.cpp', 'src/Basic/AStringable.cpp']
for _nd in (1, 2, 3):
    K('C16.b.%d' % _nd, property='C16', engine='symex', harness='C16/coord.cpp',
      entries=['k_node_roundtrip', 'k_percent', 'k_point_to_cell'],
      tus=_COORDTUS, defines={'all': {'VF_ND': _nd}}, tiers=('quick', 'thorough') if _nd < 3 else ('thorough',),
      bounds={'quick': 'ndim = %d, unrotated; x0, dx > 0 arbitrary reals; nx[d] in [1,1024]; node / cell indices arbitrary ints in [-2^20, 2^20]; '
                       'query point an arbitrary real point; eps = EPSILON6 (the default)' % _nd},
      timeout_ms={'quick': 120000, 'thorough': 600000}, validate={'quick': 30, 'thorough': 60}, validate_doubles='dyadic',
      what='Grid::indicesToCoordinateInPlace, Grid::coordinateToIndicesInPlace (with Rotation::rotateDirect/rotateInverse identity path, FFFF): '
           'coordinates == x0 + (i+percent)*dx; node -> coordinates -> same node (centered or not); a point strictly inside cell k is assigned to k; '
           'return code 1 <=> index outside [0,nx)',
      out='floating-point rounding of the mul/add/sub/div (this is what eps exists for; C16.c); points within eps*dx of a cell face; rotated grids (C16.d)',
      assumptions=['real-arithmetic reading of the code', 'Grid object is raw storage with _nDim, _nx, _x0, _dx, _rotation._flagRot=false and the work vectors initialised', 'coordinates below 1e30 in absolute value (1.234e30 is the library\'s undefined value)',
                   'cell-boundary points excluded as a band of relative width eps = 1e-6 on each side of a face (eps is the documented round-off guard argument)'],
      stubs=[])

# C16.e derived grids (multiple / divider; dilate separately), unrotated
for _nd in (1, 2):
    K('C16.e.%d' % _nd, property='C16', engine='symex', harness='C16/derived.cpp',
      entries=['k_multiple', 'k_divider', 'k_div_mult'],
      tus=_COORDTUS, defines={'all': {'VF_ND': _nd}},
      bounds={'quick': 'ndim = %d, unrotated; x0, dx > 0 arbitrary reals; nx[d] in [1,1024]; nmult[d] in [1,16]; cell and point matching; '
                       'every coarse / refined node index' % _nd},
      timeout_ms={'quick': 120000, 'thorough': 600000}, validate={'quick': 30, 'thorough': 60}, validate_doubles='dyadic',
      what='Grid::multiple, Grid::divider (with indicesToCoordinateInPlace, getNX/getDX/getX0): node counts, meshes and the position of '
           'the derived nodes relative to the parent nodes / cell centres; multiple(divider(g)) == g',
      out='rotated grids; value transfer of DbGrid::createCoarse/createRefine; floating-point rounding',
      assumptions=['real-arithmetic reading of the code', 'Grid object is raw storage with _nDim, _nx, _x0, _dx, _rotation._flagRot=false and the work vectors initialised'],
      stubs=[])
    K('C16.e.%d.dilate' % _nd, property='C16', engine='symex', harness='C16/derived.cpp', entries=['k_dilate'],
      tus=_COORDTUS, defines={'all': {'VF_ND': _nd}},
      bounds={'quick': 'ndim = %d, unrotated; x0, dx > 0 arbitrary reals; nx[d] in [1,1024]; nshift[d] in [0,64], mode +1/-1' % _nd},
      timeout_ms={'quick': 120000, 'thorough': 600000}, validate={'quick': 30, 'thorough': 60}, validate_doubles='dyadic',
      what='Grid::dilate (with indicesToCoordinate, indicesToCoordinateInPlace, getNX/getDX): nx + 2*mode*nshift nodes, same mesh, '
           'node i of the dilated grid is node i - mode*nshift of the parent',
      out='rotated grids; calls that make some nx <= 0 (the function returns without an answer); floating-point rounding',
      assumptions=['real-arithmetic reading of the code', 'Grid object is raw storage with _nDim, _nx, _x0, _dx, _rotation._flagRot=false and the work vectors initialised'],
      stubs=[])


# C16.d rotated 2-D grid (real Grid / Rotation / MatrixSquareGeneral objects)
def _trig_opts(symex, z3):
    def pyth(name, other):
        def hook(f, args, app):
            g = z3.Function('uf_' + other, z3.RealSort(), z3.RealSort())
            o = g(args[0])
            return [app * app + o * o == 1, app <= 1, app >= -1]
        return hook
    return {'libm_axioms': {'cos': pyth('cos', 'sin'), 'sin': pyth('sin', 'cos')}}


def _circle(x):
    # concrete arguments (translator validation runs): a rational point ON the unit circle within ~1e-12 of
    # (cos x, sin x), so that the Pythagoras axiom assumed for the uninterpreted cos/sin also holds in concrete runs
    import math
    from fractions import Fraction
    q = Fraction(math.tan(float(x) / 2)).limit_denominator(1 << 40)
    return (1 - q * q) / (1 + q * q), 2 * q / (1 + q * q)


def _cos_native(x):
    return _circle(x)[0]


def _sin_native(x):
    return _circle(x)[1]


_ROTTUS = ['src/Basic/Grid.cpp', 'src/Basic/Rotation.cpp', 'src/Basic/Utilities.cpp', 'src/Basic/AStringable.cpp',
           'src/Geometry/GeometryHelper.cpp', 'src/Matrix/MatrixSquareGeneral.cpp', 'src/Matrix/AMatrixSquare.cpp',
           'src/Matrix/MatrixRectangular.cpp', 'src/Matrix/AMatrixDense.cpp', 'src/Matrix/AMatrix.cpp', 'src/Basic/VectorHelper.cpp']
for _tag, _ents in (('nodes', ['k_rot_matrix', 'k_rot_nodes']), ('cell', ['k_rot_roundtrip', 'k_rot_point'])):
    K('C16.d.' + _tag, property='C16', engine='symex', harness='C16/rot.cpp', entries=_ents, tus=_ROTTUS,
      defines={'all': {'VF_ASSUME_ROT': 1} if _tag == 'cell' else {}},
      symex_opts=_trig_opts, symex={'libm_exact': {'cos': _cos_native, 'sin': _sin_native}},
      bounds={'quick': 'ndim = 2; rotation angle an arbitrary real in (-360, 360) degrees; x0, dx > 0 arbitrary reals; nx[d] in [1,1024]; '
                       'node / cell indices arbitrary ints in [-2^20, 2^20] (in [0,nx) for the rank-based accessors); eps = EPSILON6'},
      timeout_ms={'quick': 60000, 'thorough': 600000}, validate={'quick': 20, 'thorough': 40}, validate_doubles='dyadic',
      what='Grid(ndim,nx,x0,dx), Grid::setRotationByAngle, Rotation::setAngles/_directToInverse/_checkRotForIdentity/rotateDirect/rotateInverse, '
           'GH::rotationMatrixInPlace, MatrixSquareGeneral (Eigen) storage and prodMatVecInPlace; Grid::indicesToCoordinateInPlace, indiceToCoordinate, '
           'getCoordinatesByIndice, getCoordinatesByRank, getCoordinate, coordinateToIndicesInPlace: the direct matrix is a rotation and is used for every '
           'index -> coordinate conversion, its transpose for coordinate -> index; round trip and point-to-cell assignment on the rotated grid',
      out='3-D rotations; the sign convention of the angle; floating-point rounding; getCellCoordinatesByCorner / getCoordinatesByCorner',
      assumptions=['real-arithmetic reading of the code', 'cos, sin: uninterpreted functions with cos(x)^2 + sin(x)^2 = 1 (and |.| <= 1)',
                   'a matrix within 1e-10 of the identity counts as "not rotated" (the library\'s own flag): the identity is then the matrix in force',
                   'coordinates below 1e30 in absolute value'],
      stubs=['cos/sin: uninterpreted + Pythagoras axiom (symex libm_axioms); on concrete arguments (validation runs) a rational point of the unit circle within 1e-12 of the libm values'])


# ---------------------------------------------------------------- C16.f (builder2: coordinates stored / reported by a grid Db)
_DBCOORDTUS = ['src/Db/DbGrid.cpp', 'src/Db/Db.cpp', 'src/Basic/Grid.cpp', 'src/Basic/Rotation.cpp', 'src/Basic/Utilities.cpp', 'src/Basic/AStringable.cpp']
for _nd, _nxs, _tiers in ((2, (3, 2, 1), ('quick', 'thorough')), (3, (2, 3, 2), ('quick', 'thorough')), (3, (4, 3, 3), ('thorough',))):
    K('C16.f.%d.%d%d%d' % ((_nd,) + _nxs), property='C16', engine='symex', harness='C16/dbcoord.cpp', entries=['k_stored_coordinates', 'k_reported_coordinates'],
      tus=_DBCOORDTUS, defines={'all': {'VF_ND': _nd, 'VF_NX0': _nxs[0], 'VF_NX1': _nxs[1], 'VF_NX2': _nxs[2]}}, tiers=_tiers,
      bounds={'quick': 'ndim = %d, concrete node counts %s, unrotated; origin and mesh arbitrary reals; coordinate columns starting at column 0 or 1 (rank column asked for or not); every node' % (_nd, 'x'.join(str(v) for v in _nxs[:_nd]))},
      timeout_ms={'quick': 120000, 'thorough': 600000}, validate={'quick': 30, 'thorough': 60}, validate_doubles='int',
      what='DbGrid::_createGridCoordinates (the step of DbGrid::reset(..., flagAddCoordinates) that fills the coordinate columns) with the real Grid::iteratorInit / iteratorNext / '
           'indicesToCoordinateInPlace / Rotation::rotateDirect (identity path): row r of column icol0 + d is written exactly once with x0[d] + index_d(r)*dx[d] '
           '(indices = mixed-radix digits of r, first dimension fastest), nothing else is written, the X locators go to these columns; '
           'DbGrid::getCoordinate / DbGrid::getNDim / Grid::getCoordinate / rankToIndice: the reported coordinate of node r is the same value, TEST beyond the space dimension',
      out='the rest of DbGrid::reset (_clear, gridDefine, resetDims, _loadData, names, locator tables: Db machinery of C07); rotated grids (the Grid functions used here are '
          'decided with rotation in C16.d); floating-point rounding (both sides compute i*dx + x0 in the same order); user-supplied iterator orders (Grid::iteratorInit(order))',
      assumptions=['real-arithmetic reading of i*dx + x0',
                   'DbGrid object is raw storage + the real DbGrid vtable; _grid: _nDim, _nx, _x0, _dx, _rotation._flagRot = false, iterator and work vectors initialised'],
      stubs=['Db::getSampleNumber -> number of nodes', 'Db::setArray(iech, iuid, value) -> recorded in a harness table with a write counter per cell',
             'Db::_setNameByColIdx -> no-op; getLocatorName -> empty string (column names are not part of the kernel)',
             'Db::setLocatorsByUID(number, iuid, type, index, clean) -> records its arguments (locator tables are C07)'])


# ---------------------------------------------------------------- C16.g (builder2: point-to-cell glue of the migration grid -> points)
_MIGTUS = ['src/Calculators/CalcMigrate.cpp', 'src/Db/Db.cpp', 'src/Db/DbGrid.cpp', 'src/Basic/Grid.cpp', 'src/Basic/Utilities.cpp', 'src/Basic/AStringable.cpp']
for _np, _ng, _tiers in ((3, 4, ('quick', 'thorough')), (4, 6, ('thorough',))):
    K('C16.g.%d.%d' % (_np, _ng), property='C16', engine='symex', harness='C16/migrate.cpp', entry='k_grid_to_point', tus=_MIGTUS,
      defines={'all': {'VF_ND': 2, 'VF_NP': _np, 'VF_NG': _ng}}, tiers=_tiers,
      bounds={'quick': '2-D; %d points with arbitrary integer coordinates |x| <= 1024 (coincident points allowed), any selection mask; grid of %d nodes with arbitrary values (TEST allowed); '
                       'coordinateToRank = an arbitrary function of the coordinates into {-1, 0..%d}; any attribute rank; no maximum distance' % (_np, _ng, _ng - 1)},
      timeout_ms={'quick': 120000, 'thorough': 600000}, validate={'quick': 30, 'thorough': 60}, validate_doubles='int',
      what='CalcMigrate::_migrateGridToPoint + st_locate_point_on_grid (CalcMigrate.cpp) with the real Db::hasLargerDimension, DbGrid::getNDim, FFFF: an active point receives the grid value '
           'stored at the rank coordinateToRank returns for the point\'s own coordinates; a masked point or a point reported outside the grid (rank < 0) receives TEST; '
           'coordinateToRank is only asked about coordinates of points of the Db; the value is read in the migrated attribute of the grid',
      out='the geometric point-to-cell rule itself (Grid::coordinateToRank: C16.b, C16.d); the maximum-distance filter (dmax non empty: distance_inter, st_larger_than_dmax); point and grid of '
          'different space dimensions; the other migration directions (point -> grid, grid -> grid: nearest-point searches); expansion / interpolation options',
      assumptions=['Db and DbGrid objects are raw storage + their real vtables; DbGrid::_grid._nDim initialised'],
      stubs=['Grid::coordinateToRank -> arbitrary function of the coordinates: the symbolic answer R[k] of the first point k whose coordinates equal the argument (-1 and a counter if none)',
             'Db::getNDim -> 2; Db::getSampleNumber -> number of points; Db::isActive -> symbolic mask; Db::getCoordinate / getCoordinatesPerSampleInPlace -> symbolic coordinates of the point',
             'Db::getArray(iech, iuid) -> symbolic grid value V[iech] (asserts that the grid and the migrated attribute are addressed)'])


# ---------------------------------------------------------------- C16.e.rot (derived grids of a ROTATED 2-D grid: harness/C16/derived_rot.cpp)
for _tag, _pairs, _dom in (('', ('11', '22', '33'), 'the same factor nmult = 1, 2, 3 in both directions'),
                           ('.aniso', ('12', '13', '21', '23', '31', '32'), 'every pair of different factors nmult[0] != nmult[1] in 1..3')):
    K('C16.e.rot' + _tag, property='C16', engine='symex', harness='C16/derived_rot.cpp',
      entries=['k_rot_%s_%s' % (f, p) for p in _pairs for f in ('multiple', 'divider')], tus=_ROTTUS,
      symex_opts=_trig_opts, symex={'libm_exact': {'cos': _cos_native, 'sin': _sin_native}},
      bounds={'quick': 'ndim = 2; rotation angle an arbitrary real in (-360, 360) degrees; x0, dx > 0 arbitrary reals; nx[d] in [1,1024]; %s; cell and point matching; '
                       'every coarse node index in [0,1024]^2 / every sub-cell of every parent cell index in [0,1024]^2' % _dom},
      timeout_ms={'quick': 60000, 'thorough': 600000}, validate={'quick': 20, 'thorough': 40}, validate_doubles='dyadic',
      what='Grid::multiple, Grid::divider on a really constructed rotated Grid (Grid(ndim,nx,x0,dx), setRotationByAngle, Rotation, MatrixSquareGeneral as C16.d) and the derived Grid '
           'built from their output (nx, dx, x0) with the parent\'s angle, as DbGrid::createCoarse / createRefine do: node counts and meshes; cell matching: the coarse node is the centre '
           'of its block of nmult x nmult parent cells (mean of the opposite corner cell centres, and the parent\'s coordinate function at (nmult-1)/2 meshes from the first cell), '
           'the refined node is the centre of its sub-cell (parent\'s coordinate function at -1/2 + (r+1/2)/nmult meshes from the parent node); point matching: the coarse node k is '
           'parent node k*nmult, the refined node q*nmult is parent node q; all positions through Grid::indicesToCoordinateInPlace of the two grids',
      out='3-D rotations; value transfer of DbGrid::createCoarse/createRefine; dilate on rotated grids; floating-point rounding; the index -> coordinate conversion itself (C16.d)',
      assumptions=['real-arithmetic reading of the code', 'cos, sin: uninterpreted functions with cos(x)^2 + sin(x)^2 = 1 (and |.| <= 1)',
                   'the derived grid carries the rotation angle of the parent (DbGrid::createCoarse / createRefine pass dbin->getAngles())'],
      stubs=['cos/sin: uninterpreted + Pythagoras axiom (symex libm_axioms); on concrete arguments (validation runs) a rational point of the unit circle within 1e-12 of the libm values'])


# ---------------------------------------------------------------- C16.h scalar coordinate accessors with a non-empty 'percent' (harness/C16/scalar.cpp)
for _nd, _tiers in ((1, ('quick', 'thorough')), (2, ('quick', 'thorough')), (3, ('thorough',))):
    K('C16.h.%d' % _nd, property='C16', engine='symex', harness='C16/scalar.cpp', entries=['k_scalar_indice', 'k_scalar_rank'] if _nd < 3 else ['k_scalar_indice'],
      tus=_COORDTUS, defines={'all': {'VF_ND': _nd, 'VF_ROTATED': 0, 'VF_NXMAX': 1024}}, tiers=_tiers,
      bounds={'quick': 'ndim = %d, unrotated; x0, dx > 0 arbitrary reals; percent[d] an arbitrary real in [-1,1] (non-empty percent argument); nx[d] in [1,%d]; '
                       'node indices arbitrary ints in [-2^20, 2^20] (indiceToCoordinate) / every node of the grid addressed by its rank (rankToCoordinate); every idim%s' % (_nd, 1024, '' if _nd < 3 else '; ndim = 3: indiceToCoordinate only (the rank entry needs more than 10 minutes of nonlinear integer search)')},
      timeout_ms={'quick': 120000, 'thorough': 600000}, validate={'quick': 30, 'thorough': 60}, validate_doubles='dyadic',
      what='Grid::indiceToCoordinate(idim, indice, percent), Grid::rankToCoordinate(idim, rank, percent) (with rankToIndice, Rotation::rotateDirect identity path) against the geometry '
           'x0 + (i+percent)*dx and against component idim of the vector accessors Grid::indicesToCoordinate(indice, percent) / Grid::rankToCoordinates(rank, percent) '
           '(indicesToCoordinateInPlace)',
      out='floating-point rounding; rotated grids (C16.h.rot); the default empty percent (C16.d.nodes)',
      assumptions=['real-arithmetic reading of the code', 'Grid object is raw storage with _nDim, _nx, _x0, _dx, _rotation._flagRot=false and the work vectors initialised'],
      stubs=[])
K('C16.h.rot', property='C16', engine='symex', harness='C16/scalar.cpp', entries=['k_scalar_indice', 'k_scalar_rank'], tus=_ROTTUS,
  defines={'all': {'VF_ROTATED': 1}},
  symex_opts=_trig_opts, symex={'libm_exact': {'cos': _cos_native, 'sin': _sin_native}},
  bounds={'quick': 'ndim = 2; rotation angle an arbitrary real in (-360, 360) degrees; x0, dx > 0 arbitrary reals; percent[d] an arbitrary real in [-1,1] (non-empty percent argument); '
                   'nx[d] in [1,1024]; node indices arbitrary ints in [-2^20, 2^20] (indiceToCoordinate) / every node of the grid addressed by its rank (rankToCoordinate); every idim'},
  timeout_ms={'quick': 60000, 'thorough': 600000}, validate={'quick': 20, 'thorough': 40}, validate_doubles='dyadic',
  what='on a really constructed rotated Grid (as C16.d): Grid::indiceToCoordinate(idim, indice, percent), Grid::rankToCoordinate(idim, rank, percent) against the geometry '
       'x0 + M ((i+percent) o dx) (M = the direct matrix the Grid reports) and against component idim of Grid::indicesToCoordinate(indice, percent) / Grid::rankToCoordinates(rank, percent)',
  out='3-D rotations; the sign convention of the angle and the orthogonality of M (C16.d.nodes); floating-point rounding',
  assumptions=['real-arithmetic reading of the code', 'cos, sin: uninterpreted functions with cos(x)^2 + sin(x)^2 = 1 (and |.| <= 1)',
               'a matrix within 1e-10 of the identity counts as "not rotated" (the library\'s own flag): the identity is then the matrix in force'],
  stubs=['cos/sin: uninterpreted + Pythagoras axiom (symex libm_axioms); on concrete arguments (validation runs) a rational point of the unit circle within 1e-12 of the libm values'])
