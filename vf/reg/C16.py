from kernels import K

# ---------------------------------------------------------------- C16
_GRIDTUS = ['src/Basic/Grid.cpp']

# C16.a rank <-> indices
for _nd in (1, 2, 3):
    K('C16.a.%d' % _nd, property='C16', engine='symex', harness='C16/rank.cpp', entries=['k_rank_to_ind', 'k_ind_to_rank', 'k_ind_outside'],
      tus=_GRIDTUS, defines={'all': {'VF_ND': _nd, 'VF_NXMAX': 1024}},
      bounds={'quick': 'ndim = %d, every nx[d] an arbitrary int in [1, 1024]; every rank in [0, N); every int index vector (in or out of range)' % _nd},
      timeout_ms={'quick': 120000, 'thorough': 600000}, validate={'quick': 30, 'thorough': 60},
      what='Grid::rankToIndice, Grid::indiceToRank: indices in range and equal to the mixed-radix digits of the rank (first dimension '
           'fastest); indiceToRank(rankToIndice(r)) == r; rankToIndice(indiceToRank(i)) == i; out-of-range index => -1; '
           'no signed overflow / division by zero inside the two functions',
      out='node counts above 1024 per direction (product must stay below 2^31 anyway); ndim > 3',
      assumptions=['Grid object is raw storage with _nDim and _nx initialised (the two functions read nothing else)'],
      stubs=[])
    K('C16.a.%d.minus' % _nd, property='C16', engine='symex', harness='C16/rank.cpp', entries=['k_rank_to_ind'],
      tus=_GRIDTUS, defines={'all': {'VF_ND': _nd, 'VF_NXMAX': 1024, 'VF_MINUS': 1}},
      bounds={'quick': 'ndim = %d, every nx[d] an arbitrary int in [2, 1024]; every cell rank in [0, prod(nx[d]-1))' % _nd},
      timeout_ms={'quick': 120000, 'thorough': 600000}, validate={'quick': 30, 'thorough': 60},
      what='Grid::rankToIndice(minusOne=true): indices in [0, nx[d]-1) and equal to the mixed-radix digits of the rank in the '
           'radices nx[d]-1; no signed overflow / division by zero',
      out='nx[d] == 1 with minusOne (zero cells in a direction: division by zero in the real code, documented use is on cells so nx>=2)',
      assumptions=['Grid object is raw storage with _nDim and _nx initialised'],
      stubs=[])
