from kernels import K

# ---------------------------------------------------------------- C16
_GRIDTUS = ['src/Basic/Grid.cpp']

# C16.a rank <-> indices
for _nd in (1, 2, 3):
    K('C16.a.%d' % _nd, property='C16', engine='symex', harness='C16/rank.cpp', entries=['k_rank_to_ind', 'k_ind_to_rank', 'k_ind_outside'],
      tus=_GRIDTUS, defines={'all': {'VF_ND': _nd, 'VF_NXMAX': 1024}},
      bounds={'quick': 'ndim = %d, every nx[d] an arbitrary int in [1, 1024]; every rank in [0, N); every int index vector (in or out of range)' % _nd},
      timeout_ms={'quick': 120000, 'thorough': 600000}, validate={'quick': 30, 'thorough': 60},
      what='Grid::rankToIndice, Grid::indiceToRank: indices in range and equal to the mixed-radix digits of the rank (first dimension '
           'fastest); indiceToRank(rankToIndice(r)) == r; rankToIndice(indiceToRank(i)) == i; out-of-range index => -1; '
           'no signed overflow / division by zero inside the two functions',
      out='node counts above 1024 per direction (product must stay below 2^31 anyway); ndim > 3',
      assumptions=['Grid object is raw storage with _nDim and _nx initialised (the two functions read nothing else)'],
      stubs=[])
    K('C16.a.%d.minus' % _nd, property='C16', engine='symex', harness='C16/rank.cpp', entries=['k_rank_to_ind'],
      tus=_GRIDTUS, defines={'all': {'VF_ND': _nd, 'VF_NXMAX': 1024, 'VF_MINUS': 1}},
      bounds={'quick': 'ndim = %d, every nx[d] an arbitrary int in [2, 1024]; every cell rank in [0, prod(nx[d]-1))' % _nd},
      timeout_ms={'quick': 120000, 'thorough': 600000}, validate={'quick': 30, 'thorough': 60},
      what='Grid::rankToIndice(minusOne=true): indices in [0, nx[d]-1) and equal to the mixed-radix digits of the rank in the '
           'radices nx[d]-1; no signed overflow / division by zero',
      out='nx[d] == 1 with minusOne (zero cells in a direction: division by zero in the real code, documented use is on cells so nx>=2)',
      assumptions=['Grid object is raw storage with _nDim and _nx initialised'],
      stubs=[])

# C16.b indices <-> coordinates, unrotated
_COORDTUS = ['src/Basic/Grid.cpp', 'src/Basic/Rotation.cpp', 'src/Basic/Utilities.cpp', 'src/Basic/AStringable.cpp']
for _nd in (1, 2):
    K('C16.b.%d' % _nd, property='C16', engine='symex', harness='C16/coord.cpp',
      entries=['k_node_roundtrip', 'k_percent', 'k_point_to_cell'],
      tus=_COORDTUS, defines={'all': {'VF_ND': _nd}},
      bounds={'quick': 'ndim = %d, unrotated; x0, dx > 0 arbitrary reals; nx[d] in [1,1024]; node / cell indices arbitrary ints in [-2^20, 2^20]; '
                       'query point an arbitrary real point; eps = EPSILON6 (the default)' % _nd},
      timeout_ms={'quick': 120000, 'thorough': 600000}, validate={'quick': 30, 'thorough': 60}, validate_doubles='dyadic',
      what='Grid::indicesToCoordinateInPlace, Grid::coordinateToIndicesInPlace (with Rotation::rotateDirect/rotateInverse identity path, FFFF): '
           'coordinates == x0 + (i+percent)*dx; node -> coordinates -> same node (centered or not); a point strictly inside cell k is assigned to k; '
           'return code 1 <=> index outside [0,nx)',
      out='floating-point rounding of the mul/add/sub/div (this is what eps exists for; C16.c); points within eps*dx of a cell face; rotated grids (C16.d)',
      assumptions=['real-arithmetic reading of the code', 'Grid object is raw storage with _nDim, _nx, _x0, _dx, _rotation._flagRot=false and the work vectors initialised', 'coordinates below 1e30 in absolute value (1.234e30 is the library\'s undefined value)',
                   'cell-boundary points excluded as a band of relative width eps = 1e-6 on each side of a face (eps is the documented round-off guard argument)'],
      stubs=[])
