from kernels import K

# ---------------------------------------------------------------- C05.e (builder of C12.b / C05.e: variogram pair loops)
# (the Db-filter kernels C05.a-d,f are owned by another builder: append, do not overwrite)
# Same harness and overrides as C12.b (vf/reg/C12.py); built with VF_C05 so that only the masking clause is asserted.
_C05E_TUS = ['src/Variogram/Vario.cpp', 'src/Db/Db.cpp', 'src/Variogram/DirParam.cpp', 'src/Space/ASpaceObject.cpp',
             'src/Space/SpacePoint.cpp', 'src/Space/SpaceTarget.cpp', 'src/Basic/AStringable.cpp', 'src/Basic/Utilities.cpp']
_C05E_STUBS = [
    'Db object is raw storage + the vptr of harness class PairDb (no constructor run)',
    'PairDb::getCoordinate (virtual, called by the real Db::getDistance1D) -> symbolic first coordinate x[iech]',
    'Db::getSampleNumber -> VF_NECH',
    'Db::hasLocVariable -> symbolic flag for ELoc::SEL and ELoc::W (recognised by address), false otherwise',
    'Db::isActive -> symbolic sel[iech]; Db::getWeight -> symbolic w[iech] (TEST or a grid value)',
    'Db::getSampleAsSTInPlace -> loads nothing, remembers which sample sits in which SpaceTarget',
    'ASpaceObject(const ASpace*), ASpaceObject(const ASpaceObject&), SpacePoint(const ASpace*), SpaceTarget(const ASpace*,bool,bool,bool) -> field initialisation only, _space = nullptr',
    'DirParam(const DirParam&) -> default field values; DirParam::getMaximumDistance -> symbolic maxdist; DirParam::getLagRank -> symbolic per-pair table (ITEST or 0..2)',
    'VarioParam::isDateUsed -> false',
    'Vario::keepPair -> symbolic per-unordered-pair boolean and distance >= |x_i - x_j|',
    'Vario::_rescale, _centerCovariance, _patchC00 -> no-ops; Vario::getDirSize -> 2; get/set{Sw,Gg,Hh}ByIndex -> harness arrays',
    'AVario::_evaluateVariogram (target of the member-function pointer _evaluate) -> records (iech1, iech2)',
    'Vario object is raw storage: _nVar = 1, _evaluate, _varioparam._dirparams = one raw DirParam with _space = nullptr',
]
for _n in (3, 4):
    for _sol, _entry in ((1, 'k_pairs1'), (2, 'k_pairs2')):
        K('C05.e%d.%d' % (_sol, _n), property='C05', engine='symex', harness='C12/pairs.cpp', entry=_entry, tus=_C05E_TUS,
          defines={'all': {'VF_NECH': _n, 'VF_C05': 1}},
          bounds={'quick': 'exactly %d samples; selection present or not with any mask (2^%d), weights present or not with any undefined pattern, arbitrary grid first coordinates and consistent sort permutation, any maxdist, any keepPair / lag answers' % (_n, _n)},
          timeout_ms={'quick': 120000, 'thorough': 600000}, validate={'quick': 30, 'thorough': 60}, validate_doubles='int',
          what='Vario::_calculateGeneralSolution%d pair loop: the estimator (_evaluate) is reached only by pairs of two distinct samples that are both active (when a selection exists) and both weight-defined (when weights exist); a pair with a masked or weight-undefined end is evaluated zero times' % _sol,
          out='undefined variable values (tested inside the estimators, AVario::_evaluate*), undefined coordinates, the numerical results; identical-to-physical-removal for the averages',
          assumptions=['undefined weight is TEST = 1.234e30 (FFFF(x) is x > 1e30 in the NaN-free reading)',
                       'inputs on the integer grid (see C12.b)'],
          stubs=_C05E_STUBS)

# ---------------------------------------------------------------- C05.a / C05.b (Db usability filters; harness/C05/active.cpp)
_C05A_TUS = ['src/Db/Db.cpp', 'src/Db/PtrGeos.cpp', 'src/Basic/AStringable.cpp', 'src/Basic/Utilities.cpp', 'src/Basic/VectorHelper.cpp']
_C05A_STUBS = [
    'Db object: raw storage, constructor not run; fields _ncol,_nech,_array,_uidcol,_p built directly (std::vector / VectorInt / PtrGeos are the real classes)',
    'Db::getNEloc() -> 29; static ELoc objects UNKNOWN/X/Z/V/SEL/DOM: field _value written by the harness in the solver build (no static constructors there)',
    'mesArg(title,current,nmax) (error text of checkArg) -> empty',
    'VectorT<int>::push_back(const int&) -> appends to a harness-owned fixed array with a symbolic fill count (the result vector of getRanksActive has a '
    'data-dependent length that the executor cannot allocate); the assertions read that array',
    'ELoc::fromValue, VectorT<String>::begin/erase: overridden by the shared Db harness header, not reached by these kernels',
]
_C05A_ASSUME = ['undefined value is TEST = 1.234e30 (FFFF(x) is x > 1e30 in the NaN-free reading); defined cell values are integers in [-9, 9]',
                'selection values are 0 or 1%s; no ELoc::DOM column (Db::isActiveDomain returns true)',
                'documented argument domain: candidate ranks are valid sample ranks; item is -1 or the rank of an existing variable (any item when there is no variable)']
for _su, _sfx, _seltxt in ((0, '', ''), (1, '.selundef', ' or undefined (TEST)')):
    _ass = [_C05A_ASSUME[0], _C05A_ASSUME[1] % _seltxt, _C05A_ASSUME[2]]
    K('C05.a' + _sfx, property='C05', engine='symex', harness='C05/active.cpp', entry='k_ranks_active', tus=_C05A_TUS,
      defines={'all': {'VF_SELUNDEF': _su}, 'quick': {'VF_NECH': 4}, 'thorough': {'VF_NECH': 6}},
      bounds={'quick': '4 samples; selection column present or not; (variables, item) in {(0, ignored), (1,0), (2,1), (2,-1)}; 0 or 2 variance columns; every selection pattern (0/1%s) '
                       'and every pattern of undefined values in the 5 columns; candidate list none (= all samples) / [2,0] / [1,1,3]; useSel, useVerr arbitrary' % _seltxt,
              'thorough': 'same with 6 samples'},
      timeout_ms={'quick': 120000, 'thorough': 900000}, validate={'quick': 60, 'thorough': 100}, validate_doubles='int',
      symex={'max_steps': 30000000}, cxxflags=['-fno-sanitize=vptr'],
      what='Db::getRanksActive (with getColIdxByLocator, getValueByColIdx, getZVariable, getLocVariable, getFromLocator, FFFF, VH::sequence): '
           'returns exactly the in-order list of candidates that are selected (selection > 0), have the variable defined and, when requested, a defined non-negative variance',
      out='numerical results downstream; getMultipleRanksActive (a loop over this function); NaN as undefined value',
      assumptions=_ass, stubs=_C05A_STUBS)
    K('C05.b' + _sfx, property='C05', engine='symex', harness='C05/active.cpp', entry='k_is_active', tus=_C05A_TUS,
      defines={'all': {'VF_SELUNDEF': _su}, 'quick': {'VF_NECH': 4}, 'thorough': {'VF_NECH': 6}},
      bounds={'quick': '4 samples; selection column present or not; (variables, item) in {(0,0), (1,0), (2,1), (2,0)}; every selection pattern (0/1%s) and every pattern of undefined values; every sample rank' % _seltxt,
              'thorough': 'same with 6 samples'},
      timeout_ms={'quick': 120000, 'thorough': 900000}, validate={'quick': 60, 'thorough': 100}, validate_doubles='int',
      symex={'max_steps': 30000000}, cxxflags=['-fno-sanitize=vptr'],
      what='Db::isActive, isActiveAndDefined, getSelection, isActiveDomain, getActiveSampleNumber, getSampleNumber(true), getActiveAndDefinedNumber: '
           'equal the definition; the counts equal the number of active (and defined) samples',
      out='ELoc::DOM domains; NaN as undefined value',
      assumptions=_ass, stubs=_C05A_STUBS)


# ---------------------------------------------------------------- C05.d moving-neighbourhood candidate loop (same harness and overrides as C06.h, vf/reg/C06.py;
# built with VF_C05 so that only the masking clause is asserted)
_C05D_TUS = ['src/Neigh/NeighMoving.cpp', 'src/Neigh/ANeigh.cpp', 'src/Db/Db.cpp', 'src/Basic/VectorHelper.cpp', 'src/Geometry/BiTargetCheckDistance.cpp',
             'src/Geometry/ABiTargetCheck.cpp', 'src/Geometry/GeometryHelper.cpp', 'src/Basic/AStringable.cpp', 'src/Basic/Utilities.cpp']
_C05D_STUBS = [
    'NeighMoving object is raw storage (no constructor): _dbin, _dbout, _dbgrid (both), _flagSimu, _flagXvalid, _flagKFold, _useBallSearch, _nMini, _nMaxi, _nSect = 1, _nSMax, '
    '_movingInd/_movingDst/_movingIsect/_movingNsect sized as attach() does, _biPtDist, _bipts',
    'the two Db objects are raw storage + the vptr of harness class MovDb; _nech set (read by the real Db::isSampleIndexValid)',
    'Db::getSampleNumber -> VF_NECH; Db::isActive -> symbolic act[iech]',
    'Db::getSampleAsSTInPlace -> loads nothing, remembers which sample sits in T2',
    'Db::getLocNumber -> symbolic 0 or 2 for ELoc::Z, 2 for ELoc::SIMU (recognised by address); Db::getZVariable / getLocVariable(SIMU) -> TEST or a grid value per symbolic undefined-pattern tables',
    'ANeigh::_xvalid -> symbolic xv[iech_in]; ASpaceObject::getNDim -> 2; OptDbg::query -> false',
    'BiTargetCheckDistance::isOK -> symbolic in[i] and distance d[i] for the sample loaded in T2; two harness subclasses of ABiTargetCheck in _bipts answering symbolic ok1[i], ok2[i]',
    'the three checker stubs also state the property where they are called (a sample that an earlier filter rejects must not be accepted as a candidate) and answer no for such a sample, so that the candidate count stays the one of the entry pattern (concrete allocation sizes in arrangeInPlace); on correctly filtering code they are just the tables',
    'operator new(size_t, nothrow_t) -> nullptr (std::get_temporary_buffer of std::stable_sort; same stub as C11.e)',
]
for _n, _tiers in ((3, ('quick', 'thorough')), (4, ('thorough',))):
    K('C05.d.%d' % _n, property='C05', engine='symex', harness='C06/moving.cpp', entries=['k_moving_m%d' % _m for _m in range(1 << _n)], tus=_C05D_TUS,
      defines={'all': {'VF_NECH': _n, 'VF_C05': 1}}, tiers=_tiers, cxxflags=['-fno-sanitize=vptr'],
      bounds={'quick': 'exactly %d samples in the input Db, every admissibility pattern (one entry per pattern, 2^%d) and for an inadmissible sample every combination of reasons '
                       '(masked, all variables undefined for the Z or SIMU locator with 0 or 2 variables, cross-validation exclusion, two extra pair checkers, distance checker); '
                       'arbitrary nmini, arbitrary nmaxi > 0, arbitrary distinct integer-valued distances in any order; cross-validation and simulation flags arbitrary' % (_n, _n)},
      timeout_ms={'quick': 120000, 'thorough': 600000}, validate={'quick': 30, 'thorough': 60}, validate_doubles='int',
      what='NeighMoving::getNeigh, _moving (candidate loop with the real ANeigh::_discardUndefined + Db::isAllUndefined / isAllUndefinedByType, sort, _movingSelect), ANeigh::_neighCompress: '
           'a masked sample, or a sample whose variables (Z locator, SIMU locator in simulation mode) are all undefined, never appears in the returned neighbourhood ranks, '
           'whatever the other filters, distances, nmini and nmaxi',
      out='identical-to-physical-removal for the kriging results downstream; undefined coordinates; angular sectors; ball-tree pre-selection; NaN as undefined value',
      assumptions=['undefined value is TEST = 1.234e30 (FFFF(x) is x > 1e30 in the NaN-free reading)', 'nmaxi > 0; distances pairwise distinct integer-valued reals (see C06.h)'],
      stubs=_C05D_STUBS)

