from kernels import K

# ---------------------------------------------------------------- C03
_COV = {
    # name: (header, support, ndim, closed form, Lipschitz bound)
    'CovSpherical': ('Covariances/CovSpherical.hpp', 1, 3, '((h) < 1 ? 1 - 1.5 * (h) + 0.5 * (h) * (h) * (h) : 0.)', 1.5),
    'CovCubic': ('Covariances/CovCubic.hpp', 1, 3, '((h) < 1 ? 1 - 7*(h)*(h) + 8.75*(h)*(h)*(h) - 3.5*(h)*(h)*(h)*(h)*(h) + 0.75*(h)*(h)*(h)*(h)*(h)*(h)*(h) : 0.)', 2.5),
    'CovTriangle': ('Covariances/CovTriangle.hpp', 1, 1, '((h) < 1 ? 1 - (h) : 0.)', 1.0),
    'CovWendland0': ('Covariances/CovWendland0.hpp', 1, 3, '((h) < 1 ? (1-(h))*(1-(h)) : 0.)', 2.0),
    'CovWendland1': ('Covariances/CovWendland1.hpp', 1, 3, '((h) < 1 ? (1-(h))*(1-(h))*(1-(h))*(1-(h))*(4*(h)+1) : 0.)', 2.5),
    'CovWendland2': ('Covariances/CovWendland2.hpp', 1, 3, '((h) < 1 ? (1-(h))*(1-(h))*(1-(h))*(1-(h))*(1-(h))*(1-(h))*(35*(h)*(h)+18*(h)+3)/3. : 0.)', 2.5),
    'CovReg1D': ('Covariances/CovReg1D.hpp', 2, 1, '((h) < 1 ? 1 - 3*(h) + 1.5*(h)*(h) + 0.25*(h)*(h)*(h) : (h) < 2 ? -2 + 3*(h) - 1.5*(h)*(h) + 0.25*(h)*(h)*(h) : 0.)', 3.0),
    # published penta model (same polynomial as the library's own Tapering "Pentamodel")
    'CovPenta': ('Covariances/CovPenta.hpp', 1, 3, '((h) < 1 ? 1 - (22./3.)*(h)*(h) + 33*(h)*(h)*(h)*(h) - 38.5*(h)*(h)*(h)*(h)*(h) + 16.5*(h)*(h)*(h)*(h)*(h)*(h)*(h) - 5.5*(h)*(h)*(h)*(h)*(h)*(h)*(h)*(h)*(h) + (5./6.)*(h)*(h)*(h)*(h)*(h)*(h)*(h)*(h)*(h)*(h)*(h) : 0.)', 3.0),
}
for _c, (_h, _sup, _nd, _ref, _lip) in _COV.items():
    K('C03.a.' + _c, property='C03', engine='symex', harness='C03/poly.cpp', entries=['k_cov_shape', 'k_cov_pd'],
      tus=['src/Covariances/%s.cpp' % _c],
      defines={'all': {'VF_COV': _c, 'VF_HDR': '"%s"' % _h, 'VF_SUPPORT': _sup, 'VF_NDIM': _nd,
                       'VF_REF(h)': _ref, 'VF_LIP': _lip},
               # degree 8 / 11 polynomials with rounded rational coefficients: the conditions that involve
               # sqrt(2), sqrt(3) do not finish inside the budgets (quick or thorough) and are outside the claim for these two structures
               'quick': {'VF_PD_LEVEL': 1 if _c in ('CovWendland2', 'CovPenta') else 2},
               # thorough: level 2 for these two did not come to a verdict within 10 min per query (z3 nlsat, degree 8/11
               # with two algebraic constants): not claimed
               'thorough': {'VF_PD_LEVEL': 1 if _c in ('CovWendland2', 'CovPenta') else 2}},
      bounds={'quick': 'h, s free non-negative reals (a continuum); point sets: 1-D up to 5 equally spaced points with 9 weight vectors; 2-D triangle, square, hexagon, hexagon+centre; 3-D tetrahedron, octahedron, cube'},
      timeout_ms={'quick': 100000, 'thorough': 600000}, validate={'quick': 25, 'thorough': 60},
      native=True,
      what='%s::_evaluateCov, getMaxNDim: shape facts, published closed form, necessary positive-definiteness conditions per declared dimension' % _c,
      out='sufficiency of positive definiteness (all point sets); anisotropy/rotation/sill (CovAniso, Tensor); rounding of the <=20 floating operations',
      assumptions=['real-arithmetic reading of _evaluateCov; sqrt(2), sqrt(3) introduced as positive algebraic numbers'])

# ---- C03.t the anisotropy tensor is rebuilt by every setter (added after seeded change r5_tensor_angle_stale)
for _nd in (2, 3):
    K('C03.t.%d' % _nd, property='C03', engine='symex', harness='C03/tensor.cpp',
      entries=['k_set_radius_iso', 'k_set_radius_vec', 'k_set_radius_dir', 'k_set_angles', 'k_set_angle', 'k_set_angles_and_radius'],
      tus=['src/Basic/Tensor.cpp', 'src/Basic/VectorHelper.cpp', 'src/Basic/Utilities.cpp', 'src/Basic/AStringable.cpp'], defines={'all': {'VF_ND': _nd}},
      bounds={'quick': 'one setter call from an arbitrary consistent state, space dimension %d; arbitrary real ranges > 0.001 and angles (a continuum), every direction index' % _nd},
      timeout_ms={'quick': 100000, 'thorough': 600000}, validate={'quick': 50, 'thorough': 100}, validate_doubles='int',
      what='Tensor::setRadiusIsotropic, setRadiusVec, setRadiusDir, setRotationAngles, setRotationAngle, setRotationAnglesAndRadius, _updateIsotropic: '
           'each stores what it is given and calls _fillTensors after its last change of (_radius, angles), so the matrices CovAniso measures distances with '
           'belong to the ranges and angles the object reports (range measured along the rotated anisotropy axes)',
      out='the content of _fillTensors itself (products of the rotation matrix by the ranges, Eigen inverse); Rotation::setAngles matrices (trigonometry); '
          'Tensor::setRotation(const Rotation&), setTensorDirect2; sequences of setters (each is an inductive step from a consistent state)',
      assumptions=['pre-state consistent (tensors built from the current ranges and angles); ranges > 0.001 (null radius is refused with an exception: not exercised)'],
      stubs=['Tensor::_fillTensors -> ghost snapshot of (_radius, _rotation._angles) and a call counter',
             'Rotation::setAngles -> angle bookkeeping of the real one (copy, resize to ndim, second angle 0 in 2-D) without the rotation matrices',
             'Tensor object is raw storage: _nDim, _radius, _isotropic, _flagDefinedBySquare, _rotation._nDim/_flagRot/_angles initialised by the harness',
             'messerr: empty'])
