from kernels import K

# ---------------------------------------------------------------- C03
_COV = {
    # name: (header, support, ndim, closed form, Lipschitz bound)
    'CovSpherical': ('Covariances/CovSpherical.hpp', 1, 3, '((h) < 1 ? 1 - 1.5 * (h) + 0.5 * (h) * (h) * (h) : 0.)', 1.5),
    'CovCubic': ('Covariances/CovCubic.hpp', 1, 3, '((h) < 1 ? 1 - 7*(h)*(h) + 8.75*(h)*(h)*(h) - 3.5*(h)*(h)*(h)*(h)*(h) + 0.75*(h)*(h)*(h)*(h)*(h)*(h)*(h) : 0.)', 2.5),
    'CovTriangle': ('Covariances/CovTriangle.hpp', 1, 1, '((h) < 1 ? 1 - (h) : 0.)', 1.0),
    'CovWendland0': ('Covariances/CovWendland0.hpp', 1, 3, '((h) < 1 ? (1-(h))*(1-(h)) : 0.)', 2.0),
    'CovWendland1': ('Covariances/CovWendland1.hpp', 1, 3, '((h) < 1 ? (1-(h))*(1-(h))*(1-(h))*(1-(h))*(4*(h)+1) : 0.)', 2.5),
    'CovWendland2': ('Covariances/CovWendland2.hpp', 1, 3, '((h) < 1 ? (1-(h))*(1-(h))*(1-(h))*(1-(h))*(1-(h))*(1-(h))*(35*(h)*(h)+18*(h)+3)/3. : 0.)', 2.5),
    'CovReg1D': ('Covariances/CovReg1D.hpp', 2, 1, '((h) < 1 ? 1 - 3*(h) + 1.5*(h)*(h) + 0.25*(h)*(h)*(h) : (h) < 2 ? -2 + 3*(h) - 1.5*(h)*(h) + 0.25*(h)*(h)*(h) : 0.)', 3.0),
    # published penta model (same polynomial as the library's own Tapering "Pentamodel")
    'CovPenta': ('Covariances/CovPenta.hpp', 1, 3, '((h) < 1 ? 1 - (22./3.)*(h)*(h) + 33*(h)*(h)*(h)*(h) - 38.5*(h)*(h)*(h)*(h)*(h) + 16.5*(h)*(h)*(h)*(h)*(h)*(h)*(h) - 5.5*(h)*(h)*(h)*(h)*(h)*(h)*(h)*(h)*(h) + (5./6.)*(h)*(h)*(h)*(h)*(h)*(h)*(h)*(h)*(h)*(h)*(h) : 0.)', 3.0),
}
for _c, (_h, _sup, _nd, _ref, _lip) in _COV.items():
    K('C03.a.' + _c, property='C03', engine='symex', harness='C03/poly.cpp', entries=['k_cov_shape', 'k_cov_pd'],
      tus=['src/Covariances/%s.cpp' % _c],
      defines={'all': {'VF_COV': _c, 'VF_HDR': '"%s"' % _h, 'VF_SUPPORT': _sup, 'VF_NDIM': _nd,
                       'VF_REF(h)': _ref, 'VF_LIP': _lip},
               # degree 8 / 11 polynomials with rounded rational coefficients: the conditions that involve
               # sqrt(2), sqrt(3) do not finish inside the budgets (quick or thorough) and are outside the claim for these two structures
               'quick': {'VF_PD_LEVEL': 1 if _c in ('CovWendland2', 'CovPenta') else 2},
               # thorough: level 2 for these two did not come to a verdict within 10 min per query (z3 nlsat, degree 8/11
               # with two algebraic constants): not claimed
               'thorough': {'VF_PD_LEVEL': 1 if _c in ('CovWendland2', 'CovPenta') else 2}},
      bounds={'quick': 'h, s free non-negative reals (a continuum); point sets: 1-D up to 5 equally spaced points with 9 weight vectors; 2-D triangle, square, hexagon, hexagon+centre; 3-D tetrahedron, octahedron, cube'},
      timeout_ms={'quick': 100000, 'thorough': 600000}, validate={'quick': 25, 'thorough': 60},
      native=True,
      what='%s::_evaluateCov, getMaxNDim: shape facts, published closed form, necessary positive-definiteness conditions per declared dimension' % _c,
      out='sufficiency of positive definiteness (all point sets); anisotropy/rotation/sill (CovAniso, Tensor); rounding of the <=20 floating operations',
      assumptions=['real-arithmetic reading of _evaluateCov; sqrt(2), sqrt(3) introduced as positive algebraic numbers'])
