from kernels import K

# ---------------------------------------------------------------- C02
# Structural facts behind "exact, unbiased, linear": sign of the stored standard deviation, affinity of the
# estimate in the data vector, nugget counted at zero distance only.  (The harness shares the raw
# KrigingSystem set-up of C01: harness/C01/ks_common.h.)
_MATTUS = ['src/Matrix/AMatrix.cpp', 'src/Matrix/AMatrixDense.cpp', 'src/Matrix/AMatrixSquare.cpp',
           'src/Matrix/MatrixSquareSymmetric.cpp', 'src/Matrix/MatrixRectangular.cpp', 'src/Matrix/MatrixSquareGeneral.cpp',
           'src/Basic/AStringable.cpp', 'src/Basic/ASerializable.cpp']
_KSTUS = ['src/Estimation/KrigingSystem.cpp', 'src/Basic/Utilities.cpp', 'src/Basic/VectorHelper.cpp', 'src/Enum/Enums.cpp'] + _MATTUS


def _bd(nr, nv, nf, tiers):
    K('C02.bd.%d%d%d' % (nr, nv, nf), property='C02', engine='symex', harness='C02/krig.cpp', entries=['k_stdv_nonneg', 'k_affine'], tus=_KSTUS,
      defines={'all': {'VF_NRED': nr, 'VF_NVAR': nv, 'VF_NFEQ': nf}}, tiers=tiers,
      bounds={'quick': 'compressed system of exactly nred=%d equations, nvar=%d right-hand sides, nfeq=%d drift equations; var0, rhs, wgt, the two dual vectors, the means and '
                       'the two coefficients a, b arbitrary reals; status 0/1' % (nr, nv, nf)},
      timeout_ms={'quick': 120000, 'thorough': 600000}, validate={'quick': 20, 'thorough': 40},
      fpspecial='violation',   # a reachable sqrt of a negative variance IS the violation (NaN standard deviation)
      what='C02.b KrigingSystem::_estimateStdv: for every var0 and every rhs/wgt the stored standard deviation is >= 0 (negative variance clipped to 0), TEST for a failed system; '
           'C02.d KrigingSystem::_estimateEstim: est(a.z1+b.z2)-m == a.(est(z1)-m)+b.(est(z2)-m) with the same right-hand side (m = known mean, 0 with drift equations); '
           'real Eigen products (AMatrixDense::prodMatMatInPlace)',
      out='NaN/inf inputs (real reading of double; the IEEE clause "NaN variance gives 0" of the design is not decided here); that the variance never exceeds the a-priori variance and '
          'exact interpolation (need the solve); rounding of the products',
      assumptions=['KrigingSystem is raw storage (no constructor), only the fields read by the two functions are initialised; matrices are real objects (placement new)',
                   'exact (real) arithmetic; sqrt modelled exactly (r>=0, r*r==x)',
                   'options fixed: _flagBayes=false, _flagNoStat=false, _flagPerCell=false, _flagNoMatLC=true'],
      stubs=['Db::setArray(target, iuid, value) -> recorded in harness table T_out (with a write counter)',
             'CovContext::getMean(ivar) (behind the inline Model::getMean) -> symbolic table T_mean',
             '__dynamic_cast (solver build only) -> identity: the only casts reached are AMatrix* -> AMatrixDense* on dense matrices',
             '(ks_common.h also defines the Db/Model/ACov callbacks of the C01 kernels; none of them is reached here)'])


for _nr, _nv, _nf in ((3, 2, 1), (3, 2, 0), (2, 1, 0)):
    _bd(_nr, _nv, _nf, ('quick', 'thorough'))
for _nr, _nv, _nf in ((1, 1, 0), (2, 2, 1), (3, 1, 1), (4, 2, 2)):
    _bd(_nr, _nv, _nf, ('thorough',))

K('C02.c', property='C02', engine='symex', harness='C02/nugget.cpp', entry='k_nugget', tus=['src/Covariances/CovNugget.cpp'],
  bounds={'quick': 'h a free real (a continuum)'},
  timeout_ms={'quick': 60000, 'thorough': 60000}, validate={'quick': 30, 'thorough': 60},
  what='C02.c CovNugget::_evaluateCov: returns 1 at h==0 and 0 for every |h| >= 1e-10 (the function has no other input: the same value whichever CovCalcMode member asks)',
  out='sill/anisotropy scaling in CovAniso; selection of active structures by CovCalcMode',
  assumptions=['CovNugget object is raw storage (_evaluateCov does not read *this); comparison-only code: the real reading is exact for finite doubles'],
  stubs=[])

CLAIMS = {'C02': 'Decided: code-level facts the statement rests on (non-negative stored standard deviation, estimate affine in the data with the same weights, nugget at zero distance only); '
                 'exactness/unbiasedness of the solved system are not claimed (they need the inverse).'}


# ---------------------------------------------------------------- C02.e (builder2: translation invariance of increments / distances)
_TR_TUS = ['src/Geometry/BiTargetCheckDistance.cpp', 'src/Geometry/ABiTargetCheck.cpp', 'src/Geometry/GeometryHelper.cpp',
           'src/Core/matrix.cpp', 'src/Space/SpaceRN.cpp', 'src/Space/ASpace.cpp', 'src/Space/ASpaceObject.cpp',
           'src/Space/SpacePoint.cpp', 'src/Space/SpaceTarget.cpp', 'src/Basic/AStringable.cpp', 'src/Basic/Utilities.cpp',
           'src/Basic/VectorHelper.cpp']
for _nd in (2, 3):
    K('C02.e.%d' % _nd, property='C02', engine='symex', harness='C02/transl.cpp', entries=['k_increment', 'k_check_distance'], tus=_TR_TUS,
      defines={'all': {'VF_ND': _nd}}, symex={'fp_exact': True},
      bounds={'quick': 'ndim = %d; both points and the translation vector arbitrary integer vectors, |coordinate| <= 2^20 (increments, distances) / 2^15 (isOK); '
                       'radius an arbitrary integer in [-2^15, 2^15]; anisotropy coefficients each in {1, 2, 4, 8}, no rotation' % _nd},
      timeout_ms={'quick': 120000, 'thorough': 600000}, validate={'quick': 30, 'thorough': 60}, validate_doubles='int',
      what='C02.e SpacePoint::move / getIncrement / getDistance (ASpaceObject, ASpace, SpaceRN::_move/_getIncrement/_getDistance) and BiTargetCheckDistance::isOK '
           '(+ constructor, _calculateDistance, matrix_product_safe): after translating both points by the same vector with the library\'s move(), '
           'increment == coordinate difference of the original pair, distance == sqrt(sum of squared differences of the original pair), '
           'symmetric; isOK <=> radius >= 0 and sum ((x1-x2)/c)^2 <= radius^2 on the original pair',
      out='non-integer coordinates (rounding of x+t makes increments differ in the last place: translation invariance is exact only where the additions are); '
          'rotated anisotropy (_flagRotation); tensor distances (ASpace::getDistance with a Tensor); spaces other than RN; invariance of the whole kriging output',
      assumptions=['k_increment: integer-grid inputs, every +,-,* of the encoded code is proved exact in IEEE double by the fp_exact bridge; '
                   'k_check_distance: real-arithmetic reading; it transfers to IEEE double by this argument (not by the bridge, which does not track dyadic fractions): |x1-x2| <= 2^17 integer, '
                   'divisions are by 1, 2, 4 or 8, so each (dx/c)^2 is a multiple of 2^-6 below 2^34 and their sum has fewer than 53 significant bits; the correctly rounded sqrt of it is compared '
                   'with an integer radius r, and sqrt(s) <= r <=> s <= r^2 survives correct rounding',
                   'sqrt modelled exactly (r >= 0, r*r == x)'],
      stubs=['ASpaceObject(const ASpace*) -> keeps the pointer instead of cloning the space; ~ASpaceObject -> does not delete it'])

CLAIMS['C02'] += ' Also decided (C02.e): increments, distances and the neighbourhood distance test of a pair of points are unchanged when both points are translated by the same integer vector.'
