from kernels import K

# ---------------------------------------------------------------- C19
_BASE = ['src/Calculators/ACalculator.cpp', 'src/Calculators/ACalcDbToDb.cpp', 'src/Calculators/ACalcDbVarCreator.cpp',
         'src/Basic/AException.cpp', 'src/Basic/VectorHelper.cpp', 'src/Enum/Enums.cpp']
K('C19.p.1', property='C19', engine='symex', harness='C19/proto.cpp', entry='k_proto_dbtodb', tus=_BASE,
  defines={'all': {'VF_NPRE': 3, 'VF_NRUN': 1, 'G_MAXID': 9}},
  bounds={'quick': 'x'}, timeout_ms={'quick': 120000}, validate={'quick': 20},
  what='x', out='x', assumptions=[], stubs=[])
