from kernels import K

# ---------------------------------------------------------------- C19
# A calculation either completes or leaves its data bases untouched: the roll-back protocol of the
# calculators (check -> preprocess -> run -> postprocess, roll-back on failure) under symbolic
# fault schedules.  Db is a ghost (harness/C19/ghost.h): live identifiers, role table, touched flags.
_BASE = ['src/Calculators/ACalculator.cpp', 'src/Calculators/ACalcDbToDb.cpp', 'src/Calculators/ACalcDbVarCreator.cpp',
         'src/Basic/AException.cpp', 'src/Basic/VectorHelper.cpp', 'src/Enum/Enums.cpp']
_GHOST_STUBS = [
    'Db::addColumnsByConstant/deleteColumnByUID/deleteColumnsByLocator/setLocatorByUID/setLocatorsByUID/setLocators/clearLocators/'
    'getLocNumber/getLocatorNumber/getFromLocatorNumber/getUIDByLocator/getNamesByLocator/getNamesByUID/duplicateColumnByUID/'
    'getSampleNumber/getExtensionInPlace -> ghost model (harness/C19/ghost.h): live identifier set with fresh ids never reused, '
    'role table with the overwrite/erase semantics of Db.cpp + PtrGeos.cpp, touched flags; names are handles',
    'GhostDb/GhostGrid (harness classes on Db/DbGrid, raw storage, vptr set by hand): isGrid, getNDim answer from the ghost',
    'throw_exp -> throw AException() (no stream/string formatting)',
    'NamingConvention::setNamesAndLocators (10-argument overload) -> marks the names of the designated columns written and, under two '
    'input bits (flag_locator, cleanSameLocator), gives them the Z locator; NamingConvention::create/~NamingConvention, '
    'AStringable::~AStringable -> raw object, no strings',
    'ELoc::fromKey -> Z / UNKNOWN (the item map is not constructed: static constructors are not executed); the _value of the '
    'enum items used is written by hand',
    'strlen (solver build only) -> plain loop',
]
_INTERP_STUBS = [
    'Model: getVariableNumber (overridden by mangled name), ASpaceObject::getNDim, getExternalDriftNumber, getCovaNumber, hasAnam, '
    'isChangeSupportDefined, setField, getCovAnisoList, ACovAnisoList::isStationary -> inputs drawn up front',
    'GhostNeigh (harness class on ANeigh): attach -> 0, getType -> MOVING or IMAGE under an input bit',
    'migrateByLocator (the nested calculation behind ACalcDbToDb::_expandInformation) -> fails leaving its data bases alone, or '
    'creates one column per located column with the same locator',
    'DbHelper::centerPointToGrid -> marks the X-located columns of the point data base written, returns an input bit',
    'VectorHelper::extensionDiagonal -> 1',
    '__dynamic_cast (solver build only) -> the ghost output grid is a DbGrid, nothing else is',
]
_ASSUME = [
    'the ghost Db stands for the real Db (C07 is the property that checks the real locator tables); a violation replayed natively '
    'is replayed against the ghost, not against Db.cpp',
    'the numerical _run of each calculator is replaced by a stub that may register further permanent variables and then succeeds, '
    'returns false or throws AException (exceptions of other types, caught by the second catch clause of ACalculator::run, are not exercised)',
    'calculator objects are raw storage with the real vptr and only the fields the stages read initialised (the constructors build std::string/NamingConvention objects)',
    'identifier space bounded by G_MAXID per data base (vf_assume in the ghost)',
]
_OUT = ('values stored in the columns (the numerical _run), names as strings, exceptions thrown from inside Eigen/libstdc++, '
        'the real Db/NamingConvention/Model code, calculators not listed')

for _id, _e, _w in (('C19.p.1', 'k_proto_dbtodb', 'ACalcDbToDb::_check/_preprocess/_addVariableDb/_storeInVariableList/_cleanVariableDb/_whichDb'),
                    ('C19.p.2', 'k_proto_varcreator', 'ACalcDbVarCreator::_addVariableDb/_storeInVariableList/_cleanVariableDb')):
    K(_id, property='C19', engine='symex', harness='C19/proto.cpp', entry=_e, tus=_BASE,
      defines={'quick': {'VF_NPRE': 3, 'VF_NRUN': 1, 'G_MAXID': 9}, 'thorough': {'VF_NPRE': 3, 'VF_NRUN': 2, 'G_MAXID': 15}},
      bounds={'quick': '3 identifiers issued beforehand in each data base (any subset alive, roles X/Z/F/SIMU or none, ranks 0..1); '
                       'each of _preprocess and _run creates 0, 1, 2 or 1+2 variables (data base and permanent/temporary status free) and '
                       'then succeeds, returns false or throws; _check and _postprocess succeed, fail or throw; one run()',
              'thorough': 'same, two consecutive run() on the same objects'},
      timeout_ms={'quick': 240000, 'thorough': 1800000}, validate={'quick': 20, 'thorough': 40},
      what='ACalculator::run (real try/catch, AException clause) + %s driven by a minimal calculator that follows the protocol '
           '(creates through _addVariableDb, frees temporaries in _postprocess, frees both lists in _rollback): failure => both ghost data '
           'bases exactly as before and bookkeeping lists empty; success => live identifiers == previous + registered permanent, no temporary left, '
           'roles and contents of previous columns unchanged' % _w,
      out=_OUT, assumptions=_ASSUME, stubs=_GHOST_STUBS)

_KRIG = _BASE + ['src/Calculators/ACalcInterpolator.cpp', 'src/Estimation/CalcKriging.cpp']
_KB = ('dbin: VF_NDIM coordinates + VF_NVAR variables + 2 further columns (alive or not, role none/F/NOSTAT/V/SIMU, rank 0..1); dbout: coordinates + 2 '
       'further columns; options flag_est/flag_std/flag_varZ free; model/neighbourhood dimension equal or one more; model with 0..1 covariances, '
       'stationary or not; neighbourhood MOVING or IMAGE; stubbed _run creates 0, 1, 2 or 3 permanent variables then succeeds, fails or throws')
for _id, _d, _b in (
        ('C19.a.1', {}, 'plain kriging (kriging(), krigcell(), kribayes(), krigprof(), kriggam()): point dbout, no single target, no DGM'),
        ('C19.a.2', {'VF_SINGLE': 1}, 'single-target mode allowed (krigtest(): _iechSingleTarget >= 0)'),
        ('C19.a.3', {'VF_DGM': 1}, 'DGM option allowed, dbout is a grid without F/NOSTAT columns; centring may fail'),
        ('C19.a.4', {'VF_FEX': 1, 'G_MAXID': 12}, 'dbout is a grid that may carry F/NOSTAT columns, model with 0..2 external drifts; the nested migration may fail'),
        ('C19.a.5', {'VF_XVALID': 1}, 'cross-validation (xvalid()): dbout is dbin itself, flags est/std in {-1,0,1}, varz in {0,1}'),
        ('C19.a.6', {'VF_NDIM': 2, 'VF_NVAR': 2, 'G_MAXID': 16}, 'plain kriging, 2 coordinates, 2 variables')):
    _dd = {'VF_NDIM': 1, 'VF_NVAR': 1, 'G_MAXID': 10}
    _dd.update(_d)
    K(_id, property='C19', engine='symex', harness='C19/kriging.cpp', entry='k_kriging', tus=_KRIG,
      defines={'all': _dd},
      bounds={'quick': '%s; VF_NDIM=%d, VF_NVAR=%d; %s' % (_b, _dd['VF_NDIM'], _dd['VF_NVAR'], _KB)},
      timeout_ms={'quick': 240000, 'thorough': 1800000}, validate={'quick': 20, 'thorough': 40},
      what='ACalculator::run, ACalcDbToDb::_check/_preprocess/_addVariableDb/_storeInVariableList/_cleanVariableDb/_renameVariable/'
           '_expandInformation, ACalcInterpolator::_check/_preprocess/_centerDataToGrid, CalcKriging::_check/_preprocess/_postprocess/_rollback: '
           'failure => dbin and dbout exactly as before (identifiers, roles, contents) and the four bookkeeping lists empty; success => dbin '
           'unchanged, dbout = previous columns + exactly nvar columns per requested result, contents of previous columns untouched',
      out=_OUT, assumptions=_ASSUME, stubs=_GHOST_STUBS + _INTERP_STUBS + ['CalcKriging::_run -> fault-injecting stub'])

_TB = _BASE + ['src/Calculators/ACalcInterpolator.cpp', 'src/Simulation/ACalcSimulation.cpp', 'src/Simulation/CalcSimuTurningBands.cpp']
for _id, _d, _b in (
        ('C19.b.1', {}, 'conditional simulation (dbin and neighbourhood given), no column with the SIMU locator beforehand'),
        ('C19.b.2', {'VF_COND': 0}, 'non-conditional simulation (dbin == nullptr), no column with the SIMU locator beforehand'),
        ('C19.b.3', {'VF_COND': 0, 'VF_SIMUPRE': 1}, 'non-conditional simulation, dbout may already hold SIMU-located columns'),
        ('C19.b.4', {'VF_COND': 0, 'VF_DGM': 1}, 'non-conditional simulation with the DGM option allowed (dbout a grid)'),
        ('C19.b.5', {'VF_COND': 1, 'VF_EXPAND': 1, 'G_MAXID': 14}, 'conditional simulation, dbout a grid that may carry F/NOSTAT columns')):
    _dd = {'VF_NDIM': 1, 'VF_NVAR': 1, 'VF_NBSIMU': 2, 'G_MAXID': 12}
    _dd.update(_d)
    K(_id, property='C19', engine='symex', harness='C19/tb.cpp', entry='k_simtub', tus=_TB,
      defines={'all': _dd}, cxxflags=['-fno-delete-null-pointer-checks'],
      bounds={'quick': '%s; 1 coordinate, 1 variable, nbsimu 0 or 2, nbtuba 0 or 100, allocation-already-done flag free; data bases as for C19.a; '
                       'stubbed _run creates 0..3 permanent variables then succeeds, fails or throws' % _b},
      timeout_ms={'quick': 240000, 'thorough': 1800000}, validate={'quick': 20, 'thorough': 40},
      what='ACalculator::run, ACalcDbToDb/ACalcInterpolator stages as in C19.a, ACalcSimulation::_check/_preprocess, '
           'CalcSimuTurningBands::_check/_preprocess/_postprocess/_rollback: same oracle as C19.a with nvar*nbsimu documented outputs; '
           'additionally no Db member function is called through a null pointer',
      out=_OUT, assumptions=_ASSUME, stubs=_GHOST_STUBS + _INTERP_STUBS + ['CalcSimuTurningBands::_run -> fault-injecting stub'])

K('C19.c.1', property='C19', engine='symex', harness='C19/migrate.cpp', entry='k_migrate', tus=_BASE + ['src/Calculators/CalcMigrate.cpp'],
  defines={'all': {'VF_NDIM': 1, 'VF_NVAR': 2, 'G_MAXID': 12}},
  bounds={'quick': 'dbin: 1 coordinate + 2 variables + 2 further columns (alive or not, role none/F/SEL/V/SIMU); dbout: coordinate + 2 further columns; '
                   'the 2 variables or none selected, dist_type 0..3, flagLocate free; stubbed _run creates 0..3 permanent variables then succeeds, fails or throws'},
  timeout_ms={'quick': 240000, 'thorough': 1800000}, validate={'quick': 20, 'thorough': 40},
  what='ACalculator::run, ACalcDbToDb stages, CalcMigrate::_check/_preprocess/_postprocess/_rollback: failure => both data bases exactly as before, '
       'lists empty; success => dbin unchanged, dbout = previous columns + one column per migrated variable',
  out=_OUT, assumptions=_ASSUME, stubs=_GHOST_STUBS + ['CalcMigrate::_run -> fault-injecting stub'])
K('C19.d.1', property='C19', engine='symex', harness='C19/stats.cpp', entry='k_statistics', tus=_BASE + ['src/Calculators/CalcStatistics.cpp'],
  defines={'all': {'VF_NDIM': 1, 'VF_NVAR': 2, 'G_MAXID': 12}},
  bounds={'quick': 'data bases as for C19.c.1 (dbout not a grid); flagStats, flagRegr, dboutMustBeGrid, flagCst free; stubbed _run as for C19.c.1'},
  timeout_ms={'quick': 240000, 'thorough': 1800000}, validate={'quick': 20, 'thorough': 40},
  what='ACalculator::run, ACalcDbToDb stages, CalcStatistics::_check/_preprocess/_postprocess/_rollback: failure => both data bases exactly as before, '
       'lists empty; success => previous columns kept and untouched, dbout gains nvar columns (statistics), dbin gains 1 column (regression)',
  out=_OUT, assumptions=_ASSUME, stubs=_GHOST_STUBS + ['CalcStatistics::_run -> fault-injecting stub'])
K('C19.e.1', property='C19', engine='symex', harness='C19/anam.cpp', entry='k_anam', tus=_BASE + ['src/Anamorphosis/CalcAnamTransform.cpp'],
  defines={'all': {'VF_NDIM': 1, 'VF_NVAR': 1, 'VF_NFACT': 2, 'G_MAXID': 10, 'VF_CONT': 1}},
  bounds={'quick': 'db: 1 coordinate + 1 variable + 2 further columns; transformation "variables <-> gaussian" or "variable -> 2 factors" (ranks 0..3, '
                   'anamorphosis with 0..3 factors, given or not); stubbed _run succeeds, fails or throws'},
  timeout_ms={'quick': 240000, 'thorough': 1800000}, validate={'quick': 20, 'thorough': 40},
  what='ACalculator::run, ACalcDbVarCreator::_renameVariable/_cleanVariableDb, CalcAnamTransform::_check/_hasAnam/_hasVariableNumber/_preprocess/'
       '_postprocess/_rollback: failure => the data base exactly as before, lists empty; success => previous columns kept and untouched + one '
       'column per variable / per factor',
  out=_OUT, assumptions=_ASSUME,
  stubs=_GHOST_STUBS + ['CalcAnamTransform::_run -> fault-injecting stub', 'GhostAnam (harness class on AnamContinuous): HERMITIAN, getNFactor input',
                        'EAnam::fromKey -> UNKNOWN', '__dynamic_cast (solver build only) -> the ghost anamorphosis is an AnamContinuous'])

NOTES = {
    'C19': 'findings on the current tree (each replayed natively): C19.a.2/a.3/b.1 temporaries registered with status 2 survive a failure because every '
           '_rollback calls _cleanVariableDb(1) only (S12); C19.a.3 DGM centring leaves the X locators on the temporary copies; C19.a.4/b.5 the columns '
           'created by _expandInformation(1, ...) are never removed; C19.b.3 _addVariableDb(..., ELoc::SIMU, 0, ...) displaces the SIMU locators of '
           'previous columns and roll-back does not give them back; C19.b.4 null dbin dereferenced under DGM; C19.e.1 CalcAnamTransform::_preprocess '
           'creates its outputs with Db::addColumnsByConstant directly, so roll-back cannot remove them',
}
