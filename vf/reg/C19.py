from kernels import K

# ---------------------------------------------------------------- C19
_BASE = ['src/Calculators/ACalculator.cpp', 'src/Calculators/ACalcDbToDb.cpp', 'src/Calculators/ACalcDbVarCreator.cpp',
         'src/Basic/AException.cpp', 'src/Basic/VectorHelper.cpp', 'src/Enum/Enums.cpp']
K('C19.p.1', property='C19', engine='symex', harness='C19/proto.cpp', entry='k_proto_dbtodb', tus=_BASE,
  defines={'all': {'VF_NPRE': 3, 'VF_NRUN': 1, 'G_MAXID': 9}},
  bounds={'quick': 'x'}, timeout_ms={'quick': 120000}, validate={'quick': 20},
  what='x', out='x', assumptions=[], stubs=[])
K('C19.p.2', property='C19', engine='symex', harness='C19/proto.cpp', entry='k_proto_varcreator', tus=_BASE,
  defines={'all': {'VF_NPRE': 3, 'VF_NRUN': 1, 'G_MAXID': 9}},
  bounds={'quick': 'x'}, timeout_ms={'quick': 120000}, validate={'quick': 20},
  what='x', out='x', assumptions=[], stubs=[])
_KRIG = _BASE + ['src/Calculators/ACalcInterpolator.cpp', 'src/Estimation/CalcKriging.cpp']
for _id, _d in (('C19.a.1', {}), ('C19.a.2', {'VF_SINGLE': 1}), ('C19.a.3', {'VF_DGM': 1}), ('C19.a.4', {'VF_FEX': 1, 'G_MAXID': 12}),
                ('C19.a.5', {'VF_XVALID': 1}), ('C19.a.6', {'VF_NDIM': 2, 'VF_NVAR': 2, 'G_MAXID': 16})):
    _dd = {'VF_NDIM': 1, 'VF_NVAR': 1, 'G_MAXID': 10}
    _dd.update(_d)
    K(_id, property='C19', engine='symex', harness='C19/kriging.cpp', entry='k_kriging', tus=_KRIG,
      defines={'all': _dd},
      bounds={'quick': 'x'}, timeout_ms={'quick': 120000}, validate={'quick': 20},
      what='x', out='x', assumptions=[], stubs=[])
