from kernels import K

# ---------------------------------------------------------------- C11
_MATTUS = ['src/Matrix/AMatrixDense.cpp', 'src/Matrix/AMatrix.cpp', 'src/Matrix/MatrixRectangular.cpp',
           'src/Basic/VectorHelper.cpp', 'src/Basic/AStringable.cpp']

# C11.a row/column scaling of a dense matrix, every shape 1..3 x 1..3
for _nm, _shapes in (('square', ((1, 1), (2, 2), (3, 3))), ('wide', ((1, 2), (1, 3), (2, 3))), ('tall', ((2, 1), (3, 1), (3, 2)))):
    _ents = []
    for (_r, _c) in _shapes:
        _ents += ['k_%s_%dx%d' % (_o, _r, _c) for _o in ('mulrow', 'mulcol', 'divrow', 'divcol', 'gmulrow', 'gmulcol', 'gdivrow', 'gdivcol')]
    K('C11.a.' + _nm, property='C11', engine='symex', harness='C11/rowcol.cpp', entries=_ents, tus=_MATTUS,
      defines={'all': {'VF_SHAPES(X)': ' '.join('X(%d,%d)' % s for s in _shapes)}},
      bounds={'quick': 'MatrixRectangular of shapes %s; entries and vec integer-valued |v|<=1000 (divisors non-zero)' % (', '.join('%dx%d' % s for s in _shapes))},
      timeout_ms={'quick': 60000, 'thorough': 600000}, validate={'quick': 10, 'thorough': 30}, validate_doubles='int', symex={'assume_no_ub': True},
      what='AMatrixDense::multiplyRow/multiplyColumn/divideRow/divideColumn on a really constructed MatrixRectangular (Eigen storage): '
           'R(i,j)=vec[i]*M(i,j) resp. vec[j]*M(i,j) (division likewise), shape unchanged, vec (exact documented length) not read out of bounds',
      out='shapes above 3x3; rounding of 1/v and of the products (real-arithmetic reading)',
      assumptions=['real-arithmetic reading: M*(1/v) == M/v'],
      stubs=[])
