from kernels import K

# ---------------------------------------------------------------- C11
_MATTUS = ['src/Matrix/AMatrixDense.cpp', 'src/Matrix/AMatrix.cpp', 'src/Matrix/MatrixRectangular.cpp',
           'src/Basic/VectorHelper.cpp', 'src/Basic/AStringable.cpp']

# C11.a row/column scaling of a dense matrix, every shape 1..3 x 1..3 (one build, one entry per shape and operation)
_ALL = tuple((r, c) for r in (1, 2, 3) for c in (1, 2, 3))
K('C11.a', property='C11', engine='symex', harness='C11/rowcol.cpp',
  entries=['k_%s_%dx%d' % (_o, _r, _c) for (_r, _c) in _ALL for _o in ('mulrow', 'mulcol', 'divrow', 'divcol', 'gmulrow', 'gmulcol', 'gdivrow', 'gdivcol')],
  tus=_MATTUS, defines={'all': {'VF_SHAPES(X)': ' '.join('X(%d,%d)' % s for s in _ALL)}},
  bounds={'quick': 'MatrixRectangular of every shape nrows,ncols in 1..3 (square and non-square); entries and vec integer-valued |v|<=1000, divisors every non-zero integer in [-1000,1001]; '
                   'vec allocated at exactly its documented length (nrows for the row operations, ncols for the column operations)'},
  timeout_ms={'quick': 60000, 'thorough': 600000}, validate={'quick': 6, 'thorough': 30}, validate_doubles='int', symex={'assume_no_ub': True},
  what='AMatrixDense::multiplyRow/multiplyColumn/divideRow/divideColumn (Eigen asDiagonal products) on a really constructed MatrixRectangular, and the generic '
       'AMatrix::multiplyRow/... (qualified call): R(i,j)=vec[i]*M(i,j) resp. vec[j]*M(i,j) (division likewise), matrix and Eigen storage keep their shape, '
       'vec is not modified and not read out of bounds',
  out='shapes above 3x3; rounding of 1/v and of the products (real-arithmetic reading); symmetric and sparse storage',
  assumptions=['real-arithmetic reading: M*(1/v) == M/v'],
  stubs=[])

# C11.c element-level operations
_ELEMTUS = _MATTUS + ['src/Matrix/AMatrixSquare.cpp', 'src/Matrix/MatrixSquareSymmetric.cpp']
_COMMON_OPS = ('setget', 'setrow', 'setcol', 'gsetrow', 'gsetcol', 'getrow', 'getcol', 'ggetrow', 'ggetcol', 'transpose', 'setvalues')
def _elem(kid, shapes, syms, **kw):
    ents = []
    for (r, c) in shapes:
        ents += ['k_%s_r%dx%d' % (o, r, c) for o in _COMMON_OPS + ('addrow', 'addcol', 'addrow2', 'addcol2')]
        if r == c:
            ents.append('k_setdiag_r%dx%d' % (r, c))
    for n in syms:
        ents += ['k_%s_s%d' % (o, n) for o in _COMMON_OPS + ('setdiag',)]
    K(kid, property='C11', engine='symex', harness='C11/elem.cpp', entries=ents, tus=_ELEMTUS,
      defines={'all': {'VF_SHAPES(X)': ' '.join('X(%d,%d)' % s for s in shapes),
                       'VF_SQUARES(XD)': ' '.join('XD(%d)' % r for (r, c) in shapes if r == c),
                       'VF_SYMS(Y)': ' '.join('Y(%d)' % n for n in syms)}},
      timeout_ms={'quick': 60000, 'thorough': 600000}, validate={'quick': 10, 'thorough': 30}, validate_doubles='int',
      out='shapes above 3x3; sparse storage; sample/createReduce',
      assumptions=['initial content written directly to the Eigen buffer (column-major); integer-valued entries |v|<=1000 (values are only copied and compared)'],
      stubs=['throw_exp(std::string const&, std::string const&, int): throws an int (real one formats through std::stringstream/std::cout)',
             'messerr(const char*, ...): empty (real one formats a message through vsnprintf and prints it)'], **kw)
_ELEMWHAT = ('setValue/getValue (with and without address checking), AMatrixDense::setRow/setColumn/getRow/getColumn and the generic '
             'AMatrix::setRow/setColumn/getRow/getColumn (qualified calls), setDiagonal (square), transposeInPlace, setValues(byCol), %s: '
             'every cell of the result equals its cell-level definition on the initial content, cells not addressed are unchanged, '
             'shape bookkeeping (getNRows/getNCols and Eigen rows/cols) consistent%s')
_elem('C11.c.rect', _ALL, (),
      bounds={'quick': 'MatrixRectangular of every shape nrows,ncols in 1..3; row/column/cell index arbitrary in range (cell index also out of range when address checking is on); arbitrary content'},
      what=_ELEMWHAT % ('MatrixRectangular::addRow/addColumn (1 or 2 lines added)', ''))
_elem('C11.c.sym', (), (1, 2, 3),
      bounds={'quick': 'MatrixSquareSymmetric of size 1..3, arbitrary symmetric content; indices as for C11.c.rect'},
      what=_ELEMWHAT % ('on MatrixSquareSymmetric', '; the storage stays symmetric after every operation'))

# C11.b products
_PRODSTUBS = ['messerr(const char*, ...): empty (real one formats a message through vsnprintf and prints it)',
              '__dynamic_cast (solver build only): returns its argument (all operands are MatrixRectangular, AMatrix base at offset 0, cast to AMatrixDense succeeds)']
def _mv_entries(shapes):
    e = []
    for (r, c) in shapes:
        e += ['k_mv%d_%dx%d_%s' % (f, r, c, t) for f in range(8) for t in 'nt'] + ['k_mvchk_%dx%d' % (r, c)]
    return e
# x is a x b, y is c x d, flags tx ty: all shapes with dimensions in 1..2, plus inner/outer dimension 3
_MM = [(a, b, c, d, tx, ty) for a in (1, 2) for b in (1, 2) for c in (1, 2) for d in (1, 2) for tx in (0, 1) for ty in (0, 1)]
_MM += [(2, 3, 3, 2, 0, 0), (3, 2, 3, 2, 1, 0), (2, 3, 2, 3, 0, 1), (3, 2, 2, 3, 1, 1), (1, 3, 3, 2, 0, 0), (2, 3, 3, 1, 0, 0),
        (3, 2, 2, 3, 0, 0), (2, 3, 2, 3, 0, 0), (2, 3, 2, 3, 1, 0), (3, 2, 2, 3, 0, 1), (2, 3, 2, 2, 0, 0), (2, 2, 2, 3, 0, 0), (2, 2, 3, 2, 0, 0)]
_PRODASSUME = ['real-arithmetic reading; on the integer grid |v|<=100 all products and sums are exact in IEEE as well']
K('C11.b.mv', property='C11', engine='symex', harness='C11/prod.cpp', entries=_mv_entries(_ALL), tus=_MATTUS,
  defines={'all': {'VF_SHAPES(X)': ' '.join('X(%d,%d)' % s for s in _ALL), 'VF_NO_MM': 1}},
  bounds={'quick': 'MatrixRectangular of every shape nrows,ncols in 1..3, transpose flag false/true; matrix, x and the initial content of y '
                   'integer-valued |v|<=100; x, y allocated at exactly the documented lengths'},
  timeout_ms={'quick': 60000, 'thorough': 600000}, validate={'quick': 5, 'thorough': 20}, validate_doubles='int',
  symex={'assume_no_ub': True},
  what='AMatrix::prodMatVecInPlace (VectorDouble and constvect/vect overloads), prodMatVecInPlacePtr, addProdMatVecInPlace, prodVecMatInPlace, '
       'prodVecMatInPlacePtr with AMatrixDense::_prodMatVecInPlacePtr/_prodVecMatInPlacePtr/_addProdMatVecInPlaceToDestPtr (Eigen), '
       'AMatrixDense::prodMatVec/prodVecMat: every output entry equals the defining sum, no access outside x/y, inputs unchanged; '
       'with address checking on, the size checks accept exactly the conformable lengths and leave y untouched otherwise',
  out='shapes above 3x3; rounding (integer-valued data: all sums exact); symmetric and sparse storage',
  assumptions=_PRODASSUME, stubs=_PRODSTUBS)
K('C11.b.mm', property='C11', engine='symex', harness='C11/prod.cpp',
  entries=['k_%s_%dx%d_%dx%d_%d%d' % ((g,) + z) for z in _MM for g in ('mm', 'gmm')], tus=_MATTUS,
  defines={'all': {'VF_MM(Z)': ' '.join('Z(%d,%d,%d,%d,%d,%d)' % z for z in _MM), 'VF_NO_MV': 1}},
  bounds={'quick': 'x (a x b), y (c x d) MatrixRectangular: every a,b,c,d in 1..2 with the four transposition flag pairs (conformable or not), '
                   'plus 13 shape/flag combinations with a dimension 3 (2x3x2, 3x2x3, 1x3x2, 2x3x1, non-conformable 2x3.2x3, 2x3.2x2, 2x2.3x2); '
                   "'this' pre-sized to the result shape; integer-valued entries |v|<=100"},
  timeout_ms={'quick': 60000, 'thorough': 600000}, validate={'quick': 5, 'thorough': 20}, validate_doubles='int',
  symex={'assume_no_ub': True},
  what='AMatrixDense::prodMatMatInPlace (Eigen products, all four transposition branches) and the generic AMatrix::prodMatMatInPlace '
       '(qualified call): conformable shapes give R(i,j) = sum_k op(x)(i,k) op(y)(k,j) with the right shape; non-conformable shapes are refused '
       "by the generic version and leave 'this' untouched (the dense override is not called with non-conformable shapes: outside the property); operands unchanged; no out-of-bounds access",
  out="dimensions above 3; 'this' not pre-sized to the result shape; operands aliasing 'this'; symmetric/sparse operands; prodNormMatMatInPlace",
  assumptions=_PRODASSUME, stubs=_PRODSTUBS)

# C11.e VectorHelper sorting/ranking helpers and reductions
_VHTUS = ['src/Basic/VectorHelper.cpp', 'src/Basic/Utilities.cpp']
_VHSTUBS = ['throw_exp(std::string const&, std::string const&, int): throws an int (real one formats through std::stringstream/std::cout)',
            'operator new(size_t, std::nothrow_t const&): returns nullptr, so std::stable_sort (its only user, via std::get_temporary_buffer) runs the '
            'buffer-less libstdc++ path (__inplace_stable_sort = insertion sort at these sizes); the buffered merge path needs memmove of data-dependent length (unsupported by the executor)']
_SORTS = [(n, -1, 'n%d' % n) for n in range(0, 5)] + [(3, 2, 'n3s2'), (4, 2, 'n4s2'), (4, 3, 'n4s3'), (2, 1, 'n2s1')]
_SORTOPS = ('orderD_%s_a', 'orderD_%s_d', 'orderI_%s_a', 'orderI_%s_d', 'sortranks_%s_a', 'sortranks_%s_d', 'arrD0_%s_a', 'arrD0_%s_d',
            'arrD1_%s_a', 'arrI0_%s_a', 'arrI0_%s_d', 'arrI1_%s_a', 'uniqD_%s', 'uniqI_%s')
_SORTBOUND = 'vectors of every length 0..4 with size=-1 (whole vector), plus (length,size) = (2,1),(3,2),(4,2),(4,3); arbitrary integer-valued content |v|<=1000 (ties included); ascending and descending'
_ARR_THOROUGH = ('k_arrD0_n4_d', 'k_arrI0_n4_d')
for _kid, _ops, _what in (
        ('C11.e.order', _SORTOPS[0:6], 'VH::orderRanks (VectorDouble and VectorInt overloads; libstdc++ std::stable_sort executed) and VH::sortRanks: the result is a permutation of '
                                       '0..size-1, vecin[order[i]] is ordered in the requested direction, ranks are order-consistent, input unchanged'),
        ('C11.e.arrange', _SORTOPS[6:12], 'VH::arrangeInPlace (double and int value overloads, safe 0/1, with and without size; orderRanks/reorder/copy executed): ranks permuted by sorted value, '
                                          'values travel with their ranks (safe=0) or are preserved (safe=1), both arrays keep their length and their part beyond size (documented)'),
        ('C11.e.unique', _SORTOPS[12:14], 'VH::unique (VectorDouble/VectorInt; std::sort + std::unique executed): strictly ascending, same value set as the first size input values')):
    K(_kid, property='C11', engine='symex', harness='C11/vh.cpp',
      entries=[e for e in ['k_' + (o % t) for (n, sz, t) in _SORTS for o in _ops] if e not in _ARR_THOROUGH], tus=_VHTUS,
      defines={'all': {'VF_SORTS(SORTS)': ' '.join('SORTS(%d,%d,%s)' % x for x in _SORTS)}},
      bounds={'quick': _SORTBOUND},
      timeout_ms={'quick': 60000, 'thorough': 600000}, validate={'quick': 8, 'thorough': 30}, validate_doubles='int',
      what=_what, out='lengths above 4; NaN; stability of the order among ties (not documented); the buffered merge path of std::stable_sort',
      assumptions=['comparison-only code: the real reading is exact for finite doubles'], stubs=_VHSTUBS)
K('C11.e.arrange.n4d', property='C11', engine='symex', harness='C11/vh.cpp', entries=list(_ARR_THOROUGH), tus=_VHTUS, tiers=('thorough',),
  defines={'all': {'VF_SORTS(SORTS)': 'SORTS(4,-1,n4)'}},
  bounds={'thorough': 'length 4, size=-1, descending, safe=0 (the ascending variants and every shorter/partial case are in C11.e.arrange)'},
  timeout_ms={'thorough': 600000}, validate={'thorough': 30}, validate_doubles='int',
  what='VH::arrangeInPlace (double and int overloads), descending order on full vectors of length 4', out='see C11.e.arrange',
  assumptions=['comparison-only code: the real reading is exact for finite doubles'], stubs=_VHSTUBS)
K('C11.e.red', property='C11', engine='symex', harness='C11/vh.cpp',
  entries=['k_%s_%d%s' % (o, n, sfx) for n in range(0, 5) for (o, sfx) in (('issorted', '_a'), ('issorted', '_d'), ('reduce', ''), ('sequence', ''))] +
          ['k_%s_%d%s' % (o, n, sfx) for n in range(1, 4) for (o, sfx) in (('maxaux', '_m'), ('maxaux', '_z'), ('maxaux', '_p'), ('minaux', '_m'), ('minaux', '_z'), ('minaux', '_p'), ('extvv', ''))],
  tus=_VHTUS,
  defines={'all': {'VF_PERN(PERN)': ' '.join('PERN(%d)' % n for n in range(0, 5)), 'VF_AUXN(AUXN)': ' '.join('AUXN(%d)' % n for n in range(1, 4))}},
  bounds={'quick': 'vectors of every length 0..4 (aux-conditional and vector-of-vectors extrema: 1..3); integer-valued content |v|<=1000, each double entry possibly undefined (TEST); flagAbs arbitrary'},
  timeout_ms={'quick': 60000, 'thorough': 600000}, validate={'quick': 8, 'thorough': 30}, validate_doubles='int',
  what='VH::isSorted, cumul (int/double/vector of vectors), count, sequence(int), whereMinimum, whereMaximum, maximum/minimum (VectorInt, VectorDouble with flagAbs, '
       'conditional to aux with mode -1/0/+1, VectorVectorDouble): defined values, undefined (TEST) entries skipped',
  out='lengths above 4; content beyond |v|<=1000 (the extrema start from +-1e30 / +-1e7 sentinels); ties vec==aux in conditional extrema; isSorted on ties; sequence(double)',
  assumptions=['integer-valued doubles: sums exact'], stubs=_VHSTUBS)

# C11.f VectorNumT<double> reductions and arithmetic (header-only)
K('C11.f', property='C11', engine='symex', harness='C11/vnum.cpp',
  entries=['k_%s_%d' % (o, n) for n in range(0, 5) for o in ('reduce', 'same', 'add', 'sub', 'mul', 'div', 'adds', 'subs', 'muls', 'divs')],
  tus=[],
  bounds={'quick': 'VectorDouble of every length 0..4, arbitrary integer-valued content |v|<=1000 (isSame: quarter-integers |v|<=10 and eps>=0); divisors non-zero'},
  timeout_ms={'quick': 60000, 'thorough': 600000}, validate={'quick': 10, 'thorough': 30}, validate_doubles='int',
  what='VectorNumT<double>::sum, mean, minimum, maximum, norm, innerProduct (incl. refusal of a length mismatch), isSame, add/subtract/multiply/divide '
       '(vector and scalar right operand): defined value for every content, operands unchanged',
  out='lengths above 4; rounding (real-arithmetic reading; sqrt as the exact non-negative root); NaN/inf entries; VectorNumT<int>',
  assumptions=['real-arithmetic reading of the sums/products; the header documents no TEST handling for these methods, none is assumed'],
  stubs=['abs(int) (solver build only): x < 0 ? -x : x (C library function; the unqualified abs calls of VectorNumT.hpp resolve to it)'])

# C11.d sparse back-end cs (3rd-party csparse): triplet -> compressed column, transpose, gaxpy vs the dense definition
for _m, _n, _nzs, _tiers, _sfx in ((2, 2, range(0, 5), ('quick', 'thorough'), ''), (2, 3, range(0, 4), ('quick', 'thorough'), ''), (2, 3, (4,), ('thorough',), '.nz4')):
    K('C11.d.%dx%d%s' % (_m, _n, _sfx), property='C11', engine='symex', harness='C11/cs.cpp', entries=['k_cs_%d' % z for z in _nzs], tiers=_tiers,
      tus=['3rd-party/csparse/csparse.cpp'], defines={'all': {'VF_M': _m, 'VF_N': _n}, 'quick': {'VF_NZSYM': 1}, 'thorough': {'VF_NZSYM': 2}},
      bounds={'quick': '%dx%d matrix, exactly %s triplet entries at arbitrary positions (duplicates allowed), integer values |v|<=100; cs_gaxpy with x = each unit vector, the all-ones vector, (2,-4,8) and (for at most 1 entry; thorough: 2) an arbitrary integer-valued x; y0 arbitrary' % (_m, _n, '%d..%d' % (min(_nzs), max(_nzs)))},
      timeout_ms={'quick': 60000, 'thorough': 600000}, validate={'quick': 10, 'thorough': 30}, validate_doubles='int',
      what='cs_spalloc, cs_entry, cs_triplet (triplet -> compressed column, with cs_cumsum/cs_done), cs_transpose, cs_gaxpy, cs_spfree: '
           'column pointers start at 0, are monotone and end at nz, row indices in range, the dense reading equals the per-cell sum of the '
           'triplet values (duplicates summed), transpose(j,i)==A(i,j), y == y0 + A x',
      out='more than 4 entries, larger shapes; cs_multiply/cs_add/cs_dupl; NF_Triplet and MatrixSparse wrappers; the Eigen sparse back-end',
      assumptions=['the triplet dimensions are re-written as the (asserted equal) constants before cs_triplet so that allocation sizes are concrete; allocation never fails'],
      stubs=[])

# C11.s sparse back-end cs: row / column scaling of a real MatrixSparse (opt_eigen = 0) vs the dense definition (harness/C11/csscale.cpp)
_CSSCALETUS = ['src/Matrix/MatrixSparse.cpp', 'src/Matrix/LinkMatrixSparse.cpp', 'src/Matrix/AMatrix.cpp', 'src/Basic/Utilities.cpp',
               'src/Basic/AStringable.cpp', '3rd-party/csparse/csparse.cpp']
for _m, _n, _nzs, _sfx in ((2, 2, (0, 1, 2, 3), ''), (2, 3, (0, 1, 2), ''), (2, 3, (3,), '.nz3')):
    K('C11.s.%dx%d%s' % (_m, _n, _sfx), property='C11', engine='symex', harness='C11/csscale.cpp',
      entries=['k_%s_%d' % (o, z) for z in _nzs for o in ('mulrow', 'mulcol', 'divrow', 'divcol')], tiers=('quick', 'thorough'),
      tus=_CSSCALETUS, defines={'all': {'VF_M': _m, 'VF_N': _n}},
      bounds={'quick': 'MatrixSparse with the cs storage, %dx%d, exactly %s entries at arbitrary pairwise distinct positions given in any order (every sparsity pattern; triplets falling on the same cell are summed by the '
                       'constructor, which gives a pattern with fewer entries), integer values |v|<=100; '
                       'vec an arbitrary integer-valued vector |v|<=100 (divisors: every non-zero integer in [-100,101]) allocated at exactly its documented length (nrows for the row operations, '
                       'ncols for the column operations)' % (_m, _n, '%d..%d' % (min(_nzs), max(_nzs)) if len(_nzs) > 1 else str(_nzs[0]))},
      timeout_ms={'quick': 60000, 'thorough': 600000}, validate={'quick': 10, 'thorough': 30}, validate_doubles='int',
      what='MatrixSparse(const cs*), MatrixSparse::multiplyRow / multiplyColumn / divideRow / divideColumn on the cs back-end with cs_matvecR / cs_matvecL, cs_duplicate (cs_add), '
           'operate_Identify / operate_Identity / operate_Inverse, cs_spfree2, MatrixSparse::getValue (cs_get_value): R(i,j) = vec[i]*M(i,j) resp. vec[j]*M(i,j) '
           '(division likewise) for every cell, read through getValue and through the compressed-column arrays; storage stays a well-formed compressed matrix of the same shape; '
           'vec is not modified and not read out of bounds',
      out='more than 3 entries, larger shapes; the summation of duplicate triplets by the constructor (cs_add; C11.d decides cs_triplet); rounding of 1/v and of the products (real-arithmetic reading); the Eigen sparse back-end; divisors below 1e-10 in absolute value (operate_Inverse returns TEST)',
      assumptions=['real-arithmetic reading: M*(1/v) == M/v', 'the triplet dimensions are written as constants before cs_triplet so that allocation sizes are concrete (C11.d decides that cs_entry keeps them); allocation never fails'],
      stubs=['solver build only: memset (C library call of the default constructor of the unused Eigen::SparseMatrix member) -> the llvm.memset intrinsic the executor models',
             'solver build only: realloc(p, n) -> p, block kept at its allocated size (cs_sprealloc(C, 0) at the end of cs_add trims to a data-dependent size; only shrinking calls occur, '
             'a growing call would surface as an out-of-bounds obligation)',
             ])
