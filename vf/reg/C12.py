from kernels import K

# ---------------------------------------------------------------- C12
_DIRTUS = ['src/Variogram/DirParam.cpp']
K('C12.a.reg', property='C12', engine='symex', harness='C12/lagrank.cpp', entry='k_lag_regular', tus=_DIRTUS,
  bounds={'quick': 'regular lags: nlag any int in [1, 10^6], dpas > 0, tol >= 0, d arbitrary reals with |d| <= 2147483000*dpas'},
  timeout_ms={'quick': 120000, 'thorough': 600000}, validate={'quick': 30, 'thorough': 60}, validate_doubles='dyadic',
  what='DirParam::getLagRank, regular case: result ITEST or in [0,nlag); returned k has | |d| - k*dpas | <= tol*dpas; for tol <= 1/2 a distance '
       'strictly inside the tolerance band of a lag k < nlag gets k and ITEST is returned only outside every open band',
  out='floating-point rounding of the division/multiplications (band edges); ratios |d|/dpas beyond the int range (the (int) cast is undefined there); '
      'tol > 1/2 (overlapping bands: only the "returned k is within tolerance" direction is claimed)',
  assumptions=['real-arithmetic reading of the code', 'DirParam object is raw storage with _nPas, _dPas, _tolDist, _breaks initialised (getLagRank reads nothing else)'],
  stubs=[])
for _n, _tiers in ((1, ('quick', 'thorough')), (2, ('quick', 'thorough')), (3, ('quick', 'thorough')), (5, ('quick', 'thorough')), (8, ('thorough',))):
    K('C12.a.irr.%d' % _n, property='C12', engine='symex', harness='C12/lagrank.cpp', entry='k_lag_irregular', tus=_DIRTUS,
      defines={'all': {'VF_NLAG': _n}}, tiers=_tiers,
      bounds={'quick': 'irregular lags: nlag = %d, %d non-decreasing breaks (arbitrary reals), d an arbitrary real' % (_n, _n + 1)},
      timeout_ms={'quick': 120000, 'thorough': 600000}, validate={'quick': 30, 'thorough': 60}, validate_doubles='dyadic',
      what='DirParam::getLagRank, irregular case: result k <=> breaks[k] < |d| <= breaks[k+1]; ITEST <=> no interval contains |d|',
      out='breaks vectors whose size is not nlag+1 (nothing in DirParam ties npas to breaks.size(); shorter vectors are read out of bounds); unsorted breaks',
      assumptions=['comparison-only code: the real reading is exact for finite doubles',
                   'breaks has exactly nlag+1 values, non-decreasing (the documented "series of intervals")',
                   'DirParam object is raw storage with _nPas, _dPas, _tolDist, _breaks initialised'],
      stubs=[])


# ---- C12.c accumulator address arithmetic
for _nv in (1, 2, 3):
    K('C12.c.%d' % _nv, property='C12', engine='symex', harness='C12/addr.cpp', entry='k_addr',
      tus=['src/Variogram/Vario.cpp', 'src/Basic/AStringable.cpp'], defines={'all': {'VF_NVAR': _nv}},
      bounds={'quick': '%d variable(s), every (ivar, jvar); one direction with npas any int in [1,1000]; symmetric and asymmetric storage; '
                       'every lag rank / side / absolute lag index' % _nv},
      timeout_ms={'quick': 60000, 'thorough': 600000}, validate={'quick': 30, 'thorough': 60},
      what='Vario::getDirAddress (flagCheck=false), getDirSize, getLagTotalNumber, getLagNumber: slot in range, symmetric in (ivar,jvar), '
           'relative (sens, ipas) and absolute addressing agree (signed lag h at index npas+h), (unordered pair, lag) -> slot is a bijection onto [0, getDirSize)',
      out='flagCheck=true argument validation (copies a DirParam); several directions (each direction has its own arrays); the values stored in the slots',
      assumptions=['Vario and DirParam objects are raw storage: _nVar, _flagAsym, _varioparam._dirparams = one DirParam with _nPas initialised'],
      stubs=[])


# ---------------------------------------------------------------- C12.b (builder of C12.b / C05.e: pair loops)
# ---- C12.b pair enumeration of Vario::_calculateGeneralSolution1 / 2
_PAIR_TUS = ['src/Variogram/Vario.cpp', 'src/Db/Db.cpp', 'src/Variogram/DirParam.cpp', 'src/Space/ASpaceObject.cpp',
             'src/Space/SpacePoint.cpp', 'src/Space/SpaceTarget.cpp', 'src/Basic/AStringable.cpp', 'src/Basic/Utilities.cpp']
_PAIR_STUBS = [
    'Db object is raw storage + the vptr of harness class PairDb (no constructor run)',
    'PairDb::getCoordinate (virtual, called by the real Db::getDistance1D) -> symbolic first coordinate x[iech]',
    'Db::getSampleNumber -> VF_NECH',
    'Db::hasLocVariable -> symbolic flag for ELoc::SEL and ELoc::W (recognised by address), false otherwise',
    'Db::isActive -> symbolic sel[iech]; Db::getWeight -> symbolic w[iech] (TEST or a grid value)',
    'Db::getSampleAsSTInPlace -> loads nothing, remembers which sample sits in which SpaceTarget',
    'ASpaceObject(const ASpace*), ASpaceObject(const ASpaceObject&), SpacePoint(const ASpace*), SpaceTarget(const ASpace*,bool,bool,bool) -> field initialisation only, _space = nullptr (no default space is cloned)',
    'DirParam(const DirParam&) -> default field values (the copy is only used for getLagRank, which is overridden)',
    'DirParam::getMaximumDistance -> symbolic maxdist',
    'DirParam::getLagRank -> symbolic per-pair table (ITEST or 0..2) of the pair keepPair was last asked about',
    'VarioParam::isDateUsed -> false (true in the C12.b.date variant)',
    'Vario::keepPair -> symbolic per-unordered-pair boolean, *dist = symbolic per-pair distance with dist >= |x_i - x_j|',
    'Vario::_rescale, _centerCovariance, _patchC00 -> no-ops',
    'Vario::getDirSize -> 2; get/set{Sw,Gg,Hh}ByIndex -> harness arrays with symbolic initial content (Solution2 accumulation, results not asserted)',
    'AVario::_evaluateVariogram (target of the member-function pointer _evaluate) -> records (iech1, iech2, lag, dist)',
    'Vario object is raw storage: _nVar = 1, _evaluate, _varioparam._dirparams = one raw DirParam with _space = nullptr',
]
_PAIR_ASSUME = [
    'first coordinates, maxdist, weights and pair distances are integers (|x| <= VF_NECH*2^20, maxdist and weights <= 2^20): the only arithmetic of the code, x_i - x_j in Db::getDistance1D, is exact',
    'rindex is a permutation with x[rindex[k]] <= x[rindex[k+1]] (what Db::getSortArray returns); built constructively: Lehmer-coded permutation, ascending values with arbitrary non-negative increments',
    'the distance keepPair returns is |x_i - x_j| + an arbitrary non-negative amount (a Euclidean distance is at least the separation along one axis)',
    'undefined weight is TEST = 1.234e30 (FFFF(x) is x > 1e30 in the NaN-free reading)',
]
for _n in (3, 4):
    for _sol, _entry in ((1, 'k_pairs1'), (2, 'k_pairs2')):
        K('C12.b%d.%d' % (_sol, _n), property='C12', engine='symex', harness='C12/pairs.cpp', entry=_entry, tus=_PAIR_TUS,
          defines={'all': {'VF_NECH': _n}},
          bounds={'quick': 'exactly %d samples; arbitrary grid first coordinates (ties allowed), any consistent sort permutation, selection present or not with any mask, weights present or not with any undefined pattern, any maxdist, any keepPair answer / distance >= |dx| / lag (or none) per unordered pair' % _n},
          timeout_ms={'quick': 120000, 'thorough': 600000}, validate={'quick': 30, 'thorough': 60}, validate_doubles='int',
          what='Vario::_calculateGeneralSolution%d loop logic with the real Db::getDistance1D / FFFF / IFFFF: every unordered pair of usable samples accepted by keepPair, with a lag, whose first-axis separation is <= maxdist reaches the estimator exactly once with its lag and distance; no masked / weight-undefined / rejected / lag-less pair does; no pair twice' % _sol,
          out='pairs whose first-axis separation exceeds maxdist (may or may not be visited: their distance exceeds maxdist, so getLagRank gives them no lag); undefined first coordinates; dates (C12.b.date); the accumulated values; the vorder (internal storage) branch',
          assumptions=_PAIR_ASSUME, stubs=_PAIR_STUBS)

# ---- C12.b*.date: same loops when VarioParam::isDateUsed answers true (inner loop restarts at 0, keepPair is oriented)
for _sol, _entry in ((1, 'k_pairs1'), (2, 'k_pairs2')):
    K('C12.b%d.date.3' % _sol, property='C12', engine='symex', harness='C12/pairs.cpp', entry=_entry, tus=_PAIR_TUS,
      defines={'all': {'VF_NECH': 3, 'VF_DATE': 1}},
      bounds={'quick': 'exactly 3 samples, dates in use; otherwise as C12.b; keepPair answers per ordered pair'},
      timeout_ms={'quick': 120000, 'thorough': 600000}, validate={'quick': 30, 'thorough': 60}, validate_doubles='int',
      what='Vario::_calculateGeneralSolution%d with dates in use (inner loop from 0): every ordered pair (i,j), i != j, of usable samples accepted by keepPair(T_i,T_j), with a lag, whose first-axis separation is <= maxdist reaches the estimator exactly once; no other ordered pair and no (i,i) pair does' % _sol,
      out='as C12.b', assumptions=_PAIR_ASSUME, stubs=_PAIR_STUBS)

# ---- C12.d direction / tolerance test of a pair (builder of C12.b)
_GEOM_TUS = ['src/Variogram/Vario.cpp', 'src/Geometry/BiTargetCheckGeometry.cpp', 'src/Geometry/ABiTargetCheck.cpp',
             'src/Geometry/GeometryHelper.cpp', 'src/Space/SpaceRN.cpp', 'src/Space/ASpace.cpp', 'src/Space/ASpaceObject.cpp',
             'src/Space/SpacePoint.cpp', 'src/Space/SpaceTarget.cpp', 'src/Basic/AStringable.cpp', 'src/Basic/Utilities.cpp',
             'src/Basic/VectorHelper.cpp']
K('C12.d', property='C12', engine='symex', harness='C12/geom.cpp', entries=['k_geom_angle', 'k_geom_cylinder', 'k_geom_bench', 'k_geom_all_axis'], tus=_GEOM_TUS,
  
  bounds={'quick': '2-D; both points arbitrary reals; symmetric or asymmetric calculation; four entries: (angle) any non-null direction (not normalised), psmin = cos(tolang) any real in [0,1], cylinder and bench not used; (cylinder) any direction, psmin = 0, cylinder radius undefined / <= 0 / any real; (bench) any direction, psmin = 0, bench undefined / <= 0 / any real; (all) direction (1,0), psmin, cylinder radius and bench all arbitrary together'},
  # one of the two z3 strategies answers each query within a few seconds, the other does not answer: the per-query
  # timeout is what the kernel waits for
  timeout_ms={'quick': 40000, 'thorough': 600000}, validate={'quick': 30, 'thorough': 60}, validate_doubles='dyadic',
  what='Vario::keepPair + BiTargetCheckGeometry::isOK + SpacePoint::getDistance/getIncrement + SpaceRN::_getDistance/_getIncrement: pair accepted iff (coincident points) or (P^2 >= psmin^2 D2 C2 and D2 C2 - P^2 <= cylrad^2 C2 when the cylinder is used and |dy| <= bench when the bench is used); |dist| = Euclidean distance, negative iff asymmetric and P < 0',
  out='tolang -> psmin (cosine); floating rounding of ps = P / sqrt(D2 C2) and of the sums of products at the tolerance boundary; the three tests together for a direction off the first axis (each test alone is decided for every direction); 3-D; other spaces than RN; fault / date / code checkers',
  assumptions=['real-arithmetic reading (sqrt exact: r >= 0, r^2 = x; no rounding)', 'direction vector is not null'],
  stubs=['ASpaceObject(const ASpace*) -> keeps the pointer instead of cloning the space; ~ASpaceObject -> does not delete it',
         '__dynamic_cast (solver build only) -> identity: the single checker is a BiTargetCheckGeometry (single inheritance, offset 0)',
         'Vario object is raw storage: _biPtsPerDirection = 1, _bipts = {the really constructed BiTargetCheckGeometry}; its _psmin is then set to the symbolic value'])


# ---------------------------------------------------------------- C12.e (builder2: pair enumeration of the grid algorithm)
_GRIDPAIR_TUS = ['src/Variogram/Vario.cpp', 'src/Db/Db.cpp', 'src/Db/DbGrid.cpp', 'src/Basic/Grid.cpp', 'src/Variogram/DirParam.cpp',
                 'src/Space/SpaceRN.cpp', 'src/Space/ASpace.cpp', 'src/Basic/VectorHelper.cpp', 'src/Space/ASpaceObject.cpp', 'src/Space/SpacePoint.cpp', 'src/Space/SpaceTarget.cpp', 'src/Basic/AStringable.cpp',
                 'src/Basic/Utilities.cpp']
def _gp_entries(inc):
    nm = lambda v: ('m%d' % -v) if v < 0 else str(v)
    return ['k_gp_%s_%s' % (nm(a), nm(b)) for a in range(-inc, inc + 1) for b in range(-inc, inc + 1) if (a, b) != (0, 0)]


for _nx, _ny, _np, _inc, _tiers in ((2, 2, 2, 1, ('quick',)), (3, 2, 3, 1, ('quick', 'thorough')), (3, 3, 3, 2, ('thorough',))):
    K('C12.e.%d%d.%d.i%d' % (_nx, _ny, _np, _inc), property='C12', engine='symex', harness='C12/gridpairs.cpp', entries=_gp_entries(_inc), tus=_GRIDPAIR_TUS,
      defines={'all': {'VF_NX': _nx, 'VF_NY': _ny, 'VF_NPAS': _np}}, tiers=_tiers,
      bounds={'quick': 'concrete %dx%d grid (2-D), npas = %d lags; grid increment of the direction: every non-null integer vector of [-%d,%d]^2 (one entry point each); selection present or not with any mask; '
                       'weights present or not with any undefined pattern; any keepPair answer per ordered pair; any lag size dpas >= 1' % (_nx, _ny, _np, _inc, _inc)},
      timeout_ms={'quick': 120000, 'thorough': 600000}, validate={'quick': 30, 'thorough': 60}, validate_doubles='int',
      what='Vario::_calculateOnGridSolution loop logic with the real DbGrid::rankToIndice / indiceToRank / getNDim (Grid.cpp), DirParam::getGrincr / getLagNumber / getDPas, FFFF: '
           'the ordered node pair (i, j) reaches the estimator exactly once, with lag k and distance k*dpas, iff both nodes are usable, keepPair accepts the pair and '
           'ind(j) - ind(i) == k*grincr for a k in [1, npas) (lag ranks are 0..npas-1 as in DirParam::getLagRank, lag 0 being the zero distance); no other pair is evaluated',
      out='the accumulated values; _calculateGenOnGridSolution (generalised variogram); 3-D grids; agreement of the results with the general algorithm beyond the set of pairs and their lags',
      assumptions=['DbGrid object is raw storage + the real DbGrid vtable, _grid._nDim and _grid._nx initialised (nothing else is read)',
                   'Vario object is raw storage: _nVar = 1, _evaluate, _varioparam._dirparams = one raw DirParam with _space = a really constructed SpaceRN(2), _nPas, _dPas, _grincr',
                   'undefined weight is TEST = 1.234e30 (FFFF(x) is x > 1e30 in the NaN-free reading)'],
      stubs=['Db::getSampleNumber -> nx*ny',
             'Db::hasLocVariable -> symbolic flag for ELoc::SEL and ELoc::W (recognised by address), false otherwise',
             'Db::isActive -> symbolic sel[iech]; Db::getWeight -> symbolic w[iech] (TEST or a grid value)',
             'Db::getSampleAsSTInPlace -> loads nothing, remembers which node sits in which SpaceTarget',
             'ASpaceObject(const ASpace*) -> keeps the pointer instead of cloning the space; ~ASpaceObject -> does not delete it',
             'Vario::keepPair -> symbolic per-ordered-pair boolean, *dist = an arbitrary value (the estimator must receive k*dpas instead)',
             'Vario::_rescale, _centerCovariance, _patchC00 -> no-ops',
             'AVario::_evaluateVariogram (target of the member-function pointer _evaluate) -> records (iech1, iech2, lag, dist)'])
