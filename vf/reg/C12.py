from kernels import K

# ---------------------------------------------------------------- C12
# (kernels C12.a / C12.c / C12.e are owned by another builder: append, do not reorder)

# ---- C12.b pair enumeration of Vario::_calculateGeneralSolution1 / 2
_PAIR_TUS = ['src/Variogram/Vario.cpp', 'src/Db/Db.cpp', 'src/Variogram/DirParam.cpp', 'src/Space/ASpaceObject.cpp',
             'src/Space/SpacePoint.cpp', 'src/Space/SpaceTarget.cpp', 'src/Basic/AStringable.cpp', 'src/Basic/Utilities.cpp']
_PAIR_STUBS = [
    'Db object is raw storage + the vptr of harness class PairDb (no constructor run)',
    'PairDb::getCoordinate (virtual, called by the real Db::getDistance1D) -> symbolic first coordinate x[iech]',
    'Db::getSampleNumber -> VF_NECH',
    'Db::hasLocVariable -> symbolic flag for ELoc::SEL and ELoc::W (recognised by address), false otherwise',
    'Db::isActive -> symbolic sel[iech]; Db::getWeight -> symbolic w[iech] (TEST or a grid value)',
    'Db::getSampleAsSTInPlace -> loads nothing, remembers which sample sits in which SpaceTarget',
    'ASpaceObject(const ASpace*), ASpaceObject(const ASpaceObject&), SpacePoint(const ASpace*), SpaceTarget(const ASpace*,bool,bool,bool) -> field initialisation only, _space = nullptr (no default space is cloned)',
    'DirParam(const DirParam&) -> default field values (the copy is only used for getLagRank, which is overridden)',
    'DirParam::getMaximumDistance -> symbolic maxdist',
    'DirParam::getLagRank -> symbolic per-pair table (ITEST or 0..2) of the pair keepPair was last asked about',
    'VarioParam::isDateUsed -> false (true in the C12.b.date variant)',
    'Vario::keepPair -> symbolic per-unordered-pair boolean, *dist = symbolic per-pair distance with dist >= |x_i - x_j|',
    'Vario::_rescale, _centerCovariance, _patchC00 -> no-ops',
    'Vario::getDirSize -> 2; get/set{Sw,Gg,Hh}ByIndex -> harness arrays with symbolic initial content (Solution2 accumulation, results not asserted)',
    'AVario::_evaluateVariogram (target of the member-function pointer _evaluate) -> records (iech1, iech2, lag, dist)',
    'Vario object is raw storage: _nVar = 1, _evaluate, _varioparam._dirparams = one raw DirParam with _space = nullptr',
]
_PAIR_ASSUME = [
    'first coordinates, maxdist, weights and pair distances are integers (|x| <= VF_NECH*2^20, maxdist and weights <= 2^20): the only arithmetic of the code, x_i - x_j in Db::getDistance1D, is exact',
    'rindex is a permutation with x[rindex[k]] <= x[rindex[k+1]] (what Db::getSortArray returns); built constructively: Lehmer-coded permutation, ascending values with arbitrary non-negative increments',
    'the distance keepPair returns is |x_i - x_j| + an arbitrary non-negative amount (a Euclidean distance is at least the separation along one axis)',
    'undefined weight is TEST = 1.234e30 (FFFF(x) is x > 1e30 in the NaN-free reading)',
]
for _n in (3, 4):
    for _sol, _entry in ((1, 'k_pairs1'), (2, 'k_pairs2')):
        K('C12.b%d.%d' % (_sol, _n), property='C12', engine='symex', harness='C12/pairs.cpp', entry=_entry, tus=_PAIR_TUS,
          defines={'all': {'VF_NECH': _n}},
          bounds={'quick': 'exactly %d samples; arbitrary grid first coordinates (ties allowed), any consistent sort permutation, selection present or not with any mask, weights present or not with any undefined pattern, any maxdist, any keepPair answer / distance >= |dx| / lag (or none) per unordered pair' % _n},
          timeout_ms={'quick': 120000, 'thorough': 600000}, validate={'quick': 30, 'thorough': 60}, validate_doubles='int',
          what='Vario::_calculateGeneralSolution%d loop logic with the real Db::getDistance1D / FFFF / IFFFF: every unordered pair of usable samples accepted by keepPair, with a lag, whose first-axis separation is <= maxdist reaches the estimator exactly once with its lag and distance; no masked / weight-undefined / rejected / lag-less pair does; no pair twice' % _sol,
          out='pairs whose first-axis separation exceeds maxdist (may or may not be visited: their distance exceeds maxdist, so getLagRank gives them no lag); undefined first coordinates; dates (C12.b.date); the accumulated values; the vorder (internal storage) branch',
          assumptions=_PAIR_ASSUME, stubs=_PAIR_STUBS)
