from kernels import K

# ---------------------------------------------------------------- C18
for _n, _tiers in ((1, ('quick', 'thorough')), (2, ('quick', 'thorough')), (3, ('quick', 'thorough')), (5, ('quick', 'thorough')),
                   (7, ('quick', 'thorough')), (8, ('thorough',)), (10, ('thorough',))):
    K('C18.a.%d' % _n, property='C18', engine='symex', harness='C18/hermite.cpp', entry='k_hermite',
      tus=['src/Polynomials/Hermite.cpp'], defines={'all': {'VF_N': _n}}, tiers=_tiers,
      bounds={'quick': 'nbpoly = %d (degrees 0..%d); y and r free reals (a continuum)' % (_n, _n - 1)},
      timeout_ms={'quick': 40000, 'thorough': 1200000}, validate={'quick': 25, 'thorough': 50}, symex={'sqrt_memo': True},
      what='hermitePolynomials(y, r, nbpoly): poly[k] == (-1)^k He_k(y)/sqrt(k!) * r^k against the textbook coefficient table of He_k',
      out='orthonormality of He_k/sqrt(k!) itself (textbook); rounding of the recurrence; nbpoly above the bound; hermiteCondExp*/hermiteCoefMetal and the other users',
      assumptions=['real-arithmetic reading; sqrt(k), sqrt(k!) are exact positive algebraic numbers',
                   'sign convention (-1)^k (Rodrigues form g^(k)/g of the geostatistical literature); orthonormality does not depend on it'])
