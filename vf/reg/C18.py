from kernels import K

# ---------------------------------------------------------------- C18
for _n, _tiers in ((1, ('quick', 'thorough')), (2, ('quick', 'thorough')), (3, ('quick', 'thorough')), (5, ('quick', 'thorough')),
                   (7, ('quick', 'thorough')), (8, ('thorough',))):  # nbpoly 10 (degrees 8, 9: sqrt(7), sqrt(8) join the tower): no verdict in 1200 s
    K('C18.a.%d' % _n, property='C18', engine='symex', harness='C18/hermite.cpp', entry='k_hermite',
      tus=['src/Polynomials/Hermite.cpp'], defines={'all': {'VF_N': _n}}, tiers=_tiers,
      bounds={'quick': 'nbpoly = %d (degrees 0..%d); y and r free reals (a continuum)' % (_n, _n - 1)},
      timeout_ms={'quick': 40000, 'thorough': 300000}, validate={'quick': 25, 'thorough': 50}, symex={'sqrt_memo': True},
      what='hermitePolynomials(y, r, nbpoly): poly[k] == (-1)^k He_k(y)/sqrt(k!) * r^k against the textbook coefficient table of He_k',
      out='orthonormality of He_k/sqrt(k!) itself (textbook); rounding of the recurrence; nbpoly above the bound; hermiteCondExp*/hermiteCoefMetal and the other users',
      assumptions=['real-arithmetic reading; sqrt(k), sqrt(k!) are exact positive algebraic numbers',
                   'sign convention (-1)^k (Rodrigues form g^(k)/g of the geostatistical literature); orthonormality does not depend on it'])

for _nk in (2, 3, 4):
    for _part, _ents, _what in (
            ('inv', ['k_roundtrip_z', 'k_roundtrip_y'], 'mutual inverses on the table range (both orders), images inside the table range'),
            ('mono', ['k_monotone_clamp', 'k_monotone_clamp_inv'], 'both non-decreasing (two free query points), clamped to the end knots outside the range, knot maps to knot')):
        K('C18.c.%d.%s' % (_nk, _part), property='C18', engine='symex', harness='C18/empirical.cpp', entries=_ents,
          tus=['src/Anamorphosis/AnamEmpirical.cpp'], defines={'all': {'VF_NK': _nk}},
          bounds={'quick': 'table with exactly %d knots, Z and Y strictly increasing free reals; query points free reals' % _nk},
          # portfolio of two z3 strategies per case: one of them answers within ~2 s, the other often runs into the timeout
          timeout_ms={'quick': 30000, 'thorough': 600000}, validate={'quick': 25, 'thorough': 50},
          what='AnamEmpirical::setDisc, rawToTransformValue, transformToRawValue: ' + _what,
          out='fitting of the table (dilution, normal score); tables with ties (not strictly increasing); more knots than the bound; rounding of the interpolation',
          assumptions=['real-arithmetic reading of the linear interpolation', 'Z and Y strictly increasing'],
          stubs=['AnamEmpirical object in raw storage: only _nDisc/_ZDisc/_YDisc initialised (constructors not run)'])
